package main

// X02 (extra coverage, not a listed property) — placement of floats, against spec/Floats.tla.

import (
	"encoding/json"
	"flag"
	"fmt"
	"math"
	"strings"

	"github.com/benoitkugler/webrender/html/boxes"

	"verif/harness/internal/drv"
)

func init() { commands["x02"] = x02Main }

func x02Main(args []string) int {
	return drv.Main("x02", args, func(fs *flag.FlagSet) {}, func(line []byte, out *drv.Out) {
		var s struct {
			Floats []struct {
				Side  string `json:"side"`
				W     int    `json:"w"`
				H     int    `json:"h"`
				Clear string `json:"clear"`
			} `json:"floats"`
			Placed []struct {
				X int `json:"x"`
				Y int `json:"y"`
			} `json:"placed"`
		}
		if err := json.Unmarshal(line, &s); err != nil {
			out.Fatal("bad scenario: " + err.Error())
			return
		}
		var b strings.Builder
		b.WriteString(`<html><head><style>@page{size:400px 4000px;margin:0}html,body{display:block;margin:0;padding:0}div{display:block}#cb{width:40px;margin:7px 0 0 13px}</style></head><body><div id="cb">`)
		for i, f := range s.Floats {
			fmt.Fprintf(&b, `<div id="f%d" style="float:%s;clear:%s;width:%dpx;height:%dpx"></div>`, i+1, f.Side, f.Clear, f.W, f.H)
		}
		b.WriteString(`</div></body></html>`)
		doc := b.String()
		pages, err := drv.Layout(doc, &drv.Opts{})
		if err != nil || len(pages) != 1 {
			out.Fatal(fmt.Sprint("layout: ", err, len(pages)))
			return
		}
		out.Count("containers")
		got := map[string]*boxes.BoxFields{}
		drv.Walk(pages[0], func(bx boxes.Box, _ int) bool {
			f := bx.Box()
			if f.Element != nil {
				for _, at := range f.Element.Attr {
					if at.Key == "id" {
						if _, dup := got[at.Val]; !dup {
							got[at.Val] = f
						}
					}
				}
			}
			return true
		})
		cb := got["cb"]
		if cb == nil {
			out.Disagree("floats:no-container", doc, map[string]interface{}{"doc": doc})
			return
		}
		ox, oy := float64(cb.ContentBoxX()), float64(cb.ContentBoxY())
		var sides []string
		for _, f := range s.Floats {
			sides = append(sides, f.Side[:1]+fmt.Sprint(f.W)+map[string]string{"none": "", "left": "cl", "right": "cr", "both": "cb"}[f.Clear])
		}
		for i, p := range s.Placed {
			f := got[fmt.Sprintf("f%d", i+1)]
			if f == nil {
				out.Disagree("floats:missing-box", doc, map[string]interface{}{"doc": doc})
				return
			}
			x, y := float64(f.PositionX)-ox, float64(f.PositionY)-oy
			if math.Abs(x-float64(p.X)) > 1.0/64 || math.Abs(y-float64(p.Y)) > 1.0/64 {
				out.Disagree(fmt.Sprintf("floats:position:%d-floats", len(s.Floats)), fmt.Sprintf("%s: float %d (%s) is at (%g, %g) in its container, CSS 2.1 9.5.1 places it at (%d, %d)", doc[strings.Index(doc, `<div id="cb"`):], i+1, strings.Join(sides, " "), x, y, p.X, p.Y),
					map[string]interface{}{"doc": doc, "scenario": json.RawMessage(line)})
				return
			}
		}
	})
}
