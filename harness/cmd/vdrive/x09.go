package main

// X09 (extra coverage, not a listed property) — number, width and position of the columns of a multi-column container,
// against spec/Columns.tla.

import (
	"encoding/json"
	"flag"
	"fmt"
	"math"
	"strings"

	"github.com/benoitkugler/webrender/html/boxes"
	"github.com/benoitkugler/webrender/utils"

	"verif/harness/internal/drv"
)

func init() { commands["x09"] = x09Main }

func x09Main(args []string) int {
	return drv.Main("x09", args, func(fs *flag.FlagSet) {}, func(line []byte, out *drv.Out) {
		var s struct {
			Scn struct {
				U   int  `json:"U"`
				W   int  `json:"w"`
				N   int  `json:"n"`
				Gap int  `json:"gap"`
				Rtl bool `json:"rtl"`
			} `json:"scn"`
			N int   `json:"N"`
			W int   `json:"W"`
			X []int `json:"x"`
		}
		if err := json.Unmarshal(line, &s); err != nil {
			out.Fatal("bad scenario: " + err.Error())
			return
		}
		sc := s.Scn
		st := fmt.Sprintf("width:%dpx;column-gap:%dpx;", sc.U, sc.Gap)
		if sc.W != 0 {
			st += fmt.Sprintf("column-width:%dpx;", sc.W)
		}
		if sc.N != 0 {
			st += fmt.Sprintf("column-count:%d;", sc.N)
		}
		if sc.Rtl {
			st += "direction:rtl;"
		}
		// 14 one-letter lines: every column of the container gets content (at most 7 columns)
		doc := `<html><head><style>@page{size:400px 1000px;margin:0} html,body{display:block;margin:0;padding:0} div{display:block;margin-left:13px;font-family:weasyprint;font-size:2px;line-height:3px}</style></head><body><div id="m" style="` + st + `">` +
			strings.Repeat("a<br>", 13) + `a</div></body></html>`
		pages, err := drv.Layout(doc, &drv.Opts{})
		if err != nil || len(pages) != 1 {
			out.Fatal(fmt.Sprint("layout: ", err, len(pages)))
			return
		}
		out.Count("containers")
		var cols []boxes.Box
		var cx float64
		drv.Walk(pages[0], func(bx boxes.Box, _ int) bool {
			f := bx.Box()
			if f.Element != nil && (*utils.HTMLNode)(f.Element).Get("id") == "m" && boxes.BlockT.IsInstance(bx) {
				cx = float64(f.ContentBoxX())
				cols = append(cols, f.Children...)
				return false
			}
			return true
		})
		kind := "width"
		switch {
		case sc.W == 0:
			kind = "count"
		case sc.N != 0:
			kind = "width+count"
		}
		if sc.Rtl {
			kind += ":rtl"
		}
		if len(cols) != s.N {
			out.Disagree("columns:number:"+kind, fmt.Sprintf("%s: %d columns, CSS Multi-column 3.4 requires %d", st, len(cols), s.N), map[string]interface{}{"doc": doc, "scenario": json.RawMessage(line)})
			return
		}
		for i, c := range cols {
			f := c.Box()
			w := float64(f.Width.V())
			x := float64(f.PositionX) - cx
			wantW := float64(s.W) / 1000
			wantX := float64(s.X[i]) / 1000
			if sc.Rtl {
				wantX = float64(sc.U) - wantX - wantW
			}
			if math.Abs(w-wantW) > 0.01 || math.Abs(x-wantX) > 0.01 {
				out.Disagree("columns:geometry:"+kind, fmt.Sprintf("%s: column %d is %gpx wide at %gpx, CSS Multi-column 3.4 requires %gpx at %gpx", st, i+1, w, x, wantW, wantX), map[string]interface{}{"doc": doc, "scenario": json.RawMessage(line)})
				return
			}
		}
	})
}
