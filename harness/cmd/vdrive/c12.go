package main

// C12 / C02 — pagination, against spec/Pagination.tla.
//
// A scenario is a flow of paragraphs (lines separated by <br>) with break-before/after/inside, orphans and widows, and
// the page capacities in lines. The real page sequence is observed from the laid-out page boxes (C12: geometry, page
// selectors, side, blank pages, counters; C02: every line exactly once, in order) and from the recording backend
// (C02: every laid-out text run is drawn exactly once on its page). The observed page sequence is also emitted as a
// trace record: the orchestrator validates it with TLC against the transition relation of the specification
// (PaginationTrace.tla), so a break that CSS allows but the deterministic model does not pick is not an alarm.

import (
	"encoding/json"
	"flag"
	"fmt"
	"math"
	"sort"
	"strings"

	"github.com/benoitkugler/webrender/html/boxes"

	"verif/harness/internal/drv"
)

func init() { commands["c12"] = c12Main }

type pgBlock struct {
	Lines   int    `json:"lines"`
	Bb      string `json:"bb"`
	Ba      string `json:"ba"`
	Bi      string `json:"bi"`
	Orphans int    `json:"orphans"`
	Widows  int    `json:"widows"`
	Pg      int    `json:"pg"` // 1: on the page named "n"
}

type pgPage struct {
	Lines []int `json:"lines"`
	Right bool  `json:"right"`
	Blank bool  `json:"blank"`
}

type pgScn struct {
	Doc    []pgBlock `json:"doc"`
	Rtl    bool      `json:"rtl"`
	H      int       `json:"H"`
	Hfirst int       `json:"Hfirst"`
	Pages  []pgPage  `json:"pages"`
	Nth    struct {
		A int `json:"a"`
		B int `json:"b"`
	} `json:"nth"`
	NthPages []bool `json:"nthpages"`
	// optional decorations chosen by the generator (simulation mode)
	Wrap int `json:"wrap"` // 1: paragraphs are wrapped in a <div> with padding; 2: in a <section><article>
}

var c12Engine = "pango"

// c12PageH is the page height that leaves room for h lines: variant 0 has 10px margins, variant 1 has vertical margins
// of 25% (of the page HEIGHT, CSS Paged Media 3 section 7.2).
func c12PageH(h, variant int) int {
	if variant == 1 {
		return 20*h + 8
	}
	return h*10 + 4 + 20
}

// spellings of the break values: the specification's value is the first of each list
var c12Spell = map[string][]string{
	"before:page":  {"break-before:page", "break-before:always", "page-break-before:always"},
	"after:page":   {"break-after:page", "break-after:always", "page-break-after:always"},
	"before:left":  {"break-before:left", "page-break-before:left"},
	"after:left":   {"break-after:left", "page-break-after:left"},
	"before:right": {"break-before:right", "page-break-before:right"},
	"after:right":  {"break-after:right", "page-break-after:right"},
	"before:avoid": {"break-before:avoid", "page-break-before:avoid", "break-before:avoid-page"},
	"after:avoid":  {"break-after:avoid", "page-break-after:avoid", "break-after:avoid-page"},
	"inside:avoid": {"break-inside:avoid", "page-break-inside:avoid", "break-inside:avoid-page"},
}

func c12Break(kind, v string, k int) string {
	if sp, ok := c12Spell[kind+":"+v]; ok {
		return sp[k%len(sp)]
	}
	return "break-" + kind + ":" + v
}

func c12HTML(s *pgScn, variant int) string {
	var b strings.Builder
	pageH := func(h int) int { return c12PageH(h, variant%2) }
	margin := "10px"
	if variant%2 == 1 {
		margin = "25% 10px"
	}
	// (decoy rules of the same specificity come first: among equal weights the later declaration wins)
	b.WriteString(`<html><head><style>@page{size:50px 60px;margin:1px}@page :left{margin-left:2px}@page :right{margin-left:3px}`)
	if s.Hfirst != 0 {
		b.WriteString(`@page :first{size:40px 30px}`)
	}
	b.WriteString(`</style><style>`)
	fmt.Fprintf(&b, `@page{size:200px %dpx;margin:`+strings.ReplaceAll(margin, "%", "%%")+`;@bottom-center{content:counter(page) "/" counter(pages);font-family:weasyprint;font-size:8px;line-height:10px}}`, pageH(s.H))
	if s.Hfirst != 0 {
		fmt.Fprintf(&b, `@page :first{size:200px %dpx}`, pageH(s.Hfirst))
	}
	if s.NthPages != nil {
		fmt.Fprintf(&b, `@page :nth(%dn%+d){margin-right:25px}`, s.Nth.A, s.Nth.B)
	}
	// two rules for the same margin box: the one with the more specific page selector wins although it comes first
	b.WriteString(`@page :first{@top-right{content:"F";font-family:weasyprint;font-size:8px;line-height:10px}}@page{@top-right{content:"N";font-family:weasyprint;font-size:8px;line-height:10px}}`)
	b.WriteString(`@page n{@bottom-left{content:"named";font-family:weasyprint;font-size:8px;line-height:10px}}@page m{@bottom-left{content:"m";font-family:weasyprint;font-size:8px;line-height:10px}}`)
	b.WriteString(`@page :left{margin-left:20px}@page :right{margin-left:30px}@page :blank{@top-center{content:"blank";font-family:weasyprint;font-size:8px;line-height:10px}}`)
	if s.Rtl {
		b.WriteString(`html{direction:rtl}`)
	}
	b.WriteString(`html,body,div,section,article{display:block;margin:0;padding:0}p{display:block;margin:0;font-family:weasyprint;font-size:8px;line-height:10px}</style></head><body>`)
	n := 0
	switch s.Wrap {
	case 1:
		b.WriteString("<div>")
	case 2:
		b.WriteString("<section><article>")
	}
	for k, blk := range s.Doc {
		named := [...]string{"", ";page:n", ";page:m"}[blk.Pg%3]
		fmt.Fprintf(&b, `<p style="%s;%s;%s;orphans:%d;widows:%d%s">`, c12Break("before", blk.Bb, variant+k), c12Break("after", blk.Ba, variant/2+k), c12Break("inside", blk.Bi, variant+k), blk.Orphans, blk.Widows, named)
		for j := 0; j < blk.Lines; j++ {
			if j > 0 {
				b.WriteString("<br>")
			}
			n++
			fmt.Fprintf(&b, "x%dx", n)
		}
		b.WriteString("</p>")
	}
	switch s.Wrap {
	case 1:
		b.WriteString("</div>")
	case 2:
		b.WriteString("</article></section>")
	}
	b.WriteString("</body></html>")
	return b.String()
}

type obsPage struct {
	Lines  []int `json:"lines"`
	Right  bool  `json:"right"`
	Blank  bool  `json:"blank"`
	First  bool  `json:"first"`
	texts  []string
	margin []string
	w, h   float64
	ml, mr float64
	mt, mb float64
	ch     float64 // height of the content box
	bottom float64
	maxY   float64
}

func c12Observe(pages []*boxes.PageBox) ([]obsPage, string) {
	var out []obsPage
	for _, p := range pages {
		o := obsPage{Lines: []int{}, Right: p.PageType.Side == "right", Blank: p.PageType.Blank, First: p.PageType.First}
		o.w, o.h, o.ml, o.mr = float64(p.MarginWidth()), float64(p.MarginHeight()), float64(p.MarginLeft.V()), float64(p.MarginRight.V())
		o.bottom = float64(p.ContentBoxY()) + float64(p.Height.V())
		o.mt, o.mb, o.ch = float64(p.MarginTop.V()), float64(p.MarginBottom.V()), float64(p.Height.V())
		for _, c := range p.Children {
			_, isMargin := c.(*boxes.MarginBox)
			drv.Walk(c, func(bx boxes.Box, _ int) bool {
				if tb, ok := bx.(*boxes.TextBox); ok {
					t := tb.TextS()
					if isMargin {
						o.margin = append(o.margin, t)
						return true
					}
					o.texts = append(o.texts, t)
					var n int
					if _, err := fmt.Sscanf(strings.TrimSpace(t), "x%dx", &n); err != nil {
						o.Lines = append(o.Lines, -1)
					} else {
						o.Lines = append(o.Lines, n)
					}
				}
				if lb, ok := bx.(*boxes.LineBox); ok && !isMargin {
					if y := float64(lb.PositionY) + float64(lb.Height.V()); y > o.maxY {
						o.maxY = y
					}
				}
				return true
			})
		}
		out = append(out, o)
	}
	return out, ""
}

// nthMatch: i = a*n + b for some integer n >= 0 (only used for pages beyond those of the model; cross-checked with
// the specification's NthMatch on every page the model has)
func nthMatch(a, b, i int) bool {
	for n := 0; n <= i+6; n++ {
		if a*n+b == i {
			return true
		}
	}
	return false
}

func c12Main(args []string) int {
	return drv.Main("c12", args, func(fs *flag.FlagSet) { fs.StringVar(&c12Engine, "engine", "pango", "text engine") }, func(line []byte, out *drv.Out) {
		var s pgScn
		if err := json.Unmarshal(line, &s); err != nil {
			out.Fatal("bad scenario: " + err.Error())
			return
		}
		variant := out.Cur % 6
		doc := c12HTML(&s, variant)
		pages, r, err := drv.RenderPages(doc, &drv.Opts{Engine: c12Engine})
		if err != nil {
			out.Fatal(err.Error())
			return
		}
		out.Count("documents")
		obs, _ := c12Observe(pages)
		out.Add("pages", len(obs))
		total := 0
		for _, b := range s.Doc {
			total += b.Lines
		}
		detail := func() map[string]interface{} {
			return map[string]interface{}{"doc": doc, "scenario": json.RawMessage(line), "observed": obs}
		}
		show := func() string {
			var ps []string
			for _, o := range obs {
				t := fmt.Sprint(o.Lines)
				if o.Blank {
					t = "blank"
				}
				ps = append(ps, t)
			}
			return doc[strings.Index(doc, "<body>"):] + fmt.Sprintf(" H=%d Hfirst=%d pages %s", s.H, s.Hfirst, strings.Join(ps, " "))
		}

		// ---- C02: conservation in the layout
		var flat []int
		for _, o := range obs {
			flat = append(flat, o.Lines...)
		}
		conserved := len(flat) == total
		for i := 0; conserved && i < len(flat); i++ {
			conserved = flat[i] == i+1
		}
		if !conserved {
			cnt := map[int]int{}
			for _, n := range flat {
				cnt[n]++
			}
			what := "reordered"
			for n := 1; n <= total; n++ {
				if cnt[n] == 0 {
					what = "lost"
					break
				}
				if cnt[n] > 1 {
					what = "duplicated"
				}
			}
			out.Disagree("C02:layout:"+what, "lines are "+what+": "+show(), detail())
		}

		// ---- C12: geometry, page selectors, counters
		for i, o := range obs {
			capLines := s.H
			if i == 0 && s.Hfirst != 0 {
				capLines = s.Hfirst
			}
			wantH := float64(c12PageH(capLines, variant%2))
			wantMT := 10.0
			if variant%2 == 1 {
				wantMT = wantH / 4
			}
			if math.Abs(o.mt-wantMT) > 0.01 || math.Abs(o.mb-wantMT) > 0.01 || math.Abs(o.ch-float64(capLines*10+4)) > 0.01 {
				out.Disagree("C12:geometry:vertical-margins", fmt.Sprintf("page %d has margin-top %g, margin-bottom %g, content height %g instead of %g, %g, %d: %s", i+1, o.mt, o.mb, o.ch, wantMT, wantMT, capLines*10+4, show()), detail())
			}
			wantML := 20.0
			if o.Right {
				wantML = 30
			}
			if o.First != (i == 0) {
				out.Disagree("C12:page-type:first", fmt.Sprintf("page %d first=%v: %s", i+1, o.First, show()), detail())
			}
			if o.Right != ((i%2 == 0) != s.Rtl) {
				out.Disagree("C12:page-type:side", fmt.Sprintf("page %d of a document with rtl=%v is right=%v: %s", i+1, s.Rtl, o.Right, show()), detail())
			}
			if math.Abs(o.w-200) > 0.01 || math.Abs(o.h-wantH) > 0.01 {
				out.Disagree("C12:geometry:size", fmt.Sprintf("page %d is %gx%g instead of 200x%g: %s", i+1, o.w, o.h, wantH, show()), detail())
			}
			if math.Abs(o.ml-wantML) > 0.01 {
				out.Disagree("C12:geometry:side-margin", fmt.Sprintf("page %d (right=%v) has margin-left %g instead of %g: %s", i+1, o.Right, o.ml, wantML, show()), detail())
			}
			if s.NthPages != nil {
				wantMR := 10.0
				// (the page index is the real one, so this holds whatever the page sequence is)
				if nthMatch(s.Nth.A, s.Nth.B, i+1) {
					wantMR = 25
				}
				if i < len(s.NthPages) && s.NthPages[i] != nthMatch(s.Nth.A, s.Nth.B, i+1) {
					out.Fatal("harness and specification disagree on :nth matching")
				}
				if math.Abs(o.mr-wantMR) > 0.01 {
					out.Disagree("C12:geometry:nth-selector", fmt.Sprintf("page %d has margin-right %g instead of %g with @page :nth(%dn%+d){margin-right:25px}: %s", i+1, o.mr, wantMR, s.Nth.A, s.Nth.B, show()), detail())
				}
			}
			wantMargin := []string{fmt.Sprintf("%d/%d", i+1, len(obs)), map[bool]string{true: "F", false: "N"}[i == 0]}
			if o.Blank {
				wantMargin = append([]string{"blank"}, wantMargin...)
			}
			// the name of the page: that of the paragraph its first line belongs to; when that paragraph has page: auto the
			// page keeps the name it inherited, which is only asserted when no paragraph so far named a page
			if !o.Blank && len(o.Lines) > 0 && o.Lines[0] >= 1 {
				ln, acc, anyNamed := o.Lines[0], 0, false
				for _, blk := range s.Doc {
					acc += blk.Lines
					if blk.Pg != 0 {
						anyNamed = true
					}
					if ln <= acc {
						switch {
						case blk.Pg == 1:
							wantMargin = append(wantMargin, "named")
						case blk.Pg == 2:
							wantMargin = append(wantMargin, "m")
						case anyNamed:
							// (auto after a named paragraph: left open) accept whatever name the page has
							for _, t := range o.margin {
								if t == "named" || t == "m" {
									wantMargin = append(wantMargin, t)
								}
							}
						}
						break
					}
				}
			} else if o.Blank {
				for _, t := range o.margin {
					if t == "named" || t == "m" {
						wantMargin = append(wantMargin, t) // (the name of an inserted blank page is left open)
					}
				}
			}
			gm := append([]string(nil), o.margin...)
			sort.Strings(gm)
			sort.Strings(wantMargin)
			if strings.Join(gm, "|") != strings.Join(wantMargin, "|") {
				out.Disagree("C12:margin-boxes", fmt.Sprintf("page %d of %d (blank=%v) has margin boxes %q instead of %q: %s", i+1, len(obs), o.Blank, gm, wantMargin, show()), detail())
			}
			if o.Blank && len(o.Lines) > 0 {
				out.Disagree("C12:blank-page-has-content", fmt.Sprintf("page %d: %s", i+1, show()), detail())
			}
			// in-flow content below the content box: only a single line may overflow
			if len(o.Lines) > 1 && o.maxY > o.bottom+0.01 {
				out.Disagree("C12:overflow", fmt.Sprintf("page %d: content ends at y=%g below the content box bottom %g: %s", i+1, o.maxY, o.bottom, show()), detail())
			}
		}

		// ---- the page sequence, against the deterministic model
		same := len(obs) == len(s.Pages)
		for i := 0; same && i < len(obs); i++ {
			same = obs[i].Blank == s.Pages[i].Blank && fmt.Sprint(obs[i].Lines) == fmt.Sprint(append([]int{}, s.Pages[i].Lines...))
		}
		if same {
			out.Count("same-as-model")
		} else {
			out.Count("differs-from-model")
		}
		// trace record for TLC
		out.Emit(map[string]interface{}{"doc": s.Doc, "rtl": s.Rtl, "H": s.H, "Hfirst": s.Hfirst, "pages": obs, "same": same})

		// ---- C02: drawing
		drawn := make([][]string, len(obs))
		for _, e := range r.Evs {
			if e.Op != "DrawText" {
				continue
			}
			for _, t := range e.Text {
				if e.Page < 0 || e.Page >= len(drawn) {
					out.Disagree("C02:draw:page-out-of-range", fmt.Sprintf("text %q drawn on page %d: %s", string(t), e.Page, show()), detail())
					continue
				}
				drawn[e.Page] = append(drawn[e.Page], strings.TrimSpace(string(t)))
			}
		}
		for i, o := range obs {
			var want []string
			for _, t := range append(append([]string{}, o.texts...), o.margin...) {
				if strings.TrimSpace(t) != "" {
					want = append(want, strings.TrimSpace(t))
				}
			}
			got := append([]string(nil), drawn[i]...)
			sort.Strings(want)
			sort.Strings(got)
			if strings.Join(want, "|") != strings.Join(got, "|") {
				out.Disagree("C02:draw:page-texts", fmt.Sprintf("page %d: drawn %q, laid out %q: %s", i+1, got, want, show()), detail())
			}
		}
	})
}
