package main

// C11 — lines are broken greedily and fit their container, against spec/LineBreak.tla.

import (
	"encoding/json"
	"flag"
	"fmt"
	"math"
	"strings"

	"github.com/benoitkugler/webrender/html/boxes"

	"verif/harness/internal/drv"
)

func init() { commands["c11"] = c11Main }

type lbScn struct {
	Scn struct {
		Words  []int  `json:"words"`
		W      int    `json:"W"`
		Align  string `json:"align"`
		Indent int    `json:"indent"`
		Ws     string `json:"ws"`
		Nl     int    `json:"nl"`
		Span   int    `json:"span"`
		Pad    int    `json:"pad"`
		Edge   string `json:"edge"`
		Last   string `json:"last"`
		Ow     bool   `json:"ow"`
		Gk     int    `json:"gk"`
		Gc     int    `json:"gc"`
	} `json:"scn"`
	Lines []struct {
		Ps []struct {
			K    int `json:"k"`
			From int `json:"from"`
			To   int `json:"to"`
		} `json:"ps"`
		G  struct {
			X2 int `json:"x2"`
			W  int `json:"w"`
		} `json:"g"`
	} `json:"lines"`
}

var c11Engine = "pango"

const em = 8.0

func c11Main(args []string) int {
	return drv.Main("c11", args, func(fs *flag.FlagSet) { fs.StringVar(&c11Engine, "engine", "pango", "text engine") }, func(line []byte, out *drv.Out) {
		var s lbScn
		if err := json.Unmarshal(line, &s); err != nil {
			out.Fatal("bad scenario: " + err.Error())
			return
		}
		sc := s.Scn
		var b strings.Builder
		// variant 3 of the materialisation (plain paragraphs): every word is an inline element
		wrapWords := out.Cur%4 == 3 && sc.Span == 0 && sc.Gk == 0
		for k, l := range sc.Words {
			if k > 0 {
				if sc.Ws == "pre-line" && k == sc.Nl {
					b.WriteString("\n")
				} else {
					b.WriteString(" ")
				}
			}
			if sc.Span >= 2 && sc.Span <= len(sc.Words) && k == 1 {
				switch sc.Edge {
				case "margin":
					b.WriteString(fmt.Sprintf(`<span style="margin:0 %dpx">`, sc.Pad*8))
				case "border":
					b.WriteString(fmt.Sprintf(`<span style="border:0 solid;border-width:0 %dpx">`, sc.Pad*8))
				default:
					b.WriteString(fmt.Sprintf(`<span style="padding:0 %dpx">`, sc.Pad*8))
				}
			}
			if wrapWords {
				// every word in an inline element of its own: the space between two words is a text of its own
				b.WriteString([...]string{"<b style=\"font-weight:normal\">", "<i style=\"font-style:normal\">"}[k%2] + strings.Repeat(string(rune('a'+k)), l) + [...]string{"</b>", "</i>"}[k%2])
			} else if sc.Gk == k+1 {
				// an inline box starts inside the word: no break opportunity at its boundary
				b.WriteString(strings.Repeat(string(rune('a'+k)), sc.Gc) + "<span>" + strings.Repeat(string(rune('a'+k)), l-sc.Gc) + "</span>")
			} else {
				b.WriteString(strings.Repeat(string(rune('a'+k)), l))
			}
			if sc.Span >= 2 && sc.Span <= len(sc.Words) && k == sc.Span-1 {
				b.WriteString("</span>")
			}
		}
		// variants of the materialisation (the specification's lines are the same):
		//  1: a paragraph of the same font with another line-height comes first in the document
		//  2: the page is two lines high, so a longer paragraph continues on the following pages
		variant := out.Cur % 3
		pageH, decoy := 2000, ""
		if variant == 1 {
			decoy = `<p style="line-height:30px;width:200px;text-indent:0;text-align:left">zz</p>`
		}
		if variant == 2 {
			pageH = 20
		}
		doc := fmt.Sprintf(`<html><head><style>@page{size:400px %dpx;margin:0} html,body{display:block;margin:0;padding:0} p{display:block;margin:0 0 0 16px;font-family:weasyprint;font-size:8px;line-height:10px;width:%dpx;text-align:%s;text-indent:%dpx;white-space:%s;text-align-last:%s;overflow-wrap:%s;orphans:1;widows:1}</style></head><body>%s<p id="t">%s</p></body></html>`,
			pageH, sc.W*8, sc.Align, sc.Indent*8, sc.Ws, sc.Last, map[bool]string{false: "normal", true: "break-word"}[sc.Ow], decoy, b.String())
		pages, err := drv.Layout(doc, &drv.Opts{Engine: c11Engine})
		if err != nil {
			out.Fatal(err.Error())
			return
		}
		out.Count("paragraphs")
		if len(s.Lines) > 1 {
			out.Count("nontrivial")
		}
		type gotLine struct {
			text       string
			x, right   float64
			y, h       float64
			hasContent bool
		}
		var got []gotLine
		var py float64
		inT := false
		for _, p := range pages {
			drv.Walk(p, func(bx boxes.Box, _ int) bool {
				f := bx.Box()
				if f.Element != nil && f.Element.Data == "p" && boxes.BlockT.IsInstance(bx) {
					py = float64(f.ContentBoxY())
					inT = false
					for _, a := range f.Element.Attr {
						if a.Key == "id" && a.Val == "t" {
							inT = true
						}
					}
				}
				if lb, ok := bx.(*boxes.LineBox); ok {
					if !inT {
						return false
					}
					// (y relative to the content top of the paragraph fragment on this page)
					gl := gotLine{y: float64(lb.PositionY) - py, h: float64(lb.Height.V()), x: math.Inf(1), right: math.Inf(-1)}
					var texts []string
					for _, c := range lb.Children {
						cf := c.Box()
						l, r := float64(cf.PositionX), float64(cf.PositionX)+float64(cf.MarginWidth())
						if l < gl.x {
							gl.x = l
						}
						if r > gl.right {
							gl.right = r
						}
						drv.Walk(c, func(t boxes.Box, _ int) bool {
							if tb, ok := t.(*boxes.TextBox); ok {
								texts = append(texts, tb.TextS())
							}
							return true
						})
					}
					gl.text = strings.Join(texts, "")
					got = append(got, gl)
					return false
				}
				return true
			})
		}
		kind := sc.Ws + ":" + sc.Align
		if sc.Indent > 0 {
			kind += ":indent"
		}
		if sc.Span > 0 {
			kind += ":inline-box"
		}
		if sc.Last != "auto" {
			kind += ":align-last"
		}
		if sc.Ow {
			kind += ":overflow-wrap"
		}
		if sc.Gk > 0 {
			kind += ":box-inside-word"
		}
		if wrapWords {
			kind += ":words-in-inline-elements"
		}
		// A second, non-greedy filling rule used ONLY to name a known class of disagreement: an inline box that does not
		// fit entirely on the rest of the current line but fits on an empty one is moved whole to the next line.
		variantTexts := func() []string {
			n := len(sc.Words)
			wordW := func(k int) int { // 0-based
				w := sc.Words[k]
				if sc.Span >= 2 && sc.Span <= n {
					if k == 1 {
						w += sc.Pad
					}
					if k == sc.Span-1 {
						w += sc.Pad
					}
				}
				return w
			}
			spanW := 0
			if sc.Span >= 2 && sc.Span <= n {
				for k := 1; k <= sc.Span-1; k++ {
					spanW += wordW(k)
				}
				spanW += sc.Span - 2
			}
			var lines [][]int
			var cur []int
			curW, curPads := 0, 0 // width of the current line, and the part of it that is inline-box padding
			for k := 0; k < n; k++ {
				inside := spanW > 0 && k >= 1 && k <= sc.Span-1
				need := wordW(k)
				if len(cur) > 0 {
					need += curW + 1
				}
				fits := len(cur) == 0 || need <= sc.W
				if inside && k > 1 && len(cur) > 0 {
					// (V2) inside the inline box its opening padding is forgotten when a further word is tested for fit
					fits = curW-curPads+1+wordW(k) <= sc.W
				}
				// (V1) the inline box is not entered on a line where it cannot be placed entirely
				if fits && k == 1 && spanW > 0 && len(cur) > 0 && curW+1+spanW > sc.W {
					fits = false
				}
				if !fits {
					lines = append(lines, cur)
					cur, curW, curPads = nil, 0, 0
					need = wordW(k)
				}
				cur = append(cur, k)
				curW = need
				if spanW > 0 && k == 1 {
					curPads += sc.Pad // only the opening padding
				}
			}
			lines = append(lines, cur)
			var out []string
			for _, l := range lines {
				var ws []string
				for _, k := range l {
					ws = append(ws, strings.Repeat(string(rune('a'+k)), sc.Words[k]))
				}
				out = append(out, strings.Join(ws, " "))
			}
			return out
		}
		fail := func(what string, j int) {
			if sc.Span > 0 && sc.Ws == "normal" && !sc.Ow {
				vt := variantTexts()
				same := len(vt) == len(got)
				for q := 0; same && q < len(vt); q++ {
					same = strings.TrimSpace(got[q].text) == vt[q]
				}
				if same {
					out.Disagree("lines:inline-box-break-rules", fmt.Sprintf("%s: an inline box with padding is not entered on a line where it does not fit entirely, and its opening padding is forgotten when further words are tested for fit (overflow); lines %+v", doc[strings.Index(doc, "<body>"):], got),
						map[string]interface{}{"doc": doc, "want": s.Lines, "scenario": json.RawMessage(line)})
					return
				}
			}
			if c11Engine != "pango" {
				kind = c11Engine + ":" + kind
			}
			out.Disagree("lines:"+kind+":"+what, fmt.Sprintf("%s (line %d): %s; lines %+v", doc[strings.Index(doc, "<body>"):], j+1, what, got), map[string]interface{}{"doc": doc, "want": s.Lines, "scenario": json.RawMessage(line)})
		}
		if len(got) != len(s.Lines) {
			fail(fmt.Sprintf("%d lines instead of %d", len(got), len(s.Lines)), 0)
			return
		}
		eps := 0.01
		if c11Engine != "pango" {
			eps = 0.05
		}
		for j, w := range s.Lines {
			var words []string
			for _, it := range w.Ps {
				words = append(words, strings.Repeat(string(rune('a'+it.K-1)), it.To-it.From+1))
			}
			wantText := strings.Join(words, " ")
			g := got[j]
			if strings.TrimSpace(strings.ReplaceAll(g.text, "\n", "")) != wantText {
				fail(fmt.Sprintf("holds %q instead of %q", g.text, wantText), j)
				return
			}
			wantY := float64(j) * 10
			if variant == 2 {
				wantY = float64(j%2) * 10
			}
			if math.Abs(g.y-wantY) > eps || math.Abs(g.h-10) > eps {
				fail(fmt.Sprintf("is at y=%g height=%g instead of y=%g height=10", g.y, g.h, wantY), j)
				return
			}
			wantX := 16 + float64(w.G.X2)*em/2
			wantW := float64(w.G.W) * em
			if math.Abs(g.x-wantX) > eps || math.Abs((g.right-g.x)-wantW) > eps {
				fail(fmt.Sprintf("content spans x=%g..%g instead of %g..%g", g.x-16, g.right-16, wantX-16, wantX-16+wantW), j)
				return
			}
		}
	})
}
