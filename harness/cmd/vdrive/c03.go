package main

// C03 — the cascade of html/tree against spec/Cascade.tla.

import (
	"github.com/benoitkugler/webrender/html/boxes"
	"encoding/json"
	"flag"
	"fmt"
	"strings"

	"github.com/benoitkugler/webrender/html/tree"
	"golang.org/x/net/html/atom"

	"verif/harness/internal/drv"
)

func init() { commands["c03"] = c03Main }

type casOcc struct {
	Car string `json:"car"`
	Imp bool   `json:"imp"`
	Sh  int    `json:"sh"`
}

type casScn struct {
	Occs    []casOcc `json:"occs"`
	Hints   bool     `json:"hints"`
	Want    int      `json:"want"`
	WantCar string   `json:"wantcar"`
}

var (
	casSelFont = []string{"*", "font", ".c", "font.c", "#t", "#t.c", ":is(font, #t)", ":not(.zz)", "font, #t", "#zz, .c"}
	casSel     = append([]string{}, casSelFont...)
)

func casColor(v int) string { return fmt.Sprintf("rgb(%d, 7, 9)", v) }

// casSheetHint: the presentational hint of this scenario comes from the hints STYLE SHEET (html5_ph.css: p[align=right]
// {text-align: right}) instead of an attribute read by the code (<font color>): the probe is a <p> and every declaration
// sets text-align. The values: the hint "right", the other occurrences "left" / "center", a nested rule's parent "end",
// earlier rules of a burst "start", inherited "justify".
var (
	casSheetHint bool
	casHintAt    int
	casScreen    bool // the scenario is rendered for the media type screen
)

func casAlign(v int) string {
	switch {
	case v == 0:
		return "justify"
	case v >= 200:
		return "start"
	case v >= 100:
		return "end"
	case v == casHintAt:
		return "right"
	}
	k := v
	if casHintAt != 0 && v > casHintAt {
		k--
	}
	return []string{"left", "center", "left", "center"}[(k-1)%4]
}

func casDecl(v int, imp bool) string {
	s := "color:" + casColor(v)
	if casSheetHint {
		s = "text-align:" + casAlign(v)
	}
	if imp {
		s += " !important"
	}
	return s
}

// casMaterialise builds the document, the replaced UA sheet, the user sheets and the in-memory files.
func casMaterialise(s *casScn) (htmlText string, o *drv.Opts) {
	o = &drv.Opts{Hints: s.Hints, Files: map[string]string{}}
	// every other scenario is rendered for the media type screen: "@media <device type>" applies, the other type never does,
	// and imported sheets carry their rule inside @media <device type> (the media type must reach the imported sheets)
	device, other := "print", "screen"
	if casScreen {
		device, other = "screen", "print"
		o.Media = "screen"
	}
	var head, ua strings.Builder
	attr, hint := "", ""
	ua.WriteString("html, body, font, p { display: block }\n")
	if casSheetHint {
		for k := range casSel {
			casSel[k] = strings.ReplaceAll(casSelFont[k], "font", "p")
		}
	} else {
		copy(casSel, casSelFont)
	}
	for idx, oc := range s.Occs {
		j := idx + 1
		sel := casSel[oc.Sh]
		rule := sel + "{" + casDecl(j, oc.Imp) + "}"
		switch oc.Car {
		case "ua":
			ua.WriteString(rule + "\n")
		case "user":
			o.UserCSS = append(o.UserCSS, rule)
		case "style":
			head.WriteString("<style>" + rule + "</style>\n")
		case "link":
			u := fmt.Sprintf("http://verif.test/l%d.css", j)
			o.Files[u] = rule
			head.WriteString(fmt.Sprintf(`<link rel="stylesheet" href="l%d.css">`+"\n", j))
		case "import":
			u := fmt.Sprintf("http://verif.test/i%d.css", j)
			o.Files[u] = rule
			if casScreen {
				o.Files[u] = "@media " + device + "{" + rule + "} @media " + other + "{" + sel + "{" + casDecl(150+j, true) + "}}"
			}
			head.WriteString(fmt.Sprintf("<style>@import url(i%d.css);</style>\n", j))
		case "import_late":
			u := fmt.Sprintf("http://verif.test/i%d.css", j)
			o.Files[u] = rule
			head.WriteString(fmt.Sprintf("<style>.zz{color:black} @import url(i%d.css);</style>\n", j))
		case "media_print":
			head.WriteString("<style>@media " + device + "{" + rule + "}</style>\n")
		case "media_screen":
			head.WriteString("<style>@media " + other + "{" + rule + "}</style>\n")
		case "nested":
			head.WriteString("<style>" + sel + "{" + casDecl(100+j, false) + "; &{" + casDecl(j, oc.Imp) + "}}</style>\n")
		case "burst15", "burst20", "burst33":
			// many rules of the same selector in one sheet, interleaved with universal rules of another property
			n := map[string]int{"burst15": 15, "burst20": 20, "burst33": 33}[oc.Car]
			var b strings.Builder
			for k := 1; k <= n; k++ {
				v := 200 + k
				if k == n {
					v = j
				}
				b.WriteString(sel + "{" + casDecl(v, oc.Imp) + "}\n")
				if k%5 == 0 {
					b.WriteString(fmt.Sprintf("*{margin-left:%dpx}\n", k))
				}
			}
			head.WriteString("<style>" + b.String() + "</style>\n")
		case "nomatch":
			head.WriteString("<style>#nomatch{" + casDecl(j, oc.Imp) + "}</style>\n")
		case "attr":
			// (the same longhand twice in the attribute, same importance: the later declaration wins)
			decoy := "color:rgb(1, 2, 3)"
			if casSheetHint {
				decoy = "text-align:end"
			}
			if oc.Imp {
				decoy += " !important"
			}
			attr = ` style="` + decoy + `;` + casDecl(j, oc.Imp) + `"`
		case "hint":
			hint = fmt.Sprintf(` color="#%02x0709"`, j)
			if casSheetHint {
				hint = ` align="right"`
			}
		}
	}
	o.UACSS = ua.String()
	htmlText = "<html><head>\n" + head.String() + `</head><body style="color:rgb(0, 7, 9)"><font id="t" class="c"` + hint + attr + ">x</font></body></html>"
	if casSheetHint {
		htmlText = "<html><head>\n" + head.String() + `</head><body style="text-align:justify"><p id="t" class="c"` + hint + attr + ">x</p></body></html>"
	}
	return
}

func casKey(s *casScn, got int) string {
	// the class of a disagreement: which carrier should have won and which one did
	gotCar := "inherited"
	if got >= 200 {
		gotCar = "earlier-rule-of-the-same-sheet"
	} else if got >= 100 && got-100 <= len(s.Occs) {
		gotCar = "parent-own-declaration"
	} else if got >= 1 && got <= len(s.Occs) {
		gotCar = s.Occs[got-1].Car
	} else if got != 0 {
		gotCar = "other"
	}
	want := s.WantCar
	if s.Want >= 100 {
		want = "parent-own-declaration"
	}
	if s.Want == 0 {
		want = "inherited"
	}
	return "winner:" + want + "-expected:" + gotCar + "-used"
}

// c03Page: the page-context cascade (Cascade.tla, PageInit): two @page rules matching the first page.
func c03Page(sels []string, winner int, line []byte, out *drv.Out) {
	rule := func(k int) string {
		return fmt.Sprintf(`@page %s{margin-top:%dpx;@top-left{content:"x";width:%dpx;height:5px}}`, sels[k-1], 10*k, 30+k)
	}
	doc := `<html><head><style>@page{size:200px 100px;margin:20px}` + rule(1) + rule(2) + `body{page:n;margin:0}</style></head><body><p>a</p></body></html>`
	pages, err := drv.Layout(doc, &drv.Opts{})
	if err != nil || len(pages) == 0 {
		out.Fatal(fmt.Sprint("page-context document: ", err))
		return
	}
	out.Count("page-context-scenarios")
	gotTop := float64(pages[0].MarginTop.V())
	gotW := -1.0
	for _, c := range pages[0].Children {
		if mb, ok := c.(*boxes.MarginBox); ok && mb.AtKeyword == "@top-left" {
			gotW = float64(mb.Width.V())
		}
	}
	if wantTop := float64(10 * winner); gotTop != wantTop {
		out.Disagree("page-context:page-declaration", fmt.Sprintf("@page %s / @page %s: the first page has margin-top %g, the more specific (or later) rule gives %g", sels[0], sels[1], gotTop, wantTop),
			map[string]interface{}{"doc": doc, "scenario": json.RawMessage(line)})
	}
	if wantW := float64(30 + winner); gotW != wantW {
		out.Disagree("page-context:margin-box-declaration", fmt.Sprintf("@page %s / @page %s: the @top-left box of the first page is %g wide, the more specific (or later) rule gives %g", sels[0], sels[1], gotW, wantW),
			map[string]interface{}{"doc": doc, "scenario": json.RawMessage(line)})
	}
}

func c03Main(args []string) int {
	return drv.Main("c03", args, func(fs *flag.FlagSet) {}, func(line []byte, out *drv.Out) {
		var pg struct {
			Mode   string   `json:"mode"`
			Sels   []string `json:"sels"`
			Winner int      `json:"winner"`
		}
		if json.Unmarshal(line, &pg) == nil && pg.Mode == "page" {
			c03Page(pg.Sels, pg.Winner, line, out)
			return
		}
		var s casScn
		if err := json.Unmarshal(line, &s); err != nil {
			out.Fatal("bad scenario: " + err.Error())
			return
		}
		casSheetHint, casHintAt = false, 0
		casScreen = out.Cur%2 == 1
		for k, oc := range s.Occs {
			if oc.Car == "hint" && out.Cur%2 == 1 {
				casSheetHint, casHintAt = true, k+1
			}
		}
		htmlText, o := casMaterialise(&s)
		h, sf, err := drv.Styles(htmlText, o)
		if err != nil {
			out.Fatal("styles: " + err.Error())
			return
		}
		if casSheetHint {
			out.Count("sheet-hint-scenarios")
			gotS := "?"
			it := h.Root.Iter()
			for it.HasNext() {
				if e := it.Next(); e.DataAtom == atom.P {
					if st := sf.Get(e, ""); st != nil {
						gotS = string(st.GetTextAlignAll())
					}
				}
			}
			if wantS := casAlign(s.Want); gotS != wantS {
				out.Disagree("winner:"+s.WantCar+"-expected:sheet-hint-scenario", fmt.Sprintf("probe <p align=right> has text-align %s, the cascade requires %s (%s); occurrences %v hints=%v", gotS, wantS, s.WantCar, s.Occs, s.Hints),
					map[string]interface{}{"scenario": json.RawMessage(line), "html": htmlText, "ua": o.UACSS, "user": o.UserCSS, "files": o.Files, "got": gotS, "want": wantS})
			}
			return
		}
		var got = -1
		it := h.Root.Iter()
		for it.HasNext() {
			e := it.Next()
			if e.DataAtom == atom.Font {
				st := sf.Get(e, "")
				if st == nil {
					break
				}
				c := st.GetColor()
				got = int(c.RGBA.R*255 + 0.5)
				if int(c.RGBA.G*255+0.5) != 7 || int(c.RGBA.B*255+0.5) != 9 {
					got = -2
				}
			}
		}
		if len(s.Occs) >= 2 {
			out.Count("nontrivial")
		}
		out.Sample(map[string]interface{}{"html": htmlText, "ua": o.UACSS, "user": o.UserCSS, "want": s.Want})
		if got != s.Want {
			out.Disagree(casKey(&s, got), fmt.Sprintf("probe element uses value %d, the cascade requires %d (%s); occurrences %v hints=%v", got, s.Want, s.WantCar, s.Occs, s.Hints),
				map[string]interface{}{"scenario": json.RawMessage(line), "html": htmlText, "ua": o.UACSS, "user": o.UserCSS, "files": o.Files, "got": got, "want": s.Want})
		}
	})
}

var _ = tree.TestUAStylesheet
