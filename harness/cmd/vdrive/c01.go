package main

// C01 — rendering any document terminates without crashing, against spec/Docs.tla (document generator),
// spec/PageLoop.tla (the page loop and its progress argument) and spec/RenderTrace.tla (trace validation).
//
// A scenario is a document of Docs.tla: a tree of nodes carrying feature bundles, a page geometry, a prologue and a
// document-level extra. It is materialised as HTML (c01HTML) and rendered under the configurations engine x hints
// chosen by -cfgs. Every render runs under the page-loop hook (html/layout verifPageMade / verifLoop, build tag
// verif): the hook records one event per step of the page loop and aborts the render when the page budget of the
// document is exhausted, so that a livelock of the page loop is reported at the page where it happens. A render is one
// trace record [sid, cfg, units, evs]; RenderTrace.tla accepts it iff it is a behaviour of the render contract
// (Call -> Parsed -> page loop -> Laid -> Drawn -> Return) whose page steps are steps of PageLoop.tla.
//
// Documents with a bundle that Docs.tla marks Invalid are also rendered with that bundle replaced by its Twin: the two
// recordings must be identical ("invalid constructs are skipped and the rest is still rendered").

import (
	"encoding/json"
	"flag"
	"fmt"
	"os"
	"sort"
	"strings"
	"unicode/utf8"

	"github.com/benoitkugler/webrender/html/document"
	"github.com/benoitkugler/webrender/html/layout"
	"github.com/benoitkugler/webrender/html/tree"

	"verif/harness/internal/drv"
	"verif/harness/internal/rec"
)

func init() {
	commands["c01"] = c01Main
	commands["c01show"] = c01ShowMain
	commands["c01run"] = c01RunMain
}

type c01Node struct {
	P int    `json:"p"` // parent (0 = body)
	B string `json:"b"` // bundle
}

type c01Scn struct {
	Nodes []c01Node `json:"nodes"`
	Page  string    `json:"page"`
	Pro   string    `json:"pro"`
	Extra string    `json:"extra"`
	// byte-level mutant of the materialised document (thorough tier): raw HTML instead of a tree
	Raw  string `json:"raw,omitempty"`
	Name string `json:"name,omitempty"`
}

// a bundle: element, attributes, declarations of its class, further rules, inner text override
type c01Bundle struct {
	tag   string
	attrs string
	decl  string
	rules string // %s = class selector .nK
	void  bool   // no children / no text inside
	text  string // replaces the default text ("" = default)
	inner string // raw inner HTML placed before the children
}

const c01PNG = "data:image/png;base64,iVBORw0KGgoAAAANSUhEUgAAAAEAAAABCAYAAAAfFcSJAAAADUlEQVR42mNk+M9QDwADhgGAWjR9awAAAABJRU5ErkJggg=="

var c01Bundles = map[string]c01Bundle{
	"block":         {tag: "div"},
	"inline":        {tag: "span"},
	"inlineblock":   {tag: "span", decl: "display:inline-block;width:30px;border:1px solid"},
	"floatl":        {tag: "div", decl: "float:left;width:40%"},
	"floatr-tall":   {tag: "div", decl: "float:right;width:20px;height:220px;background:#ccc"},
	"abs":           {tag: "div", decl: "position:absolute;top:5px;left:5px"},
	"abs-far":       {tag: "div", decl: "position:absolute;bottom:-300px;right:-50px;width:50%"},
	"fixed":         {tag: "div", decl: "position:fixed;bottom:0;right:0"},
	"relative":      {tag: "div", decl: "position:relative;top:-5px;z-index:1"},
	"table":         {tag: "table", decl: "border-spacing:1px"},
	"tr":            {tag: "tr"},
	"td":            {tag: "td"},
	"td-span":       {tag: "td", attrs: `colspan="2" rowspan="3"`},
	"caption":       {tag: "caption", decl: "caption-side:bottom"},
	"thead":         {tag: "thead"},
	"tfoot":         {tag: "tfoot"},
	"col":           {tag: "col", attrs: `span="2" width="10"`, void: true},
	"cell-div":      {tag: "div", decl: "display:table-cell;vertical-align:middle"},
	"row-div":       {tag: "div", decl: "display:table-row"},
	"table-coll":    {tag: "table", decl: "border-collapse:collapse;border:2px solid;table-layout:fixed;width:100%"},
	"inline-table":  {tag: "span", decl: "display:inline-table"},
	"flex":          {tag: "div", decl: "display:flex"},
	"flex-colwrap":  {tag: "div", decl: "display:flex;flex-flow:column wrap;height:50px;align-content:space-between"},
	"flexitem":      {tag: "div", decl: "flex:1 1 0;min-width:0;order:-1;align-self:stretch"},
	"inline-flex":   {tag: "span", decl: "display:inline-flex;justify-content:space-around"},
	"grid":          {tag: "div", decl: "display:grid;grid-template-columns:1fr 20px;gap:2px"},
	"grid-areas":    {tag: "div", decl: `display:grid;grid-template-areas:"a b" "c c";grid-auto-flow:column dense`},
	"griditem":      {tag: "div", decl: "grid-column:1 / span 2;grid-row:2"},
	"griditem-area": {tag: "div", decl: "grid-area:c;justify-self:end"},
	"grid-minmax":   {tag: "div", decl: "display:grid;grid-template-columns:repeat(auto-fill,minmax(30px,1fr));grid-auto-rows:minmax(10px,auto)"},
	"columns":       {tag: "div", decl: "columns:2;column-gap:4px;column-rule:1px solid"},
	"colspan-all":   {tag: "div", decl: "column-span:all"},
	"columns-fill":  {tag: "div", decl: "column-count:3;column-fill:auto;height:40px"},
	"li":            {tag: "li", decl: "display:list-item;list-style:decimal inside"},
	"li-outside":    {tag: "li", decl: "display:list-item;list-style:lower-roman outside;margin-left:20px"},
	"ol":            {tag: "ol", attrs: `start="-3" reversed`},
	"marker":        {tag: "li", decl: "display:list-item", rules: `%s::marker{content:"@" counter(list-item);color:red}`},
	"before-after":  {tag: "div", rules: `%s::before{content:"[" counter(c) "]";counter-increment:c}%s::after{content:attr(class) " " counters(c,".",upper-roman);display:block}`},
	"counter-reset": {tag: "div", decl: "counter-reset:c 3 d;counter-increment:d -1;counter-set:e 7"},
	"quotes":        {tag: "q", decl: `quotes:"<" ">" "(" ")"`, rules: `%s::before{content:open-quote}%s::after{content:close-quote no-close-quote}`},
	"var-def":       {tag: "div", decl: "--a:10px;--b:var(--a);width:calc(var(--b));margin-left:var(--b)"},
	"var-cycle":     {tag: "div", decl: "--a:var(--b);--b:var(--a);margin:var(--a);--c:var(--c)"},
	"var-undef":     {tag: "div", decl: "width:var(--nope);color:var(--x,red);margin:var(--x,) 1px"},
	"page-named":    {tag: "div", decl: "page:wide", rules: `@page wide{size:300px 100px;margin:5px}`},
	"bb-page":       {tag: "div", decl: "break-before:page"},
	"bb-left":       {tag: "div", decl: "break-before:left"},
	"ba-right":      {tag: "div", decl: "break-after:right"},
	"bb-recto":      {tag: "div", decl: "break-before:recto;break-after:verso"},
	"bi-avoid-tall": {tag: "div", decl: "break-inside:avoid;height:200px"},
	"ba-avoid":      {tag: "div", decl: "break-after:avoid;break-before:avoid"},
	"orphans":       {tag: "p", decl: "orphans:5;widows:5;width:30px"},
	"footnote":      {tag: "span", decl: "float:footnote"},
	"footnote-tall": {tag: "span", decl: "float:footnote;footnote-policy:block", inner: `<div style="height:400px"></div>`},
	"footnote-disp": {tag: "span", decl: "float:footnote;footnote-display:inline", rules: `@page{@footnote{max-height:10px;border-top:1px solid}}`},
	"running":       {tag: "div", decl: "position:running(r)", rules: `@page{@top-center{content:element(r)}}`},
	"string-set":    {tag: "h1", decl: "string-set:s content() attr(class)", rules: `@page{@bottom-left{content:string(s,first-except) string(s,last)}}`},
	"img-data":      {tag: "img", attrs: `src="` + c01PNG + `" width="10" height="10"`, void: true},
	"img-broken":    {tag: "img", attrs: `src="nowhere.png" alt="alt text"`, void: true},
	"img-svg":       {tag: "img", attrs: `src="data:image/svg+xml,%3Csvg%20xmlns='http://www.w3.org/2000/svg'%20viewBox='0%200%2010%2010'%3E%3Ccircle%20r='5'/%3E%3C/svg%3E" style="width:50%"`, void: true},
	"bg-image":      {tag: "div", decl: "background:url(" + c01PNG + ") repeat-x 50% 50% / 3px auto, linear-gradient(to right, red, blue 30%, green) no-repeat;min-height:10px"},
	"svg-inline":    {tag: "svg", attrs: `width="20" height="20" viewBox="0 0 10 10"`, void: true, inner: `<defs><linearGradient id="g"><stop offset="0" stop-color="red"/><stop offset="1" stop-color="blue"/></linearGradient></defs><rect width="5" height="5" fill="url(#g)"/><path d="M1 1 L5 5 A 2 2 0 0 1 8 8 Z" stroke="black"/><text x="1" y="9">t</text>`},
	"svg-bad":       {tag: "svg", attrs: `viewBox="0 0 0 0" preserveAspectRatio="x"`, void: true, inner: `<path d="M 1 1 L"/><use href="#self" id="self"/><rect width="-1" height="1e99"/><circle r="nan"/><g clip-path="url(#nope)" mask="url(#self)"><polygon points="1"/></g>`},
	"rtl":           {tag: "div", attrs: `dir="rtl"`, decl: "direction:rtl", text: "אב גד abc הו"},
	"bidi":          {tag: "span", decl: "unicode-bidi:bidi-override;direction:rtl", text: "abc ‮def‬ ghi"},
	"pre-long":      {tag: "pre", decl: "white-space:pre-wrap;tab-size:3", text: "a\tb\n\n  loooooooooooooooooooooooooooooooooooooooooong\t\n"},
	"hyphens":       {tag: "p", attrs: `lang="en"`, decl: "hyphens:auto;width:7ch;hyphenate-limit-chars:3 1 1", text: "extraordinary internationalisation"},
	"nowrap-long":   {tag: "div", decl: "white-space:nowrap;overflow:hidden;text-overflow:ellipsis;width:30px", text: "aaaaaaaa bbbbbbbbbb cccccccccc"},
	"break-all":     {tag: "div", decl: "word-break:break-all;overflow-wrap:anywhere;width:1px"},
	"tall":          {tag: "div", decl: "height:300px"},
	"ovf-hidden":    {tag: "div", decl: "overflow:hidden;height:10px;border-radius:5px"},
	"transform":     {tag: "div", decl: "transform:rotate(30deg) scale(0);opacity:.5;transform-origin:10% bottom"},
	"zero-size":     {tag: "div", decl: "width:0;height:0;overflow:hidden;border:1px dashed;outline:1px dotted"},
	"display-none":  {tag: "div", decl: "display:none"},
	"contents":      {tag: "div", decl: "display:contents"},
	"unknown-prop":  {tag: "div", decl: "foo:bar;colour:red;-x-y:1"},
	"bad-value":     {tag: "div", decl: "width:red;display:bogus;margin:1px 2px 3px 4px 5px;color:#12;font:;height:calc();content:counter()"},
	"bad-at-rule":   {tag: "div", rules: `@foo{x}@media ??? {%s{display:none}}@import;@page :nope{size:1px}@font-face{}@counter-style{}`},
	"bad-selector":  {tag: "div", rules: `div:::x,%s!{display:none}%s:nth-child(){display:none}[x=]{display:none}`},
	"bad-important": {tag: "div", decl: "display:none !importan;float:left ! ;position:absolute !important x"},
	"target":        {tag: "a", attrs: `href="#t"`, rules: `%s::after{content:target-counter(attr(href),page) leader(".") target-text(attr(href)) target-counters("#t",c,".")}`},
	"anchor":        {tag: "h1", attrs: `id="t"`, decl: "bookmark-level:1;bookmark-label:content(text);bookmark-state:closed"},
	"link":          {tag: "a", attrs: `href="http://verif.test/x?y#z"`, decl: "text-decoration:underline"},
	"input":         {tag: "input", attrs: `value="v" size="3"`, void: true},
	"textarea":      {tag: "textarea", attrs: `rows="2" cols="4"`},
	"select":        {tag: "select", inner: "<option>o1<option selected>o2"},
	"br":            {tag: "br", void: true},
	"hr":            {tag: "hr", void: true},
	"first-letter":  {tag: "p", rules: `%s::first-letter{font-size:20px;float:left}%s::first-line{text-transform:uppercase}`},
	"text-decor":    {tag: "span", decl: "text-decoration:underline overline line-through wavy red;text-shadow:1px 1px 2px blue;font-style:italic;font-weight:bold"},
	"valign":        {tag: "span", decl: "vertical-align:super;font-size:50%;line-height:0"},
	"spacing":       {tag: "p", decl: "letter-spacing:2px;word-spacing:-1px;text-indent:-5px;text-align:justify;text-align-last:center"},
	"percent":       {tag: "div", decl: "height:50%;min-height:10px;max-height:5px;width:150%;max-width:20px;box-sizing:border-box;padding:10%"},
	"neg-margin":    {tag: "div", decl: "margin:-20px -10px -30px -5px"},
	"clone":         {tag: "span", decl: "box-decoration-break:clone;border:1px solid;padding:2px;background:yellow"},
	"decor":         {tag: "div", decl: "border-radius:3px 50%/10px;background:radial-gradient(circle at 10% 20%, red, blue);border:2px double green;outline:1px solid;box-shadow:1px 1px red"},
	"border-image":  {tag: "div", decl: "border:3px solid;border-image:url(" + c01PNG + ") 1 / 1 / 0 round"},
	"line-clamp":    {tag: "div", decl: "line-clamp:1 \"…\";width:30px"},
	"object-fit":    {tag: "img", attrs: `src="` + c01PNG + `"`, decl: "object-fit:cover;object-position:10% 5px;width:20px;height:5px;image-rendering:pixelated", void: true},
	"unknown-elem":  {tag: "foo-bar"},
	"details":       {tag: "details", inner: "<summary>s</summary>"},
	"sticky":        {tag: "div", decl: "position:sticky;top:0"},
	"big-font":      {tag: "div", decl: "font-size:200px;line-height:0"},
	"zero-font":     {tag: "div", decl: "font-size:0;line-height:normal"},
	"lh-huge":       {tag: "div", decl: "line-height:1000"},
	"min-content":   {tag: "div", decl: "width:min-content;float:left;clear:both"},
	"fit-content":   {tag: "div", decl: "width:fit-content;margin:auto"},
	"clear":         {tag: "div", decl: "clear:both;float:right"},
	"fontface":      {tag: "div", decl: "font-family:nowhere,weasyprint", rules: `@font-face{font-family:nowhere;src:url(none.woff) format("woff"),local(x)}`},
	"counter-style": {tag: "li", decl: "display:list-item;list-style:cs2", rules: `@counter-style cs1{system:extends cs2}@counter-style cs2{system:extends cs1;fallback:cs2}@counter-style cs3{system:cyclic;symbols:"*";fallback:cs3;range:1 1}`},
	"svg-img-ref":   {tag: "img", attrs: `src="data:image/svg+xml,%3Csvg%20xmlns='http://www.w3.org/2000/svg'%3E%3Cimage%20href='x.svg'/%3E%3C/svg%3E"`, void: true},
	"media":         {tag: "div", rules: `@media print and (min-width:1px){%s{color:red}}@media screen{%s{display:none}}@supports (display:grid){%s{margin:1px}}`},
	"nested-rule":   {tag: "div", rules: `div{& %s{padding:1px} %s &{margin:1px} @media print{border:1px solid}}`},
	"attr-hints":    {tag: "table", attrs: `border="2" cellpadding="3" cellspacing="1" width="50%" height="10" align="center" bgcolor="#eee" background="x.png"`},
	"font-hints":    {tag: "font", attrs: `size="+2" color="red" face="weasyprint"`},
	"center":        {tag: "center"},
	"base":          {tag: "base", attrs: `href="http://[bad"`, void: true},
	"meta-link":     {tag: "link", attrs: `rel="stylesheet" href="missing.css"`, void: true},
	"style-attr":    {tag: "div", attrs: `style="color:red;;;{}width:10px;@x;height:"`},
	// complete structures in one node (multi-page on the small geometries)
	"full-table-coll": {tag: "table", decl: "border-collapse:collapse;width:100%", rules: `%s td,%s th{border:2px solid red;padding:1px}%s thead{display:table-header-group}%s tfoot{display:table-footer-group}`,
		inner: `<thead><tr><th>h a</th><th>h b</th></tr></thead><tfoot><tr><td colspan="2">foot</td></tr></tfoot><tbody><tr><td>r1 a</td><td>r1 b</td></tr><tr><td>r2 a</td><td>r2 b</td></tr><tr><td>r3 a</td><td>r3 b</td></tr><tr><td>r4 a</td><td>r4 b</td></tr><tr><td>r5 a</td><td>r5 b</td></tr><tr><td>r6 a</td><td>r6 b</td></tr><tr><td>r7 a</td><td>r7 b</td></tr><tr><td>r8 a</td><td>r8 b</td></tr><tr><td rowspan="2">rs</td><td>x</td></tr><tr><td>y</td></tr></tbody>`, void: true},
	"full-table-head": {tag: "table", decl: "border-collapse:collapse", rules: `%s td,%s th{border:2px solid black;padding:0}`,
		inner: `<thead><tr><th>h</th></tr></thead><tbody><tr><td>r1</td></tr><tr><td>r2</td></tr><tr><td>r3</td></tr><tr><td>r4</td></tr><tr><td>r5</td></tr><tr><td>r6</td></tr><tr><td>r7</td></tr><tr><td>r8</td></tr><tr><td>r9</td></tr><tr><td>r10</td></tr><tr><td>r11</td></tr><tr><td>r12</td></tr><tr><td>r13</td></tr><tr><td>r14</td></tr></tbody>`, void: true},
	"full-table-sep": {tag: "table", decl: "border-spacing:2px 4px;border:1px solid", rules: `%s td{border:1px dotted;vertical-align:bottom}`,
		inner: `<caption>cap</caption><colgroup><col span="1" style="width:20px"><col></colgroup><thead><tr><th>h a</th><th>h b</th></tr></thead><tbody><tr><td>r1 a</td><td>r1 b</td></tr><tr><td>r2 a</td><td>r2 b</td></tr><tr><td>r3 a</td><td>r3 b</td></tr><tr><td>r4 a</td><td>r4 b</td></tr><tr><td>r5 a</td><td>r5 b</td></tr><tr><td>r6 a</td><td>r6 b</td></tr><tr><td>r7 a</td><td>r7 b</td></tr><tr><td>r8 a</td><td>r8 b</td></tr></tbody>`, void: true},
	// counter styles at the edges of their algorithms: a tuple of weight 0 with values the other tuples cannot represent, values
	// outside the natural range of a system forced in by an explicit range, long pads, one-symbol lists, symbols()
	"counter-additive": {tag: "div", decl: "counter-reset:c 12 d 0 e -2 f 7", rules: `@counter-style ad0{system:additive;additive-symbols:5 V, 0 Z}@counter-style ad1{system:additive;additive-symbols:3 "c", 2 "b";range:-5 20;pad:6 "."}@counter-style ad2{system:additive;additive-symbols:0 "z", 0 "y"}%s::before{content:counter(c,ad0) counter(d,ad0) counter(e,ad0) counter(f,ad0) counter(c,ad1) counter(d,ad1) counter(e,ad1) counter(f,ad1) counter(c,ad2) counter(d,ad2)}`},
	"counter-systems":  {tag: "div", decl: "counter-reset:c 0 d -3 e 40", rules: `@counter-style al{system:alphabetic;symbols:a b;range:-9 99}@counter-style nu{system:numeric;symbols:"0" "1";negative:"((" "))";pad:9 "_"}@counter-style sy{system:symbolic;symbols:"*";range:-9 99}@counter-style fx{system:fixed -2;symbols:p q r}@counter-style cy{system:cyclic;symbols:u v w;pad:3 ""}@counter-style ex{system:extends al;prefix:"<";suffix:">";fallback:ex}%s::before{content:counter(c,al) counter(d,al) counter(e,al) counter(c,nu) counter(d,nu) counter(e,nu) counter(c,sy) counter(d,sy) counter(e,sy) counter(c,fx) counter(d,fx) counter(e,fx) counter(c,cy) counter(d,cy) counter(e,cy) counter(d,ex) counters(e,".",ex)}`},
	"counter-symbols":  {tag: "li", decl: "display:list-item;counter-reset:list-item -2;list-style:symbols(alphabetic 'a')", rules: `%s::before{content:counter(list-item,symbols(numeric "0")) counter(list-item,symbols(fixed "f")) counter(list-item,symbols(additive "x")) counter(list-item,symbols("s" "t")) counter(list-item,"str")}`},
	// auto-placed grid items whose spans overflow the explicit columns / rows (dense and sparse), items locked to a row
	"grid-spans":       {tag: "div", decl: "display:grid;grid-template-columns:10px 10px 10px;grid-auto-flow:row dense", inner: `<div style="grid-column:span 2;grid-row:span 2">a</div><div style="grid-column:span 2;grid-row:span 2">b</div><div style="grid-row:1">c</div><div style="grid-column:3 / span 2">d</div><div style="grid-column:span 4">e</div>`, void: true},
	"grid-spans-sparse": {tag: "div", decl: "display:grid;grid-template-columns:10px 10px 10px", inner: `<div style="grid-column:span 2;grid-row:span 2">a</div><div style="grid-column:span 2;grid-row:span 2">b</div><div style="grid-row:1">c</div><div style="grid-column:2">d</div><div style="grid-row:2 / span 3;grid-column:span 3">e</div>`, void: true},
	// reference cycles of every kind inside an inline SVG (gradient / pattern templates, use, clip-path, mask, marker, filter)
	"svg-cycles": {tag: "svg", attrs: `width="20" height="20" viewBox="0 0 10 10" xmlns:xlink="http://www.w3.org/1999/xlink"`, void: true, inner: `<defs><linearGradient id="ga" xlink:href="#gb"/><linearGradient id="gb" href="#ga"><stop offset="0" stop-color="red"/></linearGradient><radialGradient id="gs" href="#gs"/>` +
		`<pattern id="pa" href="#pb" width="2" height="2"/><pattern id="pb" xlink:href="#pc"/><pattern id="pc" href="#pa"><rect width="1" height="1" fill="url(#pa)"/></pattern>` +
		`<clipPath id="ca" clip-path="url(#cb)"><rect width="5" height="5"/></clipPath><clipPath id="cb" clip-path="url(#ca)"><rect width="4" height="4"/></clipPath>` +
		`<mask id="ma" mask="url(#ma)"><rect width="5" height="5" fill="white" mask="url(#ma)"/></mask><marker id="mk" markerWidth="2" markerHeight="2"><path d="M0 0L1 1" marker-end="url(#mk)"/></marker>` +
		`<g id="ua"><use href="#ub"/></g><g id="ub"><use xlink:href="#ua"/></g></defs>` +
		`<rect width="5" height="5" fill="url(#ga)" stroke="url(#gs)"/><rect x="5" width="5" height="5" fill="url(#pa)" clip-path="url(#ca)"/><rect y="5" width="5" height="5" mask="url(#ma)"/><path d="M1 6L4 9" stroke="black" marker-end="url(#mk)" marker-start="url(#mk)"/><use href="#ua"/>`},
	// balanced columns whose children have fractional heights (the balancing loop adds the smallest lost space to the height)
	"columns-fractional": {tag: "div", decl: "columns:2;column-gap:0", inner: `<div style="height:3.3px"></div><div style="height:3.3px"></div><div style="height:3.3px"></div><div style="height:3.3px"></div><div style="height:3.3px"></div><div style="height:7.7px"></div><div style="height:0.1px"></div><p style="line-height:3.7px;font-size:3px">a b c d e f g h i j</p>`, void: true},
	// font-relative lengths in properties the text measurement itself reads; leaders made of glyphs narrower than a pixel
	"tab-size-ch":  {tag: "p", decl: "tab-size:4ch;white-space:pre;letter-spacing:1ex;word-spacing:2ch;hyphenate-limit-zone:1ex;hyphens:auto", text: "a\tb c"},
	"leader-tiny":  {tag: "a", attrs: `href="#t"`, rules: `%s::after{content:leader('.') target-counter(attr(href), page);font-size:0.5px}%s::before{content:leader(dotted);font-size:0.3px}`},
	"full-list":      {tag: "ol", attrs: `start="3"`, decl: "list-style:upper-roman outside;margin-left:20px", inner: `<li>item 1</li><li>item 2</li><li>item 3</li><li>item 4</li><li>item 5</li><li>item 6</li><li><ul><li>n1<li>n2</ul></li>`, void: true},
	"full-flex":      {tag: "div", decl: "display:flex;flex-wrap:wrap;gap:2px;align-items:center", inner: `<div style="flex:1 0 40px">f1 f1</div><div style="flex:2 1 30px;order:-1">f2</div><div style="width:50px;height:40px">f3</div><div style="margin:auto">f4</div><div style="flex-basis:100%">f5 f5 f5 f5</div>`, void: true},
	"full-grid":      {tag: "div", decl: "display:grid;grid-template-columns:repeat(3,1fr);grid-auto-rows:20px;gap:1px", inner: `<div>g1</div><div style="grid-column:span 2">g2</div><div style="grid-row:span 2">g3</div><div>g4</div><div>g5</div><div>g6</div><div>g7</div>`, void: true},
	"full-columns":   {tag: "div", decl: "columns:2;column-gap:3px", inner: `<p>c1 c1 c1 c1 c1 c1</p><p>c2 c2 c2 c2</p><h1 style="column-span:all">span</h1><p>c3 c3 c3 c3 c3 c3 c3 c3</p><p style="break-before:column">c4</p>`, void: true},
	"long-text":      {tag: "p", decl: "orphans:2;widows:2;text-align:justify", text: "word1 word2 word3 word4 word5 word6 word7 word8 word9 word10 word11 word12 word13 word14 word15 word16 word17 word18 word19 word20 word21 word22 word23 word24 word25 word26 word27 word28 word29 word30 word31 word32 word33 word34 word35 word36 word37 word38 word39 word40 word41 word42 word43 word44 word45 word46 word47 word48 word49 word50 word51 word52 word53 word54 word55 word56 word57 word58 word59 word60"},
	"footnotes-many": {tag: "p", inner: `a<span style="float:footnote">note one</span> b<span style="float:footnote">note two two two two two two two two</span> c<span style="float:footnote">note three</span> d d d d d d d d d d d d d d d d`, void: true},
	"calc-nested":    {tag: "div", decl: "--x:10px;width:calc(calc(var(--x)));margin-left:max(1px, min(var(--x), calc(2px + var(--x, 3px))))"},
	"attr-typed":     {tag: "a", attrs: `href="x" data-n="3" data-l="2em"`, rules: `%s::before{content:attr(href url)}%s::after{content:attr(data-n integer) attr(data-l length) attr(nope string, "d")}`},
	"var-lasso":      {tag: "div", decl: "--a:var(--b);--b:var(--c);--c:var(--b);width:var(--a,10px);--d:var(--e,var(--d));margin-left:var(--d,1px)"},
	"floats-many":    {tag: "div", inner: `<div style="float:left;width:45%;height:25px">fl1</div><div style="float:right;width:45%;height:45px">fr1</div><p>t1 t1 t1 t1 t1 t1 t1 t1</p><div style="float:left;clear:left;width:30px">fl2 fl2 fl2 fl2 fl2 fl2</div><p style="clear:both">t2</p>`, void: true},
	"abs-in-rel":     {tag: "div", decl: "position:relative;height:20px", inner: `<div style="position:absolute;top:100%;left:0;right:0;height:80px">abs abs abs abs abs abs</div><div style="position:absolute;inset:auto 0 0 auto;width:min-content">a2</div>`, void: true},
	// a footnote whose text depends on counter(pages): its height changes the number of pages, which changes its text (the
	// pagination rounds of layoutDocument do not converge and must be cut off)
	"osc-pages":  {tag: "span", decl: "float:footnote", rules: `@counter-style long{system:cyclic;symbols:"xxxx xxxx xxxx xxxx xxxx xxxx xxxx xxxx xxxx xxxx xxxx xxxx xxxx xxxx" "y"}%s::after{content:counter(pages,long)}`},
	"pages-text": {tag: "div", rules: `%s::after{content:counter(pages) " " counter(page) " " target-counter("#t",page)}`},
}

// page geometries (the @page rule) and the content box they leave
var c01Pages = map[string]string{
	"normal":    "@page{size:200px 150px;margin:10px}",
	"tiny":      "@page{size:40px 30px;margin:2px}",
	"zero":      "@page{size:0 0;margin:0}",
	"bigmargin": "@page{size:50px 50px;margin:40px}",
	"first":     "@page{size:100px 60px;margin:5px}@page :first{size:30px 400px}@page :left{margin-left:30px}@page :blank{@top-center{content:'blank'}}",
	"default":   "",
}

var c01Pros = map[string]string{
	"none":    "",
	"doctype": "<!DOCTYPE html>",
	"comment": "<!-- c --><?pi x?>",
	"xml":     `<?xml version="1.0"?><!DOCTYPE html PUBLIC "-//W3C//DTD XHTML 1.0 Strict//EN" "x.dtd">`,
}

var c01Extras = map[string]string{
	"none":    "",
	"margins": `@page{@top-left{content:counter(page) "/" counter(pages)}@bottom-right-corner{content:"c";width:200%}@left-middle{content:url(` + c01PNG + `)}@top-right{content:"r";break-before:page}}`,
	"rootbrk": `html{break-before:left}body{break-after:right;columns:2}`,
	"rootpos": `html{position:absolute;display:flex}body{float:left;display:table-cell}`,
	"huge":    `html{font-size:1e9px}body{margin:1e30px;width:1e38px}`,
	"star":    `*{display:block;float:left;position:relative;margin:-1px}`,
	"allinit": `body *{all:initial}div{all:unset;all:revert}`,
}

func c01Text(k int) (string, string) {
	return fmt.Sprintf("w%d x%d ", k, k), fmt.Sprintf(" y%d", k)
}

// c01HTML materialises a scenario. twin: replace bundles by the given substitution (invalid -> twin).
func c01HTML(s *c01Scn, subst map[string]string) (string, error) {
	if s.Raw != "" {
		return s.Raw, nil
	}
	var css strings.Builder
	pg, ok := c01Pages[s.Page]
	if !ok {
		return "", fmt.Errorf("unknown page geometry %q", s.Page)
	}
	pro, ok := c01Pros[s.Pro]
	if !ok {
		return "", fmt.Errorf("unknown prologue %q", s.Pro)
	}
	ex, ok := c01Extras[s.Extra]
	if !ok {
		return "", fmt.Errorf("unknown extra %q", s.Extra)
	}
	css.WriteString(pg)
	css.WriteString("html,body{margin:0;padding:0}body{font-family:weasyprint;font-size:10px;line-height:10px}p,h1,ul,ol,li,pre{margin:0;padding:0;font-size:10px}")
	css.WriteString(ex)
	kids := make([][]int, len(s.Nodes)+1)
	for i, n := range s.Nodes {
		if n.P < 0 || n.P > i {
			return "", fmt.Errorf("node %d has parent %d", i+1, n.P)
		}
		kids[n.P] = append(kids[n.P], i+1)
	}
	var body strings.Builder
	var emit func(k int) error
	emit = func(k int) error {
		name := s.Nodes[k-1].B
		if t, ok := subst[name]; ok {
			name = t
		}
		b, ok := c01Bundles[name]
		if !ok {
			return fmt.Errorf("unknown bundle %q", name)
		}
		cls := fmt.Sprintf("n%d", k)
		if b.decl != "" {
			fmt.Fprintf(&css, ".%s{%s}", cls, b.decl)
		}
		if b.rules != "" {
			css.WriteString(strings.ReplaceAll(b.rules, "%s", "."+cls))
		}
		fmt.Fprintf(&body, "<%s class=\"%s\"", b.tag, cls)
		if b.attrs != "" {
			body.WriteString(" " + b.attrs)
		}
		body.WriteString(">")
		pre, post := c01Text(k)
		if b.text != "" {
			pre, post = b.text+" ", ""
		}
		if b.void {
			// a void element, or a complete structure (inner HTML, no text of its own): its children follow it
			if b.inner != "" {
				body.WriteString(b.inner)
				fmt.Fprintf(&body, "</%s>", b.tag)
			}
			for _, c := range kids[k] {
				if err := emit(c); err != nil {
					return err
				}
			}
			return nil
		}
		body.WriteString(b.inner)
		body.WriteString(pre)
		for _, c := range kids[k] {
			if err := emit(c); err != nil {
				return err
			}
		}
		body.WriteString(post)
		fmt.Fprintf(&body, "</%s>", b.tag)
		return nil
	}
	for _, c := range kids[0] {
		if err := emit(c); err != nil {
			return "", err
		}
	}
	return pro + "<html><head><title>t</title><style>" + css.String() + "</style></head><body>" + body.String() + "</body></html>", nil
}

// ---------------------------------------------------------------------------------------------------------- tracing

type c01Ev struct {
	E      string  `json:"e"`
	K      int     `json:"k"` // Loop: round ; Page: index ; Laid/Drawn: number of pages
	Remade bool    `json:"remade"`
	Blank  bool    `json:"blank"`
	Right  bool    `json:"right"`
	Start  bool    `json:"start"` // the page starts at the beginning of the document (InitialResumeAt == nil)
	End    bool    `json:"end"`   // the page is the last one (ResumeAt == nil)
	From   [][]int `json:"from"`
	To     [][]int `json:"to"`
	Fn     int     `json:"fn"`
	Bo     int     `json:"bo"`
	Brk    string  `json:"brk"`
	Dirty  []int   `json:"dirty"`  // Loop: pages with ContentChanged
	Wanted []int   `json:"wanted"` // Loop: pages with PagesWanted
	What   string  `json:"what"`
}

// MarshalJSON writes only the fields RenderTrace.tla reads for the kind of event (never null: TLC's Json module cannot read it).
func (e c01Ev) MarshalJSON() ([]byte, error) {
	switch e.E {
	case "Page":
		type full c01Ev
		return json.Marshal(full(e))
	case "Loop":
		return json.Marshal(struct {
			E      string `json:"e"`
			K      int    `json:"k"`
			Dirty  []int  `json:"dirty"`
			Wanted []int  `json:"wanted"`
		}{e.E, e.K, e.Dirty, e.Wanted})
	}
	return json.Marshal(struct {
		E    string `json:"e"`
		K    int    `json:"k"`
		What string `json:"what"`
	}{e.E, e.K, e.What})
}

type c01Rec struct {
	Sid    int     `json:"sid"`
	Cfg    string  `json:"cfg"`
	Units  int     `json:"units"`
	Fnotes int     `json:"fnotes"` // upper bound of the number of footnotes of the document
	Digest string  `json:"dg"`     // digest of the recorded backend calls (returning renders)
	Evs    []c01Ev `json:"evs"`
}

// flatten a resume stack into its sorted list of root-to-leaf paths
func c01Flatten(r tree.ResumeStack) [][]int {
	out := [][]int{}
	var walk func(r tree.ResumeStack, pre []int)
	walk = func(r tree.ResumeStack, pre []int) {
		ks := make([]int, 0, len(r))
		for k := range r {
			ks = append(ks, k)
		}
		sort.Ints(ks)
		for _, k := range ks {
			p := append(append([]int(nil), pre...), k)
			if len(r[k]) == 0 {
				out = append(out, p)
			} else {
				walk(r[k], p)
			}
		}
	}
	walk(r, nil)
	return out
}

type c01Budget struct{ index int }

// c01Units is the size of a document for the page budget: every non-blank page of a terminating render places at
// least one unit (a character, a box), and every forced break inserts at most one blank page.
func c01Units(html string) int { return utf8.RuneCountInString(html) }

// c01Render runs one render and returns its trace record and the recording (nil unless it returned).
func c01Render(sid int, doc string, cfg string, out *drv.Out) (c01Rec, *rec.Doc, string) {
	o := &drv.Opts{Engine: "pango"}
	for _, f := range strings.Split(cfg, "+") {
		switch f {
		case "gotext":
			o.Engine = "gotext"
		case "hints":
			o.Hints = true
		case "fullua":
			o.FullUA = true
		}
	}
	o.Files = map[string]string{}
	units := c01Units(doc)
	budget := 2*units + 16
	r := c01Rec{Sid: sid, Cfg: cfg, Units: units, Fnotes: strings.Count(doc, "footnote")}
	add := func(e c01Ev) { // (TLC's Json module cannot read null: no nil slices)
		if e.From == nil {
			e.From = [][]int{}
		}
		if e.To == nil {
			e.To = [][]int{}
		}
		if e.Dirty == nil {
			e.Dirty = []int{}
		}
		if e.Wanted == nil {
			e.Wanted = []int{}
		}
		r.Evs = append(r.Evs, e)
	}
	add(c01Ev{E: "Call"})
	layout.VerifPageHook = func(ev layout.VerifPageEvent) {
		switch ev.Kind {
		case "loop":
			add(c01Ev{E: "Loop", K: ev.Loop, Dirty: ev.Dirty, Wanted: ev.Wanted})
			if ev.Loop >= 64 {
				panic(c01Budget{-ev.Loop})
			}
		case "page":
			add(c01Ev{E: "Page", K: ev.Index, Remade: ev.Remade, Blank: ev.Blank, Right: ev.RightPage,
				Start: ev.InitialResumeAt == nil, End: ev.ResumeAt == nil, From: c01Flatten(ev.InitialResumeAt), To: c01Flatten(ev.ResumeAt),
				Fn: ev.ReportedFootnotes, Bo: ev.BrokenOutOfFlow, Brk: ev.NextBreak})
			if ev.Index >= budget {
				panic(c01Budget{ev.Index})
			}
		}
	}
	defer func() { layout.VerifPageHook = nil }()
	var recd *rec.Doc
	var budgetHit bool
	site, msg, panicked := drv.Guard(func() {
		defer func() {
			if p := recover(); p != nil {
				if _, ok := p.(c01Budget); ok {
					budgetHit = true
					return
				}
				panic(p)
			}
		}()
		h, err := drv.Parse(doc, o)
		if err != nil {
			// an input that cannot be decoded at all is refused with an error: that is a return
			add(c01Ev{E: "Refused", What: drv.MsgClass(err)})
			return
		}
		add(c01Ev{E: "Parsed"})
		d := document.Render(h, nil, o.Hints, drv.Fonts(o.Engine))
		add(c01Ev{E: "Laid", K: len(d.Pages)})
		recd = rec.New()
		d.Write(recd, 1, nil)
		n := 0
		for _, e := range recd.Evs {
			if e.Op == "AddPage" {
				n++
			}
		}
		add(c01Ev{E: "Drawn", K: n})
	})
	key := ""
	switch {
	case budgetHit:
		add(c01Ev{E: "PageBudget", K: budget})
		key = "C01:page-loop-livelock:" + c01Culprit(doc)
		recd = nil
	case panicked:
		add(c01Ev{E: "Panic", What: site + ":" + msg})
		key = "C01:panic:" + site + ":" + msg
		if strings.Contains(msg, "expected non nil box for the root") {
			// (the panic of makePage only says that some layout function returned no box: name the feature)
			key += ":" + c01Culprit(doc)
		}
		recd = nil
	default:
		add(c01Ev{E: "Return"})
		if recd != nil {
			r.Digest, _ = c15Digest(recd)
		}
	}
	// long page loops are not validated step by step (the trace would dominate the run): the page events are replaced
	// by one LongLoop event carrying the number of pages of the last round (a render that did not return keeps its
	// first events, enough for RenderTrace to reject it at the right place)
	np := 0
	for _, e := range r.Evs {
		if e.E == "Page" {
			np++
		}
	}
	if np > c01MaxPageEvents {
		var evs []c01Ev
		last := 0
		for _, e := range r.Evs {
			switch e.E {
			case "Loop":
				if e.K >= 0 {
					last = 0
				}
			case "Page":
				last++
			}
		}
		if key == "" {
			done := false
			for _, e := range r.Evs {
				if e.E == "Loop" || e.E == "Page" {
					if !done {
						evs = append(evs, c01Ev{E: "LongLoop", K: last})
						done = true
					}
					continue
				}
				evs = append(evs, e)
			}
		} else {
			evs = append(evs, r.Evs[:c01MaxPageEvents]...)
			evs = append(evs, r.Evs[len(r.Evs)-1])
		}
		r.Evs = evs
	}
	return r, recd, key
}

const c01MaxPageEvents = 100

var (
	c01Cfgs   = "pango,gotext+hints"
	c01Rotate = false
	c01Sample = 1
)

// bundles that Docs.tla marks Invalid, with their twin
var c01Twin = map[string]string{"unknown-prop": "block", "bad-value": "block", "bad-at-rule": "block", "bad-selector": "block", "bad-important": "block"}

func c01Bundlenames(s *c01Scn) string {
	var bs []string
	for _, n := range s.Nodes {
		bs = append(bs, n.B)
	}
	return strings.Join(bs, ",")
}

func c01Main(args []string) int {
	return drv.Main("c01", args, func(fs *flag.FlagSet) {
		fs.StringVar(&c01Cfgs, "cfgs", c01Cfgs, "comma-separated configurations (engine and options joined by +)")
		fs.BoolVar(&c01Rotate, "rotate", false, "render each document under ONE configuration, chosen by its index")
		fs.IntVar(&c01Sample, "sample", 1, "emit the trace record of one normal render in N (abnormal ones are always emitted)")
	}, func(line []byte, out *drv.Out) {
		var s c01Scn
		if err := json.Unmarshal(line, &s); err != nil {
			out.Fatal("bad scenario: " + err.Error())
			return
		}
		doc, err := c01HTML(&s, nil)
		if err != nil {
			out.Fatal(err.Error())
			return
		}
		out.Count("documents")
		cfgs := strings.Split(c01Cfgs, ",")
		if c01Rotate {
			cfgs = cfgs[out.Cur%len(cfgs) : out.Cur%len(cfgs)+1]
		}
		var first *rec.Doc
		for ci, cfg := range cfgs {
			r, recd, key := c01Render(out.Cur, doc, cfg, out)
			out.Count("renders")
			out.Count("renders:" + cfg)
			for _, e := range r.Evs {
				if e.E == "Page" {
					out.Count("pages")
					if e.Blank {
						out.Count("blank-pages")
					}
					if !e.Remade {
						out.Count("kept-pages")
					}
				}
				if e.E == "Loop" && e.K > 0 {
					out.Count("repagination-rounds")
				}
				if e.E == "Refused" {
					out.Count("refused")
				}
			}
			if key != "" {
				what := r.Evs[len(r.Evs)-1]
				desc := c01Bundlenames(&s)
				if s.Raw != "" {
					desc = "mutant of " + s.Name
				}
				out.Disagree(key, fmt.Sprintf("render [%s] of document {%s page=%s pro=%s extra=%s} ended with %s %s", cfg, desc, s.Page, s.Pro, s.Extra, what.E, what.What),
					map[string]interface{}{"scenario": json.RawMessage(line), "cfg": cfg, "html": doc, "trace": r})
				out.Emit(r)
			} else if c01Sample <= 1 || (out.Cur+ci)%c01Sample == 0 {
				out.Emit(r)
				out.Count("trace-records")
			}
			if ci == 0 {
				first = recd
			}
		}
		// invalid constructs are skipped: same recording as the twin document
		if s.Raw == "" && first != nil {
			inv := false
			for _, n := range s.Nodes {
				if _, ok := c01Twin[n.B]; ok {
					inv = true
				}
			}
			if inv {
				tw, err := c01HTML(&s, c01Twin)
				if err != nil {
					out.Fatal(err.Error())
					return
				}
				_, trec, key := c01Render(out.Cur, tw, cfgs[0], out)
				out.Count("twin-renders")
				if key == "" && trec != nil && s.Extra != "star" { // (with * {display:block} the text of <style> itself is rendered)
					a, na := c15Digest(first)
					b, nb := c15Digest(trec)
					if a != b {
						out.Disagree("C01:invalid-construct-changes-rendering:"+c01InvalidOf(&s), fmt.Sprintf("document {%s page=%s extra=%s}: %d backend calls, but %d when the invalid construct is removed: %s",
							c01Bundlenames(&s), s.Page, s.Extra, na, nb, c01FirstDiff(first, trec)), map[string]interface{}{"scenario": json.RawMessage(line), "html": doc, "twin": tw})
					} else {
						out.Count("twin-equal")
					}
				}
			}
		}
	})
}

// c01Culprit names the feature a livelocked document most likely owes its livelock to (part of the finding key).
func c01Culprit(doc string) string {
	for _, f := range []string{"footnote", "display:grid", "display:flex", "columns:", "column-count", "float:", "position:", "<table", "display:table", "break-"} {
		if strings.Contains(doc, f) {
			return strings.Trim(f, "<:-")
		}
	}
	return "other"
}

func c01InvalidOf(s *c01Scn) string {
	for _, n := range s.Nodes {
		if _, ok := c01Twin[n.B]; ok {
			return n.B
		}
	}
	return ""
}

func c01FirstDiff(a, b *rec.Doc) string {
	for i := 0; i < len(a.Evs) && i < len(b.Evs); i++ {
		x, _ := json.Marshal(a.Evs[i])
		y, _ := json.Marshal(b.Evs[i])
		if string(x) != string(y) {
			return fmt.Sprintf("call %d: %s vs %s", i, x, y)
		}
	}
	return fmt.Sprintf("one recording is a prefix of the other (%d vs %d calls)", len(a.Evs), len(b.Evs))
}

// c01show prints the document of a scenario line given on the command line.
func c01ShowMain(args []string) int {
	var s c01Scn
	if err := json.Unmarshal([]byte(strings.Join(args, " ")), &s); err != nil {
		fmt.Println(err)
		return 2
	}
	d, err := c01HTML(&s, nil)
	if err != nil {
		fmt.Println(err)
		return 2
	}
	fmt.Println(d)
	return 0
}

// c01run renders the document of a replay file (or of a scenario line) WITHOUT recovering, so that a panic prints its stack.
func c01RunMain(args []string) int {
	if len(args) < 1 {
		fmt.Println("usage: vdrive c01run <replay.json | scenario json> [cfg]")
		return 2
	}
	cfg := "pango"
	var s c01Scn
	doc := ""
	if b, err := os.ReadFile(args[0]); err == nil {
		var r struct {
			Detail struct {
				HTML string `json:"html"`
				Cfg  string `json:"cfg"`
			} `json:"detail"`
		}
		if strings.HasSuffix(args[0], ".html") {
			doc = string(b)
		} else {
			if err := json.Unmarshal(b, &r); err != nil {
				fmt.Println(err)
				return 2
			}
			doc, cfg = r.Detail.HTML, r.Detail.Cfg
		}
	} else if err := json.Unmarshal([]byte(args[0]), &s); err == nil {
		doc, _ = c01HTML(&s, nil)
	}
	if len(args) > 1 {
		cfg = args[1]
	}
	o := &drv.Opts{Engine: "pango", Files: map[string]string{}}
	for _, f := range strings.Split(cfg, "+") {
		switch f {
		case "gotext":
			o.Engine = "gotext"
		case "hints":
			o.Hints = true
		case "fullua":
			o.FullUA = true
		}
	}
	h, err := drv.Parse(doc, o)
	if err != nil {
		fmt.Println("refused:", err)
		return 0
	}
	d := document.Render(h, nil, o.Hints, drv.Fonts(o.Engine))
	r := rec.New()
	d.Write(r, 1, nil)
	fmt.Printf("returned: %d pages, %d backend calls\n", len(d.Pages), len(r.Evs))
	return 0
}
