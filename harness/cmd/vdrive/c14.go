package main

// C14 — the backend receives a well-formed, self-consistent drawing, against spec/Backend.tla.
//
// c14links: documents of ids, internal links and headings (Backend.tla part 1). The recorded CreateAnchors,
// AddInternalLink, SetBookmarks and metadata calls must be the specification's anchors per page, links per page, outline
// (parent indices) and the document's metadata.
// c14proto: any scenario of the other generators (Decor.tla boxes, Flow.tla documents, Stacking.tla and TableGrid.tla
// arrangements, Backend.tla link documents) is drawn at several zoom factors; the recorded call sequence is emitted as
// a trace record that TLC validates with BackendTrace.tla (operator Proto).

import (
	"encoding/json"
	"flag"
	"fmt"
	"math"
	"os"
	"sort"
	"strings"
	"sync"
	"verif/harness/internal/fonts"

	"github.com/benoitkugler/webrender/backend"
	"github.com/benoitkugler/webrender/html/boxes"
	"github.com/benoitkugler/webrender/utils"

	"verif/harness/internal/drv"
	"verif/harness/internal/rec"
)

func init() {
	commands["c14links"] = c14LinksMain
	commands["c14proto"] = c14ProtoMain
}

type bkItem struct {
	T     string `json:"t"`
	Name  string `json:"name"`
	Level int    `json:"level"`
	Brk   bool   `json:"brk"`
}

type bkScn struct {
	Doc     []bkItem   `json:"doc"`
	Npages  int        `json:"npages"`
	Anchors [][]string `json:"anchors"`
	Links   [][]string `json:"links"`
	Heads   []struct {
		Item   int `json:"item"`
		Page   int `json:"page"`
		Parent int `json:"parent"`
	} `json:"heads"`
}

func c14LinksHTML(s *bkScn) string {
	var b strings.Builder
	b.WriteString(`<html><head><title>The title</title><meta name="author" content="An author"><meta name="description" content="A description">` +
		`<meta name="keywords" content="k1, k2"><meta name="generator" content="gen"><style>@page{size:200px 100px;margin:10px}` +
		`body{font-family:weasyprint;font-size:8px;line-height:10px;margin:0}p,h1{margin:0;font-size:8px}</style></head><body>`)
	for i, it := range s.Doc {
		brk := ""
		if it.Brk && i > 0 {
			brk = "break-before:page;"
		}
		switch it.T {
		case "id":
			fmt.Fprintf(&b, `<p id="%s" style="%s">i%d</p>`, it.Name, brk, i+1)
		case "link":
			fmt.Fprintf(&b, `<p style="%s"><a href="#%s">l%d</a></p>`, brk, it.Name, i+1)
		case "h":
			fmt.Fprintf(&b, `<h1 style="%sbookmark-level:%d;bookmark-label:'h%d'">h%d</h1>`, brk, it.Level, i+1, i+1)
		}
	}
	b.WriteString("</body></html>")
	return b.String()
}

func c14LinksMain(args []string) int {
	return drv.Main("c14links", args, func(fs *flag.FlagSet) {}, func(line []byte, out *drv.Out) {
		var s bkScn
		if err := json.Unmarshal(line, &s); err != nil {
			out.Fatal("bad scenario: " + err.Error())
			return
		}
		doc := c14LinksHTML(&s)
		pages, r, err := drv.RenderPages(doc, &drv.Opts{})
		if err != nil {
			out.Fatal(err.Error())
			return
		}
		out.Count("documents")
		body := doc[strings.Index(doc, "<body>"):]
		detail := map[string]interface{}{"doc": doc, "scenario": json.RawMessage(line)}
		if len(pages) != s.Npages {
			out.Disagree("C14:links:page-count", fmt.Sprintf("%d pages instead of %d: %s", len(pages), s.Npages, body), detail)
			return
		}
		// anchors
		var anchorCalls int
		gotLinks := make([][]string, len(pages))
		var bm []backend.BookmarkNode
		bmCalls := 0
		meta := map[string][]string{}
		for _, e := range r.Evs {
			switch e.Op {
			case "CreateAnchors":
				anchorCalls++
				if len(e.Anch) != len(pages) {
					out.Disagree("C14:links:anchors-page-count", fmt.Sprintf("CreateAnchors got %d pages of anchors for %d pages: %s", len(e.Anch), len(pages), body), detail)
					continue
				}
				seen := map[string]int{}
				for p, as := range e.Anch {
					var names []string
					for _, a := range as {
						names = append(names, a.Name)
						seen[a.Name]++
						if math.IsNaN(float64(a.X)) || math.IsInf(float64(a.X), 0) || math.IsNaN(float64(a.Y)) || math.IsInf(float64(a.Y), 0) {
							out.Disagree("C14:links:anchor-position-not-finite", body, detail)
						}
					}
					// an anchor is at the top left corner of the FIRST box of its page that carries the id (page height 100px, 0.75pt per px)
					first := map[string][2]float64{}
					drv.Walk(pages[p], func(bx boxes.Box, _ int) bool {
						if f := bx.Box(); f.Element != nil {
							if id := (*utils.HTMLNode)(f.Element).Get("id"); id != "" {
								if _, has := first[id]; !has {
									first[id] = [2]float64{float64(f.BorderBoxX()) * 0.75, (100 - float64(f.BorderBoxY())) * 0.75}
								}
							}
						}
						return true
					})
					for _, a := range as {
						if w, ok := first[a.Name]; ok && (math.Abs(float64(a.X)-w[0]) > 0.01 || math.Abs(float64(a.Y)-w[1]) > 0.01) {
							out.Disagree("C14:links:anchor-position", fmt.Sprintf("anchor %q of page %d is at (%g, %g)pt, its first box is at (%g, %g)pt: %s", a.Name, p+1, float64(a.X), float64(a.Y), w[0], w[1], body), detail)
						}
					}
					sort.Strings(names)
					want := append([]string(nil), s.Anchors[p]...)
					sort.Strings(want)
					if strings.Join(names, ",") != strings.Join(want, ",") {
						out.Disagree("C14:links:anchors-of-page", fmt.Sprintf("page %d defines anchors %v instead of %v: %s", p+1, names, want, body), detail)
					}
				}
				for n, c := range seen {
					if c > 1 {
						out.Disagree("C14:links:anchor-defined-twice", fmt.Sprintf("anchor %q is defined %d times: %s", n, c, body), detail)
					}
				}
			case "AddInternalLink":
				if e.Page >= 0 && e.Page < len(gotLinks) && len(e.S) > 0 {
					gotLinks[e.Page] = append(gotLinks[e.Page], e.S[0])
				}
			case "SetBookmarks":
				bmCalls++
				bm = e.Bm
			case "SetTitle", "SetDescription", "SetCreator", "SetAuthors", "SetKeywords", "SetProducer":
				meta[e.Op] = append(meta[e.Op], strings.Join(e.S, "|"))
			}
		}
		if anchorCalls != 1 {
			out.Disagree("C14:links:CreateAnchors-calls", fmt.Sprintf("%d calls of CreateAnchors: %s", anchorCalls, body), detail)
		}
		for p := range pages {
			if strings.Join(gotLinks[p], ",") != strings.Join(s.Links[p], ",") {
				out.Disagree("C14:links:links-of-page", fmt.Sprintf("page %d emits internal links %v instead of %v: %s", p+1, gotLinks[p], s.Links[p], body), detail)
			}
		}
		// outline: flatten in pre-order
		type flat struct {
			label  string
			page   int
			parent int
		}
		var fl []flat
		var walk func(ns []backend.BookmarkNode, parent int)
		walk = func(ns []backend.BookmarkNode, parent int) {
			for _, n := range ns {
				fl = append(fl, flat{n.Label, n.PageIndex, parent})
				me := len(fl)
				walk(n.Children, me)
			}
		}
		walk(bm, 0)
		if len(s.Heads) > 0 && bmCalls != 1 {
			out.Disagree("C14:links:SetBookmarks-calls", fmt.Sprintf("%d calls of SetBookmarks: %s", bmCalls, body), detail)
		}
		ok := len(fl) == len(s.Heads)
		for q := 0; ok && q < len(fl); q++ {
			h := s.Heads[q]
			ok = fl[q].label == fmt.Sprintf("h%d", h.Item) && fl[q].page == h.Page-1 && fl[q].parent == h.Parent
		}
		if !ok {
			out.Disagree("C14:links:outline", fmt.Sprintf("the outline is %v instead of %+v: %s", fl, s.Heads, body), detail)
		}
		for op, want := range map[string]string{"SetTitle": "The title", "SetAuthors": "An author", "SetDescription": "A description", "SetKeywords": "k1|k2", "SetCreator": "gen"} {
			if got := strings.Join(meta[op], ";"); got != want {
				out.Disagree("C14:links:metadata:"+op, fmt.Sprintf("%s received %q instead of %q", op, got, want), detail)
			}
		}
	})
}

// ---------------------------------------------------------------------------------------------------------------------

type dcBox struct {
	W       int    `json:"w"`
	H       int    `json:"h"`
	Border  string `json:"border"`
	Bw      int    `json:"bw"`
	Radius  int    `json:"radius"`
	Bg      string `json:"bg"`
	Ovf     bool   `json:"ovf"`
	Opac    bool   `json:"opac"`
	Tf      bool   `json:"tf"`
	Outline bool   `json:"outline"`
	Txt     string `json:"txt"` // "plain" | "fallback": a text whose middle glyph is missing from the first font of the family list
}

// c14PartialFont is a font of resources_test that only has the glyphs A and a: a text mixing them with other letters is
// drawn with two fonts in one text box (font fallback).
var (
	c14PartialOnce sync.Once
	c14Partial     string
)

func c14Files() map[string]string {
	c14PartialOnce.Do(func() {
		b, err := os.ReadFile(fonts.Dir + "/weasyprint.otb_fixed")
		if err != nil {
			panic("verif: cannot read the partial font: " + err.Error())
		}
		c14Partial = string(b)
	})
	return map[string]string{"http://verif.test/partial.otf": c14Partial}
}

func c14DecorHTML(d *dcBox) string {
	st := fmt.Sprintf("width:%dpx;height:%dpx;", d.W, d.H)
	if d.Border != "none" {
		st += fmt.Sprintf("border:%dpx %s #123;", d.Bw, d.Border)
	}
	if d.Radius > 0 {
		st += fmt.Sprintf("border-radius:%dpx;", d.Radius)
	}
	switch d.Bg {
	case "color":
		st += "background:#fa0;"
	case "gradient":
		st += "background:linear-gradient(red,blue);"
	case "radial":
		st += "background:radial-gradient(red,blue);"
	case "radial-side":
		st += "background:radial-gradient(closest-side at left, red, blue);"
	case "radial-corner":
		st += "background:radial-gradient(closest-corner at top left, red, blue);"
	case "radial-zero":
		st += "background:radial-gradient(circle 0px at 50% 50%, red, blue), radial-gradient(ellipse closest-side at 0 50%, red 50%, blue 50%);"
	case "tile-repeat":
		st += "background:linear-gradient(red,blue) 0 0/7px 7px repeat;"
	case "tile-space":
		st += "background:linear-gradient(red,blue) 0 0/7px 7px space;"
	case "tile-space-one":
		st += "background:linear-gradient(red,blue) 0 0/15px 15px space;"
	case "tile-round":
		st += "background:linear-gradient(red,blue) 0 0/7px 7px round;"
	}
	if d.Ovf {
		st += "overflow:hidden;"
	}
	if d.Opac {
		st += "opacity:0.5;"
	}
	if d.Tf {
		st += "transform:rotate(10deg) scale(1.5);"
	}
	if d.Outline {
		st += "outline:2px dashed #456;"
	}
	txt, face := "x", ""
	if d.Txt == "fallback" {
		txt = `<span style="font-family:partial,weasyprint">AbA</span>`
		face = `@font-face{font-family:partial;src:url(http://verif.test/partial.otf)}`
	}
	return `<html><head><style>` + face + `@page{size:100px 100px;margin:10px}body{margin:0;font-family:weasyprint;font-size:8px;line-height:10px}</style></head><body>` +
		`<div style="` + st + `">` + txt + `</div><div style="` + st + `"></div></body></html>`
}

type c14Ev struct {
	Op    string   `json:"op"`
	C     int      `json:"c"`
	Fin   bool     `json:"fin"`
	Fonts []string `json:"fonts"`
	A     int      `json:"a"`
	Pg    int      `json:"pg"`
}

var c14Keep = map[string]bool{"AddPage": true, "Rectangle": true, "MoveTo": true, "LineTo": true, "CubicTo": true, "ClosePath": true, "Paint": true, "Clip": true,
	"AddFont": true, "DrawText": true, "SetAlpha": true, "DrawWithOpacity": true, "SetDash": true}

func c14Project(r *rec.Doc) []c14Ev {
	var evs []c14Ev
	npage := 0
	for _, e := range r.Evs {
		fin := true
		for _, x := range e.N {
			if math.IsNaN(x) || math.IsInf(x, 0) {
				fin = false
			}
		}
		if !c14Keep[e.Op] && fin {
			continue
		}
		x := c14Ev{Op: e.Op, C: e.C, Fin: fin, Fonts: []string{}}
		switch e.Op {
		case "AddPage":
			x.Pg = npage
			npage++
		case "AddFont", "DrawText":
			x.Fonts = append(x.Fonts, e.Fonts...)
		case "SetAlpha", "DrawWithOpacity":
			if len(e.N) > 0 && fin {
				x.A = int(math.Round(e.N[0] * 1000))
			}
		case "SetDash":
			m := 0.0
			for k, v := range e.N {
				if k < len(e.N)-1 && v < m { // the last number is the offset
					m = v
				}
			}
			if fin {
				x.A = int(math.Floor(m * 1000))
			}
		}
		evs = append(evs, x)
	}
	return evs
}

var c14Kind = "decor"

func c14ProtoMain(args []string) int {
	return drv.Main("c14proto", args, func(fs *flag.FlagSet) {
		fs.StringVar(&c14Kind, "kind", "decor", "scenario kind: decor | c02 | c13 | c16 | links")
	}, func(line []byte, out *drv.Out) {
		var doc string
		switch c14Kind {
		case "decor":
			var d dcBox
			if err := json.Unmarshal(line, &d); err != nil {
				out.Fatal("bad scenario: " + err.Error())
				return
			}
			doc = c14DecorHTML(&d)
		case "c02":
			var s flScn
			if err := json.Unmarshal(line, &s); err != nil {
				out.Fatal("bad scenario: " + err.Error())
				return
			}
			doc = c02HTML(&s)
		case "c13":
			var s tgScn
			if err := json.Unmarshal(line, &s); err != nil {
				out.Fatal("bad scenario: " + err.Error())
				return
			}
			doc = c13HTML(&s, 4*(out.Cur%2)) // (every other table has column boxes with backgrounds)
		case "c16":
			var s stScn
			if err := json.Unmarshal(line, &s); err != nil {
				out.Fatal("bad scenario: " + err.Error())
				return
			}
			doc = c16HTML(&s)
		case "links":
			var s bkScn
			if err := json.Unmarshal(line, &s); err != nil {
				out.Fatal("bad scenario: " + err.Error())
				return
			}
			doc = c14LinksHTML(&s)
		default:
			out.Fatal("unknown kind " + c14Kind)
			return
		}
		zooms := []float64{1, 0.5, 3}
		z := zooms[out.Cur%len(zooms)]
		o := &drv.Opts{Zoom: float32(z)}
		if strings.Contains(doc, "verif.test/partial.otf") {
			o.Files = c14Files()
			o.MimeType = map[string]string{"http://verif.test/partial.otf": "font/otf"}
			o.FreshFC = true // (@font-face adds the font to the configuration: not to the shared one)
		}
		pages, r, err := drv.RenderPages(doc, o)
		if err != nil {
			out.Fatal(err.Error())
			return
		}
		out.Count("documents")
		evs := c14Project(r)
		out.Add("calls", len(r.Evs))
		body := doc[strings.Index(doc, "<body>"):]
		out.Emit(map[string]interface{}{"evs": evs, "laidout": len(pages), "zoom": z, "html": body, "kind": c14Kind})
	})
}
