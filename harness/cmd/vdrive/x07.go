package main

// X07 (extra coverage, not a listed property) — counter representations of @counter-style rules, against spec/CounterStyle.tla.

import (
	"encoding/json"
	"flag"
	"fmt"
	"strings"

	"github.com/benoitkugler/webrender/html/boxes"

	"verif/harness/internal/drv"
)

func init() { commands["x07"] = x07Main }

type x07Style struct {
	Sys   string   `json:"sys"`
	Syms  []string `json:"syms"`
	First int      `json:"first"`
	Adds  []struct {
		W int    `json:"w"`
		S string `json:"s"`
	} `json:"adds"`
	Fb    string        `json:"fb"`
	Base  string        `json:"base"`
	Range []interface{} `json:"range"`
	Neg   []string      `json:"neg"`
	Pad   []interface{} `json:"pad"`
}

func (s *x07Style) rule(name string) string {
	var b strings.Builder
	fmt.Fprintf(&b, "@counter-style %s{system:%s", name, s.Sys)
	if s.Sys == "extends" {
		b.WriteString(" " + s.Base)
	}
	if s.Sys == "fixed" {
		fmt.Fprintf(&b, " %d", s.First)
	}
	if len(s.Syms) > 0 {
		b.WriteString(";symbols:")
		for _, y := range s.Syms {
			fmt.Fprintf(&b, " %q", y)
		}
	}
	if len(s.Adds) > 0 {
		b.WriteString(";additive-symbols:")
		for i, a := range s.Adds {
			if i > 0 {
				b.WriteString(",")
			}
			fmt.Fprintf(&b, " %d %q", a.W, a.S)
		}
	}
	if len(s.Range) == 2 {
		fmt.Fprintf(&b, ";range:%v %v", s.Range[0], s.Range[1])
	}
	fmt.Fprintf(&b, ";negative:%q", s.Neg[0])
	if s.Neg[1] != "" {
		fmt.Fprintf(&b, " %q", s.Neg[1])
	}
	if n, _ := s.Pad[0].(float64); n > 0 {
		fmt.Fprintf(&b, ";pad:%d %q", int(n), s.Pad[1])
	}
	if s.Fb != "decimal" {
		b.WriteString(";fallback:" + s.Fb)
	}
	b.WriteString(";suffix:''}@counter-style st2{system:fixed;symbols:'x' 'y';fallback:st;suffix:''}")
	return b.String()
}

func x07Main(args []string) int {
	return drv.Main("x07", args, func(fs *flag.FlagSet) {}, func(line []byte, out *drv.Out) {
		var s struct {
			Style x07Style `json:"style"`
			Val   int      `json:"val"`
			Text  string   `json:"text"`
			Fell  int      `json:"fell"`
		}
		if err := json.Unmarshal(line, &s); err != nil {
			out.Fatal("bad scenario: " + err.Error())
			return
		}
		rule := s.Style.rule("st")
		// the value is shown through counter() in generated content (even scenarios) or through the marker of a list item (odd)
		marker := out.Cur%2 == 1
		var doc string
		head := `<html><head><style>@page{size:2000px 400px;margin:0}html,body{display:block;margin:0}body{font-family:weasyprint;font-size:8px}` + rule
		if marker {
			doc = head + fmt.Sprintf(`p{display:list-item;list-style:st inside;counter-reset:list-item %d}</style></head><body><p></p></body></html>`, s.Val-1)
		} else {
			doc = head + fmt.Sprintf(`p{counter-reset:k %d}p::before{content:counter(k, st)}</style></head><body><p></p></body></html>`, s.Val)
		}
		pages, err := drv.Layout(doc, &drv.Opts{})
		if err != nil || len(pages) != 1 {
			out.Fatal(fmt.Sprint("layout: ", err, len(pages)))
			return
		}
		out.Count("documents")
		var got strings.Builder
		drv.Walk(pages[0], func(bx boxes.Box, _ int) bool {
			if tb, ok := bx.(*boxes.TextBox); ok {
				got.WriteString(tb.TextS())
			}
			return true
		})
		if g := got.String(); g != s.Text {
			how := "counter()"
			if marker {
				how = "marker"
			}
			fb := ""
			if s.Fell > 0 {
				fb = ":fallback"
			}
			out.Disagree("counter-style:"+s.Style.Sys+fb, fmt.Sprintf("%s value %d (%s) prints %q, CSS Counter Styles 3 requires %q", rule, s.Val, how, g, s.Text), map[string]interface{}{"doc": doc, "scenario": json.RawMessage(line)})
		}
	})
}
