package main

// X08 (extra coverage, not a listed property) — grid item placement (CSS Grid 8.5), against spec/GridPlace.tla.

import (
	"encoding/json"
	"flag"
	"fmt"
	"math"
	"strings"

	"github.com/benoitkugler/webrender/html/boxes"
	"github.com/benoitkugler/webrender/utils"

	"verif/harness/internal/drv"
)

func init() { commands["x08"] = x08Main }

func x08Main(args []string) int {
	return drv.Main("x08", args, func(fs *flag.FlagSet) {}, func(line []byte, out *drv.Out) {
		var s struct {
			Items []struct {
				C  int `json:"c"`
				Cs int `json:"cs"`
				R  int `json:"r"`
				Rs int `json:"rs"`
			} `json:"items"`
			Dense bool `json:"dense"`
			Pos   []struct {
				C int `json:"c"`
				R int `json:"r"`
			} `json:"pos"`
			Ncols int `json:"ncols"`
		}
		if err := json.Unmarshal(line, &s); err != nil {
			out.Fatal("bad scenario: " + err.Error())
			return
		}
		var b strings.Builder
		flow := "row"
		if s.Dense {
			flow = "row dense"
		}
		fmt.Fprintf(&b, `<div style="display:grid;grid-template-columns:10px 10px 10px;grid-auto-columns:10px;grid-auto-rows:10px;grid-auto-flow:%s;width:100px">`, flow)
		var classes []string
		for i, it := range s.Items {
			line := func(start, span int) string {
				if start == 0 {
					if out.Cur%2 == 1 {
						return fmt.Sprintf("span %d", span) // (the other spelling of an automatic position with a span)
					}
					return fmt.Sprintf("auto / span %d", span)
				}
				return fmt.Sprintf("%d / span %d", start, span)
			}
			fmt.Fprintf(&b, `<div id="i%d" style="grid-column:%s;grid-row:%s"></div>`, i+1, line(it.C, it.Cs), line(it.R, it.Rs))
			cl := ""
			switch {
			case it.C != 0 && it.R != 0:
				cl = "definite"
			case it.R != 0:
				cl = "row-locked"
			case it.C != 0:
				cl = "column-locked"
			default:
				cl = "auto"
			}
			classes = append(classes, cl)
		}
		b.WriteString("</div>")
		doc := `<html><head><style>@page{size:400px 400px;margin:0} html,body{display:block;margin:0;padding:0} div div{display:block}</style></head><body>` + b.String() + `</body></html>`
		pages, err := drv.Layout(doc, &drv.Opts{})
		if err != nil || len(pages) != 1 {
			out.Fatal(fmt.Sprint("layout: ", err, len(pages)))
			return
		}
		out.Count("grids")
		got := map[int][4]float64{}
		drv.Walk(pages[0], func(bx boxes.Box, _ int) bool {
			f := bx.Box()
			if f.Element != nil {
				var n int
				if _, err := fmt.Sscanf((*utils.HTMLNode)(f.Element).Get("id"), "i%d", &n); err == nil {
					got[n] = [4]float64{float64(f.PositionX), float64(f.PositionY), float64(f.MarginWidth()), float64(f.MarginHeight())}
				}
			}
			return true
		})
		mode := "sparse"
		if s.Dense {
			mode = "dense"
		}
		for i, p := range s.Pos {
			g, ok := got[i+1]
			if !ok {
				out.Disagree("grid-placement:item-missing", fmt.Sprintf("item %d has no box: %s", i+1, b.String()), map[string]interface{}{"doc": doc})
				return
			}
			wx, wy := float64(p.C-1)*10, float64(p.R-1)*10
			ww, wh := float64(s.Items[i].Cs)*10, float64(s.Items[i].Rs)*10
			if math.Abs(g[0]-wx) > 0.01 || math.Abs(g[1]-wy) > 0.01 || math.Abs(g[2]-ww) > 0.01 || math.Abs(g[3]-wh) > 0.01 {
				out.Disagree("grid-placement:"+mode+":"+classes[i], fmt.Sprintf("%s: item %d is at column %g row %g (%gx%g px), CSS Grid 8.5 requires column %d row %d (%gx%g px)", b.String(), i+1, g[0]/10+1, g[1]/10+1, g[2], g[3], p.C, p.R, ww, wh),
					map[string]interface{}{"doc": doc, "scenario": json.RawMessage(line)})
				return
			}
		}
	})
}
