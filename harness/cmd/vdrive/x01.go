package main

// X01 (extra coverage, not a listed property) — used values of absolutely positioned boxes, against spec/AbsPos.tla.

import (
	"encoding/json"
	"flag"
	"fmt"
	"math"

	"github.com/benoitkugler/webrender/html/boxes"

	"verif/harness/internal/drv"
)

func init() { commands["x01"] = x01Main }

type x01Vals struct {
	A    int `json:"a"`
	Size int `json:"size"`
	B    int `json:"b"`
	Ma   int `json:"ma"`
	Mb   int `json:"mb"`
	Pad  int `json:"pad"`
	Bor  int `json:"bor"`
}

func x01Px(v int) string {
	if v == -1000 {
		return "auto"
	}
	return fmt.Sprintf("%dpx", v)
}

func x01Main(args []string) int {
	return drv.Main("x01", args, func(fs *flag.FlagSet) {}, func(line []byte, out *drv.Out) {
		var s struct {
			Axis string  `json:"axis"`
			Scn  x01Vals `json:"scn"`
			Used x01Vals `json:"used"`
		}
		if err := json.Unmarshal(line, &s); err != nil {
			out.Fatal("bad scenario: " + err.Error())
			return
		}
		v := s.Scn
		var decl string
		if s.Axis == "x" {
			decl = fmt.Sprintf("left:%s;width:%s;right:%s;margin-left:%s;margin-right:%s;padding:0 %dpx;border-width:0 %dpx", x01Px(v.A), x01Px(v.Size), x01Px(v.B), x01Px(v.Ma), x01Px(v.Mb), v.Pad, v.Bor)
		} else {
			decl = fmt.Sprintf("top:%s;height:%s;bottom:%s;margin-top:%s;margin-bottom:%s;padding:%dpx 0;border-width:%dpx 0", x01Px(v.A), x01Px(v.Size), x01Px(v.B), x01Px(v.Ma), x01Px(v.Mb), v.Pad, v.Bor)
		}
		doc := `<html><head><style>@page{size:400px 400px;margin:0}html,body{display:block;margin:0;padding:0}body{font-family:weasyprint;font-size:8px;line-height:10px}` +
			`div{display:block}#cb{position:relative;width:94px;height:54px;padding:3px;margin:20px 0 0 30px;border:2px solid}#a{position:absolute;border-style:solid;` + decl + `}</style></head>` +
			`<body><div id="cb"><div id="a">xx</div></div></body></html>`
		pages, err := drv.Layout(doc, &drv.Opts{})
		if err != nil || len(pages) != 1 {
			out.Fatal(fmt.Sprint("layout: ", err, len(pages)))
			return
		}
		out.Count("boxes")
		var cb, a *boxes.BoxFields
		drv.Walk(pages[0], func(bx boxes.Box, _ int) bool {
			f := bx.Box()
			if f.Element != nil {
				for _, at := range f.Element.Attr {
					if at.Key == "id" && at.Val == "cb" && cb == nil {
						cb = f
					}
					if at.Key == "id" && at.Val == "a" && a == nil {
						a = f
					}
				}
			}
			return true
		})
		if cb == nil || a == nil {
			out.Disagree("abspos:no-box", doc, map[string]interface{}{"doc": doc})
			return
		}
		var start, size, ma, mb, end float64
		if s.Axis == "x" {
			origin := float64(cb.BorderBoxX()) + 2
			start = float64(a.BorderBoxX()) - origin
			size = float64(a.Width.V())
			ma, mb = float64(a.MarginLeft.V()), float64(a.MarginRight.V())
			end = 100 - (start + float64(a.BorderWidth()))
		} else {
			origin := float64(cb.BorderBoxY()) + 2
			start = float64(a.BorderBoxY()) - origin
			size = float64(a.Height.V())
			ma, mb = float64(a.MarginTop.V()), float64(a.MarginBottom.V())
			end = 60 - (start + float64(a.BorderHeight()))
		}
		u := s.Used
		near := func(x float64, y int) bool { return math.Abs(x-float64(y)) < 1.0/64 }
		kind := func() string {
			k := s.Axis + ":"
			for _, p := range []struct {
				n string
				v int
			}{{"a", v.A}, {"size", v.Size}, {"b", v.B}, {"ma", v.Ma}, {"mb", v.Mb}} {
				if p.v == -1000 {
					k += p.n + "-auto,"
				}
			}
			return k
		}
		// (positions only: where the rules leave a choice of representation - over-constrained values - the implementation
		// stores the slack in the end margin instead of the end offset, which places the box identically)
		_, _ = ma, mb
		if !near(start, u.A+u.Ma) || !near(size, u.Size) || !near(end, u.B+u.Mb) {
			out.Disagree("abspos:"+kind(), fmt.Sprintf("#a{%s}: border box starts at %g, size %g, margins %g / %g, ends %g before the far edge; CSS 2.1 10.3.7 / 10.6.4 require %d, %d, %d / %d, %d",
				decl, start, size, ma, mb, end, u.A+u.Ma, u.Size, u.Ma, u.Mb, u.B+u.Mb), map[string]interface{}{"doc": doc, "scenario": json.RawMessage(line)})
		}
	})
}
