package main

// C14, metadata clause — <title> / <meta> metadata is forwarded unchanged, against spec/Metadata.tla.

import (
	"encoding/json"
	"flag"
	"fmt"
	"strings"

	"verif/harness/internal/drv"
)

func init() { commands["c14meta"] = c14MetaMain }

func c14Text(cps []int, attr bool) string {
	var b strings.Builder
	for _, c := range cps {
		if (c >= 'a' && c <= 'z') || (c >= 'A' && c <= 'Z') || (c >= '0' && c <= '9') || (c == ' ' && !attr) {
			b.WriteRune(rune(c))
		} else {
			fmt.Fprintf(&b, "&#%d;", c)
		}
	}
	return b.String()
}

func c14Str(cps []int) string {
	var b strings.Builder
	for _, c := range cps {
		b.WriteRune(rune(c))
	}
	return b.String()
}

func c14MetaMain(args []string) int {
	return drv.Main("c14meta", args, func(fs *flag.FlagSet) {}, func(line []byte, out *drv.Out) {
		var s struct {
			Els []struct {
				K string `json:"k"`
				V []int  `json:"v"`
			} `json:"els"`
			Title   []int   `json:"title"`
			Desc    []int   `json:"desc"`
			Gen     []int   `json:"gen"`
			Kws     [][]int `json:"kws"`
			Authors [][]int `json:"authors"`
		}
		if err := json.Unmarshal(line, &s); err != nil {
			out.Fatal("bad scenario: " + err.Error())
			return
		}
		var b strings.Builder
		b.WriteString("<html><head>")
		for _, e := range s.Els {
			if e.K == "title" {
				b.WriteString("<title>" + c14Text(e.V, false) + "</title>")
			} else {
				fmt.Fprintf(&b, `<meta name="%s" content="%s">`, e.K, c14Text(e.V, true))
			}
		}
		b.WriteString(`<style>@page{size:100px 50px;margin:5px}</style></head><body><p>x</p></body></html>`)
		doc := b.String()
		_, r, err := drv.Render(doc, &drv.Opts{})
		if err != nil {
			out.Fatal(err.Error())
			return
		}
		out.Count("documents")
		got := map[string][]string{}
		calls := map[string]int{}
		for _, e := range r.Evs {
			switch e.Op {
			case "SetTitle", "SetDescription", "SetCreator", "SetAuthors", "SetKeywords":
				got[e.Op] = e.S
				calls[e.Op]++
			}
		}
		list := func(v [][]int) []string {
			o := []string{}
			for _, x := range v {
				o = append(o, c14Str(x))
			}
			return o
		}
		want := map[string][]string{"SetTitle": {c14Str(s.Title)}, "SetDescription": {c14Str(s.Desc)}, "SetCreator": {c14Str(s.Gen)}, "SetAuthors": list(s.Authors), "SetKeywords": list(s.Kws)}
		for op, w := range want {
			g := got[op]
			// a call with an empty value may be omitted
			if calls[op] == 0 && (len(w) == 0 || (len(w) == 1 && w[0] == "")) {
				continue
			}
			if calls[op] > 1 {
				out.Disagree("C14:metadata:"+op+":called-twice", fmt.Sprintf("%s called %d times: %s", op, calls[op], doc), map[string]interface{}{"doc": doc})
				return
			}
			if fmt.Sprintf("%q", g) != fmt.Sprintf("%q", w) && !(len(g) == 0 && len(w) == 0) {
				out.Disagree("C14:metadata:"+op, fmt.Sprintf("%s received %q, HTML requires %q: %s", op, g, w, doc), map[string]interface{}{"doc": doc, "scenario": json.RawMessage(line)})
				return
			}
		}
	})
}
