package main

// C08 — what declarations mean, against spec/Declarations.tla.

import (
	"encoding/json"
	"flag"
	"fmt"
	"math"
	"sort"
	"strings"

	"github.com/benoitkugler/webrender/css/parser"
	pr "github.com/benoitkugler/webrender/css/properties"
	"github.com/benoitkugler/webrender/css/validation"

	"verif/harness/internal/drv"
)

func init() { commands["c08"] = c08Main }

type c08Def struct {
	K   string `json:"k"`
	V   int    `json:"v"`
	To  string `json:"to"`
	To2 string `json:"to2"`
	Fb  int    `json:"fb"`
}

type c08Scn struct {
	Mode string          `json:"mode"`
	Scn  json.RawMessage `json:"scn"`
	Want int             `json:"want"`
	Pair []int           `json:"pair"`
	// blocks
	Block  []string `json:"block"`
	Top    int      `json:"top"`
	Bottom int      `json:"bottom"`
	// shorthands
	Trbl    []int             `json:"trbl"`
	Flex    []json.RawMessage `json:"flex"`
	Columns []string          `json:"columns"`
}

func c08Main(args []string) int {
	return drv.Main("c08", args, func(fs *flag.FlagSet) {
		fs.StringVar(&c08MetaPath, "meta", "", "property-index data of Defaulting.tla")
	}, func(line []byte, out *drv.Out) {
		var s c08Scn
		if err := json.Unmarshal(line, &s); err != nil {
			out.Fatal("bad scenario: " + err.Error())
			return
		}
		switch s.Mode {
		case "vars":
			c08Vars(&s, line, out)
		case "blocks":
			c08Blocks(&s, line, out)
		case "shorthands":
			c08Shorthands(&s, line, out)
		case "spellings":
			c08Spellings(&s, line, out)
		}
	})
}

func c08Probe(doc string) (pr.ElementStyle, error) {
	n, err := c04Styles(doc)
	if err != nil {
		return nil, err
	}
	return n.sf.Get(n.nodes[2], ""), nil
}

func pxOf(v pr.DimOrS) (float64, bool) {
	if v.S != "" || v.Unit != pr.Px {
		return 0, false
	}
	return float64(v.Value), true
}

// ------------------------------------------------------------------ vars

func c08Vars(s *c08Scn, line []byte, out *drv.Out) {
	var sc struct {
		Defs    map[string]c08Def `json:"defs"`
		ProbeFb int               `json:"probefb"`
		Prop    string            `json:"prop"`
	}
	if err := json.Unmarshal(s.Scn, &sc); err != nil {
		out.Fatal(err.Error())
		return
	}
	var b strings.Builder
	cyc := false
	for _, name := range []string{"c", "a", "b"} { // declaration order must not matter
		d := sc.Defs[name]
		switch d.K {
		case "lit":
			b.WriteString(fmt.Sprintf("--%s: %dpx; ", name, d.V))
		case "bad":
			b.WriteString(fmt.Sprintf("--%s: red; ", name))
		case "ref":
			if d.Fb == 0 {
				b.WriteString(fmt.Sprintf("--%s: var(--%s); ", name, d.To))
			} else {
				b.WriteString(fmt.Sprintf("--%s: var(--%s, %dpx); ", name, d.To, d.Fb))
			}
			if d.To == name {
				cyc = true
			}
		case "nest":
			b.WriteString(fmt.Sprintf("--%s: var(--%s, var(--%s, 3px)); ", name, d.To, d.To2))
		}
	}
	if sc.Prop == "pair" {
		doc := `<html><head><style>p{ ` + b.String() + `margin: var(--a, 1px) var(--b, 2px) }</style></head><body><p>x</p></body></html>`
		out.Count("vars")
		st, err := c08Probe(doc)
		if err != nil {
			out.Fatal(err.Error())
			return
		}
		t, ok1 := pxOf(st.GetMarginTop())
		r, ok2 := pxOf(st.GetMarginRight())
		if !ok1 || !ok2 || t != float64(s.Pair[0]) || r != float64(s.Pair[1]) {
			out.Disagree("var:two-references", fmt.Sprintf("%s: margin-top/right compute to %v/%v, CSS requires %d/%d px", doc, st.GetMarginTop(), st.GetMarginRight(), s.Pair[0], s.Pair[1]), map[string]interface{}{"doc": doc})
		}
		return
	}
	probe := "var(--a)"
	if sc.ProbeFb != 0 {
		probe = fmt.Sprintf("var(--a, %dpx)", sc.ProbeFb)
	}
	doc := `<html><head><style>p{ ` + b.String() + sc.Prop + `: ` + probe + ` }</style></head><body style="text-indent:4px"><p>x</p></body></html>`
	out.Count("vars")
	st, err := c08Probe(doc)
	if err != nil {
		out.Fatal(err.Error())
		return
	}
	var got pr.DimOrS
	var wantTxt string
	want := float64(s.Want)
	if sc.Prop == "width" {
		got = st.GetWidth()
		if s.Want == 0 {
			wantTxt = "auto"
		}
	} else {
		got = st.GetTextIndent()
		if s.Want == 0 {
			want = 4 // inherited
		}
	}
	key := "var:" + sc.Prop
	if cyc {
		key += ":self-reference"
	}
	if s.Want == 0 {
		key += ":invalid-at-computed-value-time"
	} else if sc.Defs["a"].K == "ref" {
		key += ":chain"
	}
	if wantTxt == "auto" {
		if got.S != "auto" {
			out.Disagree(key, fmt.Sprintf("%s: width computes to %v, CSS requires auto (invalid at computed-value time)", doc, got), map[string]interface{}{"doc": doc, "got": fmt.Sprint(got)})
		}
		return
	}
	if v, ok := pxOf(got); !ok || math.Abs(v-want) > 1e-4 {
		out.Disagree(key, fmt.Sprintf("%s: %s computes to %v, CSS requires %gpx", doc, sc.Prop, got, want), map[string]interface{}{"doc": doc, "got": fmt.Sprint(got), "want": want})
	}
}

// ------------------------------------------------------------------ blocks

var c08Decl = map[string]string{
	"A1": "margin-top:1px", "A2": "margin-top:2px", "SH3": "margin:3px", "BADVAL": "margin-top:red", "UNKNOWN": "zzz-top:8px",
	"VAR4": "margin-top:var(--m)", "EMPTY": "margin-top:", "IMPA5": "margin-top:5px !important",
}

func c08Blocks(s *c08Scn, line []byte, out *drv.Out) {
	var parts []string
	for _, d := range s.Block {
		parts = append(parts, c08Decl[d])
	}
	doc := `<html><body style="--m:4px"><p style="` + strings.Join(parts, ";") + `">x</p></body></html>`
	out.Count("blocks")
	st, err := c08Probe(doc)
	if err != nil {
		out.Fatal(err.Error())
		return
	}
	t, ok1 := pxOf(st.GetMarginTop())
	bt, ok2 := pxOf(st.GetMarginBottom())
	if !ok1 || !ok2 || t != float64(s.Top) || bt != float64(s.Bottom) {
		bad := "valid-only"
		for _, d := range s.Block {
			switch d {
			case "BADVAL", "UNKNOWN", "EMPTY":
				bad = "with-" + strings.ToLower(d)
			}
		}
		out.Disagree("block:"+bad, fmt.Sprintf("%s: margin-top/bottom compute to %v/%v, the block means %d/%d px", doc, st.GetMarginTop(), st.GetMarginBottom(), s.Top, s.Bottom),
			map[string]interface{}{"doc": doc, "block": s.Block})
	}
}

// ------------------------------------------------------------------ shorthands

var (
	c08Styles = []string{"", "solid", "dotted", "dashed", "double"}
	c08Colors = []string{"", "rgb(1, 0, 0)", "rgb(2, 0, 0)", "rgb(3, 0, 0)", "rgb(4, 0, 0)"}
	c08Sides  = []string{"top", "right", "bottom", "left"}
)

func c08Shorthands(s *c08Scn, line []byte, out *drv.Out) {
	var sc struct {
		Kind string          `json:"kind"`
		S    json.RawMessage `json:"s"`
	}
	json.Unmarshal(s.Scn, &sc)
	out.Count("shorthands")
	switch sc.Kind {
	case "trbl":
		var t struct {
			Fam  string `json:"fam"`
			Vals []int  `json:"vals"`
		}
		json.Unmarshal(sc.S, &t)
		var vals []string
		for _, v := range t.Vals {
			switch t.Fam {
			case "border-style":
				vals = append(vals, c08Styles[v])
			case "border-color":
				vals = append(vals, c08Colors[v])
			default:
				vals = append(vals, fmt.Sprintf("%dpx", v))
			}
		}
		pre := ""
		if t.Fam == "border-width" {
			pre = "border-style:solid;"
		}
		doc := `<html><body><p style="` + pre + t.Fam + `:` + strings.Join(vals, " ") + `">x</p></body></html>`
		st, err := c08Probe(doc)
		if err != nil {
			out.Fatal(err.Error())
			return
		}
		for i, side := range c08Sides {
			var got, want string
			w := s.Trbl[i]
			switch t.Fam {
			case "margin":
				got = fmt.Sprint([]pr.DimOrS{st.GetMarginTop(), st.GetMarginRight(), st.GetMarginBottom(), st.GetMarginLeft()}[i].Value)
				want = fmt.Sprint(float32(w))
			case "padding":
				got = fmt.Sprint([]pr.DimOrS{st.GetPaddingTop(), st.GetPaddingRight(), st.GetPaddingBottom(), st.GetPaddingLeft()}[i].Value)
				want = fmt.Sprint(float32(w))
			case "border-width":
				got = fmt.Sprint([]pr.DimOrS{st.GetBorderTopWidth(), st.GetBorderRightWidth(), st.GetBorderBottomWidth(), st.GetBorderLeftWidth()}[i].Value)
				want = fmt.Sprint(float32(w))
			case "border-style":
				got = string([]pr.String{st.GetBorderTopStyle(), st.GetBorderRightStyle(), st.GetBorderBottomStyle(), st.GetBorderLeftStyle()}[i])
				want = c08Styles[w]
			case "border-color":
				c := []pr.Color{st.GetBorderTopColor(), st.GetBorderRightColor(), st.GetBorderBottomColor(), st.GetBorderLeftColor()}[i]
				got = fmt.Sprint(int(c.RGBA.R*255 + 0.5))
				want = fmt.Sprint(w)
			}
			if got != want {
				out.Disagree(fmt.Sprintf("shorthand:%s:%d-values", t.Fam, len(t.Vals)), fmt.Sprintf("%s: %s side is %s, CSS requires %s", doc, side, got, want), map[string]interface{}{"doc": doc})
				return
			}
		}
	case "border":
		var t struct {
			Sh    string   `json:"sh"`
			Parts []string `json:"parts"`
		}
		json.Unmarshal(sc.S, &t)
		has := map[string]bool{}
		var vals []string
		for _, p := range t.Parts {
			has[p] = true
			vals = append(vals, map[string]string{"width": "7px", "style": "dotted", "color": "rgb(1, 2, 3)"}[p])
		}
		// every longhand is first set to a non-initial value: an omitted part must be reset by the shorthand
		var pre string
		switch t.Sh {
		case "border", "border-top", "border-left":
			for _, side := range c08Sides {
				pre += fmt.Sprintf("border-%s-width:1px;border-%s-style:solid;border-%s-color:rgb(200, 0, 0);", side, side, side)
			}
		case "outline":
			pre = "outline-width:1px;outline-style:solid;outline-color:rgb(200, 0, 0);"
		case "column-rule":
			pre = "column-rule-width:1px;column-rule-style:solid;column-rule-color:rgb(200, 0, 0);"
		}
		doc := `<html><body><p style="color:rgb(9, 9, 9);` + pre + t.Sh + `:` + strings.Join(vals, " ") + `">x</p></body></html>`
		st, err := c08Probe(doc)
		if err != nil {
			out.Fatal(err.Error())
			return
		}
		wantStyle := "none"
		if has["style"] {
			wantStyle = "dotted"
		}
		wantWidth := pr.Float(0) // computed width is 0 when the style is none
		if has["style"] {
			wantWidth = 3 // medium
			if has["width"] {
				wantWidth = 7
			}
		}
		wantR := 9 // currentcolor
		if has["color"] {
			wantR = 1
		}
		type side struct {
			w pr.DimOrS
			s pr.String
			c pr.Color
		}
		var affected, untouched []side
		all := []side{
			{st.GetBorderTopWidth(), st.GetBorderTopStyle(), st.GetBorderTopColor()}, {st.GetBorderRightWidth(), st.GetBorderRightStyle(), st.GetBorderRightColor()},
			{st.GetBorderBottomWidth(), st.GetBorderBottomStyle(), st.GetBorderBottomColor()}, {st.GetBorderLeftWidth(), st.GetBorderLeftStyle(), st.GetBorderLeftColor()},
		}
		switch t.Sh {
		case "border":
			affected = all
		case "border-top":
			affected, untouched = all[:1], all[1:]
		case "border-left":
			affected, untouched = all[3:], all[:3]
		case "outline":
			affected = []side{{st.GetOutlineWidth(), st.GetOutlineStyle(), st.GetOutlineColor()}}
		case "column-rule":
			affected = []side{{st.GetColumnRuleWidth(), st.GetColumnRuleStyle(), st.GetColumnRuleColor()}}
		}
		resolveR := func(c pr.Color) int {
			if c.Type == parser.ColorCurrentColor {
				return 9
			}
			return int(c.RGBA.R*255 + 0.5)
		}
		for _, a := range affected {
			if a.w.Value != wantWidth || string(a.s) != wantStyle || resolveR(a.c) != wantR {
				out.Disagree("shorthand:"+t.Sh+":"+strings.Join(t.Parts, "+"), fmt.Sprintf("%s: got width %v style %v color-red %d, CSS requires %v %s %d", doc, a.w.Value, a.s, resolveR(a.c), wantWidth, wantStyle, wantR),
					map[string]interface{}{"doc": doc})
				return
			}
		}
		for _, u := range untouched {
			if u.w.Value != 1 || string(u.s) != "solid" || resolveR(u.c) != 200 {
				out.Disagree("shorthand:"+t.Sh+":touches-other-sides", fmt.Sprintf("%s: a side the shorthand does not cover changed", doc), map[string]interface{}{"doc": doc})
				return
			}
		}
	case "columns":
		var t struct {
			T string `json:"t"`
		}
		json.Unmarshal(sc.S, &t)
		doc := `<html><body><p style="font-size:10px;column-width:55px;column-count:7;columns:` + t.T + `">x</p></body></html>`
		st, err := c08Probe(doc)
		if err != nil {
			out.Fatal(err.Error())
			return
		}
		gw, gc := "auto", "auto"
		if w := st.GetColumnWidth(); w.S == "" {
			gw = fmt.Sprintf("%gem", float64(w.Value)/10)
		}
		if c := st.GetColumnCount(); c.String == "" {
			gc = fmt.Sprint(c.Int)
		}
		if gw != s.Columns[0] || gc != s.Columns[1] {
			out.Disagree("shorthand:columns:"+t.T, fmt.Sprintf("%s: columns computes to width %s count %s, CSS requires %s %s", doc, gw, gc, s.Columns[0], s.Columns[1]), map[string]interface{}{"doc": doc})
		}
	case "list-style", "flex-flow":
		var t struct {
			Parts []string `json:"parts"`
		}
		json.Unmarshal(sc.S, &t)
		has := map[string]bool{}
		var vals []string
		text := map[string]string{"type": "square", "position": "inside", "image": "url(http://verif.test/i.png)", "direction": "column", "wrap": "wrap"}
		for _, p := range t.Parts {
			has[p] = true
			vals = append(vals, text[p])
		}
		var doc string
		if sc.Kind == "list-style" {
			doc = `<html><body><p style="list-style-type:decimal;list-style-position:inside;list-style-image:url(http://verif.test/j.png);list-style:` + strings.Join(vals, " ") + `">x</p></body></html>`
		} else {
			doc = `<html><body><p style="flex-direction:row-reverse;flex-wrap:wrap-reverse;flex-flow:` + strings.Join(vals, " ") + `">x</p></body></html>`
		}
		// reference: the same longhands written out, omitted parts at their initial value
		pick := func(part, set, initial string) string {
			if has[part] {
				return set
			}
			return initial
		}
		var ref string
		if sc.Kind == "list-style" {
			ref = `<html><body><p style="list-style-type:` + pick("type", "square", "disc") + `;list-style-position:` + pick("position", "inside", "outside") + `;list-style-image:` + pick("image", "url(http://verif.test/i.png)", "none") + `">x</p></body></html>`
		} else {
			ref = `<html><body><p style="flex-direction:` + pick("direction", "column", "row") + `;flex-wrap:` + pick("wrap", "wrap", "nowrap") + `">x</p></body></html>`
		}
		a, err1 := c04Styles(doc)
		b, err2 := c04Styles(ref)
		if err1 != nil || err2 != nil {
			out.Fatal("styles failed")
			return
		}
		for k := pr.KnownProp(1); k < pr.NbProperties; k++ {
			if a.digest(2, k) != b.digest(2, k) {
				out.Disagree("shorthand:"+sc.Kind+":"+strings.Join(t.Parts, "+"), fmt.Sprintf("%s computes %s differently from its longhand expansion %s", doc, k, ref), map[string]interface{}{"doc": doc, "ref": ref})
				return
			}
		}
	case "background":
		var t struct {
			Layers []struct {
				Img  string `json:"img"`
				Pos  string `json:"pos"`
				Size string `json:"size"`
			} `json:"layers"`
		}
		json.Unmarshal(sc.S, &t)
		var short, imgs, poss, sizes []string
		for _, l := range t.Layers {
			part := "url(http://verif.test/" + l.Img + ".png)"
			imgs = append(imgs, part)
			p, z := l.Pos, l.Size
			if p != "" {
				part += " " + p
				if z != "" {
					part += " / " + z
				}
			}
			if p == "" {
				p = "0% 0%"
			}
			if z == "" {
				z = "auto"
			}
			poss = append(poss, p)
			sizes = append(sizes, z)
			short = append(short, part)
		}
		a := "background:" + strings.Join(short, ", ")
		b := "background-image:" + strings.Join(imgs, ", ") + ";background-position:" + strings.Join(poss, ", ") + ";background-size:" + strings.Join(sizes, ", ")
		pick := func(decl string) string {
			var parts []string
			for _, d := range validation.PreprocessDeclarations("http://verif.test/", parser.ParseBlocksContentsString(decl)) {
				n := d.Name.String()
				if n == "background-image" || n == "background-position" || n == "background-size" {
					parts = append(parts, fmt.Sprintf("%s=%v", n, d.Value))
				}
			}
			sort.Strings(parts)
			return strings.Join(parts, ";")
		}
		if ga, gb := pick(a), pick(b); ga != gb || ga == "" {
			out.Disagree("shorthand:background:layers", fmt.Sprintf("%s expands to %s, the longhands %s give %s", a, ga, b, gb), map[string]interface{}{"shorthand": a, "longhands": b})
		}
	case "flex":
		var t struct {
			T string `json:"t"`
		}
		json.Unmarshal(sc.S, &t)
		doc := `<html><body><p style="flex-grow:9;flex-shrink:9;flex-basis:99px;flex:` + t.T + `">x</p></body></html>`
		st, err := c08Probe(doc)
		if err != nil {
			out.Fatal(err.Error())
			return
		}
		var g, sh int
		var basis string
		json.Unmarshal(s.Flex[0], &g)
		json.Unmarshal(s.Flex[1], &sh)
		json.Unmarshal(s.Flex[2], &basis)
		gb := st.GetFlexBasis()
		gotBasis := gb.S
		if gb.S == "" {
			gotBasis = fmt.Sprintf("%gpx", gb.Value)
			if gb.Value == 0 {
				gotBasis = "0"
			}
		}
		if float64(st.GetFlexGrow()) != float64(g) || float64(st.GetFlexShrink()) != float64(sh) || gotBasis != basis {
			out.Disagree("shorthand:flex:"+t.T, fmt.Sprintf("%s: flex computes to %v %v %s, CSS requires %d %d %s", doc, st.GetFlexGrow(), st.GetFlexShrink(), gotBasis, g, sh, basis), map[string]interface{}{"doc": doc})
		}
	}
}

// ------------------------------------------------------------------ spellings

type c08Spell struct{ name, value string }

var c08SpellDecls = map[string]c08Spell{
	"length":     {"margin-top", "5px"},
	"keyword":    {"display", "inline-block"},
	"color-fn":   {"color", "rgb(1, 2, 3)"},
	"url":        {"background-image", "url(http://verif.test/i.png)"},
	"shorthand":  {"border", "1px solid red"},
	"important":  {"margin-top", "5px !important"},
	"string":     {"content", `"Ab"`},
	"multi":      {"text-align", "center"},
	"fr":         {"grid-template-columns", "1fr 2fr"},
	"angle":      {"transform", "rotate(90deg)"},
	"resolution": {"image-resolution", "2dppx"},
	"em":         {"text-indent", "2em"},
	// function names are ASCII case-insensitive, also where the name selects a variant of the value
	"gradient-fn": {"background-image", "repeating-linear-gradient(to right, red, blue 10px)"},
	"radial-fn":   {"background-image", "repeating-radial-gradient(circle, red, blue 10px)"},
	"counter-fn":  {"content", "counter(c, upper-roman) counters(d, \".\")"},
	"attr-fn":     {"content", "attr(title) leader(dotted)"},
	"steps-fn":    {"transform", "translate(1px, 2px) scale(2) skewx(10deg)"},
}

func c08Variant(d c08Spell, variant string) string {
	name, value := d.name, d.value
	up := func(s string, words ...string) string {
		for _, w := range words {
			s = strings.ReplaceAll(s, w, strings.ToUpper(w))
		}
		return s
	}
	switch variant {
	case "upper-name":
		name = strings.ToUpper(name)
	case "upper-keyword":
		value = up(value, "inline-block", "solid", "red", "center")
	case "upper-unit":
		value = up(value, "px", "fr", "deg", "dppx", "em")
	case "upper-function":
		value = up(value, "rgb(", "url(", "rotate(", "repeating-linear-gradient(", "repeating-radial-gradient(", "counter(", "counters(", "attr(", "leader(", "translate(", "scale(", "skewx(")
	case "comment-between":
		value = "/*c*/" + strings.ReplaceAll(value, " ", "/*c*/ /*c*/") + "/*c*/"
	case "extra-space":
		value = "   " + strings.ReplaceAll(value, " ", "    ") + "  "
	case "comment-before-colon":
		name = name + "/*c*/ "
	case "newline-tab":
		value = "\n\t" + strings.ReplaceAll(value, " ", "\n\t") + "\n"
	case "upper-important":
		value = strings.ReplaceAll(value, "!important", "! IMPORTANT")
	}
	return name + ":" + value
}

func c08Digest(decl string) string {
	ds := validation.PreprocessDeclarations("http://verif.test/", parser.ParseBlocksContentsString(decl))
	var parts []string
	for _, d := range ds {
		parts = append(parts, fmt.Sprintf("%s=%T:%v!%v", d.Name, d.Value, d.Value, d.Important))
	}
	return strings.Join(parts, ";")
}

func c08Spellings(s *c08Scn, line []byte, out *drv.Out) {
	var sc struct {
		Decl    string `json:"decl"`
		Variant string `json:"variant"`
	}
	json.Unmarshal(s.Scn, &sc)
	if sc.Decl == "look-alike" {
		c08LookAlike(sc.Variant, out)
		return
	}
	if sc.Decl == "all-properties" {
		var full struct {
			Custom []string `json:"custom"`
		}
		json.Unmarshal(s.Scn, &full)
		c08AllProps(sc.Variant, full.Custom, out)
		return
	}
	d := c08SpellDecls[sc.Decl]
	canon := d.name + ":" + d.value
	variant := c08Variant(d, sc.Variant)
	out.Count("spellings")
	dc, dv := c08Digest(canon), c08Digest(variant)
	if dc == "" {
		out.Disagree("spelling:canonical-rejected:"+sc.Decl, fmt.Sprintf("valid declaration %q is dropped", canon), nil)
		return
	}
	if dc != dv {
		out.Disagree("spelling:"+sc.Variant, fmt.Sprintf("%q means %s but %q means %s", canon, dc, variant, dv), map[string]interface{}{"canonical": canon, "variant": variant})
		return
	}
	// and through the whole pipeline (style attribute -> computed style)
	docC := `<html><body><p style='` + canon + `'>x</p></body></html>`
	docV := `<html><body><p style='` + variant + `'>x</p></body></html>`
	a, err1 := c04Styles(docC)
	b, err2 := c04Styles(docV)
	if err1 != nil || err2 != nil {
		out.Fatal("spellings: styles failed")
		return
	}
	for k := pr.KnownProp(1); k < pr.NbProperties; k++ {
		if a.digest(2, k) != b.digest(2, k) {
			out.Disagree("spelling-computed:"+sc.Variant, fmt.Sprintf("%q and %q give different computed %s", canon, variant, k), map[string]interface{}{"canonical": canon, "variant": variant})
			return
		}
	}
}

// non-ASCII look-alikes next to an ASCII capital: the declaration must be dropped, alone
func c08LookAlike(variant string, out *drv.Out) {
	var bad string
	switch variant {
	case "kelvin-name":
		bad = "Bac\u212Aground-color: rgb(1, 2, 3)"
	case "dotted-i-keyword":
		bad = "visibility: H\u0130DDEN"
	case "kelvin-keyword":
		bad = "border-top-width: THIC\u212A"
	}
	out.Count("spellings")
	block := "background-color: rgb(9, 9, 9); visibility: visible; border-top-style: solid; border-top-width: 1px; " + bad + "; margin-top: 3px"
	ref := "background-color: rgb(9, 9, 9); visibility: visible; border-top-style: solid; border-top-width: 1px; margin-top: 3px"
	if c08Digest(bad) != "" {
		out.Disagree("spelling:"+variant, fmt.Sprintf("%q contains a non-ASCII look-alike and must be dropped, it is accepted as %s", bad, c08Digest(bad)), map[string]interface{}{"decl": bad})
		return
	}
	if c08Digest(block) != c08Digest(ref) {
		out.Disagree("spelling:"+variant+":not-dropped-alone", fmt.Sprintf("the block %q does not mean %q", block, ref), nil)
	}
}

// every supported property with the explicit value discovered for it (see c04Setup)
func c08AllProps(variant string, custom []string, out *drv.Out) {
	c04MetaPath = c08MetaPath
	if !c04Setup(out) {
		return
	}
	isCustom := map[string]bool{}
	for _, c := range custom {
		isCustom[c] = true
	}
	for k := pr.KnownProp(1); k < pr.NbProperties; k++ {
		name := k.String()
		val := c04Explicit[k]
		if val == "" {
			continue
		}
		canon := c08Digest(name + ":" + val)
		if canon == "" {
			continue
		}
		out.Count("spellings")
		switch variant {
		case "upper-name":
			if d := c08Digest(strings.ToUpper(name) + ":" + val); d != canon {
				out.Disagree("spelling:upper-name", fmt.Sprintf("%s:%s means %s but with the name in upper case %s", name, val, canon, d), map[string]interface{}{"prop": name})
			}
		case "upper-value":
			if strings.ContainsAny(val, "\"") || strings.Contains(val, "url(") || strings.Contains(val, "zz") || strings.Contains(val, "attr(") || strings.Contains(val, "counter(") || val == "a" {
				continue // strings, urls and author-defined identifiers are case-sensitive
			}
			if isCustom[name] {
				continue // the explicit value may be an author-defined identifier
			}
			if d := c08Digest(name + ":" + strings.ToUpper(val)); d != canon {
				out.Disagree("spelling:upper-value:"+name, fmt.Sprintf("%s:%s means %s but %s:%s means %s", name, val, canon, name, strings.ToUpper(val), d), map[string]interface{}{"prop": name, "value": val})
			}
		case "garbage-value":
			d := c08Digest(name + ": zzunknown-value-9")
			if d != "" && !isCustom[name] {
				out.Disagree("invalid-value-accepted:"+name, fmt.Sprintf("%s: zzunknown-value-9 is not a value of the property but is accepted as %s", name, d), map[string]interface{}{"prop": name})
				continue
			}
			// dropped alone: the valid declaration before it keeps its effect, the one after too
			block := name + ":" + val + "; " + name + ": zzunknown-value-9 9 9 !; margin-top: 3px"
			ref := name + ":" + val + "; margin-top: 3px"
			if c08Digest(block) != c08Digest(ref) {
				out.Disagree("invalid-value-not-dropped-alone:"+name, fmt.Sprintf("the block %q does not mean %q", block, ref), map[string]interface{}{"prop": name})
			}
		}
	}
}

var c08MetaPath string
