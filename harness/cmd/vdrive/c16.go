package main

// C16 — boxes are painted in CSS stacking order, against spec/Stacking.tla.
//
// A scenario is a tree of boxes (kind, position, z-index, opacity, overflow) and the paint order of the specification's
// painter: a sequence of events bg(i) / text(i). Every box gets a background of its own colour and one word; the
// recording backend gives the order of the fills (by colour) and of the text drawings, which must be that sequence.
// For Rich scenarios the opacity groups and clips must bracket exactly the events of the declaring box's sub-tree.

import (
	"encoding/json"
	"flag"
	"fmt"
	"math"
	"strings"

	"github.com/benoitkugler/webrender/html/boxes"
	"github.com/benoitkugler/webrender/utils"

	"verif/harness/internal/drv"
)

func init() { commands["c16"] = c16Main }

type stNode struct {
	Parent int    `json:"parent"`
	Kind   string `json:"kind"`
	Pos    string `json:"pos"`
	Z      int    `json:"z"`
	Opac   bool   `json:"opac"`
	Mirror bool   `json:"mirror"`
	Clip   bool   `json:"clip"`
}

type stEv struct {
	E string `json:"e"`
	N int    `json:"n"`
}

type stScn struct {
	Nodes     []stNode `json:"nodes"`
	Order     []stEv   `json:"order"`
	Impl      []stEv   `json:"impl"`      // the order when overflow != visible creates a stacking context (the implementation's choice)
	Clips     [][]int  `json:"clips"`     // per node: the boxes whose overflow clip must be in force while it is painted
	TextClips [][]int  `json:"textclips"` // the same for the text of the node (its own clip included)
}

type c16Rect struct{ x0, y0, x1, y1 float64 }

func (r *c16Rect) add(x, y float64) {
	if x < r.x0 {
		r.x0 = x
	}
	if x > r.x1 {
		r.x1 = x
	}
	if y < r.y0 {
		r.y0 = y
	}
	if y > r.y1 {
		r.y1 = y
	}
}

func c16Empty() c16Rect { return c16Rect{math.Inf(1), math.Inf(1), math.Inf(-1), math.Inf(-1)} }

func (r c16Rect) near(o c16Rect) bool {
	return math.Abs(r.x0-o.x0) < 0.6 && math.Abs(r.y0-o.y0) < 0.6 && math.Abs(r.x1-o.x1) < 0.6 && math.Abs(r.y1-o.y1) < 0.6
}

func c16Color(i int) (int, int, int) {
	return (10 + 20*i) % 256, ((250-20*i)%256 + 256) % 256, (37 * i) % 256
}

func c16HTML(s *stScn) string {
	var b strings.Builder
	b.WriteString(`<html><head><style>@page{size:400px 400px;margin:0}html,body{display:block;margin:0;padding:0}` +
		`body{font-family:weasyprint;font-size:8px;line-height:10px}div{margin:0}</style></head><body>`)
	var emit func(i int)
	emit = func(i int) {
		n := s.Nodes[i-1]
		r, g, bl := c16Color(i)
		st := fmt.Sprintf("background:rgb(%d,%d,%d);", r, g, bl)
		switch n.Kind {
		case "block":
			st += "display:block;padding:2px;"
		case "inline":
			st += "display:inline;"
		case "iblock":
			st += "display:inline-block;padding:2px;"
		case "float":
			st += "display:block;float:left;padding:2px;"
		case "flex":
			st += "display:flex;padding:2px;"
		}
		switch n.Pos {
		case "relative":
			st += "position:relative;top:3px;left:3px;"
		case "absolute":
			st += fmt.Sprintf("position:absolute;top:%dpx;left:%dpx;", 4*i, 6*i)
		}
		if n.Z != 99 {
			st += fmt.Sprintf("z-index:%d;", n.Z)
		}
		if n.Opac {
			st += "opacity:0.5;"
		}
		if n.Clip {
			st += "overflow:hidden;"
		}
		if n.Mirror {
			st += "transform:scaleX(-1);"
		}
		fmt.Fprintf(&b, `<div id="n%d" style="%s">t%dx `, i, st, i)
		for j := i + 1; j <= len(s.Nodes); j++ {
			if s.Nodes[j-1].Parent == i {
				emit(j)
			}
		}
		b.WriteString("</div>")
	}
	for j := 1; j <= len(s.Nodes); j++ {
		if s.Nodes[j-1].Parent == 0 {
			emit(j)
		}
	}
	b.WriteString("</body></html>")
	return b.String()
}

func c16Main(args []string) int {
	return drv.Main("c16", args, func(fs *flag.FlagSet) {}, func(line []byte, out *drv.Out) {
		var s stScn
		if err := json.Unmarshal(line, &s); err != nil {
			out.Fatal("bad scenario: " + err.Error())
			return
		}
		doc := c16HTML(&s)
		pages, r, err := drv.RenderPages(doc, &drv.Opts{})
		if err != nil {
			out.Fatal(err.Error())
			return
		}
		out.Count("arrangements")
		byColor := map[[3]int]int{}
		for i := range s.Nodes {
			cr, cg, cb := c16Color(i + 1)
			byColor[[3]int{cr, cg, cb}] = i + 1
		}
		// padding boxes (the overflow clip of a box)
		pad := map[int]c16Rect{}
		for _, p := range pages {
			drv.Walk(p, func(bx boxes.Box, _ int) bool {
				f := bx.Box()
				if f.Element != nil {
					var n int
					if _, err := fmt.Sscanf((*utils.HTMLNode)(f.Element).Get("id"), "n%d", &n); err == nil {
						if _, has := pad[n]; !has {
							x, y := float64(f.PaddingBoxX()), float64(f.PaddingBoxY())
							pad[n] = c16Rect{x, y, x + float64(f.PaddingWidth()), y + float64(f.PaddingHeight())}
						}
					}
				}
				return true
			})
		}
		// projection of the backend calls to paint events: a fill is a Paint following SetColorRgba(non-stroke) of a box colour
		var got []stEv
		var gotSign []int       // orientation (sign of the determinant) of the transformation in force at each event
		sign := map[int][]int{} // canvas id -> stack of orientations
		baseSign := map[int]int{}
		curSign := func(c int) int {
			if st := sign[c]; len(st) > 0 {
				return st[len(st)-1]
			}
			if b, ok := baseSign[c]; ok {
				return b
			}
			return 1
		}
		var gotClips [][]c16Rect // the clips in force at each event
		fill := map[int]int{}    // canvas id -> node of the current fill colour (0 = none)
		path := map[int]*c16Rect{}
		frames := map[int][][]c16Rect{} // canvas id -> stack of frames -> clips
		base := map[int][]c16Rect{}     // clips in force where the group canvas was created
		active := func(c int) []c16Rect {
			out := append([]c16Rect(nil), base[c]...)
			for _, f := range frames[c] {
				out = append(out, f...)
			}
			return out
		}
		pt := func(c int, x, y float64) {
			if path[c] == nil {
				e := c16Empty()
				path[c] = &e
			}
			path[c].add(x, y)
		}
		for _, e := range r.Evs {
			if _, ok := frames[e.C]; !ok {
				frames[e.C] = [][]c16Rect{nil}
			}
			switch e.Op {
			case "Save":
				frames[e.C] = append(frames[e.C], nil)
				sign[e.C] = append(sign[e.C], curSign(e.C))
			case "Restore":
				if len(frames[e.C]) > 1 {
					frames[e.C] = frames[e.C][:len(frames[e.C])-1]
				}
				if len(sign[e.C]) > 0 {
					sign[e.C] = sign[e.C][:len(sign[e.C])-1]
				}
			case "Transform":
				if len(e.N) == 6 && e.N[0]*e.N[3]-e.N[1]*e.N[2] < 0 {
					if len(sign[e.C]) == 0 {
						sign[e.C] = []int{curSign(e.C)}
					}
					sign[e.C][len(sign[e.C])-1] *= -1
				}
			case "NewGroup":
				if len(e.I) == 1 {
					baseSign[e.I[0]] = curSign(e.C)
					base[e.I[0]] = active(e.C)
				}
			case "Rectangle":
				pt(e.C, e.N[0], e.N[1])
				pt(e.C, e.N[0]+e.N[2], e.N[1]+e.N[3])
			case "MoveTo", "LineTo":
				pt(e.C, e.N[0], e.N[1])
			case "CubicTo":
				pt(e.C, e.N[0], e.N[1])
				pt(e.C, e.N[2], e.N[3])
				pt(e.C, e.N[4], e.N[5])
			case "Clip":
				if path[e.C] != nil {
					top := len(frames[e.C]) - 1
					frames[e.C][top] = append(frames[e.C][top], *path[e.C])
				}
				path[e.C] = nil
			case "SetColorRgba":
				if !e.B && len(e.N) == 4 {
					k := [3]int{int(math.Round(e.N[0] * 255)), int(math.Round(e.N[1] * 255)), int(math.Round(e.N[2] * 255))}
					fill[e.C] = byColor[k]
				}
			case "Paint":
				if n := fill[e.C]; n != 0 {
					ev := stEv{"bg", n}
					if len(got) == 0 || got[len(got)-1] != ev { // a background split over several rectangles
						got = append(got, ev)
						gotSign = append(gotSign, curSign(e.C))
						gotClips = append(gotClips, active(e.C))
					}
				}
				path[e.C] = nil
			case "DrawText":
				for _, t := range e.Text {
					var n int
					for _, w := range strings.Fields(string(t)) {
						if _, err := fmt.Sscanf(w, "t%dx", &n); err == nil {
							got = append(got, stEv{"text", n})
							gotSign = append(gotSign, curSign(e.C))
							gotClips = append(gotClips, active(e.C))
						}
					}
				}
			}
		}
		// keep the first occurrence of every event
		seen := map[stEv]bool{}
		var first []stEv
		body := doc[strings.Index(doc, "<body>"):]
		// a transform applies to the whole sub-tree of its box and to nothing else: the orientation in force when a box is painted
		// is the orientation of the page, reversed once for each reflecting box among the box and its ancestors
		refl := func(n int) int {
			k := 0
			for ; n >= 1 && n <= len(s.Nodes); n = s.Nodes[n-1].Parent {
				if s.Nodes[n-1].Mirror {
					k++
				}
			}
			return k
		}
		pageSign := 0
		for k, e := range got {
			if !seen[e] {
				if e.N >= 1 && e.N <= len(s.Nodes) {
					want := gotSign[k]
					if refl(e.N)%2 == 1 {
						want = -want
					}
					if refl(e.N) > 0 {
						out.Count("transform-scopes-checked")
					}
					if pageSign == 0 {
						pageSign = want
					} else if want != pageSign {
						out.Disagree("C16:transform-scope:"+c16Class(&s, e.N), fmt.Sprintf("%s: %s%d is painted under %d reflection(s) of the page orientation, its box and ancestors declare %d", body, e.E, e.N, map[bool]int{true: 0, false: 1}[gotSign[k] == pageSign], refl(e.N)),
							map[string]interface{}{"doc": doc, "scenario": json.RawMessage(line)})
					}
				}
				seen[e] = true
				first = append(first, e)
				// overflow: every clipping ancestor's padding box is among the clips in force
				if e.N >= 1 && e.N <= len(s.Clips) {
					cl := s.Clips[e.N-1]
					if e.E == "text" && e.N <= len(s.TextClips) {
						cl = s.TextClips[e.N-1]
					}
					for _, a := range cl {
						out.Count("clip-brackets-checked")
						ok := false
						for _, cl := range gotClips[k] {
							if cl.near(pad[a]) {
								ok = true
							}
						}
						if !ok {
							out.Disagree("C16:clip:"+c16Class(&s, e.N)+"-not-clipped-by-"+c16Class(&s, a), fmt.Sprintf("%s: %s%d is painted outside the overflow clip of box %d", body, e.E, e.N, a),
								map[string]interface{}{"doc": doc, "scenario": json.RawMessage(line)})
						}
					}
				}
			}
		}
		show := func(es []stEv) string {
			var ws []string
			for _, e := range es {
				ws = append(ws, fmt.Sprintf("%s%d", e.E, e.N))
			}
			return strings.Join(ws, " ")
		}
		if show(first) != show(s.Order) && show(first) == show(s.Impl) {
			out.Disagree("C16:order:overflow-hidden-box-painted-as-a-stacking-context", fmt.Sprintf("%s paints %s instead of %s", body, show(first), show(s.Order)),
				map[string]interface{}{"doc": doc, "scenario": json.RawMessage(line), "painted": show(first)})
		} else if show(first) != show(s.Order) {
			// name the class after the first pair of events whose relative order differs
			pos := map[stEv]int{}
			for k, e := range first {
				pos[e] = k
			}
			class := "events-missing"
			for a := 0; a < len(s.Order) && class == "events-missing"; a++ {
				for bb := a + 1; bb < len(s.Order); bb++ {
					pa, oka := pos[s.Order[a]]
					pb, okb := pos[s.Order[bb]]
					if oka && okb && pa > pb {
						class = c16Class(&s, s.Order[a].N) + "-painted-after-" + c16Class(&s, s.Order[bb].N)
						break
					}
				}
			}
			out.Disagree("C16:order:"+class, fmt.Sprintf("%s paints %s instead of %s", body, show(first), show(s.Order)),
				map[string]interface{}{"doc": doc, "scenario": json.RawMessage(line), "painted": show(first)})
		}
	})
}

// c16Class names a node by what decides its layer
func c16Class(s *stScn, i int) string {
	n := s.Nodes[i-1]
	c := n.Kind
	if n.Pos != "static" {
		c = n.Pos + "-" + c
		if n.Z != 99 {
			switch {
			case n.Z < 0:
				c += "-zneg"
			case n.Z == 0:
				c += "-z0"
			default:
				c += "-zpos"
			}
		}
	}
	if n.Opac {
		c += "-opacity"
	}
	if n.Mirror {
		c += "-transform"
	}
	return c
}
