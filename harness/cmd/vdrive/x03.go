package main

// X03 (extra coverage, not a listed property) — resolving flexible lengths, against spec/Flex.tla.

import (
	"encoding/json"
	"flag"
	"fmt"
	"math"
	"strings"

	"github.com/benoitkugler/webrender/html/boxes"

	"verif/harness/internal/drv"
)

func init() { commands["x03"] = x03Main }

func x03Main(args []string) int {
	return drv.Main("x03", args, func(fs *flag.FlagSet) {}, func(line []byte, out *drv.Out) {
		var s struct {
			Items []struct {
				B  int `json:"b"`
				G  int `json:"g"`
				S  int `json:"s"`
				Mn int `json:"mn"`
				Mx int `json:"mx"`
			} `json:"items"`
			C     int   `json:"C"`
			Sizes []int `json:"sizes"`
		}
		if err := json.Unmarshal(line, &s); err != nil {
			out.Fatal("bad scenario: " + err.Error())
			return
		}
		var b strings.Builder
		fmt.Fprintf(&b, `<html><head><style>@page{size:400px 400px;margin:0}html,body{display:block;margin:0;padding:0}div{display:block}</style></head><body><div id="fc" style="display:flex;width:%dpx">`, s.C)
		var desc []string
		for i, it := range s.Items {
			mx := "none"
			if it.Mx < 100000 {
				mx = fmt.Sprintf("%dpx", it.Mx)
			}
			fmt.Fprintf(&b, `<div id="i%d" style="flex:%d %d %dpx;min-width:%dpx;max-width:%s;height:5px"></div>`, i+1, it.G, it.S, it.B, it.Mn, mx)
			desc = append(desc, fmt.Sprintf("flex:%d %d %dpx min %d max %s", it.G, it.S, it.B, it.Mn, mx))
		}
		b.WriteString(`</div></body></html>`)
		doc := b.String()
		pages, err := drv.Layout(doc, &drv.Opts{})
		if err != nil || len(pages) != 1 {
			out.Fatal(fmt.Sprint("layout: ", err, len(pages)))
			return
		}
		out.Count("containers")
		got := map[string]*boxes.BoxFields{}
		drv.Walk(pages[0], func(bx boxes.Box, _ int) bool {
			f := bx.Box()
			if f.Element != nil {
				for _, at := range f.Element.Attr {
					if at.Key == "id" {
						if _, dup := got[at.Val]; !dup {
							got[at.Val] = f
						}
					}
				}
			}
			return true
		})
		var gotW []float64
		bad := false
		for i, want := range s.Sizes {
			f := got[fmt.Sprintf("i%d", i+1)]
			if f == nil {
				out.Disagree("flex:missing-item", doc, map[string]interface{}{"doc": doc})
				return
			}
			w := float64(f.Width.V())
			gotW = append(gotW, w)
			if math.Abs(w-float64(want)/1000) > 0.02 {
				bad = true
			}
		}
		if bad {
			var ws []string
			for _, w := range s.Sizes {
				ws = append(ws, fmt.Sprintf("%g", float64(w)/1000))
			}
			kind := "grow"
			sum := 0
			for _, it := range s.Items {
				h := it.B
				if h < it.Mn {
					h = it.Mn
				}
				if h > it.Mx {
					h = it.Mx
				}
				sum += h
			}
			if sum >= s.C {
				kind = "shrink"
			}
			// does an item end on its min or max size (the clamp of step 4.d, whose slack later rounds redistribute)?
			for i, it := range s.Items {
				if s.Sizes[i] == it.Mn*1000 || s.Sizes[i] == it.Mx*1000 {
					kind += ":an-item-is-clamped-to-its-min-or-max"
					break
				}
			}
			out.Disagree("flex:sizes:"+kind, fmt.Sprintf("container %dpx {%s}: used widths %v, CSS Flexbox 9.7 requires %s", s.C, strings.Join(desc, "; "), gotW, strings.Join(ws, " ")),
				map[string]interface{}{"doc": doc, "scenario": json.RawMessage(line)})
		}
	})
}
