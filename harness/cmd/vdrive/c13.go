package main

// C13 — table cells form a consistent grid, against spec/TableGrid.tla.
//
// A scenario is a table (rows of cells with colspan / rowspan / content / width) with the slot assignment computed by the
// specification's PlaceCell machine. The real GridX / clamped rowspan of every cell must be the specification's, and the
// laid-out geometry (columns, rows, cell border boxes, in 1/64 px) is emitted as a trace record that TLC validates with
// TableGridTrace.tla (operator GridConsistent).

import (
	"encoding/json"
	"flag"
	"fmt"
	"math"
	"strings"

	"github.com/benoitkugler/webrender/html/boxes"

	"verif/harness/internal/drv"
)

func init() { commands["c13"] = c13Main }

type tgCell struct {
	Cs    int `json:"cs"`
	Rs    int `json:"rs"`
	Words int `json:"words"`
	W     int `json:"w"`
	Rh    int `json:"rh"`
}

type tgScn struct {
	Tab  [][]tgCell `json:"tab"`
	Opts struct {
		Tw       int  `json:"tw"`
		Fixed    bool `json:"fixed"`
		Bs       int  `json:"bs"`
		Collapse bool `json:"collapse"`
		Rtl      bool `json:"rtl"`
		Cap      int  `json:"cap"`
	} `json:"opts"`
	Placed []struct {
		R  int `json:"r"`
		I  int `json:"i"`
		X  int `json:"x"`
		Cs int `json:"cs"`
		Rs int `json:"rs"`
	} `json:"placed"`
	Gridw  int  `json:"gridw"`
	Shared bool `json:"shared"`
}

var c13Engine = "pango"

// c13Vertical is the vertical border-spacing of a scenario under a variant (bit 0: two-value border-spacing whose
// vertical component is 3px larger than the horizontal one).
func c13Vertical(s *tgScn, variant int) int {
	if variant&1 == 1 {
		return s.Opts.Bs + 3
	}
	return s.Opts.Bs
}

// c13Head: variant bit 1 puts the first row in a <thead> (only when the table has another row and no cell of the first
// row spans rows: row groups clamp rowspans, which the single-group specification does not model).
func c13Head(s *tgScn, variant int) bool {
	if variant&2 == 0 || len(s.Tab) < 2 || len(s.Tab[0]) == 0 {
		return false
	}
	for _, c := range s.Tab[0] {
		if c.Rs != 1 {
			return false
		}
	}
	return true
}

func c13HTML(s *tgScn, variant int) string {
	var b strings.Builder
	b.WriteString(`<html><head><style>@page{size:400px 1000px;margin:10px}html,body{display:block;margin:0;padding:0}` +
		`body{font-family:weasyprint;font-size:8px;line-height:10px}td{padding:0;border:1px solid}caption{font-size:8px}</style></head><body>`)
	st := fmt.Sprintf("border-spacing:%dpx;", s.Opts.Bs)
	if variant&1 == 1 {
		st = fmt.Sprintf("border-spacing:%dpx %dpx;", s.Opts.Bs, c13Vertical(s, variant))
	}
	head := c13Head(s, variant)
	if s.Opts.Collapse {
		st += "border-collapse:collapse;"
	}
	if s.Opts.Rtl {
		st += "direction:rtl;"
	}
	if s.Opts.Fixed {
		st += "table-layout:fixed;"
	}
	if s.Opts.Tw > 0 {
		st += fmt.Sprintf("width:%dpx;", s.Opts.Tw)
	}
	fmt.Fprintf(&b, `<table style="%s">`, st)
	if variant&4 != 0 {
		// column boxes with a background, one more than the rows have columns (a column in which no cell originates)
		b.WriteString(`<colgroup style="background:#dde">`)
		for k := 0; k <= s.Gridw; k++ {
			b.WriteString(`<col style="background:#eed">`)
		}
		b.WriteString(`</colgroup>`)
	}
	switch s.Opts.Cap {
	case 1:
		b.WriteString(`<caption style="caption-side:top">cap</caption>`)
	case 2:
		b.WriteString(`<caption style="caption-side:bottom">cap</caption>`)
	}
	for ri, row := range s.Tab {
		if head && ri == 0 {
			b.WriteString("<thead>")
		}
		if head && ri == 1 {
			b.WriteString("<tbody>")
		}
		if len(row) > 0 && row[0].Rh > 0 {
			fmt.Fprintf(&b, `<tr style="height:%dpx">`, row[0].Rh)
		} else {
			b.WriteString("<tr>")
		}
		for ci, c := range row {
			w := ""
			if c.W > 0 {
				w = fmt.Sprintf(` style="width:%dpx"`, c.W)
			} else if c.W < 0 {
				w = fmt.Sprintf(` style="width:%d%%"`, -c.W)
			}
			var words []string
			for k := 0; k < c.Words; k++ {
				words = append(words, fmt.Sprintf("r%dc%d", ri+1, ci+1))
			}
			cs := fmt.Sprint(c.Cs)
			if c.Cs == 0 {
				// an invalid colspan: it counts as 1
				cs = [...]string{"0", "-2", "x"}[(ri+ci)%3]
			}
			fmt.Fprintf(&b, `<td colspan="%s" rowspan="%d"%s>%s</td>`, cs, c.Rs, w, strings.Join(words, " "))
		}
		b.WriteString("</tr>")
		if head && ri == 0 {
			b.WriteString("</thead>")
		}
	}
	if head {
		b.WriteString("</tbody>")
	}
	b.WriteString("</table></body></html>")
	return b.String()
}

func q64(x float64) int { return int(math.Round(x * 64)) }

func c13Main(args []string) int {
	return drv.Main("c13", args, func(fs *flag.FlagSet) { fs.StringVar(&c13Engine, "engine", "pango", "text engine") }, func(line []byte, out *drv.Out) {
		var s tgScn
		if err := json.Unmarshal(line, &s); err != nil {
			out.Fatal("bad scenario: " + err.Error())
			return
		}
		variant := out.Cur % 4
		doc := c13HTML(&s, variant)
		pages, err := drv.Layout(doc, &drv.Opts{Engine: c13Engine})
		if err != nil {
			out.Fatal(err.Error())
			return
		}
		out.Count("tables")
		detail := func() map[string]interface{} {
			return map[string]interface{}{"doc": doc, "scenario": json.RawMessage(line)}
		}
		tshow := doc[strings.Index(doc, "<table"):]
		if len(pages) != 1 {
			out.Disagree("C13:pages", fmt.Sprintf("%d pages for a small table on a tall page: %s", len(pages), tshow), detail())
			return
		}
		var table *boxes.TableBox
		drv.Walk(pages[0], func(bx boxes.Box, _ int) bool {
			if t, ok := bx.(boxes.TableBoxITF); ok && table == nil {
				table = t.Table()
			}
			return table == nil
		})
		if table == nil {
			out.Disagree("C13:no-table-box", tshow, detail())
			return
		}
		type gCell struct {
			R     int `json:"r"`
			X     int `json:"x"`
			Cs    int `json:"cs"`
			Rs    int `json:"rs"`
			Px    int `json:"px"`
			Py    int `json:"py"`
			W     int `json:"w"`
			H     int `json:"h"`
			Cw    int `json:"cw"` // content width
			Minw  int `json:"minw"`
			Specw int `json:"specw"`
		}
		type track struct {
			P int `json:"p"`
			W int `json:"w,omitempty"`
			H int `json:"h,omitempty"`
		}
		type trackW struct {
			P int `json:"p"`
			W int `json:"w"`
		}
		type trackH struct {
			P int `json:"p"`
			H int `json:"h"`
		}
		cols := []trackW{} // (never nil: TLC's Json module cannot read null)
		for j := range table.ColumnWidths {
			p := 0.0
			if j < len(table.ColumnPositions) {
				p = float64(table.ColumnPositions[j])
			}
			cols = append(cols, trackW{q64(p), q64(float64(table.ColumnWidths[j]))})
		}
		rows := []trackH{}
		cells := []gCell{}
		ri := 0
		structOK := true
		pi := 0
		for _, grp := range table.Children {
			if _, ok := grp.(*boxes.TableRowGroupBox); !ok {
				continue
			}
			for _, row := range grp.Box().Children {
				ri++
				rf := row.Box()
				rows = append(rows, trackH{q64(float64(rf.PositionY)), q64(float64(rf.Height.V()))})
				for ci, cell := range row.Box().Children {
					cf := cell.Box()
					g := gCell{R: ri, X: cf.GridX + 1, Cs: cf.Colspan, Rs: cf.Rowspan,
						Px: q64(float64(cf.BorderBoxX())), Py: q64(float64(cf.BorderBoxY())), W: q64(float64(cf.BorderWidth())), H: q64(float64(cf.BorderHeight())), Cw: q64(float64(cf.Width.V()))}
					if ri-1 < len(s.Tab) && ci < len(s.Tab[ri-1]) {
						c := s.Tab[ri-1][ci]
						if c.Words > 0 {
							g.Minw = 32 * 64
						}
						if c.W > 0 {
							g.Specw = c.W * 64
						}
					}
					cells = append(cells, g)
					// slot assignment against the specification's machine
					if pi < len(s.Placed) {
						p := s.Placed[pi]
						if p.R != ri || p.I != ci+1 || p.X != g.X || p.Cs != g.Cs || p.Rs != g.Rs {
							structOK = false
							out.Disagree("C13:slot-assignment", fmt.Sprintf("cell %d of row %d is at column %d spanning %dx%d (cols x rows) instead of column %d spanning %dx%d: %s", ci+1, ri, g.X, g.Cs, g.Rs, p.X, p.Cs, p.Rs, tshow), detail())
						}
					}
					pi++
				}
			}
		}
		if pi != len(s.Placed) {
			structOK = false
			out.Disagree("C13:cell-count", fmt.Sprintf("%d cell boxes for %d cells: %s", pi, len(s.Placed), tshow), detail())
		}
		if structOK && len(cols) != s.Gridw {
			out.Disagree("C13:column-count", fmt.Sprintf("%d columns instead of %d: %s", len(cols), s.Gridw, tshow), detail())
		}
		if s.Shared {
			out.Count("shared-slot")
		}
		bs, bsv := 0, 0
		if !s.Opts.Collapse {
			bs = s.Opts.Bs * 64
			bsv = c13Vertical(&s, variant) * 64
		}
		kind := "separate"
		if s.Opts.Collapse {
			kind = "collapse"
		}
		if s.Opts.Fixed {
			kind += "+fixed"
		}
		if s.Opts.Rtl {
			kind += "+rtl"
		}
		out.Emit(map[string]interface{}{"cols": cols, "rows": rows, "cells": cells, "tx": q64(float64(table.ContentBoxX())), "tw": q64(float64(table.Width.V())), "tbw": q64(float64(table.BorderWidth())),
			"spec": s.Opts.Tw * 64, "bsh": bs, "bsv": bsv, "collapse": s.Opts.Collapse, "rtl": s.Opts.Rtl, "fixed": s.Opts.Fixed, "shared": s.Shared, "kind": kind, "html": tshow})
	})
}
