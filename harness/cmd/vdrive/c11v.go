package main

// C11, vertical part — line box heights with vertical-align baseline / top / bottom, against spec/LineHeight.tla.

import (
	"encoding/json"
	"flag"
	"fmt"
	"math"
	"strings"

	"github.com/benoitkugler/webrender/html/boxes"

	"verif/harness/internal/drv"
)

func init() { commands["c11v"] = c11vMain }

func c11vMain(args []string) int {
	return drv.Main("c11v", args, func(fs *flag.FlagSet) {}, func(line []byte, out *drv.Out) {
		var s struct {
			Line []struct {
				S1 string `json:"s1"`
				S2 string `json:"s2"`
				Va string `json:"va"`
				H  int    `json:"h"`
			} `json:"line"`
			Height int   `json:"height"`
			Ys     []int `json:"ys"`
			Roots  int   `json:"roots"`
		}
		if err := json.Unmarshal(line, &s); err != nil {
			out.Fatal("bad scenario: " + err.Error())
			return
		}
		va := func(v string) string {
			if v == "base" {
				return "baseline"
			}
			return v
		}
		var b strings.Builder
		depth := 0
		for _, c := range s.Line {
			n := 0
			for _, sp := range []string{c.S1, c.S2} {
				if sp != "none" {
					fmt.Fprintf(&b, `<span style="vertical-align:%s">`, va(sp))
					n++
				}
			}
			if n > depth {
				depth = n
			}
			fmt.Fprintf(&b, `<b style="height:%gpx;vertical-align:%s"></b>`, float64(c.H)/128, va(c.Va))
			b.WriteString(strings.Repeat("</span>", n))
		}
		doc := `<html><head><style>@page{size:400px 2000px;margin:0} html,body{display:block;margin:0;padding:0} p{display:block;margin:0;font-family:weasyprint;font-size:8px;line-height:10px} b{display:inline-block;width:5px}</style></head><body><p id="t">x` + b.String() + `</p><p>y</p></body></html>`
		pages, err := drv.Layout(doc, &drv.Opts{})
		if err != nil || len(pages) != 1 {
			out.Fatal(fmt.Sprint("layout: ", err, len(pages)))
			return
		}
		out.Count("lines")
		if s.Roots > 1 {
			out.Count("nontrivial")
		}
		var lines []*boxes.LineBox
		var paras []boxes.Box
		drv.Walk(pages[0], func(bx boxes.Box, _ int) bool {
			if lb, ok := bx.(*boxes.LineBox); ok {
				lines = append(lines, lb)
				return false
			}
			if f := bx.Box(); f.Element != nil && f.Element.Data == "p" && boxes.BlockT.IsInstance(bx) {
				paras = append(paras, bx)
			}
			return true
		})
		if len(lines) != 2 || len(paras) != 2 {
			out.Disagree("line-height:structure", fmt.Sprintf("%d line boxes in %d paragraphs, expected 2 in 2: %s", len(lines), len(paras), doc), map[string]interface{}{"doc": doc})
			return
		}
		kind := fmt.Sprintf("nesting%d", depth)
		top := float64(lines[0].PositionY)
		gh := float64(lines[0].Height.V())
		want := float64(s.Height) / 128
		if math.Abs(gh-want) > 0.02 {
			out.Disagree("line-height:height:"+kind, fmt.Sprintf("%s: the line box is %g high, CSS 2.1 10.8 requires %g (the tallest aligned subtree)", doc[strings.Index(doc, "<p id"):], gh, want), map[string]interface{}{"doc": doc, "scenario": json.RawMessage(line)})
			return
		}
		// the paragraph is as tall as its line and the next line starts where this one ends
		if ph := float64(paras[0].Box().Height.V()); math.Abs(ph-gh) > 0.02 || math.Abs(float64(lines[1].PositionY)-(top+gh)) > 0.02 {
			out.Disagree("line-height:stacking:"+kind, fmt.Sprintf("%s: line box at %g, %g high, in a paragraph %g high; the next line is at %g", doc[strings.Index(doc, "<p id"):], top, gh, ph, float64(lines[1].PositionY)), map[string]interface{}{"doc": doc})
			return
		}
		var atoms []boxes.Box
		drv.Walk(lines[0], func(bx boxes.Box, _ int) bool {
			if boxes.InlineBlockT.IsInstance(bx) {
				atoms = append(atoms, bx)
				return false
			}
			return true
		})
		if len(atoms) != len(s.Ys) {
			out.Disagree("line-height:structure", fmt.Sprintf("%d inline-blocks on the line, expected %d: %s", len(atoms), len(s.Ys), doc), map[string]interface{}{"doc": doc})
			return
		}
		for i, a := range atoms {
			f := a.Box()
			y := float64(f.PositionY) - top
			h := float64(s.Line[i].H) / 128
			// every box lies inside its line box
			if y < -0.02 || y+h > gh+0.02 {
				out.Disagree("line-height:box-outside-line:"+kind, fmt.Sprintf("%s: inline-block %d spans %g..%g of a line box %g high", doc[strings.Index(doc, "<p id"):], i+1, y, y+h, gh), map[string]interface{}{"doc": doc, "scenario": json.RawMessage(line)})
				return
			}
			if s.Ys[i] >= 0 && math.Abs(y-float64(s.Ys[i])/128) > 0.02 {
				out.Disagree("line-height:position:"+kind, fmt.Sprintf("%s: inline-block %d is %g below the top of its line box, CSS 2.1 10.8 requires %g", doc[strings.Index(doc, "<p id"):], i+1, y, float64(s.Ys[i])/128), map[string]interface{}{"doc": doc, "scenario": json.RawMessage(line)})
				return
			}
		}
	})
}
