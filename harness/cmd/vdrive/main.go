package main

import (
	"fmt"
	"os"
)

type cmdFn func(args []string) int

var commands = map[string]cmdFn{}

func main() {
	if len(os.Args) < 2 {
		fmt.Fprintln(os.Stderr, "usage: vdrive <command> [args]")
		os.Exit(2)
	}
	fn, ok := commands[os.Args[1]]
	if !ok {
		fmt.Fprintln(os.Stderr, "unknown command", os.Args[1])
		os.Exit(2)
	}
	os.Exit(fn(os.Args[2:]))
}
