package main

// C07 — parsers of document-supplied text never crash, against spec/Inputs.tla.
//
// A scenario is [f (family), x (fragments)]. The fragments are joined with the family's separator and given to every
// entry point of the family (crossed with the real tables of property / descriptor / attribute names). Each call runs
// inside recover under the worker's watchdog; its outcome (ok / error / ignored / panic) is counted, every abnormal
// outcome is a disagreement keyed by entry point and panic site, and outcome records are emitted for TLC
// (ContractTrace.tla): all abnormal ones and a sample of the normal ones.

import (
	"encoding/json"
	"flag"
	"fmt"
	"sort"
	"strings"

	"github.com/benoitkugler/webrender/css/parser"
	pr "github.com/benoitkugler/webrender/css/properties"
	"github.com/benoitkugler/webrender/css/selector"
	"github.com/benoitkugler/webrender/css/validation"
	"github.com/benoitkugler/webrender/html/tree"
	"github.com/benoitkugler/webrender/svg"
	"github.com/benoitkugler/webrender/utils"

	"verif/harness/internal/drv"
)

func init() { commands["c07"] = c07Main }

var (
	c07PropNames []string
	c07Sample    = 97 // one normal outcome in c07Sample is emitted as a trace record
)

func c07Props() []string {
	if c07PropNames == nil {
		for n := range pr.PropsFromNames {
			c07PropNames = append(c07PropNames, n)
		}
		// shorthands and a few legacy / prefixed spellings
		c07PropNames = append(c07PropNames, "margin", "padding", "border", "border-top", "border-width", "border-color", "border-style", "border-radius", "border-image",
			"background", "font", "font-variant", "list-style", "outline", "columns", "column-rule", "flex", "flex-flow", "grid", "grid-area", "grid-column", "grid-row",
			"grid-template", "gap", "inset", "place-content", "place-items", "place-self", "text-decoration", "text-emphasis", "word-wrap", "page-break-after",
			"page-break-before", "page-break-inside", "mask-border", "line-clamp", "text-align", "--custom", "-weasy-x", "unknown-property", "marker", "all")
		sort.Strings(c07PropNames)
	}
	return c07PropNames
}

var c07Descriptors = map[string][]string{
	"@font-face":        {"src", "font-family", "font-style", "font-weight", "font-stretch", "unicode-range", "font-feature-settings", "font-variant", "font-display", "unknown"},
	"@counter-style cs": {"system", "symbols", "additive-symbols", "negative", "prefix", "suffix", "range", "pad", "fallback", "speak-as", "unknown"},
}

var c07SvgAttrs = []string{"transform", "viewBox", "preserveAspectRatio", "points", "width", "height", "x", "y", "r", "rx", "stroke-width", "stroke-dasharray", "stroke-dashoffset",
	"font-size", "opacity", "fill", "stroke", "offset", "gradientTransform", "patternTransform", "markerWidth", "refX", "orient", "dx", "rotate", "textLength", "style"}

var c07HtmlAttrs = [][2]string{{"td", "colspan"}, {"td", "rowspan"}, {"col", "span"}, {"colgroup", "span"}, {"ol", "start"}, {"li", "value"}, {"input", "size"}, {"textarea", "rows"},
	{"img", "width"}, {"img", "height"}, {"table", "cellpadding"}, {"table", "cellspacing"}, {"table", "border"}, {"hr", "size"}, {"font", "size"}, {"td", "width"}, {"td", "height"}, {"table", "width"}, {"body", "marginheight"}}

// svg.Parse is given a fetcher, as its callers in the library do (every URL fails: the sandbox has no network)
var c07Fetcher = (&drv.Opts{}).Fetcher()

func c07Sep(f string) string {
	switch f {
	case "selector", "svgattr", "svgref", "color", "nth", "url", "htmlattr", "page":
		return ""
	}
	return " "
}

func c07Main(args []string) int {
	n := 0
	return drv.Main("c07", args, func(fs *flag.FlagSet) { fs.IntVar(&c07Sample, "sample", 97, "emit one normal outcome in N as a trace record") }, func(line []byte, out *drv.Out) {
		var s struct {
			F string   `json:"f"`
			X []string `json:"x"`
		}
		if err := json.Unmarshal(line, &s); err != nil {
			out.Fatal("bad scenario: " + err.Error())
			return
		}
		x := strings.Join(s.X, c07Sep(s.F))
		call := func(ep, input string, f func() string) {
			outcome := ""
			site, msg, p := drv.Guard(func() { outcome = f() })
			n++
			out.Count("calls")
			if p {
				out.Count("panics-in-parsers")
				out.Disagree("C07:panic:"+ep+":"+site+":"+msg, fmt.Sprintf("%s panics on %q: %s in %s", ep, input, msg, site), map[string]interface{}{"ep": ep, "input": input})
				out.Emit(map[string]interface{}{"ep": ep, "input": input, "outcome": "panic"})
				return
			}
			out.Count("outcome-" + outcome)
			if n%c07Sample == 0 {
				out.Emit(map[string]interface{}{"ep": ep, "input": input, "outcome": outcome})
			}
		}
		okErr := func(err error) string {
			if err != nil {
				return "error"
			}
			return "ok"
		}
		css := func(ep, text string) {
			call(ep, text, func() string {
				_, err := tree.NewCSSDefault(utils.InputString(text))
				return okErr(err)
			})
		}
		switch s.F {
		case "selector":
			call("selector.ParseGroup", x, func() string { _, err := selector.ParseGroup(x); return okErr(err) })
			call("selector.Parse", x, func() string { _, err := selector.Parse(x); return okErr(err) })
			css("stylesheet:selector", x+"{color:red}")
		case "value":
			for _, p := range c07Props() {
				decl := p + ":" + x
				call("validation.PreprocessDeclarations", decl, func() string {
					ds := validation.PreprocessDeclarations("http://verif.test/", parser.ParseBlocksContentsString(decl))
					if len(ds) == 0 {
						return "ignored"
					}
					return "ok"
				})
			}
			// the whole pipeline on one element, with a custom property feeding var()
			call("tree.GetAllComputedStyles", x, func() string {
				doc := `<html><body style="--v:` + x + `"><p style="width:` + x + `;margin:` + x + `;content:` + x + `">t</p></body></html>`
				_, _, err := drv.Styles(doc, &drv.Opts{})
				return okErr(err)
			})
		case "gradient":
			for _, fn := range []string{"linear-gradient", "repeating-linear-gradient", "radial-gradient", "repeating-radial-gradient"} {
				for _, p := range []string{"background-image", "background", "border-image-source", "list-style-image", "content", "mask-border-source"} {
					decl := p + ":" + fn + "(" + x + ")"
					call("validation.PreprocessDeclarations", decl, func() string {
						if len(validation.PreprocessDeclarations("http://verif.test/", parser.ParseBlocksContentsString(decl))) == 0 {
							return "ignored"
						}
						return "ok"
					})
				}
			}
		case "svgpath":
			for _, tpl := range []string{`<path d="%s"/>`, `<path d="%s" marker-mid="url(#m)"/><marker id="m"><path d="M0 0"/></marker>`} {
				src := `<svg xmlns="http://www.w3.org/2000/svg" width="10" height="10">` + fmt.Sprintf(tpl, x) + `</svg>`
				call("svg.Parse:path", src, func() string { _, err := svg.Parse(strings.NewReader(src), "", nil, c07Fetcher); return okErr(err) })
			}
		case "svgattr":
			for _, a := range c07SvgAttrs {
				src := fmt.Sprintf(`<svg xmlns="http://www.w3.org/2000/svg" width="10" height="10" %s="%s"><g %s="%s"><rect width="5" height="5" %s="%s"/><polygon points="0,0 1,1" %s="%s"/><text %s="%s">t</text></g>`+
					`<linearGradient id="g" %s="%s"><stop %s="%s"/></linearGradient></svg>`, a, x, a, x, a, x, a, x, a, x, a, x, a, x)
				call("svg.Parse:"+a, src, func() string { _, err := svg.Parse(strings.NewReader(src), "", nil, c07Fetcher); return okErr(err) })
			}
		case "svgref":
			xe := strings.ReplaceAll(x, `"`, "&quot;")
			for _, a := range []string{"mask", "clip-path", "filter", "marker-start", "marker-mid", "marker-end", "fill", "stroke", "href", "xlink:href"} {
				src := fmt.Sprintf(`<svg xmlns="http://www.w3.org/2000/svg" xmlns:xlink="http://www.w3.org/1999/xlink" width="10" height="10"><defs><linearGradient id="g" %s="%s"/><clipPath id="x"><rect width="2" height="2"/></clipPath></defs>`+
					`<g %s="%s"><rect width="5" height="5" %s="%s"/><path d="M0 0L5 5L0 5" %s="%s"/><use %s="%s"/><text %s="%s">t</text></g></svg>`, a, xe, a, xe, a, xe, a, xe, a, xe, a, xe)
				call("svg.Parse:"+a, src, func() string { _, err := svg.Parse(strings.NewReader(src), "", nil, c07Fetcher); return okErr(err) })
			}
		case "descriptor":
			for at, names := range c07Descriptors {
				for _, d := range names {
					css("stylesheet:"+strings.Fields(at)[0]+":"+d, at+"{"+d+":"+x+"}")
				}
			}
			css("stylesheet:@import", "@import "+x+";")
			css("stylesheet:@namespace", "@namespace "+x+";")
		case "color":
			call("parser.ParseColorString", x, func() string {
				if parser.ParseColorString(x).IsNone() {
					return "ignored"
				}
				return "ok"
			})
			css("stylesheet:color", "a{color:"+x+";background:"+x+"}")
		case "nth":
			call("parser.ParseNth", x, func() string {
				if parser.ParseNth(parser.Tokenize([]byte(x), false)) == nil {
					return "ignored"
				}
				return "ok"
			})
			call("selector.ParseGroup:nth", x, func() string { _, err := selector.ParseGroup(":nth-child(" + x + ")"); return okErr(err) })
			css("stylesheet:@page:nth", "@page :nth("+x+"){margin:0}")
		case "media":
			css("stylesheet:@media", "@media "+x+"{a{color:red}}")
			css("stylesheet:@import-media", "@import url(x.css) "+x+";")
		case "page":
			css("stylesheet:@page", "@page "+x+"{margin:0;@top-left{content:'x'}}")
		case "url":
			call("utils.DefaultUrlFetcher", x, func() string {
				if !strings.HasPrefix(strings.ToLower(x), "data:") { // only data: urls are fetched offline
					return "ignored"
				}
				_, err := utils.DefaultUrlFetcher(x)
				return okErr(err)
			})
			call("utils.UrlJoin", x, func() string { utils.UrlJoin("http://verif.test/a/b.html", x, true, "verif"); return "ok" })
			call("utils.SafeUrljoin", x, func() string { _, err := utils.SafeUrljoin("http://verif.test/a/b.html", x, false); return okErr(err) })
			call("utils.Unquote", x, func() string { utils.Unquote(x); return "ok" })
			css("stylesheet:url", "a{background:url("+x+")}@import '"+x+"';")
		case "htmlattr":
			for _, ta := range c07HtmlAttrs {
				tag, a := ta[0], ta[1]
				var doc string
				switch tag {
				case "td":
					doc = fmt.Sprintf(`<table><tr><td %s="%s">a</td><td>b</td></tr><tr><td>c</td></tr></table>`, a, x)
				case "col", "colgroup":
					doc = fmt.Sprintf(`<table><%s %s="%s"></%s><tr><td>a</td></tr></table>`, tag, a, x, tag)
				case "li":
					doc = fmt.Sprintf(`<ol><li %s="%s">a</li><li>b</li></ol>`, a, x)
				case "ol":
					doc = fmt.Sprintf(`<ol %s="%s"><li>a</li></ol>`, a, x)
				default:
					doc = fmt.Sprintf(`<%s %s="%s">a</%s>`, tag, a, x, tag)
				}
				doc = "<html><body>" + doc + "</body></html>"
				call("layout:"+tag+"."+a, doc, func() string {
					_, err := drv.Layout(doc, &drv.Opts{Hints: true})
					return okErr(err)
				})
			}
		default:
			out.Fatal("unknown family " + s.F)
		}
	})
}
