package main

// X06 (extra coverage, not a listed property) — generated quotation marks, against spec/Quotes.tla.

import (
	"encoding/json"
	"flag"
	"fmt"
	"strings"

	"github.com/benoitkugler/webrender/html/boxes"

	"verif/harness/internal/drv"
)

func init() { commands["x06"] = x06Main }

func x06Main(args []string) int {
	return drv.Main("x06", args, func(fs *flag.FlagSet) {}, func(line []byte, out *drv.Out) {
		var s struct {
			Toks []string `json:"toks"`
			Out  []string `json:"out"`
		}
		if err := json.Unmarshal(line, &s); err != nil {
			out.Fatal("bad scenario: " + err.Error())
			return
		}
		kw := map[string]string{"open": "open-quote", "close": "close-quote", "no-open": "no-open-quote", "no-close": "no-close-quote"}
		var css, body strings.Builder
		// the tokens alternate between ::before of nested elements (even variants) and flat siblings (odd variants)
		nested := out.Cur%2 == 0
		for i, t := range s.Toks {
			fmt.Fprintf(&css, `.t%d::before{content:%s}`, i, kw[t])
		}
		for i := range s.Toks {
			fmt.Fprintf(&body, `<span class="t%d">`, i)
			if !nested {
				body.WriteString("</span>")
			}
		}
		if nested {
			body.WriteString(strings.Repeat("</span>", len(s.Toks)))
		}
		doc := `<html><head><style>@page{size:2000px 400px;margin:0}html,body{display:block;margin:0}body{quotes:"<" ">" "[" "]";font-family:weasyprint;font-size:8px}` + css.String() + `</style></head><body><p>` + strings.ReplaceAll(body.String(), "<span", "<span") + `</p></body></html>`
		doc = strings.ReplaceAll(doc, `"<" ">"`, `"\3c " "\3e "`)
		pages, err := drv.Layout(doc, &drv.Opts{})
		if err != nil || len(pages) != 1 {
			out.Fatal(fmt.Sprint("layout: ", err, len(pages)))
			return
		}
		out.Count("documents")
		var got strings.Builder
		drv.Walk(pages[0], func(bx boxes.Box, _ int) bool {
			if tb, ok := bx.(*boxes.TextBox); ok {
				got.WriteString(tb.TextS())
			}
			return true
		})
		want := strings.Join(s.Out, "")
		if g := strings.ReplaceAll(got.String(), " ", ""); g != want {
			out.Disagree("quotes:marks", fmt.Sprintf("tokens %v (nested=%v) print %q, CSS 2.1 12.3.2 requires %q", s.Toks, nested, g, want), map[string]interface{}{"doc": doc, "scenario": json.RawMessage(line)})
		}
	})
}
