package main

// C06 / C20 — the real tokenizer and serializer against spec/CssSyntax.tla.

import (
	"encoding/json"
	"flag"
	"fmt"
	"math"
	"strings"

	"github.com/benoitkugler/webrender/css/parser"

	"verif/harness/internal/drv"
)

func init() {
	commands["c06tok"] = c06TokMain
	commands["c20ser"] = c20SerMain
}

// Ev is one flattened token event, in the vocabulary of CssSyntax.tla.
type Ev struct {
	K     string          `json:"k"`
	S     int             `json:"s,omitempty"`
	V     []int           `json:"v,omitempty"`
	ID    bool            `json:"id,omitempty"`
	Err   bool            `json:"err,omitempty"`
	Repr  []int           `json:"repr,omitempty"`
	Int   bool            `json:"int,omitempty"`
	Neg   bool            `json:"neg,omitempty"`
	Mant  int             `json:"mant,omitempty"`
	Scale int             `json:"scale,omitempty"`
	Exp   int             `json:"exp,omitempty"`
	Unit  []int           `json:"unit,omitempty"`
	A     int             `json:"a,omitempty"`
	B     int             `json:"b,omitempty"`
	C     int             `json:"c,omitempty"`
	Fn    bool            `json:"fn,omitempty"`
	E     json.RawMessage `json:"e,omitempty"`

	line, col int     // impl side
	val       float64 // impl side numeric value
	ekind     string  // normalised error kind
}

type tokScn struct {
	Raw  []int `json:"raw"`
	Skip bool  `json:"skip"`
	Out  []Ev  `json:"out"`
}

func cps(s string) []int {
	out := []int{}
	for _, r := range s {
		out = append(out, int(r))
	}
	return out
}

func runesToString(v []int) string {
	var b strings.Builder
	for _, c := range v {
		b.WriteRune(rune(c))
	}
	return b.String()
}

func errKindName(k byte) string {
	switch k {
	case 'b':
		return "bad-string"
	case 'u':
		return "bad-url"
	case 's':
		return "eof-in-string"
	case 'e':
		return "eof-in-url"
	case ')', ']', '}':
		return string(rune(k))
	}
	return "other:" + string(rune(k))
}

// flatten converts the token tree of the real tokenizer to events.
func flatten(ts []parser.Token, out *[]Ev) {
	for _, t := range ts {
		p := t.Pos()
		e := Ev{line: p.Line, col: p.Column}
		switch t := t.(type) {
		case parser.Whitespace:
			e.K = "ws"
		case parser.Comment:
			e.K, e.V = "comment", cps(t.Value)
		case parser.Ident:
			e.K, e.V = "ident", cps(t.Value)
		case parser.AtKeyword:
			e.K, e.V = "at", cps(t.Value)
		case parser.Hash:
			e.K, e.V = "hash", cps(t.Value)
			e.ID, _, _ = parser.VerifTokenFlags(t)
		case parser.String:
			e.K, e.V = "string", cps(t.Value)
			_, e.Err, _ = parser.VerifTokenFlags(t)
		case parser.URL:
			e.K, e.V = "url", cps(t.Value)
			_, _, e.Err = parser.VerifTokenFlags(t)
		case parser.Literal:
			e.K, e.V = "lit", cps(t.Value)
		case parser.UnicodeRange:
			e.K, e.A, e.B = "urange", int(t.Start), int(t.End)
		case parser.Number:
			e.K, e.Repr, e.Int, e.val = "number", cps(t.Value), t.IsInt(), float64(t.ValueF)
		case parser.Percentage:
			e.K, e.Repr, e.Int, e.val = "percentage", cps(t.Value), t.IsInt(), float64(t.ValueF)
		case parser.Dimension:
			e.K, e.Repr, e.Int, e.val, e.Unit = "dimension", cps(t.Value), t.IsInt(), float64(t.ValueF), cps(t.Unit)
		case parser.ParseError:
			e.K, e.ekind = "error", errKindName(parser.VerifErrorKind(t))
		case parser.ParenthesesBlock:
			e.K, e.C = "open", '('
			*out = append(*out, e)
			flatten(t.Arguments, out)
			*out = append(*out, Ev{K: "close"})
			continue
		case parser.SquareBracketsBlock:
			e.K, e.C = "open", '['
			*out = append(*out, e)
			flatten(t.Arguments, out)
			*out = append(*out, Ev{K: "close"})
			continue
		case parser.CurlyBracketsBlock:
			e.K, e.C = "open", '{'
			*out = append(*out, e)
			flatten(t.Arguments, out)
			*out = append(*out, Ev{K: "close"})
			continue
		case parser.FunctionBlock:
			e.K, e.C, e.Fn, e.V = "open", '(', true, cps(t.Name)
			*out = append(*out, e)
			flatten(t.Arguments, out)
			*out = append(*out, Ev{K: "close"})
			continue
		default:
			e.K = fmt.Sprintf("unknown:%T", t)
		}
		*out = append(*out, e)
	}
}

func eqInts(a, b []int) bool {
	if len(a) != len(b) {
		return false
	}
	for i := range a {
		if a[i] != b[i] {
			return false
		}
	}
	return true
}

func specErrKind(e Ev) string {
	var s string
	if json.Unmarshal(e.E, &s) == nil {
		return s
	}
	var v []int
	if json.Unmarshal(e.E, &v) == nil && len(v) == 1 {
		return string(rune(v[0]))
	}
	return "?"
}

// cmpEv compares a specification event with an implementation event; returns the name of the first differing field.
func cmpEv(w, g Ev) string {
	if w.K != g.K {
		return "kind"
	}
	switch w.K {
	case "comment", "ident", "at", "lit":
		if !eqInts(w.V, g.V) {
			return "value"
		}
	case "hash":
		if !eqInts(w.V, g.V) {
			return "value"
		}
		if w.ID != g.ID {
			return "id-flag"
		}
	case "string", "url":
		if !eqInts(w.V, g.V) {
			return "value"
		}
		if w.Err != g.Err {
			return "error-flag"
		}
	case "urange":
		if w.A != g.A || w.B != g.B {
			return "range"
		}
	case "number", "percentage", "dimension":
		if !eqInts(w.Repr, g.Repr) {
			return "repr"
		}
		if w.Int != g.Int {
			return "int-flag"
		}
		want := float64(w.Mant) * math.Pow(10, float64(w.Exp-w.Scale))
		if w.Mant == 0 {
			want = 0 // (0 x 10^1010 is 0, not 0 x Inf)
		}
		if w.Neg {
			want = -want
		}
		w32 := float64(float32(want))
		if !(g.val == w32 || math.Abs(g.val-want) <= 1e-6*math.Abs(want) || (math.IsInf(w32, 0) && math.IsInf(g.val, 0))) {
			return "numeric-value"
		}
		if w.K == "dimension" && !eqInts(w.Unit, g.Unit) {
			return "unit"
		}
	case "open":
		if w.C != g.C || w.Fn != g.Fn {
			return "block-kind"
		}
		if w.Fn && !eqInts(w.V, g.V) {
			return "function-name"
		}
	case "error":
		if specErrKind(w) != g.ekind {
			return "error-kind"
		}
	}
	return ""
}

// Pre mirrors CSS Syntax 3.3 preprocessing (needed only to compute line/column from offsets).
func preprocess(raw []int) []int {
	var out []int
	for i := 0; i < len(raw); i++ {
		switch c := raw[i]; {
		case c == 13 && i+1 < len(raw) && raw[i+1] == 10:
			out = append(out, 10)
			i++
		case c == 13 || c == 12:
			out = append(out, 10)
		case c == 0:
			out = append(out, 0xFFFD)
		default:
			out = append(out, c)
		}
	}
	return out
}

func isASCII(v []int) bool {
	for _, c := range v {
		if c >= 128 || c == 0 {
			return false
		}
	}
	return true
}

func lineCol(src []int, s int) (int, int) { // s: 1-based offset
	line, last := 1, 0
	for i := 0; i < s-1 && i < len(src); i++ {
		if src[i] == 10 {
			line++
			last = i + 1
		}
	}
	return line, s - last
}

func describe(e Ev) string {
	switch e.K {
	case "error":
		k := e.ekind
		if k == "" {
			k = specErrKind(e)
		}
		return "error(" + k + ")"
	case "open":
		if e.Fn {
			return "function"
		}
		return "open" + string(rune(e.C))
	}
	return e.K
}

// compareTokens returns "" or (key, what).
func compareTokens(raw []int, want []Ev, got []Ev, positions bool) (string, string) {
	n := len(want)
	if len(got) < n {
		n = len(got)
	}
	for i := 0; i < n; i++ {
		if f := cmpEv(want[i], got[i]); f != "" {
			return fmt.Sprintf("token:%s:%s-vs-%s", f, describe(want[i]), describe(got[i])),
				fmt.Sprintf("%q: event %d: CSS Syntax gives %s, tokenizer gives %s (field %s)", runesToString(raw), i, describe(want[i]), describe(got[i]), f)
		}
	}
	if len(want) != len(got) {
		var extra string
		if len(got) > len(want) {
			extra = "extra:" + describe(got[n])
		} else {
			extra = "missing:" + describe(want[n])
		}
		return "token:count:" + extra, fmt.Sprintf("%q: %d events expected, %d produced (%s)", runesToString(raw), len(want), len(got), extra)
	}
	if positions {
		src := preprocess(raw)
		for i := range want {
			if want[i].K == "close" {
				continue
			}
			l, c := lineCol(src, want[i].S)
			if l != got[i].line || c != got[i].col {
				return "token:position:" + describe(want[i]), fmt.Sprintf("%q: event %d (%s) starts at %d:%d, tokenizer says %d:%d", runesToString(raw), i, describe(want[i]), l, c, got[i].line, got[i].col)
			}
		}
	}
	return "", ""
}

func c06TokMain(args []string) int {
	return drv.Main("c06tok", args, func(fs *flag.FlagSet) {}, func(line []byte, out *drv.Out) {
		var s tokScn
		if err := json.Unmarshal(line, &s); err != nil {
			out.Fatal("bad scenario: " + err.Error())
			return
		}
		text := runesToString(s.Raw)
		var got []Ev
		ts := parser.Tokenize([]byte(text), s.Skip)
		flatten(ts, &got)
		if len(s.Out) > 1 {
			out.Count("nontrivial")
		}
		key, what := compareTokens(s.Raw, s.Out, got, isASCII(s.Raw))
		if key != "" {
			out.Disagree(key, what, map[string]interface{}{"input": text, "raw": s.Raw, "skip": s.Skip, "want": s.Out, "got": got})
		}
	})
}

// ---------------------------------------------------------------- C20

// c20SerMain: for each scenario (raw input), tokenize with the real tokenizer, serialize with the real
// serializer and print {raw, ser} for the specification to re-tokenize (round trip decided by TLC).
func c20SerMain(args []string) int {
	return drv.Main("c20ser", args, func(fs *flag.FlagSet) {}, func(line []byte, out *drv.Out) {
		var s tokScn
		if err := json.Unmarshal(line, &s); err != nil {
			out.Fatal("bad scenario: " + err.Error())
			return
		}
		for _, e := range s.Out {
			if e.K == "error" {
				out.Count("skipped-error-tokens")
				return // property speaks of error-free token lists
			}
		}
		text := runesToString(s.Raw)
		ts := parser.Tokenize([]byte(text), s.Skip)
		ser := parser.Serialize(ts)
		// re-tokenize the serialisation with the real tokenizer and compare with the specification's tokens of the
		// ORIGINAL input (so the reference is the spec, not the tokenizer under test)
		var got []Ev
		flatten(parser.Tokenize([]byte(ser), true), &got)
		var want []Ev
		for _, e := range s.Out {
			if e.K != "comment" {
				want = append(want, e)
			}
		}
		out.Count("roundtrips")
		out.Emit(map[string]interface{}{"raw": s.Raw, "ser": cps(ser)})
		key, what := compareTokens(cps(ser), mergeWs(want), mergeWs(got), false)
		if key != "" {
			out.Disagree("roundtrip:"+key, fmt.Sprintf("input %q serialises to %q which re-tokenizes differently: %s", text, ser, what),
				map[string]interface{}{"input": text, "raw": s.Raw, "serialized": ser, "want": want, "got": got})
		}
	})
}

// mergeWs merges adjacent whitespace events (removing a comment between two whitespace runs joins them).
func mergeWs(evs []Ev) []Ev {
	var out []Ev
	for _, e := range evs {
		if e.K == "ws" && len(out) > 0 && out[len(out)-1].K == "ws" {
			continue
		}
		out = append(out, e)
	}
	return out
}

// ---------------------------------------------------------------- rule / declaration parsers (CssParse.tla)

type parseItem struct {
	K   string `json:"k"`
	Np  int    `json:"np"`
	Nv  int    `json:"nv"`
	Blk bool   `json:"blk"`
	Imp bool   `json:"imp"`
	Lax bool   `json:"lax"`
}

type parseScn struct {
	Entry string      `json:"entry"`
	Toks  []string    `json:"toks"`
	Res   []parseItem `json:"res"`
}

func init() {
	commands["c06parse"] = func(args []string) int { return c06ParseMain("c06parse", args) }
	commands["c20rule"] = func(args []string) int { ruleRoundTrip = true; return c06ParseMain("c20rule", args) }
}

// ruleRoundTrip switches the parse driver to the C20 rule-level round trip.
var ruleRoundTrip bool

func stripEv(evs []Ev) []Ev {
	var out []Ev
	for _, e := range mergeWs(evs) {
		if e.K == "comment" {
			continue
		}
		e.line, e.col, e.S = 0, 0, 0
		out = append(out, e)
	}
	return mergeWs(out)
}

func sameTokens(a, b []parser.Token) bool {
	var fa, fb []Ev
	flatten(a, &fa)
	flatten(b, &fb)
	fa, fb = stripEv(fa), stripEv(fb)
	if len(fa) != len(fb) {
		return false
	}
	for i := range fa {
		if fa[i].K != fb[i].K || !eqInts(fa[i].V, fb[i].V) || !eqInts(fa[i].Repr, fb[i].Repr) || !eqInts(fa[i].Unit, fb[i].Unit) || fa[i].C != fb[i].C {
			return false
		}
	}
	return true
}

// c20Rules: every parsed rule / declaration is serialized with the package's rule serializers and parsed
// again on its own; it must come back as the same construct with the same component values.
func c20Rules(s *parseScn, texts []string, res []parser.Compound, out *drv.Out) {
	for _, r := range res {
		switch r.(type) {
		case parser.QualifiedRule, parser.AtRule, parser.Declaration:
		default:
			continue
		}
		text := parser.VerifSerializeCompound(r)
		out.Count("roundtrips")
		bad := func(why string) {
			out.Disagree("rule-roundtrip:"+why, fmt.Sprintf("%s of %q: %T serialises to %q which parses back differently (%s)", s.Entry, strings.Join(texts, ""), r, text, why),
				map[string]interface{}{"entry": s.Entry, "tokens": s.Toks, "serialized": text})
		}
		switch r := r.(type) {
		case parser.Declaration:
			back := parser.ParseOneDeclaration(parser.Tokenize([]byte(text), false))
			d, ok := back.(parser.Declaration)
			if !ok {
				bad("declaration-becomes-error")
			} else if d.Name != r.Name || d.Important != r.Important {
				bad("declaration-name-or-importance")
			} else if !sameTokens(d.Value, r.Value) {
				bad("declaration-value")
			}
		case parser.QualifiedRule:
			back := parser.ParseRuleList(parser.Tokenize([]byte(text), false), true, true)
			if len(back) != 1 {
				bad("qualified-rule-count")
				continue
			}
			q, ok := back[0].(parser.QualifiedRule)
			if !ok {
				bad("qualified-rule-kind")
			} else if !sameTokens(q.Prelude, r.Prelude) || !sameTokens(q.Content, r.Content) {
				bad("qualified-rule-tokens")
			}
		case parser.AtRule:
			back := parser.ParseRuleList(parser.Tokenize([]byte(text), false), true, true)
			if len(back) != 1 {
				bad("at-rule-count")
				continue
			}
			q, ok := back[0].(parser.AtRule)
			if !ok {
				bad("at-rule-kind")
			} else if q.AtKeyword != r.AtKeyword {
				bad("at-rule-keyword")
			} else if !sameTokens(q.Prelude, r.Prelude) || !sameTokens(q.Content, r.Content) || (q.Content == nil) != (r.Content == nil) {
				bad("at-rule-tokens")
			}
		}
	}
}

var absText = map[string]string{
	"ws": " ", "comment": "/*c*/", "ident": "color", "imp": "ImPortant", ":": ":", ";": ";", "!": "!",
	"at": "@media", "{}": "{a:b;c}", "()": "(x;y)", "num": "12px", "cdo": "<!--", "cdc": "-->",
}

func c06ParseMain(name string, args []string) int {
	return drv.Main(name, args, func(fs *flag.FlagSet) {}, func(line []byte, out *drv.Out) {
		var s parseScn
		if err := json.Unmarshal(line, &s); err != nil {
			out.Fatal("bad scenario: " + err.Error())
			return
		}
		// each abstract token is tokenized on its own, so adjacent tokens never fuse
		var toks []parser.Token
		var texts []string
		for i, a := range s.Toks {
			txt := absText[a]
			if a == "{}" {
				// (the contents of a block do not matter to the rule consumers: also the empty and the blank block)
				txt = []string{"{a:b;c}", "{}", "{ }"}[(out.Cur+i)%3]
			}
			t := parser.Tokenize([]byte(txt), false)
			if len(t) != 1 {
				out.Fatal(fmt.Sprintf("abstract token %q -> %d tokens", a, len(t)))
				return
			}
			toks = append(toks, t[0])
			texts = append(texts, txt)
		}
		var res []parser.Compound
		switch s.Entry {
		case "stylesheet":
			res = parser.ParseStylesheet(toks, false, false)
		case "rules":
			res = parser.ParseRuleList(toks, false, false)
		case "decls":
			res = parser.ParseDeclarationList(toks, false, false)
		case "onedecl":
			res = []parser.Compound{parser.ParseOneDeclaration(toks)}
		case "blocks":
			for _, w := range s.Res {
				if w.K == "qual" && w.Lax {
					out.Count("lax-skipped")
					return
				}
			}
			res = parser.ParseBlocksContents(toks, false)
		}
		if ruleRoundTrip {
			c20Rules(&s, texts, res, out)
			return
		}
		var got []parseItem
		for _, r := range res {
			switch r := r.(type) {
			case parser.Whitespace:
				got = append(got, parseItem{K: "ws"})
			case parser.Comment:
				got = append(got, parseItem{K: "comment"})
			case parser.ParseError:
				got = append(got, parseItem{K: "error"})
			case parser.AtRule:
				got = append(got, parseItem{K: "at", Np: len(r.Prelude), Blk: r.Content != nil})
			case parser.QualifiedRule:
				got = append(got, parseItem{K: "qual", Np: len(r.Prelude)})
			case parser.Declaration:
				got = append(got, parseItem{K: "decl", Nv: len(r.Value), Imp: r.Important})
			}
		}
		if len(s.Toks) >= 2 {
			out.Count("nontrivial")
		}
		describeAll := func(v []parseItem) string {
			var parts []string
			for _, x := range v {
				switch x.K {
				case "at":
					parts = append(parts, fmt.Sprintf("at(np=%d,blk=%v)", x.Np, x.Blk))
				case "qual":
					parts = append(parts, fmt.Sprintf("qual(np=%d)", x.Np))
				case "decl":
					parts = append(parts, fmt.Sprintf("decl(nv=%d,imp=%v)", x.Nv, x.Imp))
				default:
					parts = append(parts, x.K)
				}
			}
			return strings.Join(parts, " ")
		}
		fail := func(key string) {
			out.Disagree("parse:"+s.Entry+":"+key, fmt.Sprintf("%s of %q: CSS Syntax gives [%s], parser gives [%s]", s.Entry, strings.Join(texts, ""), describeAll(s.Res), describeAll(got)),
				map[string]interface{}{"entry": s.Entry, "tokens": s.Toks, "text": strings.Join(texts, ""), "want": s.Res, "got": got})
		}
		if len(got) != len(s.Res) {
			fail("count")
			return
		}
		for i, w := range s.Res {
			g := got[i]
			if w.K == "decl" && w.Lax && (g.K == "error" || g.K == "decl") {
				continue
			}
			if w.K != g.K {
				fail("kind:" + w.K + "-vs-" + g.K)
				return
			}
			switch w.K {
			case "at":
				if w.Np != g.Np || w.Blk != g.Blk {
					fail("at-rule-extent")
					return
				}
			case "qual":
				if w.Np != g.Np {
					fail("qualified-rule-extent")
					return
				}
			case "decl":
				if w.Imp != g.Imp {
					fail("important")
					return
				}
				if w.Nv != g.Nv {
					fail("declaration-value-extent")
					return
				}
			}
		}
	})
}
