package main

// C09 — the box tree obeys the CSS box-generation rules, against spec/BoxTree.tla.
//
// A scenario is an element tree (pre-order sequence of [parent, display, float, abs, text]). It is materialised with <div>
// elements only (so that the HTML parser adds no fix-up of its own), the real boxes.BuildFormattingStructure builds the
// box tree, which is emitted flat (pre-order, parent pointers) as a trace record that TLC validates with
// BoxTreeTrace.tla (operator Failures). For the block / inline / inline-block / none subset the specification also gives
// the reference box tree (operator Gen) and the real tree must be that tree.

import (
	"encoding/json"
	"flag"
	"fmt"
	"strconv"
	"strings"

	"github.com/benoitkugler/webrender/css/counters"
	"github.com/benoitkugler/webrender/html/boxes"
	"github.com/benoitkugler/webrender/html/tree"
	"github.com/benoitkugler/webrender/utils"

	"verif/harness/internal/drv"
)

func init() { commands["c09"] = c09Main }

type btEl struct {
	Parent  int    `json:"parent"`
	Display string `json:"display"`
	Float   string `json:"float"`
	Abs     bool   `json:"abs"`
	Text    bool   `json:"text"`
	Cs      int    `json:"cs"`
	Rs      int    `json:"rs"`
}

type btGen struct {
	Type string  `json:"type"`
	Anon bool    `json:"anon"`
	El   int     `json:"el"`
	Kids []btGen `json:"kids"`
}

type btScn struct {
	Doc []btEl  `json:"doc"`
	Gen []btGen `json:"gen"`
}

type btBox struct {
	Parent  int    `json:"parent"`
	Type    string `json:"type"`
	Anon    bool   `json:"anon"`
	El      int    `json:"el"`
	Oof     bool   `json:"oof"`
	Wrapper bool   `json:"wrapper"`
	Gx      int    `json:"gx"`
	Ry      int    `json:"ry"`
	Cs      int    `json:"cs"`
	Rs      int    `json:"rs"`
	Txt     string `json:"txt"`
}

// c09HTML writes the element tree. Variants of the same tree (the specification's clauses do not depend on them):
//  1: the text of an element ends with a space and white-space-only text separates sibling elements
//  2: an element with display: none also has float: footnote (it is hidden all the same)
func c09HTML(s *btScn, variant int) string {
	var b strings.Builder
	b.WriteString(`<html><head><style>div{display:block}</style></head><body>`)
	var emit func(i int)
	emit = func(i int) {
		e := s.Doc[i-1]
		st := "display:" + e.Display
		if e.Float != "none" && e.Float != "" {
			st += ";float:" + e.Float
		}
		if e.Abs {
			st += ";position:absolute"
		}
		if variant == 2 && e.Display == "none" && e.Float == "none" && !e.Abs {
			st += ";float:footnote"
		}
		attr := ""
		if e.Cs > 1 {
			attr += fmt.Sprintf(` colspan="%d"`, e.Cs)
		}
		if e.Rs != 1 && e.Display == "table-cell" {
			attr += fmt.Sprintf(` rowspan="%d"`, e.Rs)
		}
		fmt.Fprintf(&b, `<div id="e%d"%s style="%s">`, i, attr, st)
		if e.Text {
			fmt.Fprintf(&b, "t%d", i)
			if variant == 1 {
				b.WriteString(" ")
			}
		}
		for j := i + 1; j <= len(s.Doc); j++ {
			if s.Doc[j-1].Parent == i {
				emit(j)
			}
		}
		b.WriteString("</div>")
		if variant == 1 {
			b.WriteString(" ")
		}
	}
	for j := 1; j <= len(s.Doc); j++ {
		if s.Doc[j-1].Parent == 0 {
			emit(j)
		}
	}
	b.WriteString("</body></html>")
	return b.String()
}

func c09Build(doc string) (boxes.Box, error) {
	cs := make(counters.CounterStyle)
	o := &drv.Opts{Counters: cs}
	h, sf, err := drv.Styles(doc, o)
	if err != nil {
		return nil, err
	}
	tc := tree.NewTargetCollector()
	var footnotes []boxes.Box
	root := boxes.BuildFormattingStructure(h.Root, sf, boxes.URLResolver{Fetch: o.Fetcher()}, h.BaseUrl, &tc, cs, &footnotes)
	return root, nil
}

func c09ElID(f *boxes.BoxFields) int {
	if f.Element == nil {
		return 0
	}
	id := (*utils.HTMLNode)(f.Element).Get("id")
	if strings.HasPrefix(id, "e") {
		if n, err := strconv.Atoi(id[1:]); err == nil {
			return n
		}
	}
	return 0
}

func c09Flatten(root boxes.Box) []btBox {
	var out []btBox
	var walk func(b boxes.Box, parent int, rowIdx int)
	walk = func(b boxes.Box, parent int, rowIdx int) {
		f := b.Box()
		_, anon := f.Style.(*tree.AnonymousStyle)
		x := btBox{Parent: parent, Type: b.Type().String(), Anon: anon, El: c09ElID(f), Oof: !f.IsInNormalFlow(), Wrapper: f.IsTableWrapper, Gx: 1, Ry: 1, Cs: 1, Rs: 1}
		if tb, ok := b.(*boxes.TextBox); ok {
			x.Txt = tb.TextS()
		}
		if _, ok := b.(*boxes.TableCellBox); ok {
			x.Gx, x.Cs, x.Rs, x.Ry = f.GridX+1, f.Colspan, f.Rowspan, rowIdx
			if x.Rs < 1 {
				x.Rs = 1
			}
			if x.Cs < 1 {
				x.Cs = 1
			}
		}
		out = append(out, x)
		me := len(out)
		for k, c := range f.Children {
			ri := rowIdx
			if _, ok := b.(*boxes.TableRowGroupBox); ok {
				ri = k + 1
			}
			walk(c, me, ri)
		}
	}
	walk(root, 0, 1)
	return out
}

// the part of the real tree below <body> as a nested reference-shaped tree (text boxes holding only white space are skipped)
func c09Nested(b boxes.Box) btGen {
	f := b.Box()
	_, anon := f.Style.(*tree.AnonymousStyle)
	g := btGen{Type: b.Type().String(), Anon: anon, El: c09ElID(f), Kids: []btGen{}}
	for _, c := range f.Children {
		g.Kids = append(g.Kids, c09Nested(c))
	}
	return g
}

func c09Show(g btGen) string {
	s := g.Type
	if g.Anon {
		s = "anon-" + s
	}
	s += fmt.Sprintf("#%d", g.El)
	if len(g.Kids) > 0 {
		var ks []string
		for _, k := range g.Kids {
			ks = append(ks, c09Show(k))
		}
		s += "[" + strings.Join(ks, " ") + "]"
	}
	return s
}

func c09Main(args []string) int {
	return drv.Main("c09", args, func(fs *flag.FlagSet) {}, func(line []byte, out *drv.Out) {
		var s btScn
		if err := json.Unmarshal(line, &s); err != nil {
			out.Fatal("bad scenario: " + err.Error())
			return
		}
		variant := out.Cur % 3
		if len(s.Gen) == 1 && variant == 1 {
			variant = 0 // (the reference generator does not model white-space-only text: those trees are compared without it)
		}
		doc := c09HTML(&s, variant)
		root, err := c09Build(doc)
		if err != nil {
			out.Fatal(err.Error())
			return
		}
		out.Count("trees")
		flat := c09Flatten(root)
		out.Add("boxes", len(flat))
		body := doc[strings.Index(doc, "<body>"):]
		out.Emit(map[string]interface{}{"doc": s.Doc, "boxes": flat, "html": body})
		if len(s.Gen) == 1 {
			out.Count("compared-with-reference-generator")
			// find the <body> box: the root is <html> holding <body>
			var bodyBox boxes.Box
			drv.Walk(root, func(b boxes.Box, _ int) bool {
				if bodyBox == nil && b.Box().Element != nil && b.Box().Element.Data == "body" {
					bodyBox = b
				}
				return bodyBox == nil
			})
			if bodyBox == nil {
				out.Disagree("C09:gen:no-body-box", body, map[string]interface{}{"doc": doc})
				return
			}
			got := c09Nested(bodyBox)
			want := s.Gen[0]
			if c09Show(got) != c09Show(want) {
				out.Disagree("C09:gen:box-tree-differs-from-reference", fmt.Sprintf("%s builds %s instead of %s", body, c09Show(got), c09Show(want)),
					map[string]interface{}{"doc": doc, "scenario": json.RawMessage(line), "got": got})
			}
		}
	})
}
