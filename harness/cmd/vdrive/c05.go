package main

// C05 — css/selector against spec/Selectors.tla.

import (
	"encoding/json"
	"flag"
	"fmt"
	"strings"

	"github.com/benoitkugler/webrender/css/selector"
	"golang.org/x/net/html"
	"golang.org/x/net/html/atom"

	"verif/harness/internal/drv"
)

func init() { commands["c05"] = c05Main }

type selTree struct {
	N       int      `json:"n"`
	Par     []int    `json:"par"`
	Kind    []string `json:"kind"`
	Tag     []string `json:"tag"`
	Cls     []bool   `json:"cls"`
	ID      []bool   `json:"id"`
	HasAttr []bool   `json:"hasattr"`
	Attr    [][]int  `json:"attr"`
	Blank   []bool   `json:"blank"`
}

type selPseudo struct {
	N      string       `json:"n"`
	A      int          `json:"a"`
	B      int          `json:"b"`
	Last   bool         `json:"last"`
	OfType bool         `json:"oftype"`
	Args   []selComplex `json:"args"`
	Op     string       `json:"op"`
	Val    []int        `json:"val"`
	Ci     bool         `json:"ci"`
}

type selCompound struct {
	Tag string      `json:"tag"`
	Cls bool        `json:"cls"`
	ID  bool        `json:"id"`
	Pcs []selPseudo `json:"pcs"`
}

type selComplex struct {
	Cs   []selCompound `json:"cs"`
	Comb []string      `json:"comb"`
}

type selScn struct {
	Family string       `json:"family"`
	Tree   selTree      `json:"tree"`
	Sel    []selComplex `json:"sel"`
	Match  []bool       `json:"match"`
	Pe     string       `json:"pe"`
	Spec   [][]int      `json:"spec"`
}

// abstract tag -> element name: "q" and "r" are custom elements (no entry in the atom table)
func tagName(t string) string {
	switch t {
	case "q":
		return "x-q"
	case "r":
		return "x-r"
	}
	return t
}

func buildDOM(t *selTree) []*html.Node {
	nodes := make([]*html.Node, t.N)
	for i := 0; i < t.N; i++ {
		n := &html.Node{}
		switch t.Kind[i] {
		case "elem":
			n.Type = html.ElementNode
			n.Data = tagName(t.Tag[i])
			n.DataAtom = atom.Lookup([]byte(n.Data))
			if t.Cls[i] {
				n.Attr = append(n.Attr, html.Attribute{Key: "class", Val: "x c y"})
			}
			if t.ID[i] {
				n.Attr = append(n.Attr, html.Attribute{Key: "id", Val: "i"})
			}
			if t.HasAttr[i] {
				n.Attr = append(n.Attr, html.Attribute{Key: "t", Val: runesToString(t.Attr[i])})
			}
		case "text":
			n.Type = html.TextNode
			n.Data = "some text"
			if i%2 == 1 {
				n.Data = "\u00a0" // (a no-break space is not document white space: the text is not blank)
			}
			if t.Blank[i] {
				n.Data = " \n\t "
			}
		case "comment":
			n.Type = html.CommentNode
			n.Data = "a comment"
		}
		nodes[i] = n
		if p := t.Par[i]; p >= 1 {
			nodes[p-1].AppendChild(n)
		}
	}
	return nodes
}

func cssString(v []int) string {
	var b strings.Builder
	b.WriteByte('"')
	for _, c := range v {
		if c == '"' || c == '\\' {
			b.WriteByte('\\')
		}
		if c == '\n' {
			b.WriteString("\\a ") // (a line feed inside a string is written as an escape)
			continue
		}
		b.WriteRune(rune(c))
	}
	b.WriteByte('"')
	return b.String()
}

func anb(a, b int, variant int) string {
	// several textual forms of an+b
	sp := ""
	if variant%2 == 1 {
		sp = " "
	}
	switch {
	case a == 0:
		return fmt.Sprintf("%d", b)
	case b == 0:
		return fmt.Sprintf("%dn", a)
	case b < 0:
		return fmt.Sprintf("%dn%s-%s%d", a, sp, sp, -b)
	default:
		return fmt.Sprintf("%dn%s+%s%d", a, sp, sp, b)
	}
}

func pseudoText(p selPseudo, variant int) string {
	switch p.N {
	case "nth":
		name := "nth-"
		if p.Last {
			name += "last-"
		}
		if p.OfType {
			name += "of-type"
		} else {
			name += "child"
		}
		arg := anb(p.A, p.B, variant)
		if variant >= 2 {
			if p.A == 2 && p.B == 1 {
				arg = "odd"
			} else if p.A == 2 && p.B == 0 {
				arg = "even"
			} else if p.A == 1 && p.B != 0 {
				arg = strings.Replace(arg, "1n", "n", 1)
			} else if p.A == -1 {
				arg = strings.Replace(arg, "-1n", "-n", 1)
			}
		}
		return ":" + name + "(" + arg + ")"
	case "not", "is", "has":
		var parts []string
		for _, a := range p.Args {
			parts = append(parts, complexText(a, variant))
		}
		return ":" + p.N + "(" + strings.Join(parts, ", ") + ")"
	case "attr":
		if p.Op == "exists" {
			return "[t]"
		}
		if p.Op == "class" {
			return "." + runesToString(p.Val)
		}
		s := "[t" + p.Op + cssString(p.Val)
		if p.Ci {
			s += " i"
		}
		return s + "]"
	}
	return ":" + p.N
}

func compoundText(c selCompound, variant int) string {
	var b strings.Builder
	if c.Tag != "*" || (!c.Cls && !c.ID && len(c.Pcs) == 0) {
		if variant%2 == 1 {
			// type selectors of HTML documents are ASCII case-insensitive, for known and for unknown elements
			b.WriteString(strings.ToUpper(tagName(c.Tag)))
		} else {
			b.WriteString(tagName(c.Tag))
		}
	}
	if c.ID {
		b.WriteString("#i")
	}
	if c.Cls {
		b.WriteString(".c")
	}
	for _, p := range c.Pcs {
		b.WriteString(pseudoText(p, variant))
	}
	return b.String()
}

func complexText(s selComplex, variant int) string {
	var b strings.Builder
	for i, c := range s.Cs {
		if i > 0 {
			cb := s.Comb[i-1]
			if cb == " " {
				b.WriteString(" ")
			} else if variant%2 == 0 {
				b.WriteString(" " + cb + " ")
			} else {
				b.WriteString(cb)
			}
		}
		b.WriteString(compoundText(c, variant))
	}
	return b.String()
}

func hasStructural(s []selComplex) bool {
	for _, c := range s {
		for _, cp := range c.Cs {
			for _, p := range cp.Pcs {
				switch p.N {
				case "nth", "first-child", "last-child", "first-of-type", "last-of-type", "only-child", "only-of-type":
					return true
				case "not", "is", "has":
					if hasStructural(p.Args) {
						return true
					}
				}
			}
		}
	}
	return false
}

func selKey(s []selComplex) string {
	seen := map[string]bool{}
	var ks []string
	add := func(k string) {
		if !seen[k] {
			seen[k] = true
			ks = append(ks, k)
		}
	}
	var walk func(cs []selComplex)
	walk = func(cs []selComplex) {
		for _, c := range cs {
			for _, cb := range c.Comb {
				add("comb'" + cb + "'")
			}
			for _, cp := range c.Cs {
				for _, p := range cp.Pcs {
					if p.N == "attr" {
						k := "attr" + p.Op
						if len(p.Val) == 0 && p.Op != "exists" {
							k += "(empty)"
						}
						add(k)
					} else {
						add(p.N)
					}
					walk(p.Args)
				}
			}
		}
	}
	walk(s)
	if len(s) > 1 {
		add("list")
	}
	if len(ks) == 0 {
		return "simple"
	}
	return strings.Join(ks, "+")
}

func c05Main(args []string) int {
	return drv.Main("c05", args, func(fs *flag.FlagSet) {}, func(line []byte, out *drv.Out) {
		var s selScn
		if err := json.Unmarshal(line, &s); err != nil {
			out.Fatal("bad scenario: " + err.Error())
			return
		}
		nodes := buildDOM(&s.Tree)
		if len(s.Sel) == 1 && len(s.Sel[0].Cs) == 1 && len(s.Sel[0].Cs[0].Pcs) == 1 && s.Sel[0].Cs[0].Pcs[0].Op == "class" {
			// the class selector reads the attribute `class`
			for _, n := range nodes {
				for k := range n.Attr {
					if n.Attr[k].Key == "t" {
						n.Attr[k].Key = "class"
					}
				}
			}
		}
		skipRoot := hasStructural(s.Sel) // Selectors 3 and 4 differ on structural pseudo-classes of the root element
		for variant := 0; variant < 3; variant++ {
			var parts []string
			for _, c := range s.Sel {
				t := complexText(c, variant)
				if s.Pe != "" {
					if variant%2 == 1 && s.Pe != "marker" {
						t += ":" + s.Pe // legacy one-colon syntax of CSS 2.1 pseudo-elements
					} else {
						t += "::" + s.Pe
					}
				}
				parts = append(parts, t)
			}
			text := strings.Join(parts, ", ")
			if variant > 0 && s.Family != "nth" && variant == 2 {
				continue
			}
			grp, err := selector.ParseGroup(text)
			if err != nil {
				out.Disagree("parse-rejected:"+selKey(s.Sel), fmt.Sprintf("valid selector %q rejected: %v", text, err), map[string]interface{}{"selector": text, "scenario": json.RawMessage(line)})
				return
			}
			out.Count("selectors")
			check := func(g selector.SelectorGroup, stage, shown string) bool {
				if len(g) != len(s.Sel) {
					out.Disagree("group-size:"+selKey(s.Sel), fmt.Sprintf("%q parses to %d selectors, expected %d", shown, len(g), len(s.Sel)), map[string]interface{}{"selector": shown})
					return false
				}
				for i, n := range nodes {
					if i == 0 && skipRoot {
						continue
					}
					if n.Type != html.ElementNode {
						// the property speaks of elements; text/comment nodes must simply not match
						if g.Match(n) {
							out.Disagree("non-element-matches:"+selKey(s.Sel), fmt.Sprintf("%q matches a %s node", shown, s.Tree.Kind[i]), map[string]interface{}{"selector": shown, "scenario": json.RawMessage(line)})
							return false
						}
						continue
					}
					got := g.Match(n)
					if got != s.Match[i] {
						out.Disagree("match"+stage+":"+selKey(s.Sel), fmt.Sprintf("%q on node %d (%s) of tree par=%v kinds=%v tags=%v: Selectors says %v, Match says %v",
							shown, i+1, s.Tree.Tag[i], s.Tree.Par, s.Tree.Kind, s.Tree.Tag, s.Match[i], got),
							map[string]interface{}{"selector": shown, "node": i + 1, "want": s.Match[i], "got": got, "scenario": json.RawMessage(line)})
						return false
					}
				}
				for j, sel := range g {
					sp := sel.Specificity()
					if sp[0] != s.Spec[j][0] || sp[1] != s.Spec[j][1] || sp[2] != s.Spec[j][2] {
						out.Disagree("specificity"+stage+":"+selKey(s.Sel), fmt.Sprintf("%q: specificity %v, Selectors says %v", shown, sp, s.Spec[j]),
							map[string]interface{}{"selector": shown, "want": s.Spec[j], "got": sp})
						return false
					}
					if sel.PseudoElement() != s.Pe {
						out.Disagree("pseudo-element"+stage+":"+selKey(s.Sel), fmt.Sprintf("%q: pseudo-element %q, expected %q", shown, sel.PseudoElement(), s.Pe), nil)
						return false
					}
				}
				return true
			}
			if !check(grp, "", text) {
				return
			}
			// print back and re-parse: must still agree with the specification
			printed := grp.String()
			grp2, err := selector.ParseGroup(printed)
			if err != nil {
				out.Disagree("reparse-rejected:"+selKey(s.Sel), fmt.Sprintf("%q prints as %q which does not parse: %v", text, printed, err), map[string]interface{}{"selector": text, "printed": printed})
				return
			}
			if !check(grp2, "-after-print", printed+" (printed form of "+text+")") {
				return
			}
		}
	})
}
