package main

// C10 — block-level boxes are sized and stacked per CSS 2.1, against spec/BlockLayout.tla.

import (
	"encoding/json"
	"flag"
	"fmt"
	"math"
	"strings"

	"github.com/benoitkugler/webrender/html/boxes"

	"verif/harness/internal/drv"
)

func init() { commands["c10"] = c10Main }

type blkBox struct {
	Mt   int      `json:"mt"`
	Mb   int      `json:"mb"`
	Bt   int      `json:"bt"`
	Bb   int      `json:"bb"`
	H    int      `json:"h"`
	Mh   int      `json:"mh"`
	Mxp  int      `json:"mxp"`
	Kids []blkBox `json:"kids"`
}

type blkObs struct {
	Yb  int  `json:"yb"`
	Bh  int  `json:"bh"`
	Vis bool `json:"vis"`
}

type blkScn struct {
	Mode string `json:"mode"`
	Scn  struct {
		Ml, Mr, W, Wpct, Pl, Pr, Bl, Br, Minw, Maxw int
		Bs                                          bool
	} `json:"scn"`
	Used   []int    `json:"used"`
	Forest []blkBox `json:"forest"`
	Obs    []blkObs `json:"obs"`
}

func px(v int) string {
	if v == -1 {
		return "auto"
	}
	return fmt.Sprintf("%dpx", v)
}

// collect the boxes of the <div data-n> elements in document order
func divBoxes(pages []*boxes.PageBox) []*boxes.BoxFields {
	var out []*boxes.BoxFields
	for _, p := range pages {
		drv.Walk(p, func(b boxes.Box, _ int) bool {
			f := b.Box()
			if f.Element != nil && f.Element.Data == "div" && f.PseudoType == "" {
				out = append(out, f)
			}
			return true
		})
	}
	return out
}

func near64(a float64, b int) bool { return math.Abs(a-float64(b)) <= 1.0/64 }

func c10Main(args []string) int {
	return drv.Main("c10", args, func(fs *flag.FlagSet) {}, func(line []byte, out *drv.Out) {
		var s blkScn
		if err := json.Unmarshal(line, &s); err != nil {
			out.Fatal("bad scenario: " + err.Error())
			return
		}
		if s.Mode == "width" {
			c10Width(&s, line, out)
		} else {
			c10Vertical(&s, line, out)
		}
	})
}

const c10Head = `<html><head><style>@page{size:400px 100000px;margin:0} html,body{display:block;margin:0;padding:0} div{display:block;border:0 solid black}</style></head><body>`

func c10Width(s *blkScn, line []byte, out *drv.Out) {
	sc := s.Scn
	w := px(sc.W)
	if sc.Wpct > 0 {
		w = fmt.Sprintf("%d%%", sc.Wpct)
	}
	st := fmt.Sprintf("margin-left:%s;margin-right:%s;width:%s;padding-left:%dpx;padding-right:%dpx;border-left-width:%dpx;border-right-width:%dpx;min-width:%dpx;height:5px;",
		px(sc.Ml), px(sc.Mr), w, sc.Pl, sc.Pr, sc.Bl, sc.Br, sc.Minw)
	if sc.Maxw != -1 {
		st += fmt.Sprintf("max-width:%dpx;", sc.Maxw)
	}
	if sc.Bs {
		st += "box-sizing:border-box;"
	}
	// the containing block is a 40px wide box at x = 13
	doc := c10Head + `<section style="display:block;width:40px;margin-left:13px"><div style="` + st + `"></div></section></body></html>`
	pages, err := drv.Layout(doc, &drv.Opts{})
	if err != nil {
		out.Fatal(err.Error())
		return
	}
	bs := divBoxes(pages)
	out.Count("widths")
	if len(bs) != 1 {
		out.Disagree("width:box-missing", "the block box was not laid out: "+doc, map[string]interface{}{"doc": doc})
		return
	}
	b := bs[0]
	ml, wd, mr := float64(b.MarginLeft.V()), float64(b.Width.V()), float64(b.MarginRight.V())
	sum := ml + float64(b.BorderLeftWidth) + float64(b.PaddingLeft.V()) + wd + float64(b.PaddingRight.V()) + float64(b.BorderRightWidth) + mr
	kind := []string{}
	if sc.Ml == -1 {
		kind = append(kind, "ml-auto")
	}
	if sc.Mr == -1 {
		kind = append(kind, "mr-auto")
	}
	if sc.W == -1 && sc.Wpct == 0 {
		kind = append(kind, "w-auto")
	}
	if sc.Maxw != -1 {
		kind = append(kind, "max")
	}
	if sc.Minw != 0 {
		kind = append(kind, "min")
	}
	if sc.Bs {
		kind = append(kind, "border-box")
	}
	if sc.Wpct > 0 {
		kind = append(kind, "percent")
	}
	key := "width:" + strings.Join(kind, "+")
	// over-constrained (no auto value left once min/max are applied): CSS recomputes margin-right
	// (also when auto margins were first "treated as zero" because the box is wider than its container)
	specMr := sc.Mr
	if specMr == -1 {
		specMr = 0
	}
	if s.Used[2] != specMr && s.Used[0]+sc.Bl+sc.Pl+s.Used[1]+sc.Pr+sc.Br+specMr != 40 {
		if near64(ml, s.Used[0]) && near64(wd, s.Used[1]) && near64(float64(b.PositionX), 13) && near64(mr, specMr) {
			out.Disagree("width:over-constrained-margin-right-not-adjusted", fmt.Sprintf("%s: the used margin-right stays %g, CSS 2.1 10.3.3 makes it %d so that the equation holds", doc, mr, s.Used[2]),
				map[string]interface{}{"doc": doc, "got": []float64{ml, wd, mr}, "want": s.Used})
			return
		}
	}
	if math.Abs(sum-40) > 1.0/64 {
		out.Disagree(key+":equation", fmt.Sprintf("%s: margins+borders+paddings+width = %g, the containing block is 40 wide", doc, sum), map[string]interface{}{"doc": doc})
		return
	}
	if !near64(ml, s.Used[0]) || !near64(wd, s.Used[1]) || !near64(mr, s.Used[2]) || !near64(float64(b.PositionX), 13) {
		out.Disagree(key, fmt.Sprintf("%s: used margin-left/width/margin-right %g/%g/%g at x=%g, CSS 2.1 10.3.3 requires %d/%d/%d at x=13", doc, ml, wd, mr, float64(b.PositionX), s.Used[0], s.Used[1], s.Used[2]),
			map[string]interface{}{"doc": doc, "got": []float64{ml, wd, mr}, "want": s.Used})
	}
}

// c10Forest writes the forest; pct: vertical margins are spelled as percentages (of the containing block's WIDTH, 100px:
// CSS 2.1 8.3, also for margin-top / margin-bottom).
func c10Forest(f []blkBox, b *strings.Builder, pct bool) {
	u := "px"
	if pct {
		u = "%"
	}
	for _, x := range f {
		mh := ""
		if x.Mh > 0 {
			mh = fmt.Sprintf(";min-height:%dpx", x.Mh)
		}
		if x.Mxp > 0 {
			mh += fmt.Sprintf(";max-height:%d%%", x.Mxp)
		}
		b.WriteString(fmt.Sprintf(`<div style="margin-top:%d%s;margin-bottom:%d%s;border-top-width:%dpx;border-bottom-width:%dpx;height:%s%s">`, x.Mt, u, x.Mb, u, x.Bt, x.Bb, px(x.H), mh))
		c10Forest(x.Kids, b, pct)
		b.WriteString("</div>")
	}
}

func c10Shape(f []blkBox) string {
	var parts []string
	for _, x := range f {
		s := "b"
		if len(x.Kids) > 0 {
			s += "(" + c10Shape(x.Kids) + ")"
		}
		parts = append(parts, s)
	}
	return strings.Join(parts, " ")
}

func c10Vertical(s *blkScn, line []byte, out *drv.Out) {
	var b strings.Builder
	b.WriteString(c10Head)
	// a container with a top border: nothing collapses with the outside; y = 0 is its content top
	pct := out.Cur%2 == 1
	if pct {
		b.WriteString(`<section style="display:block;border-top:7px solid black;margin-top:11px;width:100px">`)
	} else {
		b.WriteString(`<section style="display:block;border-top:7px solid black;margin-top:11px">`)
	}
	c10Forest(s.Forest, &b, pct)
	b.WriteString(`</section></body></html>`)
	doc := b.String()
	pages, err := drv.Layout(doc, &drv.Opts{})
	if err != nil {
		out.Fatal(err.Error())
		return
	}
	bs := divBoxes(pages)
	out.Count("forests")
	if len(bs) != len(s.Obs) {
		out.Disagree("vertical:box-count", fmt.Sprintf("%d boxes laid out, %d expected: %s", len(bs), len(s.Obs), doc), map[string]interface{}{"doc": doc})
		return
	}
	for i, o := range s.Obs {
		if !o.Vis {
			continue // margins collapse through the box: its position is defined only by an "as if" clause
		}
		f := bs[i]
		gy := float64(f.BorderBoxY()) - 18 // 11 margin + 7 border of the container
		gh := float64(f.BorderHeight())
		if !near64(gy, o.Yb) || !near64(gh, o.Bh) {
			// class of the disagreement: is the first child of a box without top border collapsed through?
			through := ""
			var flat []blkBox
			var firstChild []int // index of the first child in pre-order, -1 if none
			var walk func(f []blkBox)
			walk = func(f []blkBox) {
				for _, x := range f {
					flat = append(flat, x)
					me := len(flat) - 1
					firstChild = append(firstChild, -1)
					if len(x.Kids) > 0 {
						firstChild[me] = me + 1
					}
					walk(x.Kids)
				}
			}
			walk(s.Forest)
			for j := range flat {
				if fc := firstChild[j]; fc >= 0 && flat[j].Bt == 0 && !s.Obs[fc].Vis {
					through = ":first-child-collapses-through"
				}
			}
			shape := c10Shape(s.Forest)
			if through != "" {
				shape = "parent" // one class whatever the rest of the forest
			}
			out.Disagree("vertical:"+shape+through, fmt.Sprintf("%s: box %d has its border box at y=%g height=%g, CSS 2.1 8.3.1 requires y=%d height=%d", doc[strings.Index(doc, "<section"):], i+1, gy, gh, o.Yb, o.Bh),
				map[string]interface{}{"doc": doc, "box": i + 1, "got": []float64{gy, gh}, "want": []int{o.Yb, o.Bh}, "forest": s.Forest})
			return
		}
	}
}
