package main

// X05 (extra coverage, not a listed property) — used size of replaced elements, against spec/Replaced.tla.

import (
	"encoding/json"
	"flag"
	"fmt"
	"math"

	"github.com/benoitkugler/webrender/html/boxes"

	"verif/harness/internal/drv"
)

func init() { commands["x05"] = x05Main }

func x05Main(args []string) int {
	return drv.Main("x05", args, func(fs *flag.FlagSet) {}, func(line []byte, out *drv.Out) {
		var s struct {
			Scn struct {
				W    int `json:"w"`
				H    int `json:"h"`
				Minw int `json:"minw"`
				Maxw int `json:"maxw"`
				Minh int `json:"minh"`
				Maxh int `json:"maxh"`
			} `json:"scn"`
			Used []int `json:"used"`
		}
		if err := json.Unmarshal(line, &s); err != nil {
			out.Fatal("bad scenario: " + err.Error())
			return
		}
		v := s.Scn
		au := func(x int, none string) string {
			if x == -1 {
				return none
			}
			return fmt.Sprintf("%dpx", x)
		}
		decl := fmt.Sprintf("width:%s;height:%s;min-width:%dpx;max-width:%s;min-height:%dpx;max-height:%s", au(v.W, "auto"), au(v.H, "auto"), v.Minw, au(v.Maxw, "none"), v.Minh, au(v.Maxh, "none"))
		img := `data:image/svg+xml,%3Csvg%20xmlns='http://www.w3.org/2000/svg'%20width='40'%20height='20'%3E%3Crect%20width='40'%20height='20'/%3E%3C/svg%3E`
		doc := `<html><head><style>@page{size:400px 400px;margin:0}html,body{display:block;margin:0;padding:0}</style></head><body><img id="i" src="` + img + `" style="` + decl + `"></body></html>`
		pages, err := drv.Layout(doc, &drv.Opts{})
		if err != nil || len(pages) != 1 {
			out.Fatal(fmt.Sprint("layout: ", err, len(pages)))
			return
		}
		out.Count("images")
		var f *boxes.BoxFields
		drv.Walk(pages[0], func(bx boxes.Box, _ int) bool {
			if b := bx.Box(); b.Element != nil && b.Element.Data == "img" && f == nil {
				if _, ok := bx.(boxes.ReplacedBoxITF); ok {
					f = b
				}
			}
			return f == nil
		})
		if f == nil {
			out.Disagree("replaced:no-box", doc, map[string]interface{}{"doc": doc})
			return
		}
		w, h := float64(f.Width.V()), float64(f.Height.V())
		if math.Abs(w-float64(s.Used[0])) > 0.02 || math.Abs(h-float64(s.Used[1])) > 0.02 {
			kind := "one-dimension-specified"
			if v.W == -1 && v.H == -1 {
				kind = "both-auto"
			} else if v.W != -1 && v.H != -1 {
				kind = "both-specified"
			}
			out.Disagree("replaced:size:"+kind, fmt.Sprintf("img 40x20 {%s}: used size %g x %g, CSS 2.1 10.3.2 / 10.4 / 10.6.2 require %d x %d", decl, w, h, s.Used[0], s.Used[1]), map[string]interface{}{"doc": doc, "scenario": json.RawMessage(line)})
		}
	})
}
