package main

// C04 — computed values by CSS defaulting, against spec/Defaulting.tla.

import (
	"encoding/json"
	"flag"
	"fmt"
	"github.com/benoitkugler/webrender/html/boxes"
	"math"
	"math/rand"
	"os"
	"reflect"
	"sort"
	"strconv"
	"strings"

	"github.com/benoitkugler/webrender/css/parser"
	pr "github.com/benoitkugler/webrender/css/properties"
	"github.com/benoitkugler/webrender/css/validation"
	"github.com/benoitkugler/webrender/html/tree"
	"github.com/benoitkugler/webrender/utils"
	"golang.org/x/net/html/atom"

	"verif/harness/internal/drv"
)

func init() { commands["c04"] = c04Main }

type defMeta struct {
	Inherited    []string          `json:"inherited"`
	NotInherited []string          `json:"notinherited"`
	Initial      map[string]string `json:"initial"`
	InitialPairs [][]string        `json:"initialpairs"`
}

type defScn struct {
	Mode  string          `json:"mode"`
	Kinds json.RawMessage `json:"kinds"`
	Inh   bool            `json:"inh"`
	Want  []string        `json:"want"`
	Scn   struct {
		Root string `json:"root"`
		Mid  string `json:"mid"`
		Leaf string `json:"leaf"`
		N    int    `json:"n"`
		Unit string `json:"unit"`
		Pre  string `json:"pre"`
	} `json:"scn"`
	Dep struct {
		K       string `json:"k"`
		D       string `json:"d"`
		C       string `json:"c"`
		Wantd   string `json:"wantd"`
		Wantf   string `json:"wantf"`
		P       string `json:"p"`
		St      string `json:"st"`
		W       int    `json:"w"`
		Want    int    `json:"want"`
		M       string `json:"m"`
		Fs      int    `json:"fs"`
		Lh      string `json:"lh"`
		Pc      int    `json:"pc"`
		Want381 int    `json:"want381"`
	} `json:"dep"`
	Custom struct {
		Decl  []bool `json:"decl"`
		Order []int  `json:"order"`
		Want  []int  `json:"want"`
	} `json:"custom"`
	Weight   int `json:"weight"`
	Fs381    int `json:"fs381"`
	Mid381   int `json:"mid381"`
	WantMid  int `json:"wantmid381"`
	WantPre  int `json:"wantpre381"`
	WantRoot int `json:"wantroot381"`
	Lh381    int `json:"lh381"`
	Want381  int `json:"want381"`
}

var (
	c04MetaPath string
	c04Meta     defMeta
	c04Inh      = map[string]bool{}
	c04NotInh   = map[string]bool{}
	c04Explicit = map[pr.KnownProp]string{} // context-free explicit value text per property ("" = none found)
	c04Ready    bool
)

// candidate value texts offered to every property; the first one that validates and computes to something
// different from the initial value is the property's explicit value
var c04Candidates = []string{
	"7px", "3", "2", "0.5", "30%", "block", "absolute", "left", "both", "hidden", "solid", "rgb(1, 2, 3)", "italic", "700", "bold",
	"center", "uppercase", "pre", "nowrap", "rtl", "collapse", "bottom", "hide", "inside", "square", "fixed", "border-box",
	"column", "wrap", "always", "avoid", "page", "none", "auto", "normal", "all", "embed", "super", "small-caps", "condensed",
	"break-word", "break-all", "ellipsis", "url(http://verif.test/i.png)", "\"zz\"", "\"x\" \"y\"", "serif", "monospace", "zz 1", "zz", "a",
	"7px 9px", "space", "no-repeat", "contain", "padding-box", "content-box", "rotate(90deg)", "1 / 2", "span 2", "\"a b\"",
	"repeat(2, 10px)", "10px 20px", "2 3", "flex-end", "end", "stretch", "row-reverse", "discard", "pixelated", "2dppx", "90deg",
	"clone", "underline", "wavy", "open", "closed", "crop", "cross", "A4", "landscape", "counter(zz)", "attr(title)", "slice", "cover",
	"1.5", "200%", "thick", "dotted", "lighter", "manual", "inline-block", "table", "list-item", "flex", "relative", "right", "line-through",
	"rect(1px, 2px, 3px, 4px)", "bidi-override", "isolate", "inline", "compact", "justify", "\"-\"", "4 2 2", "1em", "on", "\"liga\"", "\"wght\" 700", "contextual", "historical-forms", "jis78", "no-common-ligatures", "ordinal", "sub", "swash(zz)",
}

var c04Special = map[string]bool{
	// private or propagated pseudo-properties: only totality is required (see DESIGN.md)
	"anchor": true, "link": true, "lang": true, "page": true, "string-set": true, "bookmark-label": true, "bookmark-level": true,
	"bookmark-state": true, "text-decoration-line": true, "text-decoration-color": true, "text-decoration-style": true,
}

func c04Doc(prop string, kinds []string, explicit string) string {
	decl := func(k string) string {
		switch k {
		case "inherit":
			return prop + ":inherit"
		case "initial":
			return prop + ":initial"
		case "explicit":
			return prop + ":" + explicit
		case "unset":
			return prop + ":unset"
		case "ivar":
			return prop + ":var(--verif-undefined)"
		}
		return ""
	}
	st := func(k string) string {
		d := decl(k)
		if d == "" {
			return ""
		}
		return ` style='` + d + `'`
	}
	before := `p::before{content:"b";` + decl(kinds[3]) + `}`
	return `<html` + st(kinds[0]) + `><head><style>` + before + `</style></head><body` + st(kinds[1]) + `><p` + st(kinds[2]) + `>x</p></body></html>`
}

type c04Nodes struct {
	sf    *tree.StyleFor
	nodes [3]*utils.HTMLNode
}

func c04Styles(doc string) (*c04Nodes, error) {
	// an empty user-agent sheet: "no declaration" must really mean none
	h, sf, err := drv.Styles(doc, &drv.Opts{UACSS: "zz{}", Files: map[string]string{"http://verif.test/i.png": "x"}})
	if err != nil {
		return nil, err
	}
	out := &c04Nodes{sf: sf}
	it := h.Root.Iter()
	for it.HasNext() {
		e := it.Next()
		switch e.DataAtom {
		case atom.Html:
			out.nodes[0] = e
		case atom.Body:
			out.nodes[1] = e
		case atom.P:
			out.nodes[2] = e
		}
	}
	return out, nil
}

func (n *c04Nodes) digest(node int, k pr.KnownProp) string {
	var st pr.ElementStyle
	if node == 3 {
		st = n.sf.Get(n.nodes[2], "before")
	} else {
		st = n.sf.Get(n.nodes[node], "")
	}
	if st == nil {
		return "<no style>"
	}
	v := st.Get(pr.PropKey{KnownProp: k})
	if v == nil {
		return "<nil>"
	}
	return fmt.Sprintf("%T:%v", v, v)
}

func c04Setup(out *drv.Out) bool {
	if c04Ready {
		return true
	}
	b, err := os.ReadFile(c04MetaPath)
	if err != nil {
		out.Fatal("meta: " + err.Error())
		return false
	}
	if err := json.Unmarshal(b, &c04Meta); err != nil {
		out.Fatal("meta: " + err.Error())
		return false
	}
	for _, n := range c04Meta.Inherited {
		c04Inh[n] = true
	}
	for _, n := range c04Meta.NotInherited {
		c04NotInh[n] = true
	}
	// discover a context-free explicit value for every property
	for k := pr.KnownProp(1); k < pr.NbProperties; k++ {
		name := k.String()
		base, err := c04Styles(c04Doc(name, []string{"none", "none", "none", "none"}, ""))
		if err != nil {
			out.Fatal(err.Error())
			return false
		}
		init := base.digest(2, k)
		for _, cand := range c04Candidates {
			toks := validation.PreprocessDeclarations("http://verif.test/", mustParseDecls(name+":"+cand))
			if len(toks) != 1 || toks[0].Name.KnownProp != k {
				continue
			}
			n, err := c04Styles(c04Doc(name, []string{"none", "none", "explicit", "none"}, cand))
			if err != nil {
				continue
			}
			if d := n.digest(2, k); d != init && d != "<nil>" {
				// context-free: the same on the body
				n2, _ := c04Styles(c04Doc(name, []string{"none", "explicit", "none", "none"}, cand))
				if n2 != nil && n2.digest(1, k) == d {
					c04Explicit[k] = cand
					break
				}
			}
		}
	}
	c04Ready = true
	return true
}

func c04Main(args []string) int {
	return drv.Main("c04", args, func(fs *flag.FlagSet) { fs.StringVar(&c04MetaPath, "meta", "", "meta json") }, func(line []byte, out *drv.Out) {
		var s defScn
		if err := json.Unmarshal(line, &s); err != nil {
			out.Fatal("bad scenario: " + err.Error())
			return
		}
		switch s.Mode {
		case "meta":
			if c04Setup(out) {
				c04Pinned(out)
				c04AfterBoxes(out)
				c04NoRelativeUnits(out)
			}
		case "kinds":
			if c04Setup(out) {
				c04Kinds(&s, line, out)
			}
		case "units":
			c04Units(&s, line, out)
		case "weights":
			c04Weights(&s, line, out)
		case "dependent":
			c04Dependent(&s, line, out)
		case "custom":
			c04Custom(&s, line, out)
		}
	})
}

func c04Kinds(s *defScn, line []byte, out *drv.Out) {
	var kinds []string
	if err := json.Unmarshal(s.Kinds, &kinds); err != nil {
		out.Fatal("kinds: " + err.Error())
		return
	}
	seed, _ := strconv.Atoi(os.Getenv("VERIF_SEED"))
	rng := rand.New(rand.NewSource(int64(seed)*1000003 + int64(out.Cur)))
	for k := pr.KnownProp(1); k < pr.NbProperties; k++ {
		name := k.String()
		// which defaulting class does the specification assign to this property?
		var inherited bool
		switch {
		case c04Inh[name]:
			inherited = true
		case c04NotInh[name]:
			inherited = false
		default:
			inherited = pr.Inherited.Has(k) // not pinned by the specification: the code's classification, checked for consistency
		}
		if inherited != s.Inh {
			continue
		}
		exp := c04Explicit[k]
		usesExplicit := false
		for _, kd := range kinds {
			if kd == "explicit" {
				usesExplicit = true
			}
		}
		if usesExplicit && exp == "" {
			out.Count("no-explicit-value")
			continue
		}
		doc := c04Doc(name, kinds, exp)
		orders := [][]int{{0, 1, 2, 3}, {3, 2, 1, 0}, rng.Perm(4)}
		var ref [4]string
		for oi, ord := range orders {
			n, err := c04Styles(doc)
			if err != nil {
				out.Fatal(err.Error())
				return
			}
			var dg [4]string
			for _, node := range ord {
				dg[node] = n.digest(node, k)
			}
			out.Count("computations")
			for node := 0; node < 4; node++ {
				if dg[node] == "<nil>" || dg[node] == "<no style>" {
					out.Disagree("no-computed-value:"+name, fmt.Sprintf("%s has no computed value on node %d of %s", name, node+1, doc), map[string]interface{}{"doc": doc, "prop": name})
					return
				}
			}
			if oi == 0 {
				ref = dg
			} else if dg != ref {
				out.Disagree("access-order:"+name, fmt.Sprintf("%s: computed values depend on the order of Get calls: %v vs %v (%s)", name, ref, dg, doc),
					map[string]interface{}{"doc": doc, "prop": name, "order": ord, "first": ref, "this": dg})
				return
			}
		}
		if c04Special[name] {
			continue
		}
		if name == "display" && (kinds[1] == "inherit") {
			continue // the root's computed display is blockified: inheriting from it is outside the two-class abstraction
		}
		// nodes of the same class must agree, nodes of different classes must differ
		class := map[string]string{}
		for node := 0; node < 4; node++ {
			if name == "display" && node == 0 {
				continue // the root element is blockified
			}
			if name == "content" && node == 3 {
				continue // the pseudo-element needs its own content declaration to exist
			}
			w := s.Want[node]
			if prev, ok := class[w]; ok {
				if prev != ref[node] {
					kind := kinds[node]
					out.Disagree("defaulting:"+name+":"+kind, fmt.Sprintf("%s (kinds %v, inherited=%v): node %d should compute to the %s value %s but computes to %s (%s)", name, kinds, inherited, node+1, w, prev, ref[node], doc),
						map[string]interface{}{"doc": doc, "prop": name, "kinds": kinds, "want": s.Want, "got": ref})
					break
				}
			} else {
				class[w] = ref[node]
			}
		}
		if a, b := class["INIT"], class["EXP"]; a != "" && a == b {
			out.Disagree("defaulting:"+name+":classes-merge", fmt.Sprintf("%s (kinds %v): initial and explicit values are indistinguishable (%s)", name, kinds, doc), map[string]interface{}{"doc": doc})
		}
	}
}

// c04Pinned checks the pinned initial values: `P: <CSS initial text>` computes to the same value as `P: initial`.
func c04Pinned(out *drv.Out) {
	pairs := map[string]string{}
	for k, v := range c04Meta.Initial {
		pairs[k] = v
	}
	for _, p := range c04Meta.InitialPairs {
		pairs[p[0]] = p[1]
	}
	names := make([]string, 0, len(pairs))
	for n := range pairs {
		names = append(names, n)
	}
	sort.Strings(names)
	byName := map[string]pr.KnownProp{}
	for k := pr.KnownProp(1); k < pr.NbProperties; k++ {
		byName[k.String()] = k
	}
	for _, name := range names {
		k, ok := byName[name]
		if !ok {
			out.Disagree("unsupported-property:"+name, "the property "+name+" of the CSS index is not supported", nil)
			continue
		}
		a, err1 := c04Styles(c04Doc(name, []string{"none", "none", "initial", "none"}, ""))
		b, err2 := c04Styles(c04Doc(name, []string{"none", "none", "explicit", "none"}, pairs[name]))
		if err1 != nil || err2 != nil {
			out.Fatal("pinned: styles failed")
			return
		}
		out.Count("pinned-initial")
		if da, db := a.digest(2, k), b.digest(2, k); da != db {
			out.Disagree("initial-value:"+name, fmt.Sprintf("%s: initial computes to %s but the CSS initial value %q computes to %s", name, da, pairs[name], db),
				map[string]interface{}{"prop": name, "initial": da, "css": pairs[name], "csscomputed": db})
		}
	}
	// report the explicit-value table in the evidence
	found := 0
	for _, v := range c04Explicit {
		if v != "" {
			found++
		}
	}
	var missing []string
	for k := pr.KnownProp(1); k < pr.NbProperties; k++ {
		if c04Explicit[k] == "" {
			missing = append(missing, k.String())
		}
	}
	out.Sample(map[string]interface{}{"properties_without_explicit_value": missing})
	out.Add("properties-with-explicit-value", found)
	out.Add("properties", int(pr.NbProperties)-1)
}

func c04FsDecl(d string) string {
	switch d {
	case "px10":
		return "font-size:10px;"
	case "px20":
		return "font-size:20px;"
	case "em2":
		return "font-size:2em;"
	case "pct150":
		return "font-size:150%;"
	case "rem15":
		return "font-size:1.5rem;"
	case "ex2":
		return "font-size:2ex;"
	case "ch2":
		return "font-size:2ch;"
	}
	return ""
}

func c04Units(s *defScn, line []byte, out *drv.Out) {
	sc := s.Scn
	pre := ""
	if sc.Pre != "" && sc.Pre != "none" {
		pre = "height:2" + sc.Pre + ";"
	}
	doc := fmt.Sprintf(`<html style="%s"><body style="%s"><p style="%s%swidth:%d%s">x</p></body></html>`, c04FsDecl(sc.Root), c04FsDecl(sc.Mid), c04FsDecl(sc.Leaf), pre, sc.N, sc.Unit)
	n, err := c04Styles(doc)
	if err != nil {
		out.Fatal(err.Error())
		return
	}
	st := n.sf.Get(n.nodes[2], "")
	out.Count("units")
	// font-relative units are measured on the font: 1e-3 relative
	tol := 1e-4
	if sc.Unit == "ex" || sc.Unit == "ch" {
		tol = 1e-3
	}
	for _, d := range []string{sc.Root, sc.Mid, sc.Leaf} {
		if d == "ex2" || d == "ch2" {
			tol = 1e-3 // (a font size measured on the font; the model truncates to 1/381 px at each level)
		}
	}
	if pre != "" {
		// the other font-relative length is computed first
		h := st.GetHeight()
		if h.Unit != pr.Px || math.Abs(float64(h.Value)*381-float64(s.WantPre)) > 1e-3*float64(s.WantPre)+0.5 {
			out.Disagree("units:"+sc.Pre, fmt.Sprintf("%s: height computes to %v (unit %v), CSS requires %g px", doc, h.Value, h.Unit, float64(s.WantPre)/381),
				map[string]interface{}{"doc": doc, "got_px": h.Value, "want_px": float64(s.WantPre) / 381})
			return
		}
	}
	w := st.GetWidth()
	fs := st.GetFontSize()
	gotW := float64(w.Value) * 381
	gotFs := float64(fs.Value) * 381
	if w.Unit != pr.Px || math.Abs(gotW-float64(s.Want381)) > tol*float64(s.Want381)+0.5 {
		out.Disagree("units:"+sc.Unit+c04After(sc.Pre), fmt.Sprintf("%s: width computes to %v (unit %v), CSS requires %g px", doc, w.Value, w.Unit, float64(s.Want381)/381),
			map[string]interface{}{"doc": doc, "got_px": w.Value, "want_px": float64(s.Want381) / 381})
		return
	}
	fsTol := 1e-4
	for _, d := range []string{sc.Root, sc.Mid, sc.Leaf} {
		if d == "ex2" || d == "ch2" {
			fsTol = 1e-3 // measured on the font
		}
	}
	if math.Abs(gotFs-float64(s.Fs381)) > fsTol*float64(s.Fs381)+0.5 {
		out.Disagree("units:font-size:"+sc.Leaf+"-in-"+sc.Mid+"-in-"+sc.Root, fmt.Sprintf("%s: font-size computes to %v px, CSS requires %g px", doc, fs.Value, float64(s.Fs381)/381),
			map[string]interface{}{"doc": doc, "got_px": fs.Value, "want_px": float64(s.Fs381) / 381})
		return
	}
	// one declaration in a style sheet matched by two elements with different font sizes, for several length-valued
	// properties: each element computes against its own font size, in either access order
	val := fmt.Sprintf("%d%s", sc.N, sc.Unit)
	doc2 := fmt.Sprintf(`<html style="%s"><head><style>html, body, p { padding-left:%s; text-indent:%s; letter-spacing:%s; border-spacing:%s %s; transform:translate(%s, %s); margin-top:%s; `+
		`grid-template-columns:%s; grid-auto-rows:%s; border-image-outset:%s; background-image:linear-gradient(red %s, blue) } body { line-height:150%% }</style></head><body style="%s"><p style="%s">x</p></body></html>`,
		c04FsDecl(sc.Root), val, val, val, val, val, val, val, val, val, val, val, val, c04FsDecl(sc.Mid), c04FsDecl(sc.Leaf))
	for order := 0; order < 2; order++ {
		n2, err := c04Styles(doc2)
		if err != nil {
			out.Fatal(err.Error())
			return
		}
		idx := []int{0, 1, 2}
		if order == 1 {
			idx = []int{2, 1, 0}
		}
		for _, node := range idx {
			st := n2.sf.Get(n2.nodes[node], "")
			want := float64(s.Want381) / 381
			if node == 1 {
				want = float64(s.WantMid) / 381
			}
			if node == 0 {
				want = float64(s.WantRoot) / 381
			}
			tr := st.GetTransform()
			got := map[string]float64{
				"padding-left": float64(st.GetPaddingLeft().Value), "text-indent": float64(st.GetTextIndent().Value), "letter-spacing": float64(st.GetLetterSpacing().Value),
				"border-spacing": float64(st.GetBorderSpacing()[0].Value), "margin-top": float64(st.GetMarginTop().Value),
			}
			// lengths inside structured values (tracks, outsets, colour stops)
			got["grid-template-columns"], got["grid-auto-rows"], got["border-image-outset"], got["gradient-colour-stop"] = math.NaN(), math.NaN(), math.NaN(), math.NaN()
			if gt := st.GetGridTemplateColumns(); len(gt.Names) == 3 {
				if gd, ok := gt.Names[1].(pr.GridDims); ok {
					got["grid-template-columns"] = float64(gd.V.Value)
				}
			}
			if ga := st.GetGridAutoRows(); len(ga) == 1 {
				got["grid-auto-rows"] = float64(ga[0].V.Value)
			}
			if bo := st.GetBorderImageOutset(); len(bo) == 4 {
				got["border-image-outset"] = float64(bo[0].Value)
			}
			if im := st.GetBackgroundImage(); len(im) == 1 {
				if lg, ok := im[0].(pr.LinearGradient); ok && len(lg.ColorStops) == 2 {
					got["gradient-colour-stop"] = float64(lg.ColorStops[0].Position.Value)
				}
			}
			if len(tr) == 1 && len(tr[0].Dimensions) == 2 {
				got["transform-translate"] = float64(tr[0].Dimensions[1].Value)
			} else {
				got["transform-translate"] = math.NaN()
			}
			for name, g := range got {
				if !(math.Abs(g-want) <= tol*want+0.002) {
					out.Disagree("units:shared-declaration:"+name, fmt.Sprintf("%s: %s on %s computes to %g px, CSS requires %g px (access order %v)", doc2, name, []string{"html", "body", "p"}[node], g, want, idx),
						map[string]interface{}{"doc": doc2, "prop": name, "got": g, "want": want})
					return
				}
			}
		}
		lh := n2.sf.Get(n2.nodes[2], "").GetLineHeight()
		if lh.Unit != pr.Px || math.Abs(float64(lh.Value)*381-float64(s.Lh381)) > 1e-4*float64(s.Lh381)+0.5 {
			out.Disagree("units:line-height-percentage-inherited", fmt.Sprintf("%s: the leaf inherits line-height %v, CSS requires the absolute %g px", doc2, lh, float64(s.Lh381)/381), map[string]interface{}{"doc": doc2})
			return
		}
	}
}

func c04After(pre string) string {
	if pre == "" || pre == "none" {
		return ""
	}
	return ":after-" + pre
}

func mustParseDecls(text string) []parser.Compound { return parser.ParseBlocksContentsString(text) }

func c04W(d string) string {
	if d == "none" {
		return ""
	}
	return "font-weight:" + d
}

func c04Weights(s *defScn, line []byte, out *drv.Out) {
	sc := s.Scn
	doc := fmt.Sprintf(`<html style="%s"><body style="%s"><p style="%s">x</p></body></html>`, c04W(sc.Root), c04W(sc.Mid), c04W(sc.Leaf))
	n, err := c04Styles(doc)
	if err != nil {
		out.Fatal(err.Error())
		return
	}
	out.Count("weights")
	got := n.sf.Get(n.nodes[2], "").GetFontWeight()
	if got.Int != s.Weight {
		out.Disagree("font-weight:"+sc.Leaf, fmt.Sprintf("%s: font-weight computes to %v, CSS requires %d", doc, got, s.Weight), map[string]interface{}{"doc": doc, "got": got.Int, "want": s.Weight})
	}
}

// c04Dependent: computed values that depend on other properties of the same element (Defaulting.tla, mode "dependent").
func c04Dependent(s *defScn, line []byte, out *drv.Out) {
	d := s.Dep
	out.Count("dependent")
	canon := func(v pr.Display) string {
		var ps []string
		for _, x := range v {
			if x != "" {
				ps = append(ps, x)
			}
		}
		return strings.Join(ps, " ")
	}
	switch d.K {
	case "display":
		decl := "display:" + d.D
		switch d.C {
		case "float":
			decl += ";float:left"
		case "absolute":
			decl += ";position:absolute"
		case "fixed":
			decl += ";position:fixed"
		case "float-absolute":
			decl += ";float:left;position:absolute"
		}
		doc := `<html><head></head><body><p style='` + decl + `'>x</p></body></html>`
		node := 2
		if d.C == "root" {
			doc = `<html style='display:` + d.D + `'><head></head><body><p>x</p></body></html>`
			node = 0
		}
		n, err := c04Styles(doc)
		if err != nil {
			out.Fatal(err.Error())
			return
		}
		st := n.sf.Get(n.nodes[node], "")
		gotd, gotf := canon(st.GetDisplay()), string(st.GetFloat())
		if gotd != d.Wantd {
			out.Disagree("dependent:display:"+d.D+":"+d.C, fmt.Sprintf("%s -> computed display %q, CSS 2.1 9.7 / CSS Display 3 2.7 require %q", decl, gotd, d.Wantd), map[string]interface{}{"doc": doc, "scenario": json.RawMessage(line)})
		}
		if d.C != "root" && gotf != d.Wantf {
			out.Disagree("dependent:float:"+d.C, fmt.Sprintf("%s -> computed float %q, CSS 2.1 9.7 requires %q", decl, gotf, d.Wantf), map[string]interface{}{"doc": doc, "scenario": json.RawMessage(line)})
		}
	case "line":
		decl := fmt.Sprintf("%s-style:%s;%s-width:%dpx", d.P, d.St, d.P, d.W)
		doc := `<html><head></head><body><p style='` + decl + `'>x</p></body></html>`
		n, err := c04Styles(doc)
		if err != nil {
			out.Fatal(err.Error())
			return
		}
		st := n.sf.Get(n.nodes[2], "")
		var got float64
		switch d.P {
		case "border-top":
			got = float64(st.GetBorderTopWidth().Value)
		case "border-left":
			got = float64(st.GetBorderLeftWidth().Value)
		case "outline":
			got = float64(st.GetOutlineWidth().Value)
		case "column-rule":
			got = float64(st.GetColumnRuleWidth().Value)
		}
		if math.Abs(got-float64(d.Want)) > 1e-6 {
			out.Disagree("dependent:line-width:"+d.P+":"+d.St, fmt.Sprintf("%s -> computed width %g, CSS requires %d", decl, got, d.Want), map[string]interface{}{"doc": doc, "scenario": json.RawMessage(line)})
		}
	case "valign":
		doc := fmt.Sprintf(`<html><head></head><body style="font-size:7px;line-height:9px"><p style="font-size:%dpx;line-height:%s;vertical-align:%d%%">x</p></body></html>`, d.Fs, d.Lh, d.Pc)
		n, err := c04Styles(doc)
		if err != nil {
			out.Fatal(err.Error())
			return
		}
		v := n.sf.Get(n.nodes[2], "").GetVerticalAlign()
		if got := float64(v.Value) * 381; v.S != "" || v.Unit == pr.Perc || math.Abs(got-float64(d.Want381)) > 0.5 {
			out.Disagree("dependent:vertical-align-percentage:"+d.Lh, fmt.Sprintf("%s -> computed vertical-align %v%s (unit %v), CSS 2.1 10.8.1 requires %gpx", doc, v.Value, v.S, v.Unit, float64(d.Want381)/381), map[string]interface{}{"doc": doc, "scenario": json.RawMessage(line)})
		}
	case "bleed":
		doc := `<html><head><style>@page{marks:` + d.M + `;bleed:auto}</style></head><body><p>x</p></body></html>`
		h, sf, err := drv.Styles(doc, &drv.Opts{UACSS: "zz{}"})
		if err != nil {
			out.Fatal(err.Error())
			return
		}
		pt := utils.PageElement{Side: "right", First: true, Index: 0}
		sf.SetPageComputedStylesT(pt, h)
		st := sf.Get(pt, "")
		if st == nil {
			out.Fatal("no page style")
			return
		}
		for side, v := range map[string]pr.DimOrS{"top": st.GetBleedTop(), "right": st.GetBleedRight(), "bottom": st.GetBleedBottom(), "left": st.GetBleedLeft()} {
			got := float64(v.Value) * 381
			if v.S != "" || math.Abs(got-float64(d.Want381)) > 0.5 {
				out.Disagree("dependent:bleed:"+d.M, fmt.Sprintf("@page{marks:%s;bleed:auto} -> computed bleed-%s %v%s, CSS Paged Media requires %gpx", d.M, side, v.Value, v.S, float64(d.Want381)/381), map[string]interface{}{"doc": doc, "scenario": json.RawMessage(line)})
				break
			}
		}
	}
}

// c04AfterBoxes: `inherit` gives the parent ELEMENT's computed value also after the formatting structure has been built
// (box building copies and edits styles: a table element is split into a wrapper and a table box, anonymous boxes get
// derived styles). For every property with an explicit value: body{display:table; prop: explicit} p{prop: inherit};
// the style of p's box after layout must hold the value computed for body before any box existed.
func c04AfterBoxes(out *drv.Out) {
	for k := pr.KnownProp(1); k < pr.NbProperties; k++ {
		exp := c04Explicit[k]
		name := k.String()
		if exp == "" || name == "display" || name == "float" || name == "position" {
			continue
		}
		for _, disp := range []string{"table", "inline-table", "list-item", "flex"} {
			doc := `<html><head></head><body style='display:` + disp + `;` + name + `:` + exp + `'><p style='` + name + `:inherit'>x</p></body></html>`
			// (with the small test user-agent sheet: an empty one leaves the page without the values layout needs)
			h, sf, err := drv.Styles(doc, &drv.Opts{Files: map[string]string{"http://verif.test/i.png": "x"}})
			if err != nil {
				continue
			}
			want := ""
			it := h.Root.Iter()
			for it.HasNext() {
				if e := it.Next(); e.DataAtom == atom.Body {
					if st := sf.Get(e, ""); st != nil {
						if v := st.Get(pr.PropKey{KnownProp: k}); v != nil {
							want = fmt.Sprintf("%T:%v", v, v)
						}
					}
				}
			}
			if want == "" {
				continue
			}
			var got string
			site, msg, panicked := drv.Guard(func() {
				pages, err := drv.Layout(doc, &drv.Opts{Files: map[string]string{"http://verif.test/i.png": "x"}})
				if err != nil {
					return
				}
				for _, pg := range pages {
					drv.Walk(pg, func(bx boxes.Box, _ int) bool {
						f := bx.Box()
						if got == "" && f.Element != nil && f.Element.Data == "p" && f.Style != nil {
							if v := f.Style.Get(pr.PropKey{KnownProp: k}); v != nil {
								got = fmt.Sprintf("%T:%v", v, v)
							}
						}
						return got == ""
					})
				}
			})
			if panicked {
				// (no computed value can be read at all: the styles handed to the layout are unusable)
				out.Disagree("after-boxes:panic:"+site, fmt.Sprintf("body{display:%s;%s:%s} p{%s:inherit}: layout panics (%s)", disp, name, exp, name, msg), map[string]interface{}{"doc": doc, "property": name})
				continue
			}
			if got == "" {
				continue // (an element without box has nothing to compare)
			}
			out.Count("after-boxes")
			if got != want {
				out.Disagree("after-boxes:inherit-through:"+disp, fmt.Sprintf("body{display:%s;%s:%s} p{%s:inherit}: the box of p holds %s, the value computed for body is %s", disp, name, exp, name, got, want),
					map[string]interface{}{"doc": doc, "property": name})
			}
		}
	}
}

// c04Custom: custom properties are inherited properties: a declaration is visible on its element and its descendants only,
// whatever the order in which the styles are computed. Tree: body > p#2 > span#4, body > p#3; node k declares --x: vk.
func c04Custom(s *defScn, line []byte, out *drv.Out) {
	c := s.Custom
	if len(c.Decl) != 4 || len(c.Order) != 4 || len(c.Want) != 4 {
		out.Fatal("bad custom scenario")
		return
	}
	d := func(k int) string {
		st := "font-family:var(--x, fb)"
		if c.Decl[k-1] {
			st = fmt.Sprintf("--x:v%d;", k) + st
		}
		return st
	}
	doc := fmt.Sprintf(`<html><head></head><body id="n1" style="%s"><p id="n2" style="%s"><span id="n4" style="%s">a</span></p><p id="n3" style="%s">b</p></body></html>`, d(1), d(2), d(4), d(3))
	h, sf, err := drv.Styles(doc, &drv.Opts{UACSS: "zz{}"})
	if err != nil {
		out.Fatal(err.Error())
		return
	}
	out.Count("custom")
	nodes := map[int]*utils.HTMLNode{}
	it := h.Root.Iter()
	for it.HasNext() {
		e := it.Next()
		var k int
		if _, err := fmt.Sscanf(e.Get("id"), "n%d", &k); err == nil {
			nodes[k] = e
		}
	}
	got := map[int]string{}
	for _, k := range c.Order {
		st := sf.Get(nodes[k], "")
		if st == nil {
			out.Fatal("no style")
			return
		}
		got[k] = strings.Join(st.GetFontFamily(), ",")
	}
	for k := 1; k <= 4; k++ {
		want := "fb"
		if c.Want[k-1] != 0 {
			want = fmt.Sprintf("v%d", c.Want[k-1])
		}
		if got[k] != want {
			out.Disagree("custom-property-scope", fmt.Sprintf("%s (styles asked in the order %v): node %d sees --x = %q, CSS Variables requires %q", doc, c.Order, k, got[k], want), map[string]interface{}{"doc": doc, "scenario": json.RawMessage(line)})
			return
		}
	}
}

// c04NoRelativeUnits: "relative values are made absolute": whatever property accepts a font-relative length (tried: 2em, 2em
// 2em, 3rem, 1ex, 1ch on an element of font size 10px under a root of 20px), its computed value holds no em / ex / ch / rem.
func c04NoRelativeUnits(out *drv.Out) {
	var find func(v reflect.Value, depth int) string
	find = func(v reflect.Value, depth int) string {
		if depth > 8 || !v.IsValid() {
			return ""
		}
		if v.Type() == reflect.TypeOf(pr.Dimension{}) {
			d := v.Interface().(pr.Dimension)
			switch d.Unit {
			case pr.Em, pr.Ex, pr.Ch, pr.Rem:
				return fmt.Sprintf("%v (unit %v)", d.Value, d.Unit)
			}
			return ""
		}
		switch v.Kind() {
		case reflect.Interface, reflect.Ptr:
			if v.IsNil() {
				return ""
			}
			return find(v.Elem(), depth+1)
		case reflect.Struct:
			for i := 0; i < v.NumField(); i++ {
				if v.Type().Field(i).PkgPath != "" {
					continue // unexported
				}
				if r := find(v.Field(i), depth+1); r != "" {
					return r
				}
			}
		case reflect.Slice, reflect.Array:
			for i := 0; i < v.Len(); i++ {
				if r := find(v.Index(i), depth+1); r != "" {
					return r
				}
			}
		}
		return ""
	}
	for k := pr.KnownProp(1); k < pr.NbProperties; k++ {
		name := k.String()
		if name == "font-size" {
			continue
		}
		for _, val := range []string{"2em", "2em 2em", "3rem", "1ex", "1ch", "2em 2em 2em 2em", "minmax(1em, 2em)", "linear-gradient(red 1em, blue 2rem)"} {
			doc := `<html style="font-size:20px"><head></head><body><p style="font-size:10px;` + name + `:` + val + `">x</p></body></html>`
			n, err := c04Styles(doc)
			if err != nil {
				continue
			}
			st := n.sf.Get(n.nodes[2], "")
			if st == nil {
				continue
			}
			v := st.Get(pr.PropKey{KnownProp: k})
			if v == nil {
				continue
			}
			out.Count("relative-unit-probes")
			if r := find(reflect.ValueOf(v), 0); r != "" {
				out.Disagree("relative-unit-left-in-computed-value:"+name, fmt.Sprintf("%s: %s computes to %v, which still holds the font-relative length %s", doc, name, v, r), map[string]interface{}{"doc": doc, "prop": name})
				break
			}
		}
	}
}
