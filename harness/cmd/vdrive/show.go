package main

// show — development helper: lays out one HTML file and prints the box tree of every page (panics print their stack).
// With -c02 the argument is a Flow.tla scenario (JSON) that is materialised first.

import (
	"encoding/json"
	"flag"
	"fmt"
	"os"
	"strings"

	"github.com/benoitkugler/webrender/html/boxes"

	"verif/harness/internal/drv"
)

func init() { commands["show"] = showMain }

func showMain(args []string) int {
	fs := flag.NewFlagSet("show", flag.ExitOnError)
	engine := fs.String("engine", "pango", "text engine")
	c02 := fs.Bool("c02", false, "argument is a Flow scenario")
	c12 := fs.Bool("c12", false, "argument is a Pagination scenario")
	textOnly := fs.Bool("text", false, "print only the texts of each page")
	fs.Parse(args)
	data, err := os.ReadFile(fs.Arg(0))
	if err != nil {
		fmt.Println(err)
		return 2
	}
	doc := string(data)
	if *c02 {
		var s flScn
		if err := json.Unmarshal(data, &s); err != nil {
			fmt.Println(err)
			return 2
		}
		doc = c02HTML(&s)
		fmt.Println(doc)
	}
	if *c12 {
		var s pgScn
		if err := json.Unmarshal(data, &s); err != nil {
			fmt.Println(err)
			return 2
		}
		doc = c12HTML(&s, 0)
		fmt.Println(doc)
	}
	pages, err := drv.Layout(doc, &drv.Opts{Engine: *engine})
	if err != nil {
		fmt.Println(err)
		return 2
	}
	for i, p := range pages {
		fmt.Printf("=== page %d %gx%g\n", i+1, float64(p.MarginWidth()), float64(p.MarginHeight()))
		drv.Walk(p, func(b boxes.Box, d int) bool {
			f := b.Box()
			if tb, ok := b.(*boxes.TextBox); ok {
				fmt.Printf("%s%q x=%g y=%g w=%g\n", strings.Repeat("  ", d), tb.TextS(), float64(f.PositionX), float64(f.PositionY), float64(f.Width.V()))
				return true
			}
			if *textOnly {
				return true
			}
			tag := ""
			if f.Element != nil {
				tag = f.Element.Data
			}
			h := "auto"
			if f.Height != nil {
				h = fmt.Sprint(f.Height)
			}
			fmt.Printf("%s%s <%s> x=%g y=%g w=%v h=%v\n", strings.Repeat("  ", d), b.Type(), tag, float64(f.PositionX), float64(f.PositionY), f.Width, h)
			return true
		})
	}
	return 0
}
