package main

// X04 (extra coverage, not a listed property) — white-space processing, against spec/WhiteSpace.tla.

import (
	"encoding/json"
	"flag"
	"fmt"
	"strings"

	"github.com/benoitkugler/webrender/html/boxes"

	"verif/harness/internal/drv"
)

func init() { commands["x04"] = x04Main }

func x04Main(args []string) int {
	return drv.Main("x04", args, func(fs *flag.FlagSet) {}, func(line []byte, out *drv.Out) {
		var s struct {
			Ws    string     `json:"ws"`
			Src   []string   `json:"src"`
			Lines [][]string `json:"lines"`
		}
		if err := json.Unmarshal(line, &s); err != nil {
			out.Fatal("bad scenario: " + err.Error())
			return
		}
		conv := map[string]string{"a": "a", " ": " ", "t": "\t", "n": "\n"}
		var txt strings.Builder
		for _, c := range s.Src {
			txt.WriteString(conv[c])
		}
		doc := `<html><head><style>@page{size:2000px 2000px;margin:0}html,body{display:block;margin:0;padding:0}p{display:block;margin:0;font-family:weasyprint;font-size:8px;line-height:10px;tab-size:3;white-space:` +
			s.Ws + `}</style></head><body><p id="t">` + txt.String() + `</p></body></html>`
		pages, err := drv.Layout(doc, &drv.Opts{})
		if err != nil || len(pages) != 1 {
			out.Fatal(fmt.Sprint("layout: ", err, len(pages)))
			return
		}
		out.Count("paragraphs")
		var got []string
		inP := false
		drv.Walk(pages[0], func(bx boxes.Box, _ int) bool {
			f := bx.Box()
			if f.Element != nil && f.Element.Data == "p" && boxes.BlockT.IsInstance(bx) {
				inP = true
			}
			if lb, ok := bx.(*boxes.LineBox); ok && inP {
				var t strings.Builder
				drv.Walk(lb, func(c boxes.Box, _ int) bool {
					if tb, ok := c.(*boxes.TextBox); ok {
						t.WriteString(tb.TextS())
					}
					return true
				})
				got = append(got, strings.NewReplacer("\t", "t", "\n", "").Replace(t.String()))
				return false
			}
			return true
		})
		var want []string
		for _, l := range s.Lines {
			want = append(want, strings.Join(l, ""))
		}
		// a paragraph whose text collapses to nothing has no line box at all; an empty line of preserved text has a line box
		// without text
		norm := func(ls []string) []string {
			if len(ls) == 1 && ls[0] == "" {
				return nil
			}
			return ls
		}
		g, w := norm(got), norm(want)
		if strings.Join(g, "|") != strings.Join(w, "|") || len(g) != len(w) {
			kind := "lines"
			if len(g) == len(w) {
				kind = "text"
			}
			out.Disagree("white-space:"+s.Ws+":"+kind, fmt.Sprintf("white-space:%s on %q gives lines %q, CSS Text 3 4.1 requires %q", s.Ws, txt.String(), g, w), map[string]interface{}{"doc": doc, "scenario": json.RawMessage(line)})
		}
	})
}
