package main

// C18 — SVG path data, arcs and viewports against spec/SvgPath.tla.

import (
	"encoding/json"
	"flag"
	"fmt"
	"math"
	"sort"
	"strings"

	"github.com/benoitkugler/webrender/svg"

	"verif/harness/internal/drv"
	"verif/harness/internal/rec"
)

func init() { commands["c18"] = c18Main }

type svgCmd struct {
	C   string              `json:"c"`
	Rel bool                `json:"rel"`
	G   [][]json.RawMessage `json:"g"`
}

type svgOp struct {
	Op string  `json:"op"`
	P  [][]int `json:"p"`
}

type svgArc struct {
	Rel   bool   `json:"rel"`
	Cx    int    `json:"cx"`
	Cy    int    `json:"cy"`
	Rx    int    `json:"rx"`
	Ry    int    `json:"ry"`
	Q0    int    `json:"q0"`
	Dq    int    `json:"dq"`
	Sweep bool   `json:"sweep"`
	Kind  string `json:"kind"`
}

type svgVp struct {
	W     int    `json:"w"`
	H     int    `json:"h"`
	Vx    int    `json:"vx"`
	Vy    int    `json:"vy"`
	Vw    int    `json:"vw"`
	Vh    int    `json:"vh"`
	Align string `json:"align"`
	Slice bool   `json:"slice"`
}

type svgScn struct {
	Family string   `json:"family"`
	Cmds   []svgCmd `json:"cmds"`
	Ops    []svgOp  `json:"ops"`
	Arc    svgArc   `json:"arc"`
	From   []int    `json:"from"`
	To     []int    `json:"to"`
	Used   []int    `json:"used"`
	Vp     svgVp    `json:"vp"`
	Shape  struct {
		Shape string `json:"shape"`
		X     int    `json:"x"`
		Y     int    `json:"y"`
		W     int    `json:"w"`
		H     int    `json:"h"`
		Rx    int    `json:"rx"`
		Ry    int    `json:"ry"`
	} `json:"shape"`
	Outline struct {
		Kind string  `json:"kind"`
		P    []int   `json:"p"`
		Pts  [][]int `json:"pts"`
		Rx   int     `json:"rx"`
		Ry   int     `json:"ry"`
		Ops  []svgOp `json:"ops"`
	} `json:"outline"`
	Want struct {
		Sx4 int `json:"sx4"`
		Sy4 int `json:"sy4"`
		Tx4 int `json:"tx4"`
		Ty4 int `json:"ty4"`
	} `json:"want"`
}

// number syntaxes of the SVG grammar (all denote the integer n)
var numSyntax = []string{"plain", "commas", "compact", "decimal", "exponent", "exponent-plus", "upper-exponent"}

func svgNum(n int, syn string) string {
	switch syn {
	case "decimal":
		return fmt.Sprintf("%d.0", n)
	case "exponent":
		return fmt.Sprintf("%de0", n)
	case "exponent-plus":
		if n%3 == 0 {
			s := ""
			a := n
			if a < 0 {
				s, a = "-", -a
			}
			return fmt.Sprintf("%s.%de+1", s, a) // .3e+1 = 3
		}
		return fmt.Sprintf("%de+0", n)
	case "upper-exponent":
		return fmt.Sprintf("%dE0", n)
	}
	return fmt.Sprint(n)
}

func svgJoin(nums []int, syn string) string {
	var b strings.Builder
	for i, n := range nums {
		s := svgNum(n, syn)
		if i > 0 {
			switch syn {
			case "commas":
				b.WriteString(",")
			case "compact":
				if !strings.HasPrefix(s, "-") {
					b.WriteString(" ")
				}
			default:
				b.WriteString(" ")
			}
		}
		b.WriteString(s)
	}
	return b.String()
}

func svgPathData(cmds []svgCmd, syn string) (string, error) {
	var b strings.Builder
	for _, c := range cmds {
		letter := c.C
		if c.Rel {
			letter = strings.ToLower(letter)
		}
		var nums []int
		for _, g := range c.G {
			for _, raw := range g {
				var pt []int
				var n int
				if json.Unmarshal(raw, &pt) == nil {
					nums = append(nums, pt...)
				} else if json.Unmarshal(raw, &n) == nil {
					nums = append(nums, n)
				} else {
					return "", fmt.Errorf("bad group %s", raw)
				}
			}
		}
		b.WriteString(letter)
		if syn == "plain" || syn == "commas" {
			b.WriteString(" ")
		}
		b.WriteString(svgJoin(nums, syn))
		if syn == "plain" {
			b.WriteString(" ")
		}
	}
	return b.String(), nil
}

func drawSVG(src string, w, h float32) (*rec.Doc, error) {
	img, err := svg.Parse(strings.NewReader(src), "", nil, nil)
	if err != nil {
		return nil, err
	}
	d := rec.New()
	pg := d.AddPage(0, 0, w, h)
	img.Draw(pg, w, h, nil)
	return d, nil
}

type gotOp struct {
	Op string
	N  []float64
}

func pathOps(d *rec.Doc) []gotOp {
	var out []gotOp
	for _, e := range d.Evs {
		switch e.Op {
		case "MoveTo":
			out = append(out, gotOp{"M", e.N})
		case "LineTo":
			out = append(out, gotOp{"L", e.N})
		case "CubicTo":
			out = append(out, gotOp{"C", e.N})
		case "ClosePath":
			out = append(out, gotOp{"Z", nil})
		case "Rectangle":
			out = append(out, gotOp{"R", e.N})
		}
	}
	return out
}

func c18Main(args []string) int {
	return drv.Main("c18", args, func(fs *flag.FlagSet) {}, func(line []byte, out *drv.Out) {
		var s svgScn
		if err := json.Unmarshal(line, &s); err != nil {
			out.Fatal("bad scenario: " + err.Error())
			return
		}
		switch s.Family {
		case "path":
			c18Path(&s, line, out)
		case "arc":
			c18Arc(&s, line, out)
		case "viewport":
			c18Viewport(&s, line, out)
		case "shape":
			c18Shape(&s, line, out)
		}
	})
}

func c18Path(s *svgScn, line []byte, out *drv.Out) {
	letters := ""
	for _, c := range s.Cmds {
		l := c.C
		if c.Rel {
			l = strings.ToLower(l)
		}
		letters += l
	}
	for _, syn := range numSyntax {
		d, err := svgPathData(s.Cmds, syn)
		if err != nil {
			out.Fatal(err.Error())
			return
		}
		src := `<svg xmlns="http://www.w3.org/2000/svg" width="100" height="100"><path d="` + d + `"/></svg>`
		out.Count("paths")
		doc, err := drawSVG(src, 100, 100)
		if err != nil {
			out.Disagree("path-rejected:syntax-"+syn, fmt.Sprintf("valid path data %q rejected: %v", d, err), map[string]interface{}{"d": d, "scenario": json.RawMessage(line)})
			continue
		}
		got := pathOps(doc)
		ok := len(got) == len(s.Ops)
		if ok {
			for i, w := range s.Ops {
				g := got[i]
				if g.Op != w.Op {
					ok = false
					break
				}
				k := 0
				for _, p := range w.P {
					for _, c := range p {
						if k >= len(g.N) || math.Abs(g.N[k]-float64(c)) > 1e-3 {
							ok = false
						}
						k++
					}
				}
				if k != len(g.N) {
					ok = false
				}
			}
		}
		if !ok {
			key := "path-ops:syntax-" + syn
			if syn == "plain" {
				key = "path-ops:" + letters
			}
			out.Disagree(key, fmt.Sprintf("d=%q draws %v, SVG requires %v", d, got, s.Ops), map[string]interface{}{"d": d, "got": got, "want": s.Ops, "scenario": json.RawMessage(line)})
			if syn == "plain" {
				return
			}
		}
	}
}

func cubicAt(p0, p1, p2, p3 [2]float64, t float64) [2]float64 {
	u := 1 - t
	var r [2]float64
	for i := 0; i < 2; i++ {
		r[i] = u*u*u*p0[i] + 3*u*u*t*p1[i] + 3*u*t*t*p2[i] + t*t*t*p3[i]
	}
	return r
}

func c18Arc(s *svgScn, line []byte, out *drv.Out) {
	a := s.Arc
	large := 0
	if a.Dq == 3 {
		large = 1
	}
	sweep := 0
	if a.Sweep {
		sweep = 1
	}
	tx, ty := s.To[0], s.To[1]
	letter := "A"
	if a.Rel {
		letter = "a"
		tx, ty = tx-s.From[0], ty-s.From[1]
	}
	d := fmt.Sprintf("M %d %d %s %d %d 0 %d %d %d %d", s.From[0], s.From[1], letter, a.Rx, a.Ry, large, sweep, tx, ty)
	if a.Dq == 2 && a.Cx == 3 { // also exercise flags written without separators
		d = fmt.Sprintf("M %d %d %s %d %d 0 %d%d%d %d", s.From[0], s.From[1], letter, a.Rx, a.Ry, large, sweep, tx, ty)
	}
	if a.Kind == "two-groups" {
		// the same half turn as two quarter arcs given as two argument groups of ONE command
		q1 := a.Q0 + 1
		if !a.Sweep {
			q1 = a.Q0 + 3
		}
		cosq := []int{1, 0, -1, 0}
		sinq := []int{0, 1, 0, -1}
		mx, my := a.Cx+a.Rx*cosq[q1%4], a.Cy+a.Ry*sinq[q1%4]
		if a.Rel {
			d = fmt.Sprintf("M %d %d a %d %d 0 0 %d %d %d %d %d 0 0 %d %d %d", s.From[0], s.From[1], a.Rx, a.Ry, sweep, mx-s.From[0], my-s.From[1], a.Rx, a.Ry, sweep, s.To[0]-mx, s.To[1]-my)
		} else {
			d = fmt.Sprintf("M %d %d A %d %d 0 0 %d %d %d %d %d 0 0 %d %d %d", s.From[0], s.From[1], a.Rx, a.Ry, sweep, mx, my, a.Rx, a.Ry, sweep, s.To[0], s.To[1])
		}
	}
	src := `<svg xmlns="http://www.w3.org/2000/svg" width="100" height="100"><path d="` + d + `"/></svg>`
	out.Count("arcs")
	key := "arc:" + a.Kind
	fail := func(why string, got interface{}) {
		out.Disagree(key+":"+why, fmt.Sprintf("d=%q: %s", d, why), map[string]interface{}{"d": d, "got": got, "scenario": json.RawMessage(line)})
	}
	doc, err := drawSVG(src, 100, 100)
	if err != nil {
		fail("rejected: "+err.Error(), nil)
		return
	}
	got := pathOps(doc)
	for _, g := range got {
		for _, v := range g.N {
			if math.IsNaN(v) || math.IsInf(v, 0) {
				fail("non-finite coordinate", got)
				return
			}
		}
	}
	if len(got) == 0 || got[0].Op != "M" {
		fail("no moveto", got)
		return
	}
	switch a.Kind {
	case "zero-radius":
		if len(got) != 2 || got[1].Op != "L" || math.Abs(got[1].N[0]-float64(s.To[0])) > 1e-3 || math.Abs(got[1].N[1]-float64(s.To[1])) > 1e-3 {
			fail("a zero radius must draw a straight line to the end point", got)
		}
		return
	case "same-point":
		if len(got) != 1 {
			fail("identical end points must draw nothing", got)
		}
		return
	}
	rx, ry := float64(s.Used[0]), float64(s.Used[1]) // the radii actually used (scaled up when too small)
	cx, cy := float64(a.Cx), float64(a.Cy)
	p := [2]float64{got[0].N[0], got[0].N[1]}
	total := 0.0
	prevAng := math.Atan2((p[1]-cy)/ry, (p[0]-cx)/rx)
	for _, g := range got[1:] {
		if g.Op != "C" {
			fail("unexpected operation "+g.Op, got)
			return
		}
		p1, p2, p3 := [2]float64{g.N[0], g.N[1]}, [2]float64{g.N[2], g.N[3]}, [2]float64{g.N[4], g.N[5]}
		for _, t := range []float64{0.25, 0.5, 0.75, 1} {
			q := cubicAt(p, p1, p2, p3, t)
			e := math.Pow((q[0]-cx)/rx, 2) + math.Pow((q[1]-cy)/ry, 2)
			if math.Abs(e-1) > 5e-3 {
				fail(fmt.Sprintf("point (%.3f, %.3f) is not on the ellipse", q[0], q[1]), got)
				return
			}
			ang := math.Atan2((q[1]-cy)/ry, (q[0]-cx)/rx)
			dlt := ang - prevAng
			for dlt > math.Pi {
				dlt -= 2 * math.Pi
			}
			for dlt < -math.Pi {
				dlt += 2 * math.Pi
			}
			total += dlt
			prevAng = ang
		}
		p = p3
	}
	if math.Abs(p[0]-float64(s.To[0])) > 1e-3 || math.Abs(p[1]-float64(s.To[1])) > 1e-3 {
		fail("arc does not end at the given point", got)
		return
	}
	want := float64(a.Dq) * math.Pi / 2
	if !a.Sweep {
		want = -want
	}
	if math.Abs(total-want) > 0.02 {
		fail(fmt.Sprintf("swept angle %.1f deg, expected %.1f deg", total*180/math.Pi, want*180/math.Pi), got)
	}
}

func c18Viewport(s *svgScn, line []byte, out *drv.Out) {
	v := s.Vp
	par := ""
	if v.Align != "" {
		par = v.Align
		if v.Align != "none" || v.Slice {
			if v.Slice {
				par += " slice"
			} else if v.W == 80 {
				par += " meet"
			}
		}
		par = ` preserveAspectRatio="` + par + `"`
	} else if v.Slice {
		out.Count("skipped")
		return
	}
	src := fmt.Sprintf(`<svg xmlns="http://www.w3.org/2000/svg" width="%d" height="%d" viewBox="%d %d %d %d"%s><rect x="0" y="0" width="1" height="1"/></svg>`, v.W, v.H, v.Vx, v.Vy, v.Vw, v.Vh, par)
	out.Count("viewports")
	doc, err := drawSVG(src, float32(v.W), float32(v.H))
	if err != nil {
		out.Disagree("viewport:rejected", err.Error(), map[string]interface{}{"svg": src})
		return
	}
	acc := []float64{1, 0, 0, 1, 0, 0}
	for _, e := range doc.Evs {
		if e.Op == "Rectangle" || e.Op == "MoveTo" {
			break
		}
		if e.Op == "Transform" {
			acc = mulF(acc, e.N)
		}
	}
	want := []float64{float64(s.Want.Sx4) / 4, 0, 0, float64(s.Want.Sy4) / 4, float64(s.Want.Tx4) / 4, float64(s.Want.Ty4) / 4}
	for i := range want {
		if math.Abs(acc[i]-want[i]) > 1e-3 {
			k := "viewport:" + v.Align
			if v.Slice {
				k += ":slice"
			}
			out.Disagree(k, fmt.Sprintf("%s maps user space by %v, SVG requires %v", src, acc, want), map[string]interface{}{"svg": src, "got": acc, "want": want})
			return
		}
	}
}

func opsEqual(got []gotOp, want []svgOp) bool {
	if len(got) != len(want) {
		return false
	}
	for i, w := range want {
		g := got[i]
		if g.Op != w.Op {
			return false
		}
		k := 0
		for _, p := range w.P {
			for _, c := range p {
				if k >= len(g.N) || math.Abs(g.N[k]-float64(c)) > 1e-3 {
					return false
				}
				k++
			}
		}
		if k != len(g.N) {
			return false
		}
	}
	return true
}

func c18Shape(s *svgScn, line []byte, out *drv.Out) {
	sh := s.Shape
	var el string
	switch sh.Shape {
	case "rect":
		el = fmt.Sprintf(`<rect x="%d" y="%d" width="%d" height="%d"`, sh.X, sh.Y, sh.W, sh.H)
		if sh.Rx >= 0 {
			el += fmt.Sprintf(` rx="%d"`, sh.Rx)
		}
		if sh.Ry >= 0 {
			el += fmt.Sprintf(` ry="%d"`, sh.Ry)
		}
		el += "/>"
	case "circle":
		el = fmt.Sprintf(`<circle cx="%d" cy="%d" r="%d"/>`, sh.X, sh.Y, sh.W)
	case "ellipse":
		el = fmt.Sprintf(`<ellipse cx="%d" cy="%d" rx="%d" ry="%d"/>`, sh.X, sh.Y, sh.W, sh.H)
	case "line":
		el = fmt.Sprintf(`<line x1="%d" y1="%d" x2="%d" y2="%d" stroke="black"/>`, sh.X, sh.Y, sh.X+sh.W, sh.Y+sh.H)
	case "polyline", "polygon":
		el = fmt.Sprintf(`<%s points="%d,%d %d %d, %d,%d"/>`, sh.Shape, sh.X, sh.Y, sh.X+sh.W, sh.Y, sh.X+sh.W, sh.Y+sh.H)
	}
	src := `<svg xmlns="http://www.w3.org/2000/svg" width="100" height="100">` + el + `</svg>`
	out.Count("shapes")
	fail := func(why string, got interface{}) {
		out.Disagree("shape:"+sh.Shape+":"+s.Outline.Kind+":"+why, fmt.Sprintf("%s: %s", el, why), map[string]interface{}{"svg": src, "got": got, "scenario": json.RawMessage(line)})
	}
	doc, err := drawSVG(src, 100, 100)
	if err != nil {
		fail("rejected: "+err.Error(), nil)
		return
	}
	got := pathOps(doc)
	switch s.Outline.Kind {
	case "nothing":
		if len(got) != 0 {
			fail("a degenerate shape must not be rendered", got)
		}
	case "rectangle":
		p := s.Outline.P
		if len(got) != 1 || got[0].Op != "R" || !opsEqual([]gotOp{{"R", got[0].N}}, []svgOp{{Op: "R", P: [][]int{p}}}) {
			fail(fmt.Sprintf("expected the rectangle %v", p), got)
		}
	case "path":
		if !opsEqual(got, s.Outline.Ops) {
			fail(fmt.Sprintf("expected %v", s.Outline.Ops), got)
		}
	case "rounded":
		// the outline must pass, in order, through the eight junction points, be closed, stay in the
		// bounding box, and every corner curve must lie on its corner ellipse
		pts := s.Outline.Pts
		var ends [][2]float64
		for _, g := range got {
			switch g.Op {
			case "M", "L":
				ends = append(ends, [2]float64{g.N[0], g.N[1]})
			case "C":
				ends = append(ends, [2]float64{g.N[4], g.N[5]})
			}
		}
		if len(ends) < 8 {
			fail("too few segments for a rounded rectangle", got)
			return
		}
		// allow the outline to start at any junction point and close back to it
		start := -1
		for i, p := range pts {
			if start < 0 && math.Abs(ends[0][0]-float64(p[0])) < 1e-3 && math.Abs(ends[0][1]-float64(p[1])) < 1e-3 {
				start = i
			}
		}
		if start < 0 {
			fail("the outline does not start at a side/corner junction", got)
			return
		}
		for k := 0; k < 8 && k < len(ends); k++ {
			p := pts[(start+k)%8]
			if math.Abs(ends[k][0]-float64(p[0])) > 1e-3 || math.Abs(ends[k][1]-float64(p[1])) > 1e-3 {
				fail(fmt.Sprintf("junction %d is %v, expected %v", k, ends[k], p), got)
				return
			}
		}
		x0, y0, x1, y1 := float64(sh.X), float64(sh.Y), float64(sh.X+sh.W), float64(sh.Y+sh.H)
		rx, ry := float64(s.Outline.Rx), float64(s.Outline.Ry)
		cur := [2]float64{}
		for _, g := range got {
			switch g.Op {
			case "M", "L":
				cur = [2]float64{g.N[0], g.N[1]}
			case "C":
				p1, p2, p3 := [2]float64{g.N[0], g.N[1]}, [2]float64{g.N[2], g.N[3]}, [2]float64{g.N[4], g.N[5]}
				for _, t := range []float64{0.25, 0.5, 0.75} {
					q := cubicAt(cur, p1, p2, p3, t)
					if q[0] < x0-1e-3 || q[0] > x1+1e-3 || q[1] < y0-1e-3 || q[1] > y1+1e-3 {
						fail("a corner leaves the bounding box", got)
						return
					}
					// centre of the nearest corner ellipse
					cx, cy := x0+rx, y0+ry
					if q[0] > (x0+x1)/2 {
						cx = x1 - rx
					}
					if q[1] > (y0+y1)/2 {
						cy = y1 - ry
					}
					e := math.Pow((q[0]-cx)/rx, 2) + math.Pow((q[1]-cy)/ry, 2)
					if math.Abs(e-1) > 0.02 {
						fail(fmt.Sprintf("corner point (%.3f, %.3f) is not on the corner ellipse", q[0], q[1]), got)
						return
					}
				}
				cur = p3
			}
		}
	case "ellipse":
		cx, cy, rx, ry := float64(s.Outline.P[0]), float64(s.Outline.P[1]), float64(s.Outline.P[2]), float64(s.Outline.P[3])
		if len(got) < 3 || got[0].Op != "M" {
			fail("no outline", got)
			return
		}
		cur := [2]float64{got[0].N[0], got[0].N[1]}
		first := cur
		total, prev := 0.0, math.Atan2((cur[1]-cy)/ry, (cur[0]-cx)/rx)
		for _, g := range got[1:] {
			var samples [][2]float64
			switch g.Op {
			case "L":
				samples = append(samples, [2]float64{g.N[0], g.N[1]})
			case "C":
				p1, p2, p3 := [2]float64{g.N[0], g.N[1]}, [2]float64{g.N[2], g.N[3]}, [2]float64{g.N[4], g.N[5]}
				for _, t := range []float64{0.25, 0.5, 0.75, 1} {
					samples = append(samples, cubicAt(cur, p1, p2, p3, t))
				}
			case "Z":
				continue
			}
			for _, q := range samples {
				e := math.Pow((q[0]-cx)/rx, 2) + math.Pow((q[1]-cy)/ry, 2)
				if math.Abs(e-1) > 0.03 { // cubic approximation of the quarter ellipse: accuracy itself is not decided here
					fail(fmt.Sprintf("point (%.3f, %.3f) is not on the ellipse", q[0], q[1]), got)
					return
				}
				ang := math.Atan2((q[1]-cy)/ry, (q[0]-cx)/rx)
				d := ang - prev
				for d > math.Pi {
					d -= 2 * math.Pi
				}
				for d < -math.Pi {
					d += 2 * math.Pi
				}
				total += d
				prev = ang
				cur = q
			}
		}
		if math.Abs(math.Abs(total)-2*math.Pi) > 0.05 {
			fail(fmt.Sprintf("the outline turns %.1f degrees instead of a full turn", total*180/math.Pi), got)
			return
		}
		if math.Hypot(cur[0]-first[0], cur[1]-first[1]) > 1e-3 {
			fail("the outline is not closed", got)
		}
	}
}

// ---------------------------------------------------------------- reference graphs (SvgRefs.tla)

func init() { commands["c18refs"] = c18RefsMain; commands["c18pair"] = c18PairMain }

type refScn struct {
	Kind   string  `json:"kind"`
	N      int     `json:"n"`
	Ref    [][]int `json:"ref"`
	Cyclic bool    `json:"cyclic"`
	Total  int     `json:"total"`
}

var c18Kinds = "use,gradient,pattern,clip,mask,marker"

// c18pair: two instances of one definition (SvgRefs.tla, PairInit): the calls recorded for [a b] must be the calls for
// [a] followed by the calls for [b] (an instance does not change the definition it uses).
func c18PairMain(args []string) int {
	attrs := map[string]string{"plain": ``, "sized": ` width="40" height="20"`, "moved": ` x="7" y="3"`, "sized-moved": ` x="5" y="5" width="10" height="30"`, "wide": ` width="100"`}
	targets := map[string]string{
		"symbol":       `<symbol id="d" viewBox="0 0 10 10"><rect width="10" height="10"/><circle cx="5" cy="5" r="2"/></symbol>`,
		"symbol-sized": `<symbol id="d" viewBox="0 0 10 10" width="8" height="8" preserveAspectRatio="xMinYMax slice"><rect width="10" height="10"/></symbol>`,
		"svg":          `<svg id="d" viewBox="0 0 10 10"><rect width="10" height="10"/></svg>`,
		"g":            `<g id="d"><rect width="10" height="10"/><path d="M0 0 L3 4"/></g>`,
	}
	return drv.Main("c18pair", args, nil, func(line []byte, out *drv.Out) {
		var s struct {
			Target string `json:"target"`
			A      string `json:"a"`
			B      string `json:"b"`
		}
		if err := json.Unmarshal(line, &s); err != nil {
			out.Fatal("bad scenario: " + err.Error())
			return
		}
		def, okT := targets[s.Target]
		ua, okA := attrs[s.A]
		ub, okB := attrs[s.B]
		if !okT || !okA || !okB {
			out.Fatal("unknown pair scenario " + string(line))
			return
		}
		ops := func(body string) ([]string, string, error) {
			src := `<svg xmlns="http://www.w3.org/2000/svg" width="60" height="60"><defs>` + def + `</defs>` + body + `</svg>`
			doc, err := drawSVG(src, 60, 60)
			if err != nil {
				return nil, src, err
			}
			var o []string
			for _, e := range doc.Evs {
				b, _ := json.Marshal([]interface{}{e.Op, e.N, e.B, e.D})
				o = append(o, string(b))
			}
			return o, src, nil
		}
		useA, useB := `<use href="#d"`+ua+`/>`, `<use href="#d"`+ub+`/>`
		ab, src, err := ops(useA + useB)
		if err != nil {
			out.Disagree("refs:pair:rejected", fmt.Sprintf("%s rejected: %v", src, err), map[string]interface{}{"svg": src})
			return
		}
		ba, src2, err := ops(useB + useA)
		if err != nil {
			out.Disagree("refs:pair:rejected", fmt.Sprintf("%s rejected: %v", src2, err), map[string]interface{}{"svg": src2})
			return
		}
		out.Count("pairs")
		// an instance draws what its own <use> and the definition say: the two orders give the same calls up to order
		x, y := append([]string{}, ab...), append([]string{}, ba...)
		sort.Strings(x)
		sort.Strings(y)
		if strings.Join(x, "\n") != strings.Join(y, "\n") {
			k := 0
			for k < len(x) && k < len(y) && x[k] == y[k] {
				k++
			}
			g, w := "(end)", "(end)"
			if k < len(x) {
				g = x[k]
			}
			if k < len(y) {
				w = y[k]
			}
			out.Disagree("refs:pair:instances-not-independent:"+s.Target, fmt.Sprintf("%s draws other calls than the same two instances in the other order (first difference of the sorted calls: %s / %s)", src, g, w),
				map[string]interface{}{"svg": src, "ab": ab, "ba": ba})
		}
	})
}

func c18RefsMain(args []string) int {
	return drv.Main("c18refs", args, func(fs *flag.FlagSet) { fs.StringVar(&c18Kinds, "kinds", c18Kinds, "reference kinds") }, func(line []byte, out *drv.Out) {
		var s refScn
		if err := json.Unmarshal(line, &s); err != nil {
			out.Fatal("bad scenario: " + err.Error())
			return
		}
		for _, kind := range strings.Split(c18Kinds, ",") {
			var defs strings.Builder
			for i := 1; i <= s.N; i++ {
				refs := s.Ref[i-1]
				first := ""
				if len(refs) > 0 {
					first = fmt.Sprintf("#d%d", refs[0])
				}
				switch kind {
				case "use":
					defs.WriteString(fmt.Sprintf(`<g id="d%d"><rect x="%d" y="0" width="2" height="2"/>`, i, i))
					for _, t := range refs {
						defs.WriteString(fmt.Sprintf(`<use href="#d%d"/>`, t))
					}
					defs.WriteString("</g>")
				case "gradient":
					h := ""
					if first != "" {
						h = ` href="` + first + `"`
					}
					defs.WriteString(fmt.Sprintf(`<linearGradient id="d%d"%s><stop offset="0" stop-color="red"/></linearGradient>`, i, h))
				case "pattern":
					f := "black"
					if first != "" {
						f = "url(" + first + ")"
					}
					defs.WriteString(fmt.Sprintf(`<pattern id="d%d" width="4" height="4" patternUnits="userSpaceOnUse"><rect width="2" height="2" fill="%s"/></pattern>`, i, f))
				case "clip":
					c := ""
					if first != "" {
						c = ` clip-path="url(` + first + `)"`
					}
					defs.WriteString(fmt.Sprintf(`<clipPath id="d%d"%s><rect width="5" height="5"%s/></clipPath>`, i, c, c))
				case "mask":
					c := ""
					if first != "" {
						c = ` mask="url(` + first + `)"`
					}
					defs.WriteString(fmt.Sprintf(`<mask id="d%d"><rect width="5" height="5" fill="white"%s/></mask>`, i, c))
				case "marker":
					c := ""
					if first != "" {
						c = ` marker-start="url(` + first + `)" marker-end="url(` + first + `)"`
					}
					defs.WriteString(fmt.Sprintf(`<marker id="d%d" markerWidth="3" markerHeight="3"><path d="M0 0 L2 2"%s/></marker>`, i, c))
				}
			}
			var body string
			switch kind {
			case "use":
				body = `<use href="#d1"/>`
			case "gradient", "pattern":
				body = `<rect width="10" height="10" fill="url(#d1)" stroke="url(#d1)"/>`
			case "clip":
				body = `<rect width="10" height="10" clip-path="url(#d1)"/>`
			case "mask":
				body = `<rect width="10" height="10" mask="url(#d1)"/>`
			case "marker":
				body = `<path d="M1 1 L5 5 L9 1" stroke="black" marker-start="url(#d1)" marker-mid="url(#d1)" marker-end="url(#d1)"/>`
			}
			src := `<svg xmlns="http://www.w3.org/2000/svg" width="20" height="20"><defs>` + defs.String() + `</defs>` + body + `</svg>`
			out.Count("graphs")
			doc, err := drawSVG(src, 20, 20)
			if err != nil {
				// an image rejected because of a cyclic reference is "ignored": fine. An acyclic one must be accepted.
				if !s.Cyclic {
					out.Disagree("refs:"+kind+":acyclic-rejected", fmt.Sprintf("%s rejected: %v", src, err), map[string]interface{}{"svg": src})
				}
				continue
			}
			if kind == "use" && !s.Cyclic {
				n := 0
				for _, e := range doc.Evs {
					if e.Op == "Rectangle" {
						n++
					}
				}
				if n != s.Total {
					out.Disagree("refs:use:instances", fmt.Sprintf("%s draws %d shapes, the reference graph has %d instances", src, n, s.Total), map[string]interface{}{"svg": src, "got": n, "want": s.Total})
				}
			}
			if len(doc.Evs) > 20000 {
				out.Disagree("refs:"+kind+":unbounded", fmt.Sprintf("%d backend calls for %s", len(doc.Evs), src), map[string]interface{}{"svg": src})
			}
		}
	})
}
