package main

// C19 — counter styles and counter scopes against spec/CounterStyles.tla and spec/CounterScopes.tla.

import (
	"encoding/json"
	"flag"
	"fmt"
	"strings"

	"github.com/benoitkugler/webrender/css/counters"
	pr "github.com/benoitkugler/webrender/css/properties"
	"github.com/benoitkugler/webrender/html/boxes"

	"verif/harness/internal/drv"
)

func init() { commands["c19style"] = c19StyleMain }

type csRange struct {
	Auto bool `json:"auto"`
	Lo   int  `json:"lo"`
	Hi   int  `json:"hi"`
}

type csDef struct {
	Sys    string  `json:"sys"`
	N      int     `json:"n"`
	First  int     `json:"first"`
	Add    int     `json:"add"`
	Rng    csRange `json:"rng"`
	Pad    int     `json:"pad"`
	Neg    string  `json:"neg"`
	Fb     string  `json:"fb"`
	Ext    string  `json:"ext"`
	Mb     bool    `json:"mb"`
	RngSet bool    `json:"rngset"`
}

type csScn struct {
	Defs  map[string]csDef `json:"defs"`
	V     int              `json:"v"`
	Want  []string         `json:"want"`
	Via   string           `json:"via"`
	Style string           `json:"style"`
}

// symbols the specification names symbolically
var csNamed = map[string]string{"BULLET": "•", "CJK0": "〇", "CJK1": "一", "CJK2": "二", "CJK3": "三", "CJK4": "四", "CJK5": "五", "CJK6": "六", "CJK7": "七", "CJK8": "八", "CJK9": "九"}

// two-byte spellings of the symbols a b c (multi-byte variant of a style)
var csMb = map[string]string{"a": "é", "b": "ü", "c": "ö"}

var csSyms = map[string][]string{"x": {"a", "b", "c"}, "y": {"p", "q", "r"}}
var csTuples = map[int]string{1: "5 V, 1 I", 2: "5 V, 1 I, 0 N", 3: "3 T, 2 D", 4: "1 I"}

func csRule(name string, d csDef) string {
	if d.Sys == "undefined" {
		return ""
	}
	var b strings.Builder
	b.WriteString("@counter-style " + name + " { ")
	switch d.Sys {
	case "extends":
		b.WriteString("system: extends " + d.Ext + "; ")
	case "fixed":
		if d.First == 1 {
			b.WriteString("system: fixed; ")
		} else {
			b.WriteString(fmt.Sprintf("system: fixed %d; ", d.First))
		}
	default:
		b.WriteString("system: " + d.Sys + "; ")
	}
	if d.Sys == "additive" {
		b.WriteString("additive-symbols: " + csTuples[d.Add] + "; ")
	} else if d.Sys != "extends" {
		syms := append([]string(nil), csSyms[name][:d.N]...)
		if d.Mb {
			for i, x := range syms {
				syms[i] = csMb[x]
			}
		}
		b.WriteString("symbols: " + strings.Join(syms, " ") + "; ")
	}
	if !d.Rng.Auto {
		bound := func(v int) string {
			if v <= -1000 || v >= 1000 {
				return "infinite"
			}
			return fmt.Sprint(v)
		}
		b.WriteString(fmt.Sprintf("range: %s %s; ", bound(d.Rng.Lo), bound(d.Rng.Hi)))
	} else if d.RngSet {
		b.WriteString("range: auto; ")
	}
	if d.Pad > 0 {
		b.WriteString(fmt.Sprintf("pad: %d \"0\"; ", d.Pad))
	}
	switch d.Neg {
	case "paren":
		b.WriteString(`negative: "(" ")"; `)
	case "m":
		b.WriteString(`negative: "-"; `)
	}
	if d.Fb != "" {
		b.WriteString("fallback: " + d.Fb + "; ")
	}
	b.WriteString("}\n")
	return b.String()
}

func csKey(s *csScn) string {
	d := s.Defs["x"]
	k := d.Sys
	if s.Style != "" && s.Style != "x" {
		k = "predefined:" + s.Style
	}
	if d.Mb {
		k += ":multibyte-symbols"
	}
	if d.Sys == "additive" {
		k += fmt.Sprintf("(%s)", csTuples[d.Add])
	}
	if d.Sys == "extends" {
		k += "->" + d.Ext
	}
	switch {
	case s.V < 0:
		k += ":negative-value"
		if d.Neg == "paren" {
			k += ":custom-negative"
		}
	case s.V == 0:
		k += ":zero"
	default:
		k += ":positive"
	}
	k += ":via-" + s.Via
	return k
}

func c19StyleMain(args []string) int {
	return drv.Main("c19style", args, func(fs *flag.FlagSet) {}, func(line []byte, out *drv.Out) {
		var s csScn
		if err := json.Unmarshal(line, &s); err != nil {
			out.Fatal("bad scenario: " + err.Error())
			return
		}
		css := csRule("x", s.Defs["x"]) + csRule("y", s.Defs["y"])
		cs := counters.CounterStyle{}
		_, _, err := drv.Styles("<html><head><style>"+css+"</style></head><body><p>x</p></body></html>", &drv.Opts{FullUA: true, Counters: cs})
		if err != nil {
			out.Fatal("styles: " + err.Error())
			return
		}
		mb := s.Defs["x"].Mb
		for i, x := range s.Want {
			if n, ok := csNamed[x]; ok {
				s.Want[i] = n
			} else if mb && csMb[x] != "" && s.Via == "x" {
				s.Want[i] = csMb[x]
			}
		}
		want := strings.Join(s.Want, "")
		name := s.Style
		if name == "" {
			name = "x"
		}
		out.Sample(map[string]interface{}{"css": css, "value": s.V, "want": want})
		if s.Via != "decimal" {
			out.Count("nontrivial")
		}
		got := cs.RenderValue(s.V, name)
		if got != want {
			out.Disagree("render:"+csKey(&s), fmt.Sprintf("value %d in %s-> RenderValue gives %q, Counter Styles requires %q (via %s)", s.V, strings.TrimSpace(css), got, want, s.Via),
				map[string]interface{}{"css": css, "value": s.V, "want": want, "got": got, "scenario": json.RawMessage(line)})
			return
		}
		if g2 := cs.RenderValueStyle(s.V, pr.CounterStyleID{Name: name}); g2 != want {
			out.Disagree("render-style:"+csKey(&s), fmt.Sprintf("RenderValueStyle gives %q, expected %q", g2, want), map[string]interface{}{"css": css, "value": s.V})
			return
		}
	})
}

// ---------------------------------------------------------------- counter scopes (CounterScopes.tla)

func init() { commands["c19scope"] = c19ScopeMain }

type scNV struct {
	N string `json:"n"`
	V int    `json:"v"`
}

type scOp struct {
	R  []scNV `json:"r"`
	S  []scNV `json:"s"`
	I  []scNV `json:"i"`
	Li bool   `json:"li"`
}

type scScn struct {
	Dep  []int              `json:"dep"`
	Ops  []scOp             `json:"ops"`
	Want []map[string][]int `json:"want"`
}

func scDecl(prop string, xs []scNV) string {
	if len(xs) == 0 {
		return ""
	}
	var parts []string
	for _, x := range xs {
		n := x.N
		if n == "l" {
			n = "list-item"
		}
		parts = append(parts, fmt.Sprintf("%s %d", n, x.V))
	}
	if len(parts) == 0 {
		return ""
	}
	return prop + ":" + strings.Join(parts, " ") + ";"
}

func scJoin(v []int) string {
	if len(v) == 0 {
		return "0"
	}
	var parts []string
	for _, x := range v {
		parts = append(parts, fmt.Sprint(x))
	}
	return strings.Join(parts, ".")
}

func scKey(s *scScn, node int) string {
	o := s.Ops[node]
	var ks []string
	if len(o.R) > 0 {
		ks = append(ks, "reset")
	}
	if len(o.S) > 0 {
		ks = append(ks, "set")
	}
	if len(o.I) > 0 {
		ks = append(ks, "increment")
	}
	if len(ks) == 0 {
		ks = append(ks, "no-op")
	}
	return strings.Join(ks, "+")
}

func c19ScopeMain(args []string) int {
	return drv.Main("c19scope", args, func(fs *flag.FlagSet) {}, func(line []byte, out *drv.Out) {
		var s scScn
		if err := json.Unmarshal(line, &s); err != nil {
			out.Fatal("bad scenario: " + err.Error())
			return
		}
		var b strings.Builder
		b.WriteString(`<html><head><style>@page{size:500px 5000px;margin:0} html,body,div{display:block;margin:0} div::before{content: counters(c, ".") "|" counters(d, ".") ";"}</style></head><body>`)
		depth := -1
		for i, d := range s.Dep {
			for ; depth >= d; depth-- {
				b.WriteString("</div>")
			}
			o := s.Ops[i]
			incr := o.I
			extra := ""
			if o.Li {
				// the increment of list-item is implicit: the element is a list item and declares no counter-increment
				extra = "display:list-item;list-style:decimal inside;"
				var rest []scNV
				for _, x := range incr {
					if x.N != "l" {
						rest = append(rest, x)
					}
				}
				if len(rest) > 0 {
					out.Fatal("list item with an explicit increment is not materialisable")
					return
				}
				incr = nil
			}
			b.WriteString(`<div style="` + extra + scDecl("counter-reset", o.R) + scDecl("counter-set", o.S) + scDecl("counter-increment", incr) + `">`)
			depth = d
		}
		for ; depth >= 0; depth-- {
			b.WriteString("</div>")
		}
		b.WriteString("</body></html>")
		pages, err := drv.Layout(b.String(), &drv.Opts{})
		if err != nil {
			out.Fatal("layout: " + err.Error())
			return
		}
		var text strings.Builder
		for _, p := range pages {
			drv.Walk(p, func(bx boxes.Box, _ int) bool {
				if t, ok := bx.(*boxes.TextBox); ok {
					text.WriteString(t.TextS())
				}
				return true
			})
		}
		got := strings.Split(strings.TrimSuffix(text.String(), ";"), ";")
		out.Sample(map[string]interface{}{"html": b.String(), "text": text.String()})
		out.Count("nontrivial")
		if len(got) != len(s.Dep) {
			out.Disagree("scope:marker-count", fmt.Sprintf("expected %d generated texts, got %q", len(s.Dep), text.String()), map[string]interface{}{"html": b.String(), "scenario": json.RawMessage(line)})
			return
		}
		for i := range s.Dep {
			want := scJoin(s.Want[i]["c"]) + "|" + scJoin(s.Want[i]["d"])
			if s.Ops[i].Li {
				l := s.Want[i]["l"]
				want = fmt.Sprintf("%d. ", l[len(l)-1]) + want
			}
			if got[i] != want {
				out.Disagree("scope:"+scKey(&s, i), fmt.Sprintf("element %d of %s shows counters %q, CSS requires %q", i+1, b.String()[strings.Index(b.String(), "<body>"):], got[i], want),
					map[string]interface{}{"html": b.String(), "element": i + 1, "got": got[i], "want": want, "scenario": json.RawMessage(line)})
				return
			}
		}
	})
}
