package main

// C19 — counter styles and counter scopes against spec/CounterStyles.tla and spec/CounterScopes.tla.

import (
	"encoding/json"
	"flag"
	"fmt"
	"strings"

	"github.com/benoitkugler/webrender/css/counters"
	pr "github.com/benoitkugler/webrender/css/properties"

	"verif/harness/internal/drv"
)

func init() { commands["c19style"] = c19StyleMain }

type csRange struct {
	Auto bool `json:"auto"`
	Lo   int  `json:"lo"`
	Hi   int  `json:"hi"`
}

type csDef struct {
	Sys   string  `json:"sys"`
	N     int     `json:"n"`
	First int     `json:"first"`
	Add   int     `json:"add"`
	Rng   csRange `json:"rng"`
	Pad   int     `json:"pad"`
	Neg   string  `json:"neg"`
	Fb    string  `json:"fb"`
	Ext   string  `json:"ext"`
}

type csScn struct {
	Defs map[string]csDef `json:"defs"`
	V    int              `json:"v"`
	Want []string         `json:"want"`
	Via  string           `json:"via"`
}

var csSyms = map[string][]string{"x": {"a", "b", "c"}, "y": {"p", "q", "r"}}
var csTuples = map[int]string{1: "5 V, 1 I", 2: "5 V, 1 I, 0 N", 3: "3 T, 2 D", 4: "1 I"}

func csRule(name string, d csDef) string {
	if d.Sys == "undefined" {
		return ""
	}
	var b strings.Builder
	b.WriteString("@counter-style " + name + " { ")
	switch d.Sys {
	case "extends":
		b.WriteString("system: extends " + d.Ext + "; ")
	case "fixed":
		if d.First == 1 {
			b.WriteString("system: fixed; ")
		} else {
			b.WriteString(fmt.Sprintf("system: fixed %d; ", d.First))
		}
	default:
		b.WriteString("system: " + d.Sys + "; ")
	}
	if d.Sys == "additive" {
		b.WriteString("additive-symbols: " + csTuples[d.Add] + "; ")
	} else if d.Sys != "extends" {
		b.WriteString("symbols: " + strings.Join(csSyms[name][:d.N], " ") + "; ")
	}
	if !d.Rng.Auto {
		b.WriteString(fmt.Sprintf("range: %d %d; ", d.Rng.Lo, d.Rng.Hi))
	}
	if d.Pad > 0 {
		b.WriteString(fmt.Sprintf("pad: %d \"0\"; ", d.Pad))
	}
	switch d.Neg {
	case "paren":
		b.WriteString(`negative: "(" ")"; `)
	case "m":
		b.WriteString(`negative: "-"; `)
	}
	if d.Fb != "" {
		b.WriteString("fallback: " + d.Fb + "; ")
	}
	b.WriteString("}\n")
	return b.String()
}

func csKey(s *csScn) string {
	d := s.Defs["x"]
	k := d.Sys
	if d.Sys == "additive" {
		k += fmt.Sprintf("(%s)", csTuples[d.Add])
	}
	if d.Sys == "extends" {
		k += "->" + d.Ext
	}
	switch {
	case s.V < 0:
		k += ":negative-value"
		if d.Neg == "paren" {
			k += ":custom-negative"
		}
	case s.V == 0:
		k += ":zero"
	default:
		k += ":positive"
	}
	k += ":via-" + s.Via
	return k
}

func c19StyleMain(args []string) int {
	return drv.Main("c19style", args, func(fs *flag.FlagSet) {}, func(line []byte, out *drv.Out) {
		var s csScn
		if err := json.Unmarshal(line, &s); err != nil {
			out.Fatal("bad scenario: " + err.Error())
			return
		}
		css := csRule("x", s.Defs["x"]) + csRule("y", s.Defs["y"])
		cs := counters.CounterStyle{}
		_, _, err := drv.Styles("<html><head><style>"+css+"</style></head><body><p>x</p></body></html>", &drv.Opts{FullUA: true, Counters: cs})
		if err != nil {
			out.Fatal("styles: " + err.Error())
			return
		}
		want := strings.Join(s.Want, "")
		out.Sample(map[string]interface{}{"css": css, "value": s.V, "want": want})
		if s.Via != "decimal" {
			out.Count("nontrivial")
		}
		got := cs.RenderValue(s.V, "x")
		if got != want {
			out.Disagree("render:"+csKey(&s), fmt.Sprintf("value %d in %s-> RenderValue gives %q, Counter Styles requires %q (via %s)", s.V, strings.TrimSpace(css), got, want, s.Via),
				map[string]interface{}{"css": css, "value": s.V, "want": want, "got": got, "scenario": json.RawMessage(line)})
			return
		}
		if g2 := cs.RenderValueStyle(s.V, pr.CounterStyleID{Name: "x"}); g2 != want {
			out.Disagree("render-style:"+csKey(&s), fmt.Sprintf("RenderValueStyle gives %q, expected %q", g2, want), map[string]interface{}{"css": css, "value": s.V})
			return
		}
	})
}
