package main

// C02 — fragmentation conserves content, against spec/Flow.tla.
//
// A scenario is a document (sequence of items: paragraphs, tables with header/footer groups, floats, absolutely
// positioned, fixed and running elements, inline-blocks, columns, flex, lists, pre, grid, ...) and a page configuration.
// Every word of the document is a unique token. The tokens of every real page (box tree order) are emitted as a trace
// record that TLC validates with FlowTrace.tla (operator Accept of Flow.tla); the tokens drawn on every page by the
// recording backend must be the tokens laid out on that page, each exactly once.

import (
	"encoding/json"
	"flag"
	"fmt"
	"regexp"
	"sort"
	"strconv"
	"strings"

	"github.com/benoitkugler/webrender/html/boxes"

	"verif/harness/internal/drv"
)

func init() { commands["c02"] = c02Main }

type flItem struct {
	Kind string `json:"kind"`
	N    int    `json:"n"`
	Wrap int    `json:"wrap"`
	Hdr  bool   `json:"hdr"`
	Ftr  bool   `json:"ftr"`
	Opt  int    `json:"opt"`
}

type flScn struct {
	Doc []flItem `json:"doc"`
	Cfg struct {
		H  int `json:"H"`
		W  int `json:"W"`
		Ow int `json:"ow"`
	} `json:"cfg"`
}

type flTok struct {
	It   int `json:"it"`
	Role int `json:"role"`
	K    int `json:"k"`
}

var c02Engine = "pango"

func c02HTML(s *flScn) string {
	var b strings.Builder
	hasRunning := false
	for _, it := range s.Doc {
		if it.Kind == "running" {
			hasRunning = true
		}
	}
	fmt.Fprintf(&b, `<html><head><style>@page{size:%dpx %dpx;margin:10px;`, s.Cfg.W*8+20, s.Cfg.H*10+4+20)
	if hasRunning {
		b.WriteString(`@top-center{content:element(run);font-family:weasyprint;font-size:8px;line-height:10px}`)
	}
	fmt.Fprintf(&b, `}html,body,div,section,p,ul,li{display:block;margin:0;padding:0}li{display:list-item;list-style:none}`+
		`table{margin:0;border-spacing:0;width:100%%}td,th{padding:0;font-weight:normal;text-align:left}`+
		`body{font-family:weasyprint;font-size:8px;line-height:10px;orphans:%d;widows:%d}</style></head><body>`, s.Cfg.Ow, s.Cfg.Ow)
	for idx, it := range s.Doc {
		i := idx + 1
		w := func(k int) string { return fmt.Sprintf("a%dw%d", i, k) }
		words := func(sep string) string {
			var ws []string
			for k := 1; k <= it.N; k++ {
				ws = append(ws, w(k))
			}
			return strings.Join(ws, sep)
		}
		switch it.Wrap {
		case 3:
			// (a hidden box whose content is visible again: the content is laid out AND drawn)
			b.WriteString(`<div style="visibility:hidden"><div style="visibility:visible">`)
		case 1:
			b.WriteString(`<div style="padding:3px;border:1px solid">`)
		case 2:
			b.WriteString(`<section style="margin:5px 0"><div style="padding:2px">`)
		}
		switch it.Kind {
		case "p":
			st := [...]string{"", "break-inside:avoid", "margin:5px 0"}[it.Opt%3]
			if it.Opt == 3 {
				st = "break-before:avoid" // (an earlier break must be found when the paragraph does not fit)
			}
			if it.Wrap == 3 {
				// (inline level: a hidden inline box whose content is visible again)
				fmt.Fprintf(&b, `<p style="%s"><span style="visibility:hidden"><span style="visibility:visible">%s</span></span></p>`, st, words(" "))
			} else {
				fmt.Fprintf(&b, `<p style="%s">%s</p>`, st, words(" "))
			}
		case "table":
			st, cell := "", ""
			tall := ""
			switch it.Opt {
			case 3:
				// cells of two blocks (a line and an empty block): a row can be split between them
				tall = `<div style="height:14px"></div>`
			case 1:
				st, cell = "border-collapse:collapse", "border:1px solid"
			case 2:
				cell = "padding:1px"
			}
			fmt.Fprintf(&b, `<table style="%s">`, st)
			if it.Hdr {
				fmt.Fprintf(&b, `<thead><tr><th style="%s">a%dh1</th><th style="%s">a%dh2</th></tr></thead>`, cell, i, cell, i)
			}
			if it.Ftr {
				fmt.Fprintf(&b, `<tfoot><tr><td style="%s">a%df1</td><td style="%s">a%df2</td></tr></tfoot>`, cell, i, cell, i)
			}
			b.WriteString("<tbody>")
			for r := 0; r < it.N; r++ {
				fmt.Fprintf(&b, `<tr><td style="%s">%s%s</td><td style="%s">%s%s</td></tr>`, cell, w(2*r+1), tall, cell, w(2*r+2), tall)
			}
			b.WriteString("</tbody></table>")
		case "float":
			st := [...]string{"float:left", "float:right", "float:left;clear:both"}[it.Opt%3]
			fmt.Fprintf(&b, `<p style="%s;width:50%%">%s</p>`, st, words(" "))
		case "abs":
			st := [...]string{"top:5px;right:0", "bottom:0;left:0", ""}[it.Opt%3]
			fmt.Fprintf(&b, `<div style="position:absolute;%s">%s</div>`, st, words("<br>"))
		case "fixed":
			fmt.Fprintf(&b, `<div style="position:fixed;bottom:0;right:0">a%dx1</div>`, i)
		case "running":
			fmt.Fprintf(&b, `<div style="position:running(run)">a%dr1</div>`, i)
		case "ib":
			b.WriteString("<p>")
			for k := 1; k <= it.N; k++ {
				if k > 1 {
					b.WriteString(" ")
				}
				open := (it.N <= 2 && k == it.N) || (it.N > 2 && k == 2)
				closeIt := (it.N <= 2 && k == it.N) || (it.N > 2 && k == it.N-1)
				if open {
					b.WriteString([...]string{`<span style="display:inline-block">`, `<span style="display:inline-block;width:100%">`, `<span style="display:inline-block;vertical-align:top;padding:1px">`}[it.Opt%3])
				}
				b.WriteString(w(k))
				if closeIt {
					b.WriteString("</span>")
				}
			}
			b.WriteString("</p>")
		case "cols":
			switch it.Opt {
			case 0:
				fmt.Fprintf(&b, `<div style="columns:2;column-gap:0"><p>%s</p></div>`, words(" "))
			case 1:
				fmt.Fprintf(&b, `<div style="columns:2;column-gap:0;column-fill:auto"><p>%s</p></div>`, words(" "))
			case 3:
				// a padded block made of blocks inside the columns (its bottom padding may be what does not fit)
				fmt.Fprintf(&b, `<div style="columns:2;column-gap:0"><div style="padding-bottom:8px"><div>%s</div></div></div>`, words("</div><div>"))
			default:
				fmt.Fprintf(&b, `<div style="columns:2;column-gap:0"><p>%s</p></div>`, words("</p><p>"))
			}
		case "flex":
			st := [...]string{"flex-direction:row;flex-wrap:wrap", "flex-direction:column", "flex-direction:row"}[it.Opt%3]
			fmt.Fprintf(&b, `<div style="display:flex;%s"><div>%s</div></div>`, st, words("</div><div>"))
		case "list":
			st := [...]string{"", "margin:3px 0", "break-inside:avoid"}[it.Opt%3]
			fmt.Fprintf(&b, `<ul><li style="%s">%s</li></ul>`, st, words(fmt.Sprintf(`</li><li style="%s">`, st)))
		case "pre":
			st := [...]string{"pre-wrap", "pre-line", "pre"}[it.Opt%3]
			fmt.Fprintf(&b, `<p style="white-space:%s">%s</p>`, st, words("\n"))
		case "grid":
			st := [...]string{"grid-template-columns:1fr 1fr", "grid-template-columns:1fr", "grid-auto-flow:column"}[it.Opt%3]
			fmt.Fprintf(&b, `<div style="display:grid;%s"><div>%s</div></div>`, st, words("</div><div>"))
		case "rel":
			st := [...]string{"top:3px", "left:2px;top:-2px", "bottom:1px"}[it.Opt%3]
			fmt.Fprintf(&b, `<p style="position:relative;%s">%s</p>`, st, words(" "))
		case "span":
			st := [...]string{"padding:0 2px;border:1px solid", "box-decoration-break:clone;padding:0 2px", "font-size:6px"}[it.Opt%3]
			if it.N == 1 {
				fmt.Fprintf(&b, `<p><span style="%s">%s</span></p>`, st, w(1))
			} else {
				var ws []string
				for k := 2; k <= it.N; k++ {
					ws = append(ws, w(k))
				}
				fmt.Fprintf(&b, `<p>%s <span style="%s">%s</span></p>`, w(1), st, strings.Join(ws, " "))
			}
		case "glue":
			// adjacent inline boxes without break opportunity between them (2n+2 words):
			// <span>w1 .. wa </span><span>w(a+1) .. w(tot-1)</span>w(tot)
			st := [...]string{"", "", "padding:0 1px"}[it.Opt%3]
			tot := 2*it.N + 2
			a := tot - 3
			if it.Opt%3 == 1 {
				// a short first line, so that the second line starts inside the first inline box
				a = 2
				fmt.Fprintf(&b, `<p style="text-indent:%dpx"><span>`, (s.Cfg.W-5)*8)
			} else {
				b.WriteString("<p><span>")
			}
			for k := 1; k <= a; k++ {
				b.WriteString(w(k) + " ")
			}
			b.WriteString("</span><span style=\"" + st + "\">")
			for k := a + 1; k < tot; k++ {
				if k > a+1 {
					b.WriteString(" ")
				}
				b.WriteString(w(k))
			}
			b.WriteString("</span>" + w(tot) + "</p>")
		case "stack":
			// an inline box that roots a stacking context and ends with a nested inline box
			st := [...]string{"position:relative", "opacity:0.5", "position:relative;z-index:1;top:1px"}[it.Opt%3]
			switch {
			case it.N == 1:
				fmt.Fprintf(&b, `<p><span style="%s"><b>%s</b></span></p>`, st, w(1))
			case it.N == 2:
				fmt.Fprintf(&b, `<p><span style="%s">%s <b>%s</b></span></p>`, st, w(1), w(2))
			default:
				var mid []string
				for k := 2; k < it.N-1; k++ {
					mid = append(mid, w(k))
				}
				mid = append(mid, "<b>"+w(it.N-1)+"</b>")
				fmt.Fprintf(&b, `<p>%s <span style="%s">%s</span> %s</p>`, w(1), st, strings.Join(mid, " "), w(it.N))
			}
		case "side":
			// asks for a page of a given side: a blank page is inserted when the next page is of the other side
			st := [...]string{"break-before:right", "break-before:left", "break-before:verso"}[it.Opt%3]
			fmt.Fprintf(&b, `<p style="%s">%s</p>`, st, words(" "))
		case "pfl":
			// a float INSIDE the paragraph (token a<i>q1), narrow or too wide for its line; options 2, 3: two stacked floats of
			// different widths on the left and a tall inline-block on the first line, so that the line is laid out a second time
			// further right once its height is known
			fl := [...]string{"float:left;width:30%", "float:left;width:90%", "float:left;width:90%", "float:right;width:30%"}[it.Opt%4]
			tall := ""
			if it.Opt%4 >= 2 {
				b.WriteString(`<div style="float:left;width:30%;height:15px"></div><div style="float:left;clear:left;width:60%;height:20px"></div>`)
				tall = `<span style="display:inline-block;width:8px;height:20px"></span> `
			}
			var rest []string
			for k := 2; k <= it.N; k++ {
				rest = append(rest, w(k))
			}
			fmt.Fprintf(&b, `<p>%s %s<span style="%s">a%dq1</span> %s</p>`, w(1), tall, fl, i, strings.Join(rest, " "))
		case "avf":
			// a block that avoids breaks inside and holds a float of three lines followed by one line per word
			st := [...]string{"break-inside:avoid", "", "break-inside:avoid"}[it.Opt%3]
			side := [...]string{"left", "left", "right"}[it.Opt%3]
			fmt.Fprintf(&b, `<div style="%s"><p style="float:%s;width:50%%">a%dq1<br>a%dq2<br>a%dq3</p>%s</div>`, st, side, i, i, i, words("<br>"))
		default:
			b.WriteString("<p>unknownkind</p>")
		}
		switch it.Wrap {
		case 1:
			b.WriteString(`</div>`)
		case 2:
			b.WriteString(`</div></section>`)
		case 3:
			b.WriteString(`</div></div>`)
		}
	}
	b.WriteString("</body></html>")
	return b.String()
}

var c02TokRe = regexp.MustCompile(`^a(\d+)([whfxrq])(\d+)$`)

// words of a text: tokens may be glued to each other (adjacent inline boxes); whatever is not a token is kept as a word
// of its own, so that it shows as unknown text
var c02SplitRe = regexp.MustCompile(`a\d+[whfxrq]\d+|[^\sa]+|a`)

func c02Words(s string) []string { return c02SplitRe.FindAllString(s, -1) }

func c02Tok(word string) flTok {
	m := c02TokRe.FindStringSubmatch(word)
	if m == nil {
		return flTok{}
	}
	it, _ := strconv.Atoi(m[1])
	k, _ := strconv.Atoi(m[3])
	return flTok{It: it, Role: strings.Index("whfxrq", m[2]), K: k}
}

func c02Main(args []string) int {
	return drv.Main("c02", args, func(fs *flag.FlagSet) { fs.StringVar(&c02Engine, "engine", "pango", "text engine") }, func(line []byte, out *drv.Out) {
		var s flScn
		if err := json.Unmarshal(line, &s); err != nil {
			out.Fatal("bad scenario: " + err.Error())
			return
		}
		doc := c02HTML(&s)
		pages, r, err := drv.RenderPages(doc, &drv.Opts{Engine: c02Engine})
		if err != nil {
			out.Fatal(err.Error())
			return
		}
		out.Count("documents")
		out.Add("pages", len(pages))
		kinds := map[string]bool{}
		for _, it := range s.Doc {
			kinds[it.Kind] = true
		}
		var ks []string
		for k := range kinds {
			ks = append(ks, k)
		}
		sort.Strings(ks)
		laid := make([][]string, len(pages))
		toks := make([][]flTok, len(pages))
		for pi, p := range pages {
			toks[pi] = []flTok{}
			if p.PageType.Blank {
				toks[pi] = append(toks[pi], flTok{It: 0, Role: 9, K: 0}) // the marker of a blank page
			}
			drv.Walk(p, func(bx boxes.Box, _ int) bool {
				if tb, ok := bx.(*boxes.TextBox); ok {
					for _, wd := range c02Words(tb.TextS()) {
						laid[pi] = append(laid[pi], wd)
						toks[pi] = append(toks[pi], c02Tok(wd))
					}
				}
				return true
			})
		}
		if len(pages) > 1 {
			out.Count("multi-page")
		}
		out.Emit(map[string]interface{}{"doc": s.Doc, "cfg": s.Cfg, "pages": toks, "kinds": strings.Join(ks, "+")})

		drawn := make([][]string, len(pages))
		bad := false
		for _, e := range r.Evs {
			if e.Op != "DrawText" {
				continue
			}
			for _, t := range e.Text {
				if e.Page < 0 || e.Page >= len(drawn) {
					bad = true
					continue
				}
				drawn[e.Page] = append(drawn[e.Page], c02Words(string(t))...)
			}
		}
		for pi := range pages {
			want := append([]string(nil), laid[pi]...)
			got := append([]string(nil), drawn[pi]...)
			sort.Strings(want)
			sort.Strings(got)
			if strings.Join(want, " ") != strings.Join(got, " ") {
				bad = true
			}
		}
		if bad {
			var diff []string
			for pi := range pages {
				cnt := map[string]int{}
				for _, w := range laid[pi] {
					cnt[w]++
				}
				for _, w := range drawn[pi] {
					cnt[w]--
				}
				var ws []string
				for w, c := range cnt {
					if c > 0 {
						ws = append(ws, fmt.Sprintf("%s not drawn", w))
					} else if c < 0 {
						ws = append(ws, fmt.Sprintf("%s drawn %d times too many", w, -c))
					}
				}
				sort.Strings(ws)
				if len(ws) > 0 {
					diff = append(diff, fmt.Sprintf("page %d: %s", pi+1, strings.Join(ws, ", ")))
				}
			}
			out.Disagree("C02:draw:"+strings.Join(ks, "+"), fmt.Sprintf("the texts drawn differ from the texts laid out (%s): %s", strings.Join(diff, "; "), doc[strings.Index(doc, "<body>"):]),
				map[string]interface{}{"doc": doc, "scenario": json.RawMessage(line), "laid_out": laid, "drawn": drawn})
		}
	})
}
