package main

// C17 — transform lists and the matrix package against spec/Transform.tla.

import (
	"encoding/json"
	"flag"
	"fmt"
	"math"
	"strings"

	"github.com/benoitkugler/webrender/matrix"
	"github.com/benoitkugler/webrender/svg"

	"verif/harness/internal/drv"
	"verif/harness/internal/rec"
)

func init() { commands["c17"] = c17Main }

type c17Fn struct {
	K string `json:"k"`
	A int    `json:"a"`
	B int    `json:"b"`
	U string `json:"u"`
}

type c17Scn struct {
	Mode   string  `json:"mode"`
	Fns    []c17Fn `json:"fns"`
	Origin string  `json:"origin"`
	Want   []int   `json:"want"`
	Box    []int   `json:"box"`
	// algebra
	T, U                                  []int
	Pt                                    []int `json:"pt"`
	Mul, App, Adj, Tr, Sc, Rot, Skw, Mul3 []int
	Det                                   int
}

var (
	c17Custom  = [][6]int{{1, 0, 0, 1, 0, 0}, {0, 1, -1, 0, 3, 4}, {2, 0, 1, 1, -5, 0}, {1, 2, 3, 4, 5, 6}}
	c17Centers = [][2]int{{0, 0}, {10, 4}, {-3, 7}}
)

func c17Angle(q int, unit string) string {
	switch unit {
	case "deg", "":
		return fmt.Sprintf("%ddeg", 90*q)
	case "grad":
		return fmt.Sprintf("%dgrad", 100*q)
	case "turn":
		return fmt.Sprintf("%gturn", 0.25*float64(q))
	case "rad":
		return fmt.Sprintf("%.10frad", float64(q)*math.Pi/2)
	}
	return "?"
}

// angle whose tangent is t (t in {-1, 1})
func c17Skew(t int, unit string) string {
	switch unit {
	case "deg", "":
		return fmt.Sprintf("%ddeg", 45*t)
	case "grad":
		return fmt.Sprintf("%dgrad", 50*t)
	case "turn":
		return fmt.Sprintf("%gturn", 0.125*float64(t))
	case "rad":
		return fmt.Sprintf("%.10frad", float64(t)*math.Pi/4)
	}
	return "?"
}

func c17CSS(f c17Fn) string {
	switch f.K {
	case "translate":
		return fmt.Sprintf("translate(%dpx, %dpx)", f.A, f.B)
	case "translate1":
		return fmt.Sprintf("translate(%dpx)", f.A)
	case "translateX":
		return fmt.Sprintf("translateX(%dpx)", f.A)
	case "translateY":
		return fmt.Sprintf("translateY(%dpx)", f.A)
	case "translateP":
		return fmt.Sprintf("translate(%d%%, %d%%)", f.A, f.B)
	case "scale":
		return fmt.Sprintf("scale(%d, %d)", f.A, f.B)
	case "scale1":
		return fmt.Sprintf("scale(%d)", f.A)
	case "scaleX":
		return fmt.Sprintf("scaleX(%d)", f.A)
	case "scaleY":
		return fmt.Sprintf("scaleY(%d)", f.A)
	case "rotate":
		return "rotate(" + c17Angle(f.A, f.U) + ")"
	case "skewX":
		return "skewX(" + c17Skew(f.A, f.U) + ")"
	case "skewY":
		return "skewY(" + c17Skew(f.A, f.U) + ")"
	case "matrix":
		m := c17Custom[f.A-1]
		return fmt.Sprintf("matrix(%d, %d, %d, %d, %d, %d)", m[0], m[1], m[2], m[3], m[4], m[5])
	}
	return "?"
}

func c17SVG(f c17Fn) string {
	switch f.K {
	case "translate":
		return fmt.Sprintf("translate(%d %d)", f.A, f.B)
	case "translate1":
		return fmt.Sprintf("translate(%d)", f.A)
	case "scale":
		return fmt.Sprintf("scale(%d, %d)", f.A, f.B)
	case "scale1":
		return fmt.Sprintf("scale(%d)", f.A)
	case "rotate":
		return fmt.Sprintf("rotate(%d)", 90*f.A)
	case "rotateAt":
		c := c17Centers[f.B-1]
		return fmt.Sprintf("rotate(%d, %d, %d)", 90*f.A, c[0], c[1])
	case "skewX":
		return fmt.Sprintf("skewX(%d)", 45*f.A)
	case "skewY":
		return fmt.Sprintf("skewY(%d)", 45*f.A)
	case "skew":
		return fmt.Sprintf("skew(%d, %d)", 45*f.A, 45*f.B)
	case "matrix":
		m := c17Custom[f.A-1]
		return fmt.Sprintf("matrix(%d %d %d %d %d %d)", m[0], m[1], m[2], m[3], m[4], m[5])
	}
	return "?"
}

func near(got float64, want int, eps float64) bool {
	return math.Abs(got-float64(want)) <= eps*(1+math.Abs(float64(want)))
}

func matNear(got []float64, want []int, eps float64) bool {
	if len(got) != len(want) {
		return false
	}
	for i := range got {
		if !near(got[i], want[i], eps) {
			return false
		}
	}
	return true
}

func tf(m matrix.Transform) []float64 {
	return []float64{float64(m.A), float64(m.B), float64(m.C), float64(m.D), float64(m.E), float64(m.F)}
}

func mi(v []int) matrix.Transform {
	return matrix.New(float32(v[0]), float32(v[1]), float32(v[2]), float32(v[3]), float32(v[4]), float32(v[5]))
}

// classify which functions occur, to make the finding key specific
func c17Kinds(fns []c17Fn) string {
	seen := map[string]bool{}
	var ks []string
	for _, f := range fns {
		k := f.K
		if !seen[k] {
			seen[k] = true
			ks = append(ks, k)
		}
	}
	return strings.Join(ks, "+")
}

func c17Main(args []string) int {
	return drv.Main("c17", args, func(fs *flag.FlagSet) {}, func(line []byte, out *drv.Out) {
		var s c17Scn
		if err := json.Unmarshal(line, &s); err != nil {
			out.Fatal("bad scenario: " + err.Error())
			return
		}
		switch s.Mode {
		case "css":
			c17Css(&s, line, out)
		case "svg":
			c17Svg(&s, line, out)
		case "algebra":
			c17Algebra(&s, line, out)
		}
	})
}

// c17Em spells the px lengths of a translate function in em of a 2px font
func c17Em(f c17Fn) string {
	e := func(v int) string { return fmt.Sprintf("%gem", float64(v)/2) }
	switch f.K {
	case "translate":
		return fmt.Sprintf("translate(%s, %s)", e(f.A), e(f.B))
	case "translate1":
		return fmt.Sprintf("translate(%s)", e(f.A))
	case "translateX":
		return fmt.Sprintf("translateX(%s)", e(f.A))
	case "translateY":
		return fmt.Sprintf("translateY(%s)", e(f.A))
	}
	return c17CSS(f)
}

func c17Css(s *c17Scn, line []byte, out *drv.Out) {
	// variant 1: the transform is declared in a rule shared with an earlier element of another font size, its lengths in
	// em (the computed value of one element must not leak into the other: the declaration is one object)
	shared := out.Cur%3 == 1
	var parts []string
	for _, f := range s.Fns {
		if shared {
			parts = append(parts, c17Em(f))
		} else {
			parts = append(parts, c17CSS(f))
		}
	}
	// variant 2: the border box of the specification is made of a content box, paddings and borders (percentages of
	// translate() and of transform-origin refer to the border box)
	style := fmt.Sprintf("width:%dpx;height:%dpx;margin:%dpx 0 0 %dpx;transform:%s", s.Box[2], s.Box[3], s.Box[1], s.Box[0], strings.Join(parts, " "))
	if out.Cur%3 == 2 && s.Box[2] > 12 && s.Box[3] > 8 {
		style = fmt.Sprintf("width:%dpx;height:%dpx;padding:2px 4px;border:solid;border-width:1px 2px;margin:%dpx 0 0 %dpx;transform:%s", s.Box[2]-12, s.Box[3]-6, s.Box[1], s.Box[0], strings.Join(parts, " "))
	}
	if s.Origin != "" {
		style += ";transform-origin:" + s.Origin
	}
	html := `<html><head><style>@page{size:200px 200px;margin:0} html,body{margin:0;padding:0;display:block} div{display:block}</style></head><body><div style="` + style + `"></div></body></html>`
	if shared {
		decl := "transform:" + strings.Join(parts, " ")
		if s.Origin != "" {
			decl += ";transform-origin:" + s.Origin
		}
		html = `<html><head><style>@page{size:200px 200px;margin:0} html,body{margin:0;padding:0;display:block} div{display:block} .t{` + decl + `}</style></head><body>` +
			`<div class="t" style="font-size:8px;position:absolute;width:1px;height:1px"></div>` +
			fmt.Sprintf(`<div class="t" style="font-size:2px;width:%dpx;height:%dpx;margin:%dpx 0 0 %dpx"></div></body></html>`, s.Box[2], s.Box[3], s.Box[1], s.Box[0])
	}
	_, r, err := drv.Render(html, &drv.Opts{})
	if err != nil {
		out.Fatal("render: " + err.Error())
		return
	}
	var got [][]float64
	for _, e := range r.Evs {
		// depth 0: the page's y-flip, depth 1: the zoom scale of Page.Paint; deeper: boxes
		if e.Op == "Transform" && e.D > 1 {
			got = append(got, e.N)
		}
	}
	out.Count("css")
	out.Sample(map[string]interface{}{"style": style, "want": s.Want})
	if shared && len(got) == 2 {
		got = got[1:] // (the first call belongs to the earlier element sharing the rule)
	}
	if len(got) != 1 {
		out.Disagree("css-transform-call-count:"+c17Kinds(s.Fns), fmt.Sprintf("expected exactly one Transform call for the box, got %d (%s)", len(got), style),
			map[string]interface{}{"scenario": json.RawMessage(line), "html": html, "got": got})
		return
	}
	if !matNear(got[0], s.Want, 1e-4) {
		out.Disagree("css-matrix:"+c17Kinds(s.Fns), fmt.Sprintf("transform:%s origin %q -> backend got %v, CSS requires %v", strings.Join(parts, " "), s.Origin, got[0], s.Want),
			map[string]interface{}{"scenario": json.RawMessage(line), "html": html, "got": got[0], "want": s.Want})
	}
}

func c17Svg(s *c17Scn, line []byte, out *drv.Out) {
	var parts []string
	for _, f := range s.Fns {
		parts = append(parts, c17SVG(f))
	}
	// the separators SVG allows between functions: white space and / or one comma
	sep := []string{" ", ", ", ",", " , ", "\n", "\n\t, ", "  "}[out.Cur%7]
	src := `<svg xmlns="http://www.w3.org/2000/svg" width="100" height="100"><rect x="1" y="2" width="3" height="4" transform="` + strings.Join(parts, sep) + `"/></svg>`
	img, err := svg.Parse(strings.NewReader(src), "", nil, nil)
	if err != nil {
		k := "svg-parse-rejected:" + c17Kinds(s.Fns)
		if strings.Contains(sep, ",") {
			k = "svg-comma-separated-list-rejected"
		}
		out.Disagree(k, "svg.Parse rejects a valid transform list: "+err.Error(), map[string]interface{}{"scenario": json.RawMessage(line), "svg": src})
		return
	}
	d := rec.New()
	pg := d.AddPage(0, 0, 100, 100)
	img.Draw(pg, 100, 100, nil)
	var got [][]float64
	sawRect := false
	for _, e := range d.Evs {
		if e.Op == "Transform" && !sawRect {
			got = append(got, e.N)
		}
		if e.Op == "Rectangle" || e.Op == "MoveTo" {
			sawRect = true
		}
	}
	out.Count("svg")
	out.Sample(map[string]interface{}{"svg": src, "want": s.Want})
	// the element's own transform is the last Transform before its geometry; viewport transforms (if any) come first
	if len(got) == 0 {
		out.Disagree("svg-transform-missing:"+c17Kinds(s.Fns), "no Transform call before the shape for "+strings.Join(parts, sep),
			map[string]interface{}{"scenario": json.RawMessage(line), "svg": src})
		return
	}
	// compose all transforms applied before the rectangle (viewport ones are identity here: no viewBox)
	acc := []float64{1, 0, 0, 1, 0, 0}
	for _, g := range got {
		acc = mulF(acc, g)
	}
	if !matNear(acc, s.Want, 1e-4) {
		out.Disagree("svg-matrix:"+c17Kinds(s.Fns), fmt.Sprintf("transform=%q -> backend got %v, SVG requires %v", strings.Join(parts, sep), acc, s.Want),
			map[string]interface{}{"scenario": json.RawMessage(line), "svg": src, "got": acc, "want": s.Want})
	}
}

func mulF(m, n []float64) []float64 {
	return []float64{
		m[0]*n[0] + m[2]*n[1], m[1]*n[0] + m[3]*n[1],
		m[0]*n[2] + m[2]*n[3], m[1]*n[2] + m[3]*n[3],
		m[0]*n[4] + m[2]*n[5] + m[4], m[1]*n[4] + m[3]*n[5] + m[5],
	}
}

func c17Algebra(s *c17Scn, line []byte, out *drv.Out) {
	T, U := mi(s.T), mi(s.U)
	px, py := float32(s.Pt[0]), float32(s.Pt[1])
	out.Count("algebra")
	bad := func(op string, got []float64, want []int) {
		out.Disagree("algebra:"+op, fmt.Sprintf("%s: T=%v U=%v pt=%v got %v want %v", op, s.T, s.U, s.Pt, got, want),
			map[string]interface{}{"scenario": json.RawMessage(line), "op": op, "got": got, "want": want})
	}
	const eps = 1e-5
	if g := tf(matrix.Mul(T, U)); !matNear(g, s.Mul, eps) {
		bad("Mul", g, s.Mul)
	}
	if g := tf(matrix.Mul3(T, U, T)); !matNear(g, s.Mul3, eps) {
		bad("Mul3", g, s.Mul3)
	}
	m := T
	m.RightMultBy(U)
	if g := tf(m); !matNear(g, s.Mul, eps) {
		bad("RightMultBy", g, s.Mul)
	}
	m = U
	m.LeftMultBy(T)
	if g := tf(m); !matNear(g, s.Mul, eps) {
		bad("LeftMultBy", g, s.Mul)
	}
	x, y := T.Apply(px, py)
	if g := []float64{float64(x), float64(y)}; !matNear(g, s.App, eps) {
		bad("Apply", g, s.App)
	}
	if g := []float64{float64(T.Determinant())}; !matNear(g, []int{s.Det}, eps) {
		bad("Determinant", g, []int{s.Det})
	}
	m = T
	err := m.Invert()
	if s.Det == 0 {
		if err == nil {
			bad("Invert-singular-accepted", tf(m), s.Adj)
		}
	} else if err != nil {
		bad("Invert-regular-rejected", nil, s.Adj)
	} else {
		g := tf(m)
		for i := range g {
			g[i] *= float64(s.Det)
		}
		if !matNear(g, s.Adj, 1e-4) {
			bad("Invert", g, s.Adj)
		}
	}
	// the inverse law does not depend on the magnitude of the entries: the same matrix with its linear part scaled by a power
	// of two (exact in floating point) is invertible iff Det # 0, and the result is a two-sided inverse
	for _, k := range []float32{1.0 / 4096, 1024} {
		Tk := matrix.New(T.A*k, T.B*k, T.C*k, T.D*k, T.E, T.F)
		inv := Tk
		err := inv.Invert()
		if s.Det == 0 {
			if err == nil {
				bad("Invert-singular-accepted:scaled", tf(inv), s.Adj)
			}
			continue
		}
		if err != nil {
			bad("Invert-regular-rejected:scaled", []float64{float64(k)}, s.Adj)
			continue
		}
		id := []int{1, 0, 0, 1, 0, 0}
		if l, r := tf(matrix.Mul(Tk, inv)), tf(matrix.Mul(inv, Tk)); !matNear(l, id, 1e-3) || !matNear(r, id, 1e-3) {
			bad("Invert:scaled", append(l, r...), id)
		}
	}
	m = T
	m.Translate(px, py)
	if g := tf(m); !matNear(g, s.Tr, eps) {
		bad("Translate", g, s.Tr)
	}
	m = T
	m.Scale(px, py)
	if g := tf(m); !matNear(g, s.Sc, eps) {
		bad("Scale", g, s.Sc)
	}
	m = T
	m.Rotate(math.Pi / 2)
	if g := tf(m); !matNear(g, s.Rot, 1e-5) {
		bad("Rotate", g, s.Rot)
	}
	if g := tf(matrix.Mul(T, matrix.Rotation(math.Pi/2))); !matNear(g, s.Rot, 1e-5) {
		bad("Rotation", g, s.Rot)
	}
	if g := tf(matrix.Mul(T, matrix.Translation(px, py))); !matNear(g, s.Tr, eps) {
		bad("Translation", g, s.Tr)
	}
	if g := tf(matrix.Mul(T, matrix.Scaling(px, py))); !matNear(g, s.Sc, eps) {
		bad("Scaling", g, s.Sc)
	}
	// Skew(thetax, thetay): in-place form must equal right multiplication by the constructor (group-law clause);
	// the slot convention itself is decided by the css / svg scenarios.
	m = T
	m.Skew(math.Pi/4, -math.Pi/4)
	if g, w := tf(m), tf(matrix.Mul(T, matrix.Skew(math.Pi/4, -math.Pi/4))); !matNearF(g, w, 1e-5) {
		out.Disagree("algebra:Skew-inplace", fmt.Sprintf("T.Skew != T*Skew for T=%v", s.T), map[string]interface{}{"scenario": json.RawMessage(line), "got": g, "want": w})
	}
}

func matNearF(a, b []float64, eps float64) bool {
	for i := range a {
		if math.Abs(a[i]-b[i]) > eps*(1+math.Abs(b[i])) {
			return false
		}
	}
	return true
}
