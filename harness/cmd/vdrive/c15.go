package main

// C15 — rendering is deterministic and renders do not interfere, against spec/Render.tla.
//
// c15ref  renders one document of the pool in THIS (fresh) process and prints the digest of its backend call sequence.
// c15sched replays a schedule of Render.tla: the renders run on goroutines, each with its own font configuration; a render
// executes its next phase (parse = tree.NewHTML, layout = document.Render, draw = Document.Write on a recording backend)
// when the schedule names it; consecutive steps of different renders are released as soon as the previous one has
// STARTED, so that phases genuinely overlap (the harness is built with the race detector: a report kills the worker and
// becomes a verdict). Every render's digest must be the fresh-process digest of its document.

import (
	"crypto/sha256"
	"encoding/hex"
	"encoding/json"
	"flag"
	"fmt"
	"os"
	"strings"
	"sync"

	"github.com/benoitkugler/webrender/html/document"
	"github.com/benoitkugler/webrender/html/tree"
	"github.com/benoitkugler/webrender/text"
	"github.com/benoitkugler/webrender/utils"

	"verif/harness/internal/drv"
	"verif/harness/internal/fonts"
	"verif/harness/internal/rec"
)

func init() {
	commands["c15ref"] = c15RefMain
	commands["c15sched"] = c15SchedMain
	commands["c15det"] = c15DetMain
	commands["c15docs"] = c15DocsMain
}

// c15det: every document of the Flow.tla generator is rendered several times in this process (a font configuration of
// its own each time); all the renders must produce the same backend calls.
func c15DetMain(args []string) int {
	times := 4
	return drv.Main("c15det", args, func(fs *flag.FlagSet) { fs.IntVar(&times, "times", 4, "renders per document") }, func(line []byte, out *drv.Out) {
		var s flScn
		if err := json.Unmarshal(line, &s); err != nil {
			out.Fatal("bad scenario: " + err.Error())
			return
		}
		doc := c02HTML(&s)
		var first string
		out.Count("documents")
		for k := 0; k < times; k++ {
			_, r, err := drv.Render(doc, &drv.Opts{FreshFC: k > 0})
			if err != nil {
				out.Fatal(err.Error())
				return
			}
			out.Count("renders")
			dg, n := c15Digest(r)
			if k == 0 {
				first = dg
			} else if dg != first {
				kinds := map[string]bool{}
				var ks []string
				for _, it := range s.Doc {
					if !kinds[it.Kind] && (it.Kind == "float" || it.Kind == "abs" || it.Kind == "fixed" || it.Kind == "running") {
						kinds[it.Kind] = true
						ks = append(ks, it.Kind)
					}
				}
				out.Disagree("C15:nondeterministic-render:"+strings.Join(ks, "+"), fmt.Sprintf("render %d of the same document produced %d backend calls with digest %s, the first render %s: %s", k+1, n, dg, first, doc[strings.Index(doc, "<body>"):]),
					map[string]interface{}{"doc": doc, "scenario": json.RawMessage(line)})
				return
			}
		}
	})
}

// c15docs: every document of the Docs.tla generator (the C01 document space: 130 feature bundles) is rendered several
// times in this process (a font configuration of its own from the second render on); all the renders must produce the
// same backend calls. A document whose render panics is left to C01.
func c15DocsMain(args []string) int {
	times := 3
	return drv.Main("c15docs", args, func(fs *flag.FlagSet) { fs.IntVar(&times, "times", 3, "renders per document") }, func(line []byte, out *drv.Out) {
		var s c01Scn
		if err := json.Unmarshal(line, &s); err != nil {
			out.Fatal("bad scenario: " + err.Error())
			return
		}
		doc, err := c01HTML(&s, nil)
		if err != nil {
			out.Fatal(err.Error())
			return
		}
		out.Count("documents")
		var first string
		for k := 0; k < times; k++ {
			var dg string
			var n int
			_, _, panicked := drv.Guard(func() {
				_, r, err := drv.Render(doc, &drv.Opts{FreshFC: k > 0, Files: map[string]string{}})
				if err != nil {
					dg = "refused"
					return
				}
				dg, n = c15Digest(r)
			})
			if panicked {
				out.Count("skipped-crashing-documents")
				return
			}
			out.Count("renders")
			if k == 0 {
				first = dg
			} else if dg != first {
				out.Disagree("C15:nondeterministic-render:docs:"+c01Culprit(doc), fmt.Sprintf("render %d of the same document {%s page=%s extra=%s} produced %d backend calls with digest %s, the first render %s",
					k+1, c01Bundlenames(&s), s.Page, s.Extra, n, dg, first), map[string]interface{}{"doc": doc, "scenario": json.RawMessage(line)})
				return
			}
		}
	})
}

const c15Head = `<html><head><title>T</title><style>@page{size:120px 64px;margin:10px;@top-center{content:string(hd) " " counter(page) "/" counter(pages);font-size:6px}}` +
	`html,body{margin:0;padding:0}body{font-family:weasyprint;font-size:8px;line-height:10px}p,h1,h2,div,ul,li,table{margin:0;padding:0;font-size:8px}h1{string-set:hd content()}</style></head><body>`

// the pool: documents whose rendering goes through the code that iterates over maps or uses caches
var c15Docs = []string{
	// 1 ids and internal links on several pages (anchors come out of a map)
	c15Head + `<h1 id="a1">one</h1><p id="b1"><a href="#c1">to c</a> <a href="#a1">to a</a></p><p id="c1" style="break-before:page">c <a href="#zz">nowhere</a></p><p id="d1">d</p><p id="e1">e</p><p id="f1">f</p><h1 id="g1" style="break-before:page">two</h1>`,
	// 2 floats broken across pages (context.brokenOutOfFlow)
	c15Head + `<p>aa</p><p style="float:left;width:40%">f1 f2 f3 f4 f5 f6 f7</p><p style="float:right;width:40%">g1 g2 g3 g4 g5 g6</p><p>t1 t2 t3 t4 t5 t6 t7 t8 t9 t10 t11 t12</p>`,
	// 3 counters, lists and generated content
	c15Head + `<style>li{display:list-item;list-style:decimal inside}div::before{counter-increment:k;content:counter(k) "."}</style><ul><li>x</li><li>y</li><li>z</li></ul><div>a</div><div>b</div><div>c</div><div>d</div><p lang="en" style="hyphens:auto;width:6ch">characteristically unbelievable misunderstanding</p>`,
	// 4 table with header and footer groups over several pages
	c15Head + `<table style="border-spacing:1px;width:100%"><thead><tr><th>h1</th><th>h2</th></tr></thead><tfoot><tr><td>f1</td><td>f2</td></tr></tfoot><tbody><tr><td>a</td><td>b</td></tr><tr><td>c</td><td>d</td></tr><tr><td>e</td><td>f</td></tr><tr><td>g</td><td>h</td></tr><tr><td>i</td><td>j</td></tr></tbody></table>`,
	// 5 multi-column and flex
	c15Head + `<div style="columns:2;column-gap:2px"><p>c1 c2 c3 c4 c5 c6 c7 c8 c9</p></div><div style="display:flex;flex-wrap:wrap"><div>x1</div><div>x2</div><div style="flex:1">x3</div></div>`,
	// 6 named strings over pages and bookmarks
	c15Head + `<h1>alpha</h1><p>p1</p><p>p2</p><p>p3</p><h1 style="break-before:page">beta</h1><p>q1</p><p style="break-before:page">r1</p><h2 style="bookmark-level:2">sub</h2><p lang="en" style="hyphens:auto;width:5ch">responsibility documentation</p>`,
	// 7 hyphenation, ex / ch units, vertical-align
	c15Head + `<p lang="en" style="hyphens:auto;width:7ch">extraordinary international hyphenation</p><div style="width:10ex;height:2ex;background:#abc"></div><p>a<span style="vertical-align:middle;font-size:5px">m</span>b</p>`,
	// 8 absolute, fixed and running elements, stacking
	c15Head + `<div style="position:running(r)">run</div><style>@page{@bottom-center{content:element(r)}}</style><div style="position:fixed;bottom:0;right:0">fx</div><div style="position:absolute;top:3px;left:30px;z-index:2;background:#eee">ab</div><div style="position:relative;z-index:1;opacity:.5">re</div><p>n1 n2 n3 n4 n5 n6 n7 n8 n9 n10 n11 n12 n13 n14</p>`,
}

// 9 attachments (files embedded once each, in document order) and file annotations
func init() {
	var b strings.Builder
	b.WriteString(c15Head)
	b.WriteString(`<link rel="attachment" href="data:text/plain,doc-level" title="dl">`)
	for k := 0; k < 7; k++ {
		fmt.Fprintf(&b, `<p><a rel="attachment" href="data:text/plain,file%d" download="f%d.txt">att %d</a> <a rel="attachment" href="data:text/plain,file%d">again</a></p>`, k, k, k, (k+3)%7)
	}
	c15Docs = append(c15Docs, b.String())
}

// 9, 10: the same font family name bound to different fonts by each document's own @font-face, with ex / ch units
func init() {
	for _, f := range []string{"weasyprint.otf", "AHEM____.TTF"} {
		c15Docs = append(c15Docs, c15Head+`<style>@font-face{font-family:shared;src:url(http://verif.test/`+f+`)}div{font-family:shared;font-size:10px;width:10ex;height:3ch;background:#cde}p{font-family:shared}</style><div>x</div><p>abc <span style="vertical-align:middle">m</span></p>`)
	}
}

// 12, 13: elements of different font sizes matched by one rule of the USER style sheet, which is parsed once per process and
// shared by every render (font-relative lengths must be computed per element, never inside the shared declarations);
// 14: Hungarian words with non-standard hyphenation points (the patterns of the process-wide dictionary carry data)
func init() {
	c15Docs = append(c15Docs,
		c15Head+`<p class="u" style="font-size:8px">aa bb</p><p class="u" style="font-size:16px">cc dd</p>`,
		c15Head+`<p class="u" style="font-size:20px">ee</p><div class="u" style="font-size:6px">ff gg</div>`,
		c15Head+`<p lang="hu" style="hyphens:auto;width:5ch">kulissza hossz&uacute; kulissza asszonnyal</p><p lang="hu" style="hyphens:auto;width:6ch">kulissza</p>`)
}

// 15: raster images (the identifiers handed to the backend must not depend on what the process rendered before);
// 16: inline SVG with chains of gradient references three links long (attributes inherited through the chain)
func init() {
	c15Docs = append(c15Docs,
		c15Head+`<p><img src="data:image/png;base64,iVBORw0KGgoAAAANSUhEUgAAAAIAAAACCAIAAAD91JpzAAAAEElEQVR4nGM4IScHRAwQCgAfJgQRoo8irwAAAABJRU5ErkJggg==" style="width:10px;height:10px"> `+
			`<img src="data:image/png;base64,iVBORw0KGgoAAAANSUhEUgAAAAMAAAABCAIAAACUgoPjAAAADUlEQVR4nGOQkzsBQQANSAMNU/ueKAAAAABJRU5ErkJggg==" style="width:12px;height:4px"> `+
			`<img src="data:image/png;base64,iVBORw0KGgoAAAANSUhEUgAAAAIAAAACCAIAAAD91JpzAAAAEElEQVR4nGM4IScHRAwQCgAfJgQRoo8irwAAAABJRU5ErkJggg==" style="width:5px;height:5px"></p>`,
		c15Head+`<svg width="60" height="30" viewBox="0 0 100 100" xmlns="http://www.w3.org/2000/svg" xmlns:xlink="http://www.w3.org/1999/xlink"><defs>`+
			`<linearGradient id="c" x1="0" y1="0" x2="0" y2="50" gradientUnits="userSpaceOnUse"/><linearGradient id="b" spreadMethod="reflect" xlink:href="#c"/>`+
			`<linearGradient id="a" xlink:href="#b"><stop offset="0" stop-color="red"/><stop offset="1" stop-color="blue"/></linearGradient>`+
			`<linearGradient id="e" x1="0" y1="0" x2="0" y2="20" gradientUnits="userSpaceOnUse"/><linearGradient id="d" spreadMethod="repeat" xlink:href="#e"/>`+
			`<linearGradient id="f" xlink:href="#d"><stop offset="0" stop-color="lime"/><stop offset="1" stop-color="black"/></linearGradient>`+
			`<pattern id="p3" width="10" height="10" patternUnits="userSpaceOnUse"><rect width="5" height="5" fill="red"/></pattern><pattern id="p2" x="3" xlink:href="#p3"/><pattern id="p1" xlink:href="#p2"/></defs>`+
			`<rect x="0" y="0" width="30" height="100" fill="url(#a)"/><rect x="30" y="0" width="30" height="100" fill="url(#f)"/><rect x="60" y="0" width="40" height="100" fill="url(#p1)"/></svg>`)
}

var (
	c15Sheet     []tree.CSS
	c15SheetOnce sync.Once
)

// the user style sheet: ONE parsed object per process, handed to every render (the API's intended use)
func c15UserSheet() []tree.CSS {
	c15SheetOnce.Do(func() {
		c, err := tree.NewCSSDefault(utils.InputString(`.u{transform:translate(2em,1em);text-indent:1em;letter-spacing:.125em;padding-left:1ex;margin-left:1ch;border-spacing:1em .5em;line-height:1.5em;width:12em}`))
		if err != nil {
			panic("verif: user style sheet: " + err.Error())
		}
		c15Sheet = []tree.CSS{c}
	})
	return c15Sheet
}

var (
	c15Files     map[string]string
	c15FilesOnce sync.Once
)

func c15Fetcher() utils.UrlFetcher {
	c15FilesOnce.Do(func() {
		c15Files = map[string]string{}
		for _, f := range []string{"weasyprint.otf", "AHEM____.TTF"} {
			b, err := os.ReadFile(fonts.Dir + "/" + f)
			if err != nil {
				panic("verif: cannot read font " + f + ": " + err.Error())
			}
			c15Files["http://verif.test/"+f] = string(b)
		}
	})
	return (&drv.Opts{Files: c15Files, MimeType: map[string]string{"http://verif.test/weasyprint.otf": "font/otf", "http://verif.test/AHEM____.TTF": "font/ttf"}}).Fetcher()
}

type c15Render struct {
	html *tree.HTML
	doc  document.Document
	r    *rec.Doc
	fc   text.FontConfiguration
}

func c15NewFC() text.FontConfiguration {
	fc, err := fonts.Pango()
	if err != nil {
		panic("verif: fonts: " + err.Error())
	}
	return fc
}

func (x *c15Render) phase(k int, d int) {
	switch k {
	case 0:
		h, err := tree.NewHTML(utils.InputString(c15Docs[d-1]), "http://verif.test/doc.html", c15Fetcher(), "print")
		if err != nil {
			panic(err)
		}
		x.html = h
	case 1:
		x.doc = document.Render(x.html, c15UserSheet(), false, x.fc)
	case 2:
		x.r = rec.New()
		x.doc.Write(x.r, 1, nil)
	}
}

func c15Digest(r *rec.Doc) (string, int) {
	b, err := json.Marshal(r.Evs)
	if err != nil {
		return "unmarshalable:" + err.Error(), len(r.Evs)
	}
	s := sha256.Sum256(b)
	return hex.EncodeToString(s[:8]), len(r.Evs)
}

func c15RefMain(args []string) int {
	fs := flag.NewFlagSet("c15ref", flag.ExitOnError)
	d := fs.Int("doc", 1, "document of the pool (1-based)")
	dump := fs.Bool("dump", false, "print the calls")
	fs.Parse(args)
	if *d < 1 || *d > len(c15Docs) {
		fmt.Println(`{"error":"no such document"}`)
		return 2
	}
	x := &c15Render{fc: c15NewFC()}
	for k := 0; k < 3; k++ {
		x.phase(k, *d)
	}
	dg, n := c15Digest(x.r)
	if *dump {
		for _, e := range x.r.Evs {
			b, _ := json.Marshal(e)
			fmt.Println(string(b))
		}
	}
	fmt.Printf(`{"doc":%d,"digest":%q,"calls":%d,"ndocs":%d}`+"\n", *d, dg, n, len(c15Docs))
	return 0
}

var c15Refs string

func c15SchedMain(args []string) int {
	var refs map[string]string
	return drv.Main("c15sched", args, func(fs *flag.FlagSet) {
		fs.StringVar(&c15Refs, "refs", "", "JSON file: document -> fresh-process digest")
	}, func(line []byte, out *drv.Out) {
		if refs == nil {
			b, err := os.ReadFile(c15Refs)
			if err != nil {
				out.Fatal("cannot read -refs: " + err.Error())
				return
			}
			if err := json.Unmarshal(b, &refs); err != nil {
				out.Fatal("bad -refs: " + err.Error())
				return
			}
		}
		var s struct {
			Docs  []int `json:"docs"`
			Sched []int `json:"sched"`
		}
		if err := json.Unmarshal(line, &s); err != nil {
			out.Fatal("bad scenario: " + err.Error())
			return
		}
		n := len(s.Docs)
		rs := make([]*c15Render, n)
		gates := make([]chan int, n)
		var wg sync.WaitGroup
		started := make(chan struct{}, len(s.Sched))
		panics := make([]interface{}, n)
		for r := 0; r < n; r++ {
			rs[r] = &c15Render{fc: c15NewFC()}
			gates[r] = make(chan int, 3)
			wg.Add(1)
			go func(r int) {
				defer wg.Done()
				defer func() {
					if p := recover(); p != nil {
						panics[r] = p
						for range gates[r] { // drain
							started <- struct{}{}
						}
					}
				}()
				for k := range gates[r] {
					started <- struct{}{}
					rs[r].phase(k, s.Docs[r])
				}
			}(r)
		}
		next := make([]int, n)
		for _, r1 := range s.Sched {
			r := r1 - 1
			gates[r] <- next[r]
			next[r]++
			<-started // the step has started (it may still be running when the next one is released)
		}
		for r := 0; r < n; r++ {
			close(gates[r])
		}
		wg.Wait()
		out.Count("schedules")
		out.Add("renders", n)
		for r := 0; r < n; r++ {
			if panics[r] != nil {
				out.Disagree("C15:panic-in-concurrent-render", fmt.Sprintf("render %d (document %d) panicked: %v", r+1, s.Docs[r], panics[r]), json.RawMessage(line))
				continue
			}
			if rs[r].r == nil {
				out.Disagree("C15:render-incomplete", fmt.Sprintf("render %d did not reach the draw phase", r+1), json.RawMessage(line))
				continue
			}
			dg, _ := c15Digest(rs[r].r)
			want := refs[fmt.Sprint(s.Docs[r])]
			if dg != want {
				seq := strings.Trim(strings.Join(strings.Fields(fmt.Sprint(s.Sched)), ","), "[]")
				out.Disagree(fmt.Sprintf("C15:output-differs-from-fresh-process-render:doc%d", s.Docs[r]),
					fmt.Sprintf("render %d of document %d under schedule %s (documents %v) produced backend calls with digest %s instead of %s", r+1, s.Docs[r], seq, s.Docs, dg, want),
					map[string]interface{}{"scenario": json.RawMessage(line), "html": c15Docs[s.Docs[r]-1]})
			}
		}
	})
}
