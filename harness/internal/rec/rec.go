// Package rec is a recording implementation of backend.Document / Page / Canvas /
// GraphicState: every call becomes one Ev, in call order.
package rec

import (
	"time"

	"github.com/benoitkugler/webrender/backend"
	"github.com/benoitkugler/webrender/css/parser"
	"github.com/benoitkugler/webrender/matrix"
)

type fl = backend.Fl

// Ev is one recorded backend call.
type Ev struct {
	Op    string    // method name
	C     int       // canvas id (0 = document level)
	D     int       // OnNewStack nesting depth of that canvas at the time of the call
	Page  int       // index of the page being painted (-1 before the first AddPage)
	N     []float64 // numeric arguments, in declaration order
	S     []string  // string arguments
	B     bool      // boolean argument (evenOdd, stroke)
	I     []int     // integer arguments (paint op, canvas ids, ...)
	Text  [][]rune  // DrawText: runes of each TextDrawing
	Fonts []string  // DrawText: font keys used by the runs ; AddFont: the key
	Anch  [][]backend.Anchor
	Bm    []backend.BookmarkNode
}

// Doc records.
type Doc struct {
	Evs     []Ev
	nCanvas int
	page    int
	fontIDs map[backend.Font]int
}

func New() *Doc { return &Doc{page: -1, fontIDs: map[backend.Font]int{}} }

func (d *Doc) add(e Ev) { e.Page = d.page; d.Evs = append(d.Evs, e) }

// FontKey gives a stable small name to a font.
func (d *Doc) FontKey(f backend.Font) string {
	desc := f.Description()
	o := f.Origin()
	return o.File + "#" + itoa(int(o.Index)) + "#" + itoa(int(o.Instance)) + "/" + desc.Family + "/" + itoa(desc.Weight) + "/" + itoa(desc.Size)
}

func itoa(i int) string {
	if i == 0 {
		return "0"
	}
	neg := i < 0
	if neg {
		i = -i
	}
	var b [20]byte
	p := len(b)
	for i > 0 {
		p--
		b[p] = byte('0' + i%10)
		i /= 10
	}
	if neg {
		p--
		b[p] = '-'
	}
	return string(b[p:])
}

func f64(xs ...fl) []float64 {
	out := make([]float64, len(xs))
	for i, x := range xs {
		out[i] = float64(x)
	}
	return out
}

// ---------------------------------------------------------------- Document

func (d *Doc) AddPage(left, top, right, bottom fl) backend.Page {
	d.page++
	d.nCanvas++
	c := &Canvas{doc: d, id: d.nCanvas}
	d.add(Ev{Op: "AddPage", C: c.id, N: f64(left, top, right, bottom)})
	return c
}

func (d *Doc) CreateAnchors(anchors [][]backend.Anchor) {
	cp := make([][]backend.Anchor, len(anchors))
	for i, a := range anchors {
		cp[i] = append([]backend.Anchor(nil), a...)
	}
	d.add(Ev{Op: "CreateAnchors", Anch: cp})
}

func (d *Doc) SetAttachments(as []backend.Attachment) {
	d.add(Ev{Op: "SetAttachments", I: []int{len(as)}})
}

func (d *Doc) EmbedFile(id string, a backend.Attachment) {
	d.add(Ev{Op: "EmbedFile", S: []string{id, a.Title, a.Description}})
}
func (d *Doc) SetTitle(s string)       { d.add(Ev{Op: "SetTitle", S: []string{s}}) }
func (d *Doc) SetDescription(s string) { d.add(Ev{Op: "SetDescription", S: []string{s}}) }
func (d *Doc) SetCreator(s string)     { d.add(Ev{Op: "SetCreator", S: []string{s}}) }
func (d *Doc) SetAuthors(s []string)   { d.add(Ev{Op: "SetAuthors", S: append([]string(nil), s...)}) }
func (d *Doc) SetKeywords(s []string)  { d.add(Ev{Op: "SetKeywords", S: append([]string(nil), s...)}) }
func (d *Doc) SetProducer(s string)    { d.add(Ev{Op: "SetProducer", S: []string{s}}) }
func (d *Doc) SetDateCreation(t time.Time) {
	d.add(Ev{Op: "SetDateCreation", S: []string{t.UTC().Format(time.RFC3339)}})
}

func (d *Doc) SetDateModification(t time.Time) {
	d.add(Ev{Op: "SetDateModification", S: []string{t.UTC().Format(time.RFC3339)}})
}
func (d *Doc) SetBookmarks(root []backend.BookmarkNode) { d.add(Ev{Op: "SetBookmarks", Bm: root}) }

// ------------------------------------------------------------------ Canvas

// Canvas is a page or a group.
type Canvas struct {
	doc            *Doc
	id             int
	depth          int
	l, t, r, b     fl
	ctm            []matrix.Transform
	cur            matrix.Transform
	curInitialized bool
}

func (c *Canvas) ID() int { return c.id }

func (c *Canvas) ev(e Ev) { e.C = c.id; e.D = c.depth; c.doc.add(e) }

func (c *Canvas) AddInternalLink(xMin, yMin, xMax, yMax fl, anchorName string) {
	c.ev(Ev{Op: "AddInternalLink", N: f64(xMin, yMin, xMax, yMax), S: []string{anchorName}})
}

func (c *Canvas) AddExternalLink(xMin, yMin, xMax, yMax fl, url string) {
	c.ev(Ev{Op: "AddExternalLink", N: f64(xMin, yMin, xMax, yMax), S: []string{url}})
}

func (c *Canvas) AddFileAnnotation(xMin, yMin, xMax, yMax fl, fileID string) {
	c.ev(Ev{Op: "AddFileAnnotation", N: f64(xMin, yMin, xMax, yMax), S: []string{fileID}})
}

func (c *Canvas) SetMediaBox(left, top, right, bottom fl) {
	c.ev(Ev{Op: "SetMediaBox", N: f64(left, top, right, bottom)})
}

func (c *Canvas) SetTrimBox(left, top, right, bottom fl) {
	c.ev(Ev{Op: "SetTrimBox", N: f64(left, top, right, bottom)})
}

func (c *Canvas) SetBleedBox(left, top, right, bottom fl) {
	c.ev(Ev{Op: "SetBleedBox", N: f64(left, top, right, bottom)})
}

func (c *Canvas) GetBoundingBox() (left, top, right, bottom fl) { return c.l, c.t, c.r, c.b }
func (c *Canvas) SetBoundingBox(left, top, right, bottom fl) {
	c.l, c.t, c.r, c.b = left, top, right, bottom
	c.ev(Ev{Op: "SetBoundingBox", N: f64(left, top, right, bottom)})
}

func (c *Canvas) OnNewStack(f func()) {
	c.ev(Ev{Op: "Save"})
	c.depth++
	saved := c.cur
	savedInit := c.curInitialized
	f()
	c.cur, c.curInitialized = saved, savedInit
	c.depth--
	c.ev(Ev{Op: "Restore"})
}

func (c *Canvas) State() backend.GraphicState { return c }

func (c *Canvas) NewGroup(x, y, width, height fl) backend.Canvas {
	c.doc.nCanvas++
	g := &Canvas{doc: c.doc, id: c.doc.nCanvas, l: x, t: y, r: x + width, b: y + height}
	c.ev(Ev{Op: "NewGroup", N: f64(x, y, width, height), I: []int{g.id}})
	return g
}

func canvasID(x backend.Canvas) int {
	if g, ok := x.(*Canvas); ok && g != nil {
		return g.id
	}
	return -1
}

func (c *Canvas) DrawWithOpacity(opacity fl, group backend.Canvas) {
	c.ev(Ev{Op: "DrawWithOpacity", N: f64(opacity), I: []int{canvasID(group)}})
}

func (c *Canvas) Paint(op backend.PaintOp) { c.ev(Ev{Op: "Paint", I: []int{int(op)}}) }
func (c *Canvas) Rectangle(x, y, w, h fl)  { c.ev(Ev{Op: "Rectangle", N: f64(x, y, w, h)}) }
func (c *Canvas) MoveTo(x, y fl)           { c.ev(Ev{Op: "MoveTo", N: f64(x, y)}) }
func (c *Canvas) LineTo(x, y fl)           { c.ev(Ev{Op: "LineTo", N: f64(x, y)}) }
func (c *Canvas) CubicTo(x1, y1, x2, y2, x3, y3 fl) {
	c.ev(Ev{Op: "CubicTo", N: f64(x1, y1, x2, y2, x3, y3)})
}
func (c *Canvas) ClosePath() { c.ev(Ev{Op: "ClosePath"}) }

func (c *Canvas) AddFont(font backend.Font, content []byte) *backend.FontChars {
	c.ev(Ev{Op: "AddFont", Fonts: []string{c.doc.FontKey(font)}})
	return &backend.FontChars{Cmap: make(map[backend.GID][]rune), Extents: make(map[backend.GID]backend.GlyphExtents)}
}

func (c *Canvas) DrawText(texts []backend.TextDrawing) {
	e := Ev{Op: "DrawText"}
	for _, t := range texts {
		e.Text = append(e.Text, append([]rune(nil), t.Text...))
		e.N = append(e.N, float64(t.FontSize), float64(t.ScaleX), float64(t.X), float64(t.Y), float64(t.Angle))
		for _, r := range t.Runs {
			e.Fonts = append(e.Fonts, c.doc.FontKey(r.Font))
			for _, g := range r.Glyphs {
				e.N = append(e.N, float64(g.Offset), float64(g.Rise), float64(g.XAdvance))
				e.I = append(e.I, int(g.Glyph), g.Kerning)
			}
		}
	}
	c.ev(e)
}

func (c *Canvas) DrawRasterImage(image backend.RasterImage, width, height fl) {
	c.ev(Ev{Op: "DrawRasterImage", N: f64(width, height), S: []string{image.MimeType, image.Rendering}, I: []int{image.ID}})
}

func (c *Canvas) DrawGradient(g backend.GradientLayout, width, height fl) {
	n := f64(width, height, g.ScaleY)
	n = append(n, f64(g.Coords[:]...)...)
	n = append(n, f64(g.Positions...)...)
	for _, col := range g.Colors {
		n = append(n, float64(col.R), float64(col.G), float64(col.B), float64(col.A))
	}
	c.ev(Ev{Op: "DrawGradient", N: n, S: []string{g.Kind}, B: g.Reapeating})
}

// ----------------------------------------------------------- GraphicState

func (c *Canvas) SetAlphaMask(mask backend.Canvas) {
	c.ev(Ev{Op: "SetAlphaMask", I: []int{canvasID(mask)}})
}
func (c *Canvas) Clip(evenOdd bool)              { c.ev(Ev{Op: "Clip", B: evenOdd}) }
func (c *Canvas) SetAlpha(alpha fl, stroke bool) { c.ev(Ev{Op: "SetAlpha", N: f64(alpha), B: stroke}) }
func (c *Canvas) SetColorRgba(color parser.RGBA, stroke bool) {
	c.ev(Ev{Op: "SetColorRgba", N: f64(color.R, color.G, color.B, color.A), B: stroke})
}

func (c *Canvas) SetColorPattern(pattern backend.Canvas, contentWidth, contentHeight fl, mat matrix.Transform, stroke bool) {
	c.ev(Ev{Op: "SetColorPattern", N: f64(contentWidth, contentHeight, mat.A, mat.B, mat.C, mat.D, mat.E, mat.F), I: []int{canvasID(pattern)}, B: stroke})
}
func (c *Canvas) SetBlendingMode(mode string) { c.ev(Ev{Op: "SetBlendingMode", S: []string{mode}}) }
func (c *Canvas) SetLineWidth(width fl)       { c.ev(Ev{Op: "SetLineWidth", N: f64(width)}) }
func (c *Canvas) SetDash(dashes []fl, offset fl) {
	c.ev(Ev{Op: "SetDash", N: append(f64(offset), f64(dashes...)...)})
}

func (c *Canvas) SetStrokeOptions(o backend.StrokeOptions) {
	c.ev(Ev{Op: "SetStrokeOptions", N: f64(o.MiterLimit), I: []int{int(o.LineCap), int(o.LineJoin)}})
}

func (c *Canvas) GetTransform() matrix.Transform {
	if !c.curInitialized {
		return matrix.Identity()
	}
	return c.cur
}

func (c *Canvas) Transform(mt matrix.Transform) {
	if !c.curInitialized {
		c.cur = matrix.Identity()
		c.curInitialized = true
	}
	c.cur.RightMultBy(mt)
	c.ev(Ev{Op: "Transform", N: f64(mt.A, mt.B, mt.C, mt.D, mt.E, mt.F)})
}
func (c *Canvas) SetTextPaint(op backend.PaintOp) { c.ev(Ev{Op: "SetTextPaint", I: []int{int(op)}}) }
