// Package drv holds the generic scenario driver of the harness: a process pool
// that feeds ndjson scenarios to a handler, turns panics, fatal errors (stack
// overflow) and hangs into verdict lines, and aggregates counters.
package drv

import (
	"bufio"
	"bytes"
	"encoding/json"
	"flag"
	"fmt"
	"io"
	"os"
	"os/exec"
	"regexp"
	"runtime"
	"runtime/debug"
	"sort"
	"strconv"
	"strings"
	"sync"
	"time"
)

// Out collects the verdicts of one worker.
type Out struct {
	w      *bufio.Writer
	mu     sync.Mutex
	counts map[string]int
	keys   map[string]int // disagreements per key (only the first few are written out in full)
	dkeys  map[string]int // disagreements per key since the last summary line
	Cur    int            // index of the current scenario
	// CrashIsVerdict: a panic / fatal / timeout inside the handler is a verdict
	// about the real code (C01, C07 and every property: "never crashes"). When
	// false it is reported with the given key prefix all the same.
	samples     []json.RawMessage
	samplesDone bool
}

// MaxPerKey bounds how many full disagreement records are written per key.
var MaxPerKey = 20

func (o *Out) Count(name string) { o.mu.Lock(); o.counts[name]++; o.mu.Unlock() }
func (o *Out) Add(name string, n int) {
	o.mu.Lock()
	o.counts[name] += n
	o.mu.Unlock()
}

// Disagree reports a disagreement between the real code and the specification.
func (o *Out) Disagree(key, what string, detail interface{}) {
	o.mu.Lock()
	defer o.mu.Unlock()
	o.keys[key]++
	if o.dkeys == nil {
		o.dkeys = map[string]int{}
	}
	o.dkeys[key]++
	o.counts["disagreements"]++
	if o.keys[key] > MaxPerKey {
		return
	}
	b, err := json.Marshal(map[string]interface{}{"kind": "disagree", "key": key, "what": what, "detail": detail})
	if err != nil {
		b, _ = json.Marshal(map[string]interface{}{"kind": "disagree", "key": key, "what": what, "detail": fmt.Sprint(detail)})
	}
	o.w.Write(b)
	o.w.WriteByte('\n')
	o.w.Flush()
}

// Emit writes a record line ({"kind":"rec","rec":v}) that the orchestrator collects (trace events for TLC).
func (o *Out) Emit(v interface{}) {
	o.mu.Lock()
	defer o.mu.Unlock()
	b, err := json.Marshal(map[string]interface{}{"kind": "rec", "rec": v})
	if err != nil {
		return
	}
	o.w.Write(b)
	o.w.WriteByte('\n')
}

// Sample records an example scenario for the evidence file (first few only).
func (o *Out) Sample(v interface{}) {
	o.mu.Lock()
	defer o.mu.Unlock()
	if len(o.samples) >= 3 {
		return
	}
	b, err := json.Marshal(v)
	if err == nil {
		o.samples = append(o.samples, b)
	}
}

func (o *Out) Fatal(what string) {
	b, _ := json.Marshal(map[string]interface{}{"kind": "fatal", "what": what})
	o.w.Write(b)
	o.w.WriteByte('\n')
	o.w.Flush()
}

// summary writes the counters accumulated since the previous summary line (the lines are additive) and flushes, so
// that a worker that dies later loses nothing of what it has done so far.
func (o *Out) summary() {
	o.mu.Lock()
	defer o.mu.Unlock()
	if o.dkeys == nil {
		o.dkeys = map[string]int{}
	}
	m := map[string]interface{}{"kind": "summary", "counts": o.counts, "per_key": o.dkeys}
	if len(o.samples) > 0 && !o.samplesDone {
		m["samples"] = o.samples
		o.samplesDone = true
	}
	b, _ := json.Marshal(m)
	o.w.Write(b)
	o.w.WriteByte('\n')
	o.w.Flush()
	o.counts = map[string]int{}
	o.dkeys = map[string]int{}
}

// Handler processes one scenario line.
type Handler func(line []byte, out *Out)

var frameRe = regexp.MustCompile(`github\.com/benoitkugler/webrender/([^\s(]+(?:\([^)]*\))?[^\s(]*)\(`)

// PanicSite extracts "pkg.Func" of the innermost webrender frame of a stack dump.
func PanicSite(stack []byte) string {
	lines := strings.Split(string(stack), "\n")
	for _, l := range lines {
		if strings.HasPrefix(l, "\t") {
			continue
		}
		if i := strings.Index(l, "github.com/benoitkugler/webrender/"); i >= 0 {
			s := l[i+len("github.com/benoitkugler/webrender/"):]
			if j := strings.LastIndex(s, "("); j > 0 {
				s = s[:j]
			}
			if strings.Contains(s, "verif") {
				continue
			}
			return s
		}
	}
	return "unknown"
}

// LoopSite names a hang or a stack overflow from a stack dump: when one function of the code under test occurs many
// times in the dump (unbounded recursion) that function, prefixed by "recursion:", otherwise the innermost frame.
func LoopSite(stack []byte) string {
	counts := map[string]int{}
	var order []string
	for _, l := range strings.Split(string(stack), "\n") {
		if strings.HasPrefix(l, "\t") {
			continue
		}
		if i := strings.Index(l, "github.com/benoitkugler/webrender/"); i >= 0 {
			s := l[i+len("github.com/benoitkugler/webrender/"):]
			if j := strings.LastIndex(s, "("); j > 0 {
				s = s[:j]
			}
			if strings.Contains(s, "verif") {
				continue
			}
			if counts[s] == 0 {
				order = append(order, s)
			}
			counts[s]++
		}
	}
	max := 0
	for _, n := range counts {
		if n > max {
			max = n
		}
	}
	best := "" // (mutual recursion: the alphabetically first of the functions on the cycle)
	for _, s := range order {
		if max >= 6 && 2*counts[s] >= max && (best == "" || s < best) {
			best = s
		}
	}
	if best != "" {
		return "recursion:" + best
	}
	return PanicSite(stack)
}

// handlerFrames lists the functions of the code under test on the stack of the goroutine that runs the handler,
// innermost first.
func handlerFrames(dump []byte) []string {
	for _, g := range strings.Split(string(dump), "\n\n") {
		if !strings.Contains(g, "internal/drv.Guard") {
			continue
		}
		var out []string
		for _, l := range strings.Split(g, "\n") {
			if strings.HasPrefix(l, "\t") {
				continue
			}
			if i := strings.Index(l, "github.com/benoitkugler/webrender/"); i >= 0 {
				s := l[i+len("github.com/benoitkugler/webrender/"):]
				if j := strings.LastIndex(s, "("); j > 0 {
					s = s[:j]
				}
				if !strings.Contains(s, "verif") {
					out = append(out, s)
				}
			}
		}
		return out
	}
	return nil
}

// StuckSite returns the innermost function that is on the handler's stack in both dumps at the same depth from the
// bottom (the function whose loop does not return), or "".
func StuckSite(a, b []byte) string {
	x, y := handlerFrames(a), handlerFrames(b)
	site := ""
	for i := 1; i <= len(x) && i <= len(y); i++ {
		if x[len(x)-i] != y[len(y)-i] {
			break
		}
		site = x[len(x)-i]
	}
	return site
}

var numRe = regexp.MustCompile(`[0-9]+`)

// MsgClass normalises a panic message (numbers removed, truncated).
func MsgClass(v interface{}) string {
	s := fmt.Sprint(v)
	s = numRe.ReplaceAllString(s, "N")
	if len(s) > 60 {
		s = s[:60]
	}
	return s
}

// Guard runs f, converting a panic into (site, message, true).
func Guard(f func()) (site, msg string, panicked bool) {
	defer func() {
		if r := recover(); r != nil {
			site = PanicSite(debug.Stack())
			msg = MsgClass(r)
			panicked = true
		}
	}()
	f()
	return
}

// Main implements `vdrive <name> [flags] ...`: parent mode splits the work over
// -j child processes; child mode (-shard) runs the handler.
//
// Scenario i (0-based line number of -in) is processed by shard i % n.
func Main(name string, args []string, setup func(fs *flag.FlagSet), h Handler) int {
	fs := flag.NewFlagSet(name, flag.ContinueOnError)
	in := fs.String("in", "", "ndjson scenarios")
	outp := fs.String("out", "", "verdict ndjson (default stdout)")
	jobs := fs.Int("j", runtime.NumCPU(), "worker processes")
	shard := fs.String("shard", "", "i/n (child mode)")
	from := fs.Int("from", 0, "child: first scenario index to process")
	prog := fs.String("progress", "", "child: progress file")
	tmo := fs.Duration("timeout", 20*time.Second, "per-scenario watchdog")
	limit := fs.Int("limit", 0, "process at most this many scenarios (0 = all)")
	stride := fs.Int("stride", 1, "process every stride-th scenario (offset by seed)")
	perproc := fs.Int("perproc", 0, "child: exit (code 5) after this many scenarios, the parent starts a fresh process for the rest (0 = never)")
	if setup != nil {
		setup(fs)
	}
	if err := fs.Parse(args); err != nil {
		return 2
	}
	if *shard != "" {
		return child(*in, *outp, *shard, *from, *prog, *tmo, *limit, *stride, *perproc, h)
	}
	return parent(name, args, *in, *outp, *jobs)
}

// memLimit: resident memory a worker may use before its scenario is declared a memory exhaustion (8 GB; VERIF_MEMLIMIT_MB)
var memLimit = func() int64 {
	if v, err := strconv.Atoi(os.Getenv("VERIF_MEMLIMIT_MB")); err == nil && v > 0 {
		return int64(v) << 20
	}
	return 8 << 30
}()

func rssBytes() int64 {
	b, err := os.ReadFile("/proc/self/statm")
	if err != nil {
		return 0
	}
	var size, rss int64
	fmt.Sscanf(string(b), "%d %d", &size, &rss)
	return rss * int64(os.Getpagesize())
}

func child(in, outp, shard string, from int, prog string, tmo time.Duration, limit, stride, perproc int, h Handler) int {
	var si, sn int
	fmt.Sscanf(shard, "%d/%d", &si, &sn)
	f, err := os.Open(in)
	if err != nil {
		fmt.Fprintln(os.Stderr, err)
		return 2
	}
	defer f.Close()
	of, err := os.OpenFile(outp, os.O_CREATE|os.O_WRONLY|os.O_APPEND, 0o644)
	if err != nil {
		fmt.Fprintln(os.Stderr, err)
		return 2
	}
	defer of.Close()
	out := &Out{w: bufio.NewWriterSize(of, 1<<16), counts: map[string]int{}, keys: map[string]int{}}
	pf, _ := os.OpenFile(prog, os.O_CREATE|os.O_WRONLY, 0o644)
	debug.SetMaxStack(256 << 20)
	seed, _ := strconv.Atoi(os.Getenv("VERIF_SEED"))
	off := 0
	if stride > 1 {
		off = ((seed % stride) + stride) % stride
	}

	var cur int64 = -1
	var curStart time.Time
	var mu sync.Mutex
	var curLine []byte
	go func() { // watchdog
		for {
			time.Sleep(200 * time.Millisecond)
			mu.Lock()
			c, st, ln := cur, curStart, curLine
			mu.Unlock()
			if c >= 0 && rssBytes() > memLimit {
				// the render of this scenario exhausts the memory: stop before the kernel kills something else
				buf := make([]byte, 4<<20)
				buf = buf[:runtime.Stack(buf, true)]
				site := LoopSite(buf)
				out.Disagree("memory:"+site, fmt.Sprintf("scenario %d uses more than %d MB of memory (running: %s)", c, memLimit>>20, site), json.RawMessage(ln))
				out.Count("timeouts")
				out.summary()
				of.Sync()
				os.Exit(3)
			}
			if c >= 0 && time.Since(st) > tmo {
				// name the hang: the recursing function, or the innermost function of the code under test that stays on the
				// stack between two dumps taken half a second apart (the loop that does not return)
				buf := make([]byte, 4<<20)
				buf = buf[:runtime.Stack(buf, true)]
				site := LoopSite(buf)
				if !strings.HasPrefix(site, "recursion:") {
					time.Sleep(500 * time.Millisecond)
					buf2 := make([]byte, 4<<20)
					buf2 = buf2[:runtime.Stack(buf2, true)]
					if st := StuckSite(buf, buf2); st != "" {
						site = st
					}
				}
				out.Disagree("timeout:"+site, fmt.Sprintf("scenario %d did not return within %s (running: %s)", c, tmo, site), json.RawMessage(ln))
				out.Count("timeouts")
				out.summary()
				of.Sync()
				os.Exit(3)
			}
		}
	}()

	sc := bufio.NewScanner(f)
	sc.Buffer(make([]byte, 1<<20), 1<<26)
	idx := -1
	done := 0
	var pbuf [24]byte
	for sc.Scan() {
		idx++
		if idx%sn != si || idx < from {
			continue
		}
		if stride > 1 && (idx/sn)%stride != off {
			continue
		}
		if limit > 0 && done >= limit {
			break
		}
		line := append([]byte(nil), sc.Bytes()...)
		if len(bytes.TrimSpace(line)) == 0 {
			continue
		}
		if pf != nil {
			b := strconv.AppendInt(pbuf[:0], int64(idx), 10)
			b = append(b, '\n')
			pf.WriteAt(append(b, "            "[:12]...), 0)
		}
		mu.Lock()
		cur, curStart, curLine = int64(idx), time.Now(), line
		mu.Unlock()
		out.Cur = idx
		site, msg, p := Guard(func() { h(line, out) })
		mu.Lock()
		cur = -1
		mu.Unlock()
		if p {
			out.Count("panics")
			out.Disagree("panic:"+site+":"+msg, "panic in "+site+": "+msg, json.RawMessage(line))
		}
		out.Count("scenarios")
		done++
		if done%1 == 0 { // (after every scenario: a worker that dies loses nothing)
			out.summary()
		}
		if perproc > 0 && done >= perproc {
			// the rest of the shard runs in fresh processes (process-wide state back to its initial value)
			out.w.Flush()
			of.Sync()
			return 5
		}
	}
	out.summary()
	return 0
}

func parent(name string, args []string, in, outp string, jobs int) int {
	if in == "" {
		fmt.Fprintln(os.Stderr, "-in required")
		return 2
	}
	if jobs < 1 {
		jobs = 1
	}
	self, _ := os.Executable()
	tmp, err := os.MkdirTemp(os.Getenv("VERIF_TMP"), "vdrive-pool-")
	if err != nil {
		fmt.Fprintln(os.Stderr, err)
		return 2
	}
	defer os.RemoveAll(tmp)
	var wg sync.WaitGroup
	fail := make([]string, jobs)
	extra := make([][]byte, jobs)
	for i := 0; i < jobs; i++ {
		wg.Add(1)
		go func(i int) {
			defer wg.Done()
			o := fmt.Sprintf("%s/out.%d", tmp, i)
			p := fmt.Sprintf("%s/prog.%d", tmp, i)
			from := 0
			recycled := 0
			for restarts := 0; ; restarts++ {
				if restarts > 2000+recycled {
					fail[i] = "too many worker restarts"
					return
				}
				a := append([]string{name}, args...)
				a = append(a, "-shard", fmt.Sprintf("%d/%d", i, jobs), "-out", o, "-progress", p, "-from", strconv.Itoa(from))
				cmd := exec.Command(self, a...)
				cmd.Env = append(os.Environ(), "GORACE=halt_on_error=1")
				var stderr bytes.Buffer
				cmd.Stderr = &stderr
				cmd.Stdout = io.Discard
				err := cmd.Run()
				if err == nil {
					return
				}
				// the worker died: stack overflow / fatal error / watchdog exit(3) / os.Exit in code under test
				last := -1
				if b, e := os.ReadFile(p); e == nil {
					fmt.Sscanf(strings.TrimSpace(string(b)), "%d", &last)
				}
				if last < from {
					fail[i] = fmt.Sprintf("worker %d died before making progress: %v\n%s", i, err, tailStr(stderr.String(), 2000))
					return
				}
				code := -1
				if ee, ok := err.(*exec.ExitError); ok {
					code = ee.ExitCode()
				}
				if code == 5 { // -perproc: a fresh process for the next scenarios
					recycled++
					from = last + 1
					continue
				}
				if code != 3 { // 3 = watchdog already wrote its verdict
					se := stderr.String()
					kind := "fatal"
					cls := "process died (exit " + strconv.Itoa(code) + ")"
					if strings.Contains(se, "stack overflow") || strings.Contains(se, "goroutine stack exceeds") {
						cls = "stack overflow"
					} else if k := strings.Index(se, "fatal error:"); k >= 0 {
						e := se[k:]
						if n := strings.Index(e, "\n"); n > 0 {
							e = e[:n]
						}
						cls = MsgClass(e)
					}
					site := PanicSite([]byte(se))
					if cls == "stack overflow" {
						site = LoopSite([]byte(se))
					}
					if k := strings.Index(se, "WARNING: DATA RACE"); k >= 0 {
						// a race-detector build with GORACE=halt_on_error=1: the first report kills the worker
						kind, cls, site = "race", "data race", raceSite(se[k:])
						if site == "unknown" {
							// no function of the code under test in the report: a race of the harness itself
							fail[i] = "data race inside the harness:\n" + tailStr(se[k:], 1500)
							return
						}
					}
					line := scenarioLine(in, last)
					b, _ := json.Marshal(map[string]interface{}{"kind": "disagree", "key": kind + ":" + site + ":" + cls,
						"what": cls + " in " + site, "detail": json.RawMessage(line)})
					extra[i] = append(extra[i], b...)
					extra[i] = append(extra[i], '\n')
					b, _ = json.Marshal(map[string]interface{}{"kind": "summary", "counts": map[string]int{"fatals": 1, "scenarios": 1, "disagreements": 1}})
					extra[i] = append(extra[i], b...)
					extra[i] = append(extra[i], '\n')
				}
				from = last + 1
			}
		}(i)
	}
	wg.Wait()
	var w io.Writer = os.Stdout
	if outp != "" {
		f, err := os.Create(outp)
		if err != nil {
			fmt.Fprintln(os.Stderr, err)
			return 2
		}
		defer f.Close()
		w = f
	}
	bw := bufio.NewWriter(w)
	defer bw.Flush()
	for i := 0; i < jobs; i++ {
		if fail[i] != "" {
			b, _ := json.Marshal(map[string]interface{}{"kind": "fatal", "what": fail[i]})
			bw.Write(b)
			bw.WriteByte('\n')
			continue
		}
		if b, err := os.ReadFile(fmt.Sprintf("%s/out.%d", tmp, i)); err == nil {
			bw.Write(b)
		}
		bw.Write(extra[i])
	}
	return 0
}

func tailStr(s string, n int) string {
	if len(s) > n {
		return s[len(s)-n:]
	}
	return s
}

func scenarioLine(path string, idx int) []byte {
	f, err := os.Open(path)
	if err != nil {
		return []byte("null")
	}
	defer f.Close()
	sc := bufio.NewScanner(f)
	sc.Buffer(make([]byte, 1<<20), 1<<26)
	i := -1
	for sc.Scan() {
		i++
		if i == idx {
			b := append([]byte(nil), sc.Bytes()...)
			if json.Valid(b) {
				return b
			}
			q, _ := json.Marshal(string(b))
			return q
		}
	}
	return []byte("null")
}

// SortedKeys is a small helper for deterministic output.
func SortedKeys(m map[string]int) []string {
	ks := make([]string, 0, len(m))
	for k := range m {
		ks = append(ks, k)
	}
	sort.Strings(ks)
	return ks
}

// raceSite names a race report by the two innermost functions of the code under test that access the location.
func raceSite(rep string) string {
	var fns []string
	lines := strings.Split(rep, "\n")
	for i, l := range lines {
		if (strings.HasPrefix(l, "Write at") || strings.HasPrefix(l, "Read at") || strings.HasPrefix(l, "Previous write at") || strings.HasPrefix(l, "Previous read at")) && i+1 < len(lines) {
			for _, f := range lines[i+1:] {
				f = strings.TrimSpace(f)
				if f == "" {
					break
				}
				if strings.Contains(f, "github.com/benoitkugler/webrender/") && strings.HasSuffix(f, ")") {
					f = strings.TrimPrefix(f, "github.com/benoitkugler/webrender/")
					if k := strings.Index(f, "("); k > 0 && !strings.HasPrefix(f, "(") {
						f = f[:k]
					}
					fns = append(fns, f)
					break
				}
			}
		}
		if len(fns) == 2 {
			break
		}
	}
	if len(fns) == 0 {
		return "unknown"
	}
	return strings.Join(fns, "+")
}
