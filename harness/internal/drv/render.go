package drv

import (
	"bytes"
	"fmt"
	"github.com/benoitkugler/webrender/css/counters"
	pr "github.com/benoitkugler/webrender/css/properties"
	"github.com/benoitkugler/webrender/text/hyphen"
	"io"
	"strings"
	"sync"

	"github.com/benoitkugler/webrender/html/boxes"
	"github.com/benoitkugler/webrender/html/document"
	"github.com/benoitkugler/webrender/html/layout"
	"github.com/benoitkugler/webrender/html/tree"
	"github.com/benoitkugler/webrender/logger"
	"github.com/benoitkugler/webrender/text"
	"github.com/benoitkugler/webrender/utils"

	"verif/harness/internal/fonts"
	"verif/harness/internal/rec"
)

func init() {
	logger.ProgressLogger.SetOutput(io.Discard)
	logger.WarningLogger.SetOutput(io.Discard)
}

var (
	fcMu     sync.Mutex
	fcPango  text.FontConfiguration
	fcGotext text.FontConfiguration
)

// Fonts returns the (process-wide, lazily built) font configuration of an engine.
func Fonts(engine string) text.FontConfiguration {
	fcMu.Lock()
	defer fcMu.Unlock()
	var err error
	switch engine {
	case "gotext":
		if fcGotext == nil {
			fcGotext, err = fonts.Gotext()
		}
		if err != nil {
			panic("verif: cannot build gotext fonts: " + err.Error())
		}
		return fcGotext
	default:
		if fcPango == nil {
			fcPango, err = fonts.Pango()
		}
		if err != nil {
			panic("verif: cannot build pango fonts: " + err.Error())
		}
		return fcPango
	}
}

// Opts configures one render.
type Opts struct {
	Media string // device media type (default print)
	Engine   string            // "pango" (default) or "gotext"
	Hints    bool              // presentational hints
	UserCSS  []string          // user style sheets
	FullUA   bool              // use the real html5 UA sheet instead of the small test sheet
	UACSS    string            // replacement UA sheet text (overrides FullUA)
	Files    map[string]string // in-memory resources served by the url fetcher (url -> content)
	BaseURL  string
	Zoom     float32
	FreshFC  bool                  // build a private font configuration
	Counters counters.CounterStyle // receives the @counter-style rules (Styles only)
	MimeType map[string]string
}

// Fetcher serves o.Files and falls back to the default fetcher for data: urls.
func (o *Opts) Fetcher() utils.UrlFetcher {
	return func(url string) (utils.RemoteRessource, error) {
		if c, ok := o.Files[url]; ok {
			mt := o.MimeType[url]
			if mt == "" {
				switch {
				case strings.HasSuffix(url, ".css"):
					mt = "text/css"
				case strings.HasSuffix(url, ".svg"):
					mt = "image/svg+xml"
				case strings.HasSuffix(url, ".png"):
					mt = "image/png"
				case strings.HasSuffix(url, ".html"):
					mt = "text/html"
				}
			}
			return utils.RemoteRessource{Content: bytes.NewReader([]byte(c)), MimeType: mt, RedirectedUrl: url}, nil
		}
		if len(url) > 5 && (url[:5] == "data:" || url[:5] == "DATA:") {
			return utils.DefaultUrlFetcher(url)
		}
		return utils.RemoteRessource{}, fmt.Errorf("verif: no such resource %q", url)
	}
}

// Parse builds the tree.HTML of a document.
func Parse(htmlText string, o *Opts) (*tree.HTML, error) {
	base := o.BaseURL
	if base == "" {
		base = "http://verif.test/doc.html"
	}
	media := o.Media
	if media == "" {
		media = "print"
	}
	h, err := tree.NewHTML(utils.InputString(htmlText), base, o.Fetcher(), media)
	if err != nil {
		return nil, err
	}
	if o.UACSS != "" {
		ua, err := tree.NewCSSDefault(utils.InputString(o.UACSS))
		if err != nil {
			return nil, err
		}
		h.UAStyleSheet = ua
	} else if !o.FullUA {
		h.UAStyleSheet = tree.TestUAStylesheet
	}
	return h, nil
}

func (o *Opts) fc() text.FontConfiguration {
	if o.FreshFC {
		var fc text.FontConfiguration
		var err error
		if o.Engine == "gotext" {
			fc, err = fonts.Gotext()
		} else {
			fc, err = fonts.Pango()
		}
		if err != nil {
			panic("verif: fonts: " + err.Error())
		}
		return fc
	}
	return Fonts(o.Engine)
}

func (o *Opts) sheets() ([]tree.CSS, error) {
	var out []tree.CSS
	for _, s := range o.UserCSS {
		c, err := tree.NewCSSDefault(utils.InputString(s))
		if err != nil {
			return nil, err
		}
		out = append(out, c)
	}
	return out, nil
}

// Layout runs parse + layout and returns the pages.
func Layout(htmlText string, o *Opts) ([]*boxes.PageBox, error) {
	h, err := Parse(htmlText, o)
	if err != nil {
		return nil, err
	}
	ss, err := o.sheets()
	if err != nil {
		return nil, err
	}
	return layout.Layout(h, ss, o.Hints, o.fc()), nil
}

// Render runs the whole pipeline onto a recording backend.
func Render(htmlText string, o *Opts) (*document.Document, *rec.Doc, error) {
	h, err := Parse(htmlText, o)
	if err != nil {
		return nil, nil, err
	}
	ss, err := o.sheets()
	if err != nil {
		return nil, nil, err
	}
	doc := document.Render(h, ss, o.Hints, o.fc())
	r := rec.New()
	z := o.Zoom
	if z == 0 {
		z = 1
	}
	doc.Write(r, z, nil)
	return &doc, r, nil
}

// RenderPages runs the whole pipeline onto a recording backend and also returns the page boxes that were drawn
// (hook VerifPageBox), so that drawing and layout are observed on the same run.
func RenderPages(htmlText string, o *Opts) ([]*boxes.PageBox, *rec.Doc, error) {
	d, r, err := Render(htmlText, o)
	if err != nil {
		return nil, nil, err
	}
	var pages []*boxes.PageBox
	for _, p := range d.Pages {
		pages = append(pages, p.VerifPageBox())
	}
	return pages, r, nil
}

// Walk visits a box tree in pre-order.
func Walk(b boxes.Box, f func(b boxes.Box, depth int) bool) { walk(b, 0, f) }

func walk(b boxes.Box, d int, f func(b boxes.Box, depth int) bool) {
	if !f(b, d) {
		return
	}
	for _, c := range b.Box().Children {
		walk(c, d+1, f)
	}
}

// TextCtx is a minimal text.TextLayoutContext.
type TextCtx struct {
	FC     text.FontConfiguration
	hyphen map[text.HyphenDictKey]hyphen.Hyphener
	strut  map[text.StrutLayoutKey][2]pr.Float
}

func NewTextCtx(fc text.FontConfiguration) *TextCtx {
	return &TextCtx{FC: fc, hyphen: map[text.HyphenDictKey]hyphen.Hyphener{}, strut: map[text.StrutLayoutKey][2]pr.Float{}}
}
func (t *TextCtx) Fonts() text.FontConfiguration                          { return t.FC }
func (t *TextCtx) HyphenCache() map[text.HyphenDictKey]hyphen.Hyphener    { return t.hyphen }
func (t *TextCtx) StrutLayoutsCache() map[text.StrutLayoutKey][2]pr.Float { return t.strut }

// Styles runs parse + cascade and returns the style accessor.
func Styles(htmlText string, o *Opts) (*tree.HTML, *tree.StyleFor, error) {
	h, err := Parse(htmlText, o)
	if err != nil {
		return nil, nil, err
	}
	ss, err := o.sheets()
	if err != nil {
		return nil, nil, err
	}
	var pageRules []tree.PageRule
	tc := tree.NewTargetCollector()
	sf := tree.GetAllComputedStyles(h, ss, o.Hints, o.fc(), o.Counters, &pageRules, &tc, false, NewTextCtx(o.fc()))
	return h, sf, nil
}
