// Package fonts builds offline font configurations from /repo/resources_test.
package fonts

import (
	"os"
	"path/filepath"

	fc "github.com/benoitkugler/textprocessing/fontconfig"
	"github.com/benoitkugler/textprocessing/pango/fcfonts"
	"github.com/benoitkugler/webrender/text"
	"github.com/go-text/typesetting/fontscan"
)

// Dir is the directory scanned for fonts.
var Dir = "/repo/resources_test"

func init() {
	if d := os.Getenv("VERIF_FONT_DIR"); d != "" {
		Dir = d
	} else if r := os.Getenv("VERIF_REPO"); r != "" {
		Dir = filepath.Join(r, "resources_test")
	}
}

// Pango returns a fresh pango-engine font configuration.
func Pango() (text.FontConfiguration, error) {
	fs, err := fc.Standard.Copy().ScanFontDirectories(Dir)
	if err != nil {
		return nil, err
	}
	fm := fcfonts.NewFontMap(fc.Standard.Copy(), fs)
	return text.NewFontConfigurationPango(fm), nil
}

type nopLogger struct{}

func (nopLogger) Printf(format string, args ...interface{}) {}

// Gotext returns a fresh go-text-engine font configuration.
func Gotext() (text.FontConfiguration, error) {
	fm := fontscan.NewFontMap(nopLogger{})
	for _, name := range []string{"weasyprint.otf", "AHEM____.TTF"} {
		p := filepath.Join(Dir, name)
		f, err := os.Open(p)
		if err != nil {
			return nil, err
		}
		if err := fm.AddFont(f, p, ""); err != nil {
			f.Close()
			return nil, err
		}
	}
	return text.NewFontConfigurationGotext(fm), nil
}
