CONSTANTS
  Family = "arc"
  MaxCmds = 1
INIT Init
NEXT Next
INVARIANTS CurIsLastEnd StartsWithMove Emit
CHECK_DEADLOCK FALSE
