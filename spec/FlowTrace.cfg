CONSTANTS
  MaxItems = 0
  MaxN = 0
  Kinds = {}
  OneCfg = TRUE
  MaxOpt = 0
INIT TInit
NEXT TNext
INVARIANT Report
CHECK_DEADLOCK FALSE
