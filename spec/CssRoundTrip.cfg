CONSTANTS
  Family = "T1"
  MaxLen = 0
  SkipComments = FALSE
INIT RTInit
NEXT RTNext
INVARIANT Report
CHECK_DEADLOCK FALSE
