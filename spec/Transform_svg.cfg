CONSTANTS
  MaxLen = 2
  Mode = "svg"
  BoxW = 40
  BoxH = 20
  BoxX = 7
  BoxY = 5
INIT Init
NEXT Next
INVARIANTS FoldCorrect OriginFixed ListSemantics EmitList
CHECK_DEADLOCK FALSE
