---------------------------- MODULE CounterStyles ----------------------------
(***************************************************************************)
(* CSS Counter Styles Level 3, section 2: "generate a counter              *)
(* representation" as a transition system.                                 *)
(*                                                                         *)
(* defs : the author-defined @counter-style rules, a function from the     *)
(*        names "x" and "y" to style records (or Undefined)                *)
(*   [sys, n, first, add, rng, pad, neg, fb, ext]                          *)
(*   sys   "cyclic" | "fixed" | "symbolic" | "alphabetic" | "numeric"      *)
(*         | "additive" | "extends"                                        *)
(*   n     number of symbols (x uses a b c, y uses p q r)                  *)
(*   first first value of a fixed system                                   *)
(*   add   additive tuple set id (see Tuples)                              *)
(*   rng   [auto |-> BOOLEAN, lo, hi]     (unset descriptor = auto)        *)
(*   pad   0 (unset) or the minimal length, pad symbol "0"                 *)
(*   neg   "" (unset), "m" (negative: "-") or "paren" (negative: "(" ")")  *)
(*   fb    "" (unset = decimal) or a style name                            *)
(*   ext   name of the extended style when sys = "extends"                 *)
(* The predefined style `decimal` is always available.                     *)
(*                                                                         *)
(* The representation is a sequence of one-character strings.              *)
(***************************************************************************)
EXTENDS Integers, Sequences, FiniteSets, TLC, Json

CONSTANTS Family, NegLo, VHi
Values == (0 - NegLo)..VHi

VARIABLES defs, v, cur, visited, rep, phase, start
vars == <<defs, v, cur, visited, rep, phase, start>>

Undefined == [sys |-> "undefined"]
Names == {"x", "y"}

SymOf(name) == IF name = "x" THEN <<"a", "b", "c">> ELSE <<"p", "q", "r">>
Roman(up) == IF up THEN <<[w |-> 1000, s |-> "M"], [w |-> 900, s |-> "CM"], [w |-> 500, s |-> "D"], [w |-> 400, s |-> "CD"], [w |-> 100, s |-> "C"],
                          [w |-> 90, s |-> "XC"], [w |-> 50, s |-> "L"], [w |-> 40, s |-> "XL"], [w |-> 10, s |-> "X"], [w |-> 9, s |-> "IX"],
                          [w |-> 5, s |-> "V"], [w |-> 4, s |-> "IV"], [w |-> 1, s |-> "I"]>>
             ELSE <<[w |-> 1000, s |-> "m"], [w |-> 900, s |-> "cm"], [w |-> 500, s |-> "d"], [w |-> 400, s |-> "cd"], [w |-> 100, s |-> "c"],
                    [w |-> 90, s |-> "xc"], [w |-> 50, s |-> "l"], [w |-> 40, s |-> "xl"], [w |-> 10, s |-> "x"], [w |-> 9, s |-> "ix"],
                    [w |-> 5, s |-> "v"], [w |-> 4, s |-> "iv"], [w |-> 1, s |-> "i"]>>
Latin(up) == IF up THEN <<"A","B","C","D","E","F","G","H","I","J","K","L","M","N","O","P","Q","R","S","T","U","V","W","X","Y","Z">>
             ELSE <<"a","b","c","d","e","f","g","h","i","j","k","l","m","n","o","p","q","r","s","t","u","v","w","x","y","z">>
\* additive tuple sets, weights strictly decreasing
Tuples(id) == CASE id = 1 -> <<[w |-> 5, s |-> "V"], [w |-> 1, s |-> "I"]>>
                [] id = 2 -> <<[w |-> 5, s |-> "V"], [w |-> 1, s |-> "I"], [w |-> 0, s |-> "N"]>>
                [] id = 3 -> <<[w |-> 3, s |-> "T"], [w |-> 2, s |-> "D"]>>
                [] id = 4 -> <<[w |-> 1, s |-> "I"]>>
                [] id = 10 -> Roman(FALSE) [] id = 11 -> Roman(TRUE)
                [] OTHER -> <<>>

Decimal == [sys |-> "numeric", n |-> 10, first |-> 1, add |-> 0, rng |-> [auto |-> TRUE, lo |-> 0, hi |-> 0],
            pad |-> 0, neg |-> "", fb |-> "", ext |-> "", syms |-> <<"0", "1", "2", "3", "4", "5", "6", "7", "8", "9">>]

\* some of the predefined styles of CSS Counter Styles 3 section 6 (the user-agent sheet must define them so)
PredefNames == {"decimal-leading-zero", "lower-roman", "upper-roman", "lower-alpha", "upper-latin", "disc", "cjk-decimal"}
Predef(name) ==
  LET b == [Decimal EXCEPT !.add = 0] IN
  CASE name = "decimal-leading-zero" -> [b EXCEPT !.pad = 2]
    [] name = "lower-roman" -> [b EXCEPT !.sys = "additive", !.add = 10, !.rng = [auto |-> FALSE, lo |-> 1, hi |-> 3999], !.n = 0]
    [] name = "upper-roman" -> [b EXCEPT !.sys = "additive", !.add = 11, !.rng = [auto |-> FALSE, lo |-> 1, hi |-> 3999], !.n = 0]
    [] name = "lower-alpha" -> [b EXCEPT !.sys = "alphabetic", !.n = 26, !.syms = Latin(FALSE)]
    [] name = "upper-latin" -> [b EXCEPT !.sys = "alphabetic", !.n = 26, !.syms = Latin(TRUE)]
    [] name = "disc" -> [b EXCEPT !.sys = "cyclic", !.n = 1, !.syms = <<"BULLET">>]
    [] name = "cjk-decimal" -> [b EXCEPT !.syms = <<"CJK0", "CJK1", "CJK2", "CJK3", "CJK4", "CJK5", "CJK6", "CJK7", "CJK8", "CJK9">>,
                                         !.rng = [auto |-> FALSE, lo |-> 0, hi |-> 1000000]]

\* a rule is valid only with enough symbols (section 3.1 ff.); an invalid rule defines nothing
ValidRule(d) == CASE d.sys \in {"cyclic", "fixed", "symbolic"} -> d.n >= 1
                  [] d.sys \in {"alphabetic", "numeric"} -> d.n >= 2
                  [] d.sys = "additive" -> Len(Tuples(d.add)) >= 1
                  [] d.sys = "extends" -> TRUE
                  [] OTHER -> FALSE
Defined(ds, name) == name \in Names /\ ds[name] # Undefined /\ ValidRule(ds[name])

\* ---- extends resolution (section 3.1.7): algorithm from the extended style, unset descriptors inherited.
\* A missing target or a cycle of extends means "extends decimal".
RECURSIVE Effective(_, _, _)
Effective(ds, name, seen) ==
  IF name = "decimal" THEN Decimal
  ELSE IF name \in PredefNames THEN Predef(name)
  ELSE IF ~Defined(ds, name) THEN Decimal
  ELSE LET d == ds[name] IN
    IF d.sys # "extends" THEN d @@ [syms |-> SubSeq(SymOf(name), 1, d.n)]
    ELSE LET base == IF d.ext \in seen \cup {name} \/ ~(d.ext = "decimal" \/ Defined(ds, d.ext))
                     THEN Decimal ELSE Effective(ds, d.ext, seen \cup {name}) IN
         [sys |-> base.sys, n |-> base.n, first |-> base.first, add |-> base.add, syms |-> base.syms,
          rng |-> IF d.rngset THEN d.rng ELSE base.rng,
          pad |-> IF d.pad = 0 THEN base.pad ELSE d.pad,
          neg |-> IF d.neg = "" THEN base.neg ELSE d.neg,
          fb  |-> IF d.fb = "" THEN base.fb ELSE d.fb, ext |-> ""]

UsesNeg(sys) == sys \in {"symbolic", "alphabetic", "numeric", "additive"}
InRange(e, val) ==
  IF e.rng.auto THEN CASE e.sys \in {"alphabetic", "symbolic"} -> val >= 1
                       [] e.sys = "additive" -> val >= 0
                       [] OTHER -> TRUE
  ELSE e.rng.lo <= val /\ val <= e.rng.hi

Rept(s, k) == [j \in 1..k |-> s]
RECURSIVE Digits(_, _, _), Alpha(_, _, _), Greedy(_, _)
Digits(syms, n, val) == IF val < n THEN <<syms[val + 1]>> ELSE Append(Digits(syms, n, val \div n), syms[(val % n) + 1])
Alpha(syms, n, val)  == IF val = 0 THEN <<>> ELSE Append(Alpha(syms, n, (val - 1) \div n), syms[((val - 1) % n) + 1])
Greedy(ts, val) == IF val = 0 THEN [ok |-> TRUE, r |-> <<>>]
                   ELSE IF ts = <<>> THEN [ok |-> FALSE, r |-> <<>>]
                   ELSE IF Head(ts).w = 0 THEN Greedy(Tail(ts), val)
                   ELSE LET k == val \div Head(ts).w  rest == Greedy(Tail(ts), val - k * Head(ts).w) IN
                        [ok |-> rest.ok, r |-> Rept(Head(ts).s, k) \o rest.r]
\* the system algorithms (sections 3.1.1 - 3.1.6) on a non-negative or any value as they require
Algorithm(e, val) ==
  CASE e.sys = "cyclic" -> [ok |-> TRUE, r |-> <<e.syms[((val - 1) % e.n) + 1]>>]
    [] e.sys = "fixed" -> IF val >= e.first /\ val < e.first + e.n THEN [ok |-> TRUE, r |-> <<e.syms[val - e.first + 1]>>]
                          ELSE [ok |-> FALSE, r |-> <<>>]
    [] e.sys = "symbolic" -> IF val >= 1 THEN [ok |-> TRUE, r |-> Rept(e.syms[((val - 1) % e.n) + 1], ((val - 1) \div e.n) + 1)]
                             ELSE [ok |-> FALSE, r |-> <<>>]
    [] e.sys = "alphabetic" -> IF val >= 1 THEN [ok |-> TRUE, r |-> Alpha(e.syms, e.n, val)] ELSE [ok |-> FALSE, r |-> <<>>]
    [] e.sys = "numeric" -> [ok |-> TRUE, r |-> Digits(e.syms, e.n, val)]
    [] e.sys = "additive" ->
         IF val = 0 THEN (IF \E j \in 1..Len(Tuples(e.add)) : Tuples(e.add)[j].w = 0
                          THEN [ok |-> TRUE, r |-> <<(CHOOSE t \in {Tuples(e.add)[j] : j \in 1..Len(Tuples(e.add))} : t.w = 0).s>>]
                          ELSE [ok |-> FALSE, r |-> <<>>])
         ELSE Greedy(Tuples(e.add), val)
Abs(val) == IF val < 0 THEN 0 - val ELSE val
NegPre(e) == IF e.neg = "paren" THEN <<"(">> ELSE <<"-">>
NegSuf(e) == IF e.neg = "paren" THEN <<")">> ELSE <<>>

---------------------------------------------------------------------------
(* scenario spaces *)
Rng(a, lo, hi) == [auto |-> a, lo |-> lo, hi |-> hi]
Base(sys, n, first, add, rng, pad, neg, fb) ==
  [sys |-> sys, n |-> n, first |-> first, add |-> add, rng |-> rng, rngset |-> ~rng.auto, pad |-> pad, neg |-> neg, fb |-> fb, ext |-> "", mb |-> FALSE]
\* rs: "unset" (range inherited from the extended style) | "auto" (an explicit `range: auto`)
ExtR(target, pad, neg, fb, rs) ==
  [sys |-> "extends", n |-> 0, first |-> 1, add |-> 0, rng |-> Rng(TRUE, 0, 0), rngset |-> rs = "auto", pad |-> pad, neg |-> neg, fb |-> fb, ext |-> target, mb |-> FALSE]
Ext(target, pad, neg, fb) == ExtR(target, pad, neg, fb, "unset")
\* (a bound of -1000 / 1000 is spelled `infinite`: no lower / upper bound)
Ranges == {Rng(TRUE, 0, 0), Rng(FALSE, 2, 4), Rng(FALSE, -2, 2), Rng(FALSE, -1000, 2), Rng(FALSE, 3, 1000)}
YCyc == Base("cyclic", 2, 1, 0, Rng(TRUE, 0, 0), 0, "", "")
YNum == Base("numeric", 2, 1, 0, Rng(FALSE, 0, 5), 2, "paren", "x")

Systems == {[sys |-> s, n |-> k, first |-> 1, add |-> 0] : s \in {"cyclic", "symbolic", "alphabetic", "numeric"}, k \in 1..3}
           \cup {[sys |-> "fixed", n |-> k, first |-> f, add |-> 0] : k \in 1..2, f \in {1, -1}}
           \cup {[sys |-> "additive", n |-> 0, first |-> 1, add |-> a] : a \in 1..4}

Scenarios ==
  CASE Family = "single" ->   \* one author style x, every descriptor combination, fallback decimal / itself / missing
         {[x |-> Base(s.sys, s.n, s.first, s.add, r, p, ng, fb), y |-> Undefined] :
            s \in Systems, r \in Ranges, p \in {0, 3}, ng \in {"", "paren"}, fb \in {"", "x", "zz"}}
         \* the same symbols written with two-byte characters: padding counts symbols, not bytes
         \cup {[x |-> [Base(s.sys, s.n, s.first, s.add, Rng(TRUE, 0, 0), 3, ng, "") EXCEPT !.mb = TRUE], y |-> Undefined] :
            s \in {t \in Systems : t.sys # "additive"}, ng \in {"", "paren"}}
    [] Family = "fallback" -> \* x falls back to y, y to x or decimal
         {[x |-> Base(s.sys, s.n, s.first, s.add, r, 0, "", "y"), y |-> yy] :
            s \in Systems, r \in Ranges, yy \in {YCyc, YNum, Undefined}}
    [] Family = "extends" ->
         {[x |-> ExtR(t, p, ng, fb, rs), y |-> yy] : t \in {"y", "x", "zz", "decimal"}, p \in {0, 3}, ng \in {"", "paren"}, fb \in {"", "y"},
            rs \in {"unset", "auto"},
            yy \in {YCyc, YNum, Undefined, Ext("x", 0, "", ""), Base("alphabetic", 3, 1, 0, Rng(TRUE, 0, 0), 0, "m", ""),
                    Base("additive", 0, 1, 2, Rng(TRUE, 0, 0), 0, "", "")}}

PredefValues == {0 - 1000, 0 - 1, 0, 1, 4, 9, 14, 26, 27, 49, 99, 702, 703, 1994, 3999, 4000}
Init == IF Family = "predef"
        THEN /\ defs = [x |-> Undefined, y |-> Undefined] /\ v \in PredefValues /\ cur \in PredefNames
             /\ visited = {} /\ rep = <<>> /\ phase = "lookup" /\ start = cur
        ELSE /\ defs \in Scenarios /\ v \in Values
             /\ cur = "x" /\ visited = {} /\ rep = <<>> /\ phase = "lookup" /\ start = "x"

\* step 1: an unknown (or invalid) style, or one already tried in this fallback chain, means decimal
Lookup == /\ phase = "lookup"
          /\ IF cur = "decimal" \/ ~(Defined(defs, cur) \/ cur \in PredefNames) \/ cur \in visited
             THEN cur' = "decimal" /\ visited' = visited
             ELSE cur' = cur /\ visited' = visited \cup {cur}
          /\ phase' = "range" /\ UNCHANGED <<defs, v, rep, start>>
\* step 2: outside the range -> fallback style
RangeCheck == /\ phase = "range"
              /\ LET e == Effective(defs, cur, {}) IN
                 IF InRange(e, v) THEN phase' = "generate" /\ cur' = cur
                 ELSE phase' = "lookup" /\ cur' = (IF e.fb = "" THEN "decimal" ELSE e.fb)
              /\ UNCHANGED <<defs, v, visited, rep, start>>
\* step 3: run the algorithm on the absolute value when the system uses a negative sign; failure -> fallback
Generate == /\ phase = "generate"
            /\ LET e == Effective(defs, cur, {})
                   val == IF v < 0 /\ UsesNeg(e.sys) THEN Abs(v) ELSE v
                   g == Algorithm(e, val) IN
               IF g.ok THEN rep' = g.r /\ phase' = "pad" /\ cur' = cur
               ELSE rep' = rep /\ phase' = "lookup" /\ cur' = (IF e.fb = "" THEN "decimal" ELSE e.fb)
            /\ UNCHANGED <<defs, v, visited, start>>
\* step 4: pad, counting the negative sign
Pad == /\ phase = "pad"
       /\ LET e == Effective(defs, cur, {})
              signlen == IF v < 0 /\ UsesNeg(e.sys) THEN Len(NegPre(e)) + Len(NegSuf(e)) ELSE 0
              missing == e.pad - Len(rep) - signlen IN
          rep' = IF missing > 0 THEN Rept("0", missing) \o rep ELSE rep
       /\ phase' = "negative" /\ UNCHANGED <<defs, v, cur, visited, start>>
\* step 5: negative sign
Negative == /\ phase = "negative"
            /\ LET e == Effective(defs, cur, {}) IN
               rep' = IF v < 0 /\ UsesNeg(e.sys) THEN NegPre(e) \o rep \o NegSuf(e) ELSE rep
            /\ phase' = "done" /\ UNCHANGED <<defs, v, cur, visited, start>>
Next == Lookup \/ RangeCheck \/ Generate \/ Pad \/ Negative
Spec == Init /\ [][Next]_vars /\ WF_vars(Next)

\* the fallback chain never loops: `visited` strictly grows until decimal is reached, and decimal always succeeds
DecimalTotal == (phase = "range" /\ cur = "decimal") => InRange(Decimal, v) /\ Algorithm(Decimal, Abs(v)).ok
NonEmpty == phase = "done" => rep # <<>>
Terminates == <>(phase = "done")

Emit == phase = "done" => PrintT(ToJson([defs |-> defs, v |-> v, want |-> rep, via |-> cur, style |-> start]))
=============================================================================
