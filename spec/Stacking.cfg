CONSTANTS
  MaxNodes = 3
  ZMode = "small"
  Rich = FALSE
SPECIFICATION Spec
INVARIANTS Agree Once BgFirst Layering Atomic EmitScn
PROPERTIES Terminates
CHECK_DEADLOCK FALSE
