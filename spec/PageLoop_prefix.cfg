CONSTANTS
  N = 1
  F = 1
  MaxLoops = 2
  RemakeMissing = FALSE
  Force = TRUE
  MaxPages = 100
  Less <- IntLess
  Chgs = {FALSE}
  NoPos = 0
SPECIFICATION Spec
INVARIANTS TypeOK IndexSafe NoTwoBlanks PagesBound Progress LoopBound
CHECK_DEADLOCK FALSE
