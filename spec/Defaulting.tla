------------------------------ MODULE Defaulting ------------------------------
(***************************************************************************)
(* CSS Cascade 4, section 7 "Defaulting": the computed value of one        *)
(* property along a chain of boxes                                         *)
(*     1 root element > 2 element > 3 element > 4 ::before of element 3    *)
(* Each node has one of four declaration kinds for the property:           *)
(*   "none" (no winning declaration) | "inherit" | "initial" | "explicit". *)
(* The explicit value is the same context-free value wherever it is used,  *)
(* so a computed value is one of the two classes "INIT" / "EXP".           *)
(*                                                                         *)
(* Part 1: Computed(n) by the CSS rules.                                   *)
(* Part 2: the lazy evaluation of html/tree/style.go: Get(n) in ANY order, *)
(* each Get filling the cache of the node and, through `inherit`, of its   *)
(* ancestors. TLC checks that every cached value equals Computed(n) for    *)
(* every interleaving of Gets (access-order independence).                 *)
(*                                                                         *)
(* The module also carries, as data, the parts of the CSS property index   *)
(* the harness needs: which properties are certainly inherited / certainly *)
(* not inherited, and the initial value text of well-known properties.     *)
(***************************************************************************)
EXTENDS Integers, Sequences, FiniteSets, TLC, Json

CONSTANT Mode    \* "kinds" | "units" | "weights" | "dependent" | "custom"

VARIABLES kinds, inh, cache, phase
vars == <<kinds, inh, cache, phase>>

D == 4
Nodes == 1..D
\* "ivar": a winning declaration that is invalid at computed-value time (var() of an undefined custom property): the property
\* defaults as if there were no declaration (CSS Variables 1, 3.1). (The keyword `unset` is not supported by the
\* implementation - it is an invalid value, or an identifier where identifiers are allowed - and is not part of C04.)
Kinds == {"none", "inherit", "initial", "explicit", "ivar"}
Parent(n) == n - 1          \* the pseudo-element 4 inherits from its element 3

RECURSIVE Computed(_, _, _)
Computed(k, i, n) ==
  CASE k[n] = "explicit" -> "EXP"
    [] k[n] = "initial"  -> "INIT"
    [] k[n] = "inherit"  -> IF n = 1 THEN "INIT" ELSE Computed(k, i, Parent(n))
    [] OTHER             -> IF i /\ n > 1 THEN Computed(k, i, Parent(n)) ELSE "INIT"

\* ---- units: `kinds` is reused to hold a unit scenario
\*   [root, mid, leaf : font-size declarations, n, unit : the probed length `width: n unit`]
\* (ex2 / ch2: font-size: 2ex / 2ch - the font metrics and the font size they scale are those of the PARENT, CSS Values 3, 5.1.1)
FsDecls == {"none", "em2", "pct150", "rem15", "ex2", "ch2"}
\* `pre`: another font-relative length (height: 2ex / 2ch) of the probed element, computed BEFORE the probed one: the measured
\* ratios are cached per font and per unit, and one unit must not answer for the other
UnitScn == {[root |-> r, mid |-> m, leaf |-> l, n |-> n, unit |-> u, pre |-> "none"] :
               r \in {"px10", "px20", "em2", "rem15", "none"}, m \in FsDecls, l \in FsDecls, n \in {1, 3},
               u \in {"px", "pt", "pc", "in", "cm", "mm", "q", "em", "rem", "ex", "ch"}} \cup
           {[root |-> r, mid |-> m, leaf |-> l, n |-> 3, unit |-> u, pre |-> q] :
               r \in {"px10", "none"}, m \in FsDecls, l \in FsDecls, u \in {"ex", "ch"}, q \in {"ex", "ch"}}
\* x-height and advance of "0" of the two test fonts, in 1/1000 em (Ahem by design: 0.8 em and 1 em; weasyprint.otf: 0.7998 and 1)
FontRatio(u) == IF u = "ex" THEN 800 ELSE 1000
\* computed font sizes in 1/381 px; the initial font size (medium) is 16px
Fs0 == 16 * 381
RootFs(s) == CASE s.root = "px10" -> 10 * 381 [] s.root = "px20" -> 20 * 381
               [] s.root = "em2" -> 2 * Fs0        \* em on the root refers to the initial value
               [] s.root = "rem15" -> (3 * Fs0) \div 2   \* rem on the root refers to the initial value
               [] OTHER -> Fs0
Derive(decl, parentFs, rootFs) == CASE decl = "em2" -> 2 * parentFs [] decl = "pct150" -> (3 * parentFs) \div 2
                                     [] decl = "rem15" -> (3 * rootFs) \div 2
                                     [] decl = "ex2" -> (2 * parentFs * FontRatio("ex")) \div 1000 [] decl = "ch2" -> (2 * parentFs * FontRatio("ch")) \div 1000
                                     [] OTHER -> parentFs
MidFs(s)  == Derive(s.mid, RootFs(s), RootFs(s))
LeafFs(s) == Derive(s.leaf, MidFs(s), RootFs(s))
Abs381(u) == CASE u = "px" -> 381 [] u = "pt" -> 508 [] u = "pc" -> 6096 [] u = "in" -> 36576 [] u = "cm" -> 14400
               [] u = "mm" -> 1440 [] u = "q" -> 360
Width381(s) == CASE s.unit = "em" -> s.n * LeafFs(s) [] s.unit = "rem" -> s.n * RootFs(s)
                 [] s.unit \in {"ex", "ch"} -> (s.n * LeafFs(s) * FontRatio(s.unit)) \div 1000 [] OTHER -> s.n * Abs381(s.unit)

\* ---- relative keywords: font-weight bolder / lighter resolve against the inherited weight (CSS Fonts 4, 2.2.1);
\*      the root inherits the initial value 400
WDecls == {"none", "bolder", "lighter", "100", "400", "600", "900"}
WeightScn == {[root |-> r, mid |-> m, leaf |-> l] : r \in WDecls, m \in WDecls, l \in WDecls}
Bolder(w)  == IF w < 350 THEN 400 ELSE IF w < 550 THEN 700 ELSE 900
Lighter(w) == IF w < 100 THEN w ELSE IF w < 550 THEN 100 ELSE IF w < 750 THEN 400 ELSE 700
WDerive(decl, inherited) == CASE decl = "none" -> inherited [] decl = "bolder" -> Bolder(inherited) [] decl = "lighter" -> Lighter(inherited)
                              [] decl = "100" -> 100 [] decl = "400" -> 400 [] decl = "600" -> 600 [] OTHER -> 900
LeafWeight(s) == WDerive(s.leaf, WDerive(s.mid, WDerive(s.root, 400)))

\* ---- computed values that depend on other properties of the same element (mode "dependent")
\* CSS 2.1 9.7 / CSS Display 3 2.7: an absolutely positioned or floated element, and the root, are blockified; float
\* computes to none on an absolutely positioned element. Displays are canonical triples "outer inner [list-item]".
Displays == {"inline", "block", "inline-block", "list-item", "inline list-item", "table", "inline-table", "table-cell", "table-row", "flex", "inline-flex", "grid", "inline-grid", "none"}
Canon(d) == CASE d = "inline" -> "inline flow" [] d = "block" -> "block flow" [] d = "inline-block" -> "inline flow-root" [] d = "list-item" -> "block flow list-item"
              [] d = "inline list-item" -> "inline flow list-item" [] d = "table" -> "block table" [] d = "inline-table" -> "inline table" [] d = "table-cell" -> "table-cell"
              [] d = "table-row" -> "table-row" [] d = "flex" -> "block flex" [] d = "inline-flex" -> "inline flex" [] d = "grid" -> "block grid" [] d = "inline-grid" -> "inline grid"
              [] OTHER -> "none"
Blockified(d) == CASE d = "inline" -> "block flow" [] d = "inline-block" -> "block flow-root" [] d = "inline list-item" -> "block flow list-item"
                   [] d = "inline-table" -> "block table" [] d = "inline-flex" -> "block flex" [] d = "inline-grid" -> "block grid"
                   [] d \in {"table-cell", "table-row"} -> "block flow" [] OTHER -> Canon(d)
Contexts == {"plain", "float", "absolute", "fixed", "root", "float-absolute"}
MustBlockify(c) == c # "plain"
ComputedDisplay(d, c) == IF d = "none" THEN "none" ELSE IF MustBlockify(c) THEN Blockified(d) ELSE Canon(d)
ComputedFloat(c) == IF c = "float" THEN "left" ELSE "none"      \* (float-absolute: position wins)
\* border / outline / column-rule widths compute to 0 when the style is none or hidden (CSS Backgrounds 3, 4.3)
LineStyles == {"none", "hidden", "solid", "dotted"}
ComputedLineWidth(st, w) == IF st \in {"none", "hidden"} THEN 0 ELSE w
\* bleed: auto computes to 6pt (8px) if marks has crop, to 0 otherwise (CSS Paged Media 3, 7.3)
MarksVals == {"none", "crop", "cross", "crop cross"}
ComputedBleed381(m) == IF m \in {"crop", "crop cross"} THEN 6 * 508 ELSE 0
LineHeight381(fs, lh) == CASE lh = "40px" -> 40 * 381 [] lh = "2" -> 2 * fs * 381 [] OTHER -> (3 * fs * 381) \div 2
DependentScn == {[k |-> "display", d |-> d, c |-> c, wantd |-> ComputedDisplay(d, c), wantf |-> ComputedFloat(c)] : d \in Displays, c \in Contexts}
          \cup {[k |-> "line", p |-> p, st |-> st, w |-> w, want |-> ComputedLineWidth(st, w)] : p \in {"border-top", "border-left", "outline", "column-rule"}, st \in LineStyles, w \in {0, 5}}
          \cup {[k |-> "bleed", m |-> m, want381 |-> ComputedBleed381(m)] : m \in MarksVals}
          \* a percentage vertical-align refers to the line-height of the element itself (CSS 2.1 10.8.1); line-height: a
          \* length, a number (times the font size) or a percentage of the font size
          \cup {[k |-> "valign", fs |-> fs, lh |-> lh, pc |-> pc, want381 |-> (LineHeight381(fs, lh) * pc) \div 100] :
                   fs \in {10, 20}, lh \in {"40px", "2", "150%"}, pc \in {50, -25, 100}}
\* blockification keeps the inner display type and the list-item flag, and is idempotent
BlockifyLaws == \A d \in Displays \ {"none"} : /\ Blockified(d) \in {Canon(e) : e \in Displays} \cup {"block flow-root"}
                                               /\ (d \in {"block", "list-item", "table", "flex", "grid"} => Blockified(d) = Canon(d))

\* ---- custom properties (mode "custom"): inherited properties whose value is visible on the declaring element and its
\* descendants only. Tree: 1 body > 2 p, 3 p (siblings); 2 > 4 span. `decl`: the nodes that declare --x (each with its own
\* value, named after the node); `order`: the order in which the styles of the four nodes are asked for.
CTree == <<0, 1, 1, 2>>                      \* parent of each node
RECURSIVE Visible(_, _)
Visible(DS, n) == IF n \in DS THEN n ELSE IF CTree[n] = 0 THEN 0 ELSE Visible(DS, CTree[n])      \* 0: the fallback of var()
CustomScn == {[decl |-> DS, order |-> o, want |-> [n \in 1..4 |-> Visible(DS, n)]] :
                 DS \in SUBSET (1..4), o \in {q \in [1..4 -> 1..4] : \A i, j \in 1..4 : i # j => q[i] # q[j]}}
\* a declaration is never visible outside the sub-tree of its element
Scoped == Mode = "custom" => \A n \in 1..4 : kinds.want[n] # 0 => (kinds.want[n] = n \/ kinds.want[n] = CTree[n] \/ kinds.want[n] = CTree[CTree[n]])
Init == /\ CASE Mode = "units" -> kinds \in UnitScn /\ inh = TRUE
             [] Mode = "custom" -> kinds \in CustomScn /\ inh = TRUE
             [] Mode = "dependent" -> kinds \in DependentScn /\ inh = TRUE
             [] Mode = "weights" -> kinds \in WeightScn /\ inh = TRUE
             [] OTHER -> kinds \in [Nodes -> Kinds] /\ inh \in BOOLEAN
        /\ cache = [n \in Nodes |-> "?"] /\ phase = IF Mode = "kinds" THEN "get" ELSE "done"

\* nodes whose value is needed (and cached) when n is asked: n and the ancestors it inherits through
RECURSIVE Needs(_, _, _)
Needs(k, i, n) == {n} \cup (IF n > 1 /\ (k[n] = "inherit" \/ (k[n] = "none" /\ i)) THEN Needs(k, i, Parent(n)) ELSE {})

Get(n) == /\ phase = "get" /\ cache[n] = "?"
          /\ cache' = [m \in Nodes |-> IF m \in Needs(kinds, inh, n) /\ cache[m] = "?" THEN Computed(kinds, inh, m) ELSE cache[m]]
          /\ UNCHANGED <<kinds, inh, phase>>
Finish == /\ phase = "get" /\ \A n \in Nodes : cache[n] # "?" /\ phase' = "done" /\ UNCHANGED <<kinds, inh, cache>>
Next == (\E n \in Nodes : Get(n)) \/ Finish
Spec == Init /\ [][Next]_vars

\* whatever the order of the Gets, a cached value is the CSS computed value
OrderIndependent == Mode = "kinds" => \A n \in Nodes : cache[n] # "?" => cache[n] = Computed(kinds, inh, n)
\* every property has a value at every node (totality)
Total == (Mode = "kinds" /\ phase = "done") => \A n \in Nodes : cache[n] \in {"INIT", "EXP"}
\* the absolute unit ratios: 1in = 96px = 72pt = 6pc = 2.54cm (x 100 = 254) = 25.4mm = 101.6q
UnitRatios == /\ Abs381("in") = 96 * Abs381("px") /\ Abs381("in") = 72 * Abs381("pt") /\ Abs381("in") = 6 * Abs381("pc")
              /\ 100 * Abs381("in") = 254 * Abs381("cm") /\ 10 * Abs381("in") = 254 * Abs381("mm") /\ 10 * Abs381("in") = 1016 * Abs381("q")

---------------------------------------------------------------------------
(* Data from the CSS property index (CSS 2.1 Appendix F and the level-3 modules) *)
PinnedInherited == {
  "border-collapse", "border-spacing", "caption-side", "color", "direction", "empty-cells", "font-family",
  "font-feature-settings", "font-kerning", "font-language-override", "font-size", "font-stretch", "font-style",
  "font-variant-alternates", "font-variant-caps", "font-variant-east-asian", "font-variant-ligatures",
  "font-variant-numeric", "font-variant-position", "font-variation-settings", "font-weight", "hyphenate-character",
  "hyphenate-limit-chars", "hyphenate-limit-zone", "hyphens", "image-rendering", "image-resolution", "letter-spacing",
  "line-height", "list-style-image", "list-style-position", "list-style-type", "orphans", "overflow-wrap", "quotes",
  "tab-size", "text-align-all", "text-align-last", "text-indent", "text-transform", "visibility", "white-space", "widows",
  "word-break", "word-spacing" }
PinnedNotInherited == {
  "align-content", "align-items", "align-self", "background-attachment", "background-clip", "background-color",
  "background-image", "background-origin", "background-position", "background-repeat", "background-size",
  "border-bottom-color", "border-bottom-left-radius", "border-bottom-right-radius", "border-bottom-style",
  "border-bottom-width", "border-left-color", "border-left-style", "border-left-width", "border-right-color",
  "border-right-style", "border-right-width", "border-top-color", "border-top-left-radius", "border-top-right-radius",
  "border-top-style", "border-top-width", "border-image-outset", "border-image-repeat", "border-image-slice",
  "border-image-source", "border-image-width", "bottom", "box-decoration-break", "box-sizing", "break-after",
  "break-before", "break-inside", "clear", "clip", "column-count", "column-fill", "column-gap", "column-rule-color",
  "column-rule-style", "column-rule-width", "column-span", "column-width", "content", "counter-increment", "counter-reset",
  "counter-set", "display", "flex-basis", "flex-direction", "flex-grow", "flex-shrink", "flex-wrap", "float",
  "grid-auto-columns", "grid-auto-flow", "grid-auto-rows", "grid-column-end", "grid-column-start", "grid-row-end",
  "grid-row-start", "grid-template-areas", "grid-template-columns", "grid-template-rows", "height", "justify-content",
  "justify-items", "justify-self", "left", "margin-bottom", "margin-left", "margin-right", "margin-top", "max-height",
  "max-width", "min-height", "min-width", "object-fit", "object-position", "opacity", "order", "outline-color",
  "outline-style", "outline-width", "overflow", "padding-bottom", "padding-left", "padding-right", "padding-top",
  "position", "right", "row-gap", "table-layout", "text-overflow", "top", "transform", "transform-origin",
  "unicode-bidi", "vertical-align", "width", "z-index" }
\* initial values as CSS text (a declaration of this text must compute to the same value as `initial`)
PinnedInitial == [
  display |-> "inline", position |-> "static", float |-> "none", clear |-> "none",
  width |-> "auto", height |-> "auto", top |-> "auto", bottom |-> "auto", left |-> "auto", right |-> "auto",
  visibility |-> "visible", overflow |-> "visible", opacity |-> "1",
  direction |-> "ltr", orphans |-> "2", widows |-> "2", order |-> "0", hyphens |-> "manual",
  transform |-> "none" ]
\* (names with a dash cannot be record fields: they are listed as pairs)
PinnedInitialPairs == <<
  <<"margin-top", "0">>, <<"margin-right", "0">>, <<"margin-bottom", "0">>, <<"margin-left", "0">>,
  <<"padding-top", "0">>, <<"padding-right", "0">>, <<"padding-bottom", "0">>, <<"padding-left", "0">>,
  <<"border-top-style", "none">>, <<"border-right-style", "none">>, <<"border-bottom-style", "none">>, <<"border-left-style", "none">>,
  <<"border-top-width", "medium">>, <<"border-left-width", "medium">>, <<"outline-style", "none">>, <<"outline-width", "medium">>,
  <<"max-width", "none">>, <<"max-height", "none">>, <<"z-index", "auto">>, <<"font-size", "medium">>, <<"font-style", "normal">>,
  <<"font-weight", "normal">>, <<"font-stretch", "normal">>, <<"line-height", "normal">>, <<"letter-spacing", "normal">>,
  <<"word-spacing", "normal">>, <<"text-indent", "0">>, <<"text-transform", "none">>, <<"white-space", "normal">>,
  <<"vertical-align", "baseline">>, <<"list-style-type", "disc">>, <<"list-style-position", "outside">>, <<"list-style-image", "none">>,
  <<"table-layout", "auto">>, <<"border-collapse", "separate">>, <<"border-spacing", "0">>, <<"caption-side", "top">>,
  <<"empty-cells", "show">>, <<"box-sizing", "content-box">>, <<"unicode-bidi", "normal">>, <<"background-color", "transparent">>,
  <<"background-image", "none">>, <<"background-repeat", "repeat">>, <<"background-attachment", "scroll">>,
  <<"background-clip", "border-box">>, <<"background-origin", "padding-box">>,
  <<"background-size", "auto">>, <<"counter-reset", "none">>, <<"counter-set", "none">>, <<"flex-direction", "row">>, <<"flex-wrap", "nowrap">>,
  <<"flex-grow", "0">>, <<"flex-shrink", "1">>, <<"flex-basis", "auto">>, <<"column-count", "auto">>, <<"column-width", "auto">>,
  <<"column-gap", "normal">>, <<"break-before", "auto">>, <<"break-after", "auto">>, <<"break-inside", "auto">>,
  <<"overflow-wrap", "normal">>, <<"word-break", "normal">>, <<"tab-size", "8">>, <<"object-fit", "fill">>,
  <<"image-rendering", "auto">>, <<"text-overflow", "clip">>, <<"text-align-last", "auto">>, <<"font-kerning", "auto">>,
  <<"font-variant-caps", "normal">>, <<"font-variant-position", "normal">>, <<"column-fill", "balance">>, <<"column-span", "none">>,
  <<"column-rule-style", "none">>, <<"column-rule-width", "medium">>, <<"box-decoration-break", "slice">>, <<"min-width", "auto">>, <<"min-height", "auto">> >>

\* absolute length units in 1/381 px (1in = 96px = 72pt = 6pc = 2.54cm = 25.4mm = 101.6q)
Unit381 == [px |-> 381, pt |-> 508, pc |-> 6096, cm |-> 14400, mm |-> 1440, q |-> 360]
UnitIn381 == 36576

EmitScn == phase = "done" =>
  IF Mode = "units" THEN PrintT(ToJson([mode |-> "units", scn |-> kinds, fs381 |-> LeafFs(kinds), mid381 |-> MidFs(kinds), root381 |-> RootFs(kinds),
                                           want381 |-> Width381(kinds),
                                           \* the same declaration matched by the middle element computes against ITS font size
                                           wantmid381 |-> CASE kinds.unit = "em" -> kinds.n * MidFs(kinds) [] kinds.unit = "rem" -> kinds.n * RootFs(kinds)
                                                            [] kinds.unit \in {"ex", "ch"} -> (kinds.n * MidFs(kinds) * FontRatio(kinds.unit)) \div 1000
                                                            [] OTHER -> kinds.n * Abs381(kinds.unit),
                                           \* the same declaration on the ROOT element: em and rem refer to the root's own computed font size (only in the
                                           \* font-size property of the root do they refer to the initial value)
                                           wantroot381 |-> CASE kinds.unit \in {"em", "rem"} -> kinds.n * RootFs(kinds)
                                                            [] kinds.unit \in {"ex", "ch"} -> (kinds.n * RootFs(kinds) * FontRatio(kinds.unit)) \div 1000
                                                            [] OTHER -> kinds.n * Abs381(kinds.unit),
                                           wantpre381 |-> IF kinds.pre = "none" THEN 0 ELSE (2 * LeafFs(kinds) * FontRatio(kinds.pre)) \div 1000,
                                           \* line-height: 150% on the middle element is absolute: the leaf inherits the length, not the percentage
                                           lh381 |-> (3 * MidFs(kinds)) \div 2]))
  ELSE IF Mode = "weights" THEN PrintT(ToJson([mode |-> "weights", scn |-> kinds, weight |-> LeafWeight(kinds)]))
  ELSE IF Mode = "dependent" THEN PrintT(ToJson([mode |-> "dependent", dep |-> kinds]))
  ELSE IF Mode = "custom" THEN PrintT(ToJson([mode |-> "custom", custom |-> [decl |-> [n \in 1..4 |-> n \in kinds.decl], order |-> kinds.order, want |-> kinds.want]]))
  ELSE PrintT(ToJson([mode |-> "kinds", kinds |-> kinds, inh |-> inh, want |-> [n \in Nodes |-> Computed(kinds, inh, n)]]))
\* the CSS property index data, printed once
EmitMeta == (Mode = "kinds" /\ phase = "done" /\ ~inh /\ \A n \in Nodes : kinds[n] = "none") =>
  PrintT(ToJson([mode |-> "meta", inherited |-> PinnedInherited, notinherited |-> PinnedNotInherited,
                 initial |-> PinnedInitial, initialpairs |-> PinnedInitialPairs]))
=============================================================================
