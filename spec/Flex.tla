-------------------------------- MODULE Flex --------------------------------
(***************************************************************************)
(* Extra coverage (not one of the listed properties): "resolving flexible  *)
(* lengths" of a single-line row flex container (CSS Flexbox 1, 9.7), in   *)
(* units of 1/1000 px.                                                     *)
(*                                                                         *)
(* An item is [b, g, s, mn, mx]: flex base size, grow and shrink factors,  *)
(* min and max main size (px). The algorithm is the transition system of   *)
(* the specification: SizeInflexible freezes the items that cannot flex,   *)
(* then every Round distributes the remaining free space among the         *)
(* unfrozen items in proportion to their factors, clamps, and freezes the  *)
(* items that violate their min (total violation > 0) or max (< 0), or     *)
(* all of them (= 0). Invariants: every frozen size respects min / max; a  *)
(* round freezes at least one item (so at most Len(items) rounds);         *)
(* Exact: when nothing was clamped the items fill the container (up to     *)
(* rounding); liveness Terminates. The terminal states carry the sizes.    *)
(***************************************************************************)
EXTENDS Integers, Sequences, FiniteSets, TLC, Json

CONSTANTS MaxItems

VARIABLES items, C, target, frozen, rounds, phase
vars == <<items, C, target, frozen, rounds, phase>>

U == 1000                        \* units per px
Inf == 100000
Item == [b : {10, 30}, g : {0, 1, 2}, s : {0, 1, 2}, mn : {0, 20}, mx : {25, Inf}]
Containers == {40, 90}

N == Len(items)
I == 1..N
Clamp(v, i) == LET lo == items[i].mn * U  hi == items[i].mx * U IN IF v < lo THEN lo ELSE IF v > hi THEN hi ELSE v
Hyp(i) == Clamp(items[i].b * U, i)
RECURSIVE SumF(_, _)
SumF(S, f) == IF S = {} THEN 0 ELSE LET x == CHOOSE x \in S : TRUE IN f[x] + SumF(S \ {x}, f)
HypF == [i \in I |-> Hyp(i)]
Growing == SumF(I, HypF) < C * U
Factor(i) == IF Growing THEN items[i].g ELSE items[i].s
Base(i) == items[i].b * U

InitBuild == /\ items = <<>> /\ C \in Containers /\ target = <<>> /\ frozen = {} /\ rounds = 0 /\ phase = "build"
AddItem == /\ phase = "build" /\ Len(items) < MaxItems /\ \E it \in Item : items' = Append(items, it)
           /\ UNCHANGED <<C, target, frozen, rounds, phase>>
\* 9.7 step 2: size the inflexible items
SizeInflexible ==
  /\ phase = "build" /\ items # <<>>
  /\ frozen' = {i \in I : Factor(i) = 0 \/ (Growing /\ Base(i) > Hyp(i)) \/ (~Growing /\ Base(i) < Hyp(i))}
  /\ target' = [i \in I |-> Hyp(i)]
  /\ phase' = "loop" /\ UNCHANGED <<items, C, rounds>>
\* 9.7 step 4: one round of the loop
Unfrozen == I \ frozen
BaseF == [i \in I |-> Base(i)]
FactorF == [i \in I |-> Factor(i)]
Free == C * U - SumF(frozen, target) - SumF(Unfrozen, BaseF)
ScaledShrink(i) == items[i].s * items[i].b
ScaledF == [i \in I |-> ScaledShrink(i)]
Distributed(i) ==
  IF Free = 0 THEN Base(i)
  ELSE IF Growing THEN Base(i) + (Free * items[i].g) \div SumF(Unfrozen, FactorF)
  ELSE IF SumF(Unfrozen, ScaledF) = 0 THEN Base(i)
  ELSE Base(i) - ((0 - Free) * ScaledShrink(i)) \div SumF(Unfrozen, ScaledF)
Round ==
  /\ phase = "loop" /\ Unfrozen # {}
  /\ LET dist == [i \in I |-> IF i \in frozen THEN target[i] ELSE Distributed(i)]
         cl == [i \in I |-> IF i \in frozen THEN target[i] ELSE Clamp(dist[i], i)]
         viol == [i \in I |-> cl[i] - dist[i]]
         total == SumF(Unfrozen, viol)
         freeze == IF total = 0 THEN Unfrozen ELSE IF total > 0 THEN {i \in Unfrozen : viol[i] > 0} ELSE {i \in Unfrozen : viol[i] < 0} IN
       /\ target' = cl /\ frozen' = frozen \cup freeze
  /\ rounds' = rounds + 1 /\ UNCHANGED <<items, C, phase>>
Finish == /\ phase = "loop" /\ Unfrozen = {} /\ phase' = "done" /\ UNCHANGED <<items, C, target, frozen, rounds>>
Next == AddItem \/ SizeInflexible \/ Round \/ Finish
Spec == InitBuild /\ [][Next]_vars /\ WF_vars(Next)

----------------------------------------------------------------------------
WithinMinMax == phase = "done" => \A i \in I : target[i] >= items[i].mn * U /\ target[i] <= items[i].mx * U
\* every round freezes at least one item
RoundsBounded == rounds <= N
\* when no item ends on its min or max and something can flex, the items fill the container (integer division loses < 1 unit per item)
Exact == (phase = "done" /\ (\A i \in I : target[i] # items[i].mn * U /\ target[i] # items[i].mx * U) /\ (\E i \in I : Factor(i) > 0) /\ (Growing \/ (\A i \in I : Factor(i) > 0)))
         => (C * U - SumF(I, target) >= 0 - N /\ C * U - SumF(I, target) <= N)
Terminates == <>(phase = "done")
Emit == phase = "done" => PrintT(ToJson([items |-> items, C |-> C, sizes |-> target, rounds |-> rounds]))
=============================================================================
