------------------------------ MODULE Stacking ------------------------------
(***************************************************************************)
(* CSS 2.1 Appendix E (elaborate description of stacking contexts): the    *)
(* order in which the boxes of a document are painted (C16).               *)
(*                                                                         *)
(* A document is a pre-order sequence of nodes                             *)
(*   [parent, kind, pos, z, opac, clip, mirror]                            *)
(* kind: "block" | "inline" | "iblock" | "float";  pos: "static" |         *)
(* "relative" | "absolute";  z: an integer or Auto;  opac: opacity < 1;    *)
(* clip: overflow: hidden. Every node has a background of its own colour   *)
(* and one word of text placed before its children.                        *)
(*                                                                         *)
(* The painter is a transition system over a stack of tasks (as the        *)
(* recursive drawStackingContext of html/document/draw.go unrolled): a     *)
(* task is either an event to emit or a (pseudo) stacking context to       *)
(* expand into its seven layers. The declarative operator Order(f, c) is   *)
(* the same order written recursively; the invariant Agree shows that the  *)
(* machine emits exactly Order(FALSE, 0). The flag f names a deliberate    *)
(* deviation of the implementation: with f = TRUE a box with overflow      *)
(* other than visible is a stacking context (CSS 2.1 does not make it one).*)
(***************************************************************************)
EXTENDS Integers, Sequences, FiniteSets, TLC, Json

CONSTANTS MaxNodes, ZMode, Rich, \* Rich: opacity and overflow flags, absolute positioning; ZMode: "small" | "full"
          Wide                   \* TRUE: many sibling stacking contexts (all children of the root, positioned, few z values): ties in tree order
Zs == IF ZMode = "small" THEN {-1, 1} ELSE {-1, 0, 1, 2}

Auto == 99
VARIABLES nodes, stack, out, phase
vars == <<nodes, stack, out, phase>>

\* "flex": a flex container without element children (Rich families): a block-level box of its parent whose text is an
\* anonymous flex item. (The painting of flex items - like inline-blocks, CSS Flexbox 4.3 - is not modelled: the implementation
\* paints them like blocks, as WeasyPrint does.)
Kinds == IF Rich THEN {"block", "inline", "iblock", "float", "flex"} ELSE {"block", "inline", "iblock", "float"}
Poss == IF Rich THEN {"static", "relative", "absolute"} ELSE {"static", "relative"}
\* mirror: the box declares a transform (a reflection: negative determinant), which creates a stacking context and applies
\* to its whole sub-tree (at most one of opac / mirror per box)
Node(n) == IF Wide THEN [parent : {0}, kind : {"block"}, pos : {"relative"}, z : {1, 2}, opac : {FALSE}, clip : {FALSE}, mirror : {FALSE}]
           ELSE {x \in [parent : 0..(n - 1), kind : Kinds, pos : Poss, z : Zs \cup {Auto}, opac : (IF Rich THEN BOOLEAN ELSE {FALSE}), clip : (IF Rich THEN BOOLEAN ELSE {FALSE}),
                         mirror : (IF Rich THEN BOOLEAN ELSE {FALSE})] : ~(x.opac /\ x.mirror)}
N == Len(nodes)
Par(i) == nodes[i].parent
Kind(i) == IF i = 0 THEN "block" ELSE IF nodes[i].kind = "flex" THEN "block" ELSE nodes[i].kind
Positioned(i) == i # 0 /\ nodes[i].pos # "static"
\* a real stacking context: the root, positioned with an integer z-index, opacity < 1, or a transform
Creates(f, i) == i = 0 \/ (Positioned(i) /\ nodes[i].z # Auto) \/ nodes[i].opac \/ nodes[i].mirror \/ (f /\ nodes[i].clip)
\* painted atomically "as if" it were a stacking context, but its positioned / context-creating descendants belong to the
\* nearest real context: positioned with z-index auto, floats, inline-blocks
Pseudo(f, i) == i # 0 /\ ~Creates(f, i) /\ (Positioned(i) \/ Kind(i) \in {"float", "iblock"})
Plain(f, i) == i # 0 /\ ~Creates(f, i) /\ ~Pseudo(f, i)
ZOf(f, i) == IF Positioned(i) /\ nodes[i].z # Auto THEN nodes[i].z ELSE 0
RECURSIVE RealCtx(_, _)
RealCtx(f, i) == IF Creates(f, Par(i)) THEN Par(i) ELSE RealCtx(f, Par(i))
RECURSIVE IsAnc(_, _)
IsAnc(a, d) == d # 0 /\ (Par(d) = a \/ IsAnc(a, Par(d)))
\* every node strictly between c and d is plain
RECURSIVE PlainPath(_, _, _)
PlainPath(f, c, d) == Par(d) = c \/ (Par(d) # 0 /\ Plain(f, Par(d)) /\ IsAnc(c, Par(d)) /\ PlainPath(f, c, Par(d)))

Ev(e, i) == [e |-> e, n |-> i]
\* pre-order list of the nodes of a set
RECURSIVE Sorted(_, _)
Sorted(S, from) == IF from > N THEN <<>> ELSE (IF from \in S THEN <<from>> ELSE <<>>) \o Sorted(S, from + 1)
\* by (z, pre-order)
RECURSIVE ByZ(_, _, _)
ByZ(f, S, zs) == IF zs = <<>> THEN <<>> ELSE Sorted({d \in S : ZOf(f, d) = Head(zs)}, 1) \o ByZ(f, S, Tail(zs))
ZNeg == <<-2, -1>>
ZPos == <<1, 2, 3>>

\* the layers of the (pseudo) context c, as sequences of node numbers
Ctxs(f, c) == IF Creates(f, c) THEN {d \in 1..N : IsAnc(c, d) /\ RealCtx(f, d) = c /\ Creates(f, d)} ELSE {}
Autos(f, c) == IF Creates(f, c) THEN {d \in 1..N : IsAnc(c, d) /\ RealCtx(f, d) = c /\ Pseudo(f, d) /\ Positioned(d)} ELSE {}
Blocks(f, c) == Sorted({d \in 1..N : IsAnc(c, d) /\ PlainPath(f, c, d) /\ Plain(f, d) /\ Kind(d) = "block"}, 1)
FloatsOf(f, c) == Sorted({d \in 1..N : IsAnc(c, d) /\ PlainPath(f, c, d) /\ Pseudo(f, d) /\ ~Positioned(d) /\ Kind(d) = "float"}, 1)
Children(d) == Sorted({k \in 1..N : Par(k) = d}, 1)

\* ---- the declarative order
RECURSIVE Order(_, _), OrderSeq(_, _), InlineOf(_, _), InlineKids(_, _), BgSeq(_)
OrderSeq(f, s) == IF s = <<>> THEN <<>> ELSE Order(f, Head(s)) \o OrderSeq(f, Tail(s))
BgSeq(s) == IF s = <<>> THEN <<>> ELSE <<Ev("bg", Head(s))>> \o BgSeq(Tail(s))
\* the inline content of block container d: its own text, then its children in order
InlineKids(f, s) ==
  IF s = <<>> THEN <<>>
  ELSE LET k == Head(s) IN
       (IF Plain(f, k) /\ Kind(k) = "inline" THEN <<Ev("bg", k)>> \o InlineOf(f, k)
        ELSE IF Pseudo(f, k) /\ ~Positioned(k) /\ Kind(k) = "iblock" THEN Order(f, k)
        ELSE IF Plain(f, k) /\ Kind(k) = "block" THEN InlineOf(f, k)
        ELSE <<>>) \o InlineKids(f, Tail(s))
InlineOf(f, d) == (IF d = 0 THEN <<>> ELSE <<Ev("text", d)>>) \o InlineKids(f, Children(d))
Order(f, c) ==
     (IF c = 0 THEN <<>> ELSE <<Ev("bg", c)>>)
  \o OrderSeq(f, ByZ(f, Ctxs(f, c), ZNeg))
  \o BgSeq(Blocks(f, c))
  \o OrderSeq(f, FloatsOf(f, c))
  \o InlineOf(f, c)
  \o OrderSeq(f, Sorted({d \in Ctxs(f, c) : ZOf(f, d) = 0} \cup Autos(f, c), 1))
  \o OrderSeq(f, ByZ(f, Ctxs(f, c), ZPos))

\* ---- building the document
InitBuild == nodes = <<>> /\ stack = <<>> /\ out = <<>> /\ phase = "build"
RECURSIVE Anc(_, _)
Anc(d, i) == IF i = 0 THEN {0} ELSE {i} \cup Anc(d, d[i].parent)
AddNode == /\ phase = "build" /\ Len(nodes) < MaxNodes
           /\ \E x \in Node(Len(nodes) + 1) :
                 /\ x.parent \in (IF nodes = <<>> THEN {0} ELSE Anc(nodes, Len(nodes)))
                 /\ (x.parent # 0 /\ nodes[x.parent].kind = "inline" => x.kind = "inline")       \* no block inside inline
                 /\ (x.parent # 0 => nodes[x.parent].kind # "flex")                               \* flex containers hold text only
                 /\ (x.kind = "inline" => x.pos = "static" /\ ~x.opac /\ ~x.clip /\ ~x.mirror)                \* inline boxes are plain
                 /\ (x.pos = "static" => x.z = Auto)                                             \* z-index only applies to positioned boxes
                 /\ ~(x.kind = "float" /\ x.pos = "absolute")                                    \* (float computes to none)
                 /\ nodes' = Append(nodes, x)
           /\ UNCHANGED <<stack, out, phase>>
EndBuild == /\ phase = "build" /\ nodes # <<>> /\ (Wide => Len(nodes) = MaxNodes) /\ phase' = "paint" /\ stack' = <<[t |-> "ctx", n |-> 0]>> /\ UNCHANGED <<nodes, out>>

\* ---- the painter: a stack machine (top of the stack = Head)
Task(t, i) == [t |-> t, n |-> i]
RECURSIVE Tasks(_, _)
Tasks(t, s) == IF s = <<>> THEN <<>> ELSE <<Task(t, Head(s))>> \o Tasks(t, Tail(s))
\* the tasks that paint the inline content of d
RECURSIVE InlineTasks(_, _)
InlineTasks(f, s) ==
  IF s = <<>> THEN <<>>
  ELSE LET k == Head(s) IN
       (IF Plain(f, k) /\ Kind(k) = "inline" THEN <<Task("bg", k), Task("inline", k)>>
        ELSE IF Pseudo(f, k) /\ ~Positioned(k) /\ Kind(k) = "iblock" THEN <<Task("ctx", k)>>
        ELSE IF Plain(f, k) /\ Kind(k) = "block" THEN <<Task("inline", k)>>
        ELSE <<>>) \o InlineTasks(f, Tail(s))
Emit1 == /\ phase = "paint" /\ stack # <<>> /\ Head(stack).t \in {"bg", "text"}
         /\ out' = Append(out, Ev(Head(stack).t, Head(stack).n)) /\ stack' = Tail(stack) /\ UNCHANGED <<nodes, phase>>
ExpandInline == /\ phase = "paint" /\ stack # <<>> /\ Head(stack).t = "inline"
                /\ LET d == Head(stack).n IN
                   stack' = (IF d = 0 THEN <<>> ELSE <<Task("text", d)>>) \o InlineTasks(FALSE, Children(d)) \o Tail(stack)
                /\ UNCHANGED <<nodes, out, phase>>
ExpandCtx == /\ phase = "paint" /\ stack # <<>> /\ Head(stack).t = "ctx"
             /\ LET c == Head(stack).n IN
                stack' = (IF c = 0 THEN <<>> ELSE <<Task("bg", c)>>)
                         \o Tasks("ctx", ByZ(FALSE, Ctxs(FALSE, c), ZNeg))
                         \o Tasks("bg", Blocks(FALSE, c))
                         \o Tasks("ctx", FloatsOf(FALSE, c))
                         \o <<Task("inline", c)>>
                         \o Tasks("ctx", Sorted({d \in Ctxs(FALSE, c) : ZOf(FALSE, d) = 0} \cup Autos(FALSE, c), 1))
                         \o Tasks("ctx", ByZ(FALSE, Ctxs(FALSE, c), ZPos))
                         \o Tail(stack)
             /\ UNCHANGED <<nodes, out, phase>>
Done == /\ phase = "paint" /\ stack = <<>> /\ phase' = "done" /\ UNCHANGED <<nodes, stack, out>>
Next == AddNode \/ EndBuild \/ Emit1 \/ ExpandInline \/ ExpandCtx \/ Done
Spec == InitBuild /\ [][Next]_vars /\ WF_vars(Emit1 \/ ExpandInline \/ ExpandCtx \/ Done)

\* ---- properties
\* the machine emits the declarative order
Agree == phase = "done" => out = Order(FALSE, 0)
\* every node's background and text are painted exactly once
Once == phase = "done" => \A i \in 1..N : Cardinality({q \in 1..Len(out) : out[q] = Ev("bg", i)}) = 1 /\ Cardinality({q \in 1..Len(out) : out[q] = Ev("text", i)}) = 1
\* a box's background precedes its own text
BgFirst == phase = "done" => \A i \in 1..N : \A p, q \in 1..Len(out) : (out[p] = Ev("bg", i) /\ out[q] = Ev("text", i)) => p < q
\* within one real context: negative contexts before the text of plain boxes, positive contexts after everything of z <= 0
Pos(e) == CHOOSE q \in 1..Len(out) : out[q] = e
Layering == phase = "done" => \A a, b \in 1..N :
   (Creates(FALSE, a) /\ Creates(FALSE, b) /\ RealCtx(FALSE, a) = RealCtx(FALSE, b) /\ ZOf(FALSE, a) < ZOf(FALSE, b)) => Pos(Ev("bg", a)) < Pos(Ev("bg", b))
\* a stacking context is atomic: nothing outside its sub-tree is painted between its first and its last event
Atomic == phase = "done" => \A c \in 1..N : Creates(FALSE, c) =>
   LET mine == {q \in 1..Len(out) : out[q].n = c \/ IsAnc(c, out[q].n)} IN
   \A q \in 1..Len(out) : (\E a, b \in mine : a < q /\ q < b) => q \in mine
Terminates == (phase = "paint") ~> (phase = "done")

\* overflow: the boxes whose overflow clip must be in force while the content of i is painted: its ancestors with
\* overflow: hidden, except those that an absolutely positioned box on the way escapes (its containing block is further up)
Escapes(a, i) == nodes[a].pos = "static" /\ \E k \in 1..N : (k = i \/ IsAnc(k, i)) /\ IsAnc(a, k) /\ nodes[k].pos = "absolute"
ClipAnc(i) == {a \in 1..N : IsAnc(a, i) /\ nodes[a].clip /\ ~Escapes(a, i)}
EmitScn == phase = "done" => PrintT(ToJson([nodes |-> nodes, order |-> out, impl |-> Order(TRUE, 0), clips |-> [i \in 1..N |-> ClipAnc(i)],
                                                 \* the content of a box is also clipped by the box itself
                                                 textclips |-> [i \in 1..N |-> ClipAnc(i) \cup (IF nodes[i].clip THEN {i} ELSE {})]]))
=============================================================================
