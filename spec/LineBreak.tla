------------------------------ MODULE LineBreak ------------------------------
(***************************************************************************)
(* CSS 2.1 section 9.4.2 / 16 and CSS Text 3: filling line boxes.          *)
(*                                                                         *)
(* All widths are in em of a font whose every glyph (and the space) is     *)
(* exactly 1 em wide. A paragraph is a sequence of words (lengths) in a    *)
(* block of content width W; an optional inline box with horizontal        *)
(* padding wraps the words from..to.                                       *)
(*                                                                         *)
(* The line filler is a transition system: `line` accumulates words,       *)
(* action Place adds the next word when it fits (or the line is empty),    *)
(* action Break closes the line otherwise (greedy), a forced break closes  *)
(* it after a marked word (pre-line); PlacePart cuts a word that does not  *)
(* fit on a line of its own (overflow-wrap: break-word).                   *)
(***************************************************************************)
EXTENDS Integers, Sequences, FiniteSets, TLC, Json

CONSTANTS MaxWords, MaxW

VARIABLES scn, i, off, line, lines, phase
vars == <<scn, i, off, line, lines, phase>>

Aligns == {"left", "right", "center", "justify"}
WordSeqs == UNION {[1..m -> 1..3] : m \in 1..MaxWords}
\* ws: "normal" | "nowrap" | "pre-line" (a line feed after word `nl`)
\* span: 0 = no inline box, otherwise the inline box wraps words 2..span, with `pad` em of `edge` (padding, margin or
\*       border) on each side
\* last: text-align-last ("auto" or "right"); ow: overflow-wrap: break-word
\* gk, gc: an inline box without padding starts INSIDE word gk, after its first gc characters (and ends with the word): the
\*       boundary of an inline box is not a break opportunity, so the lines are those of the plain paragraph
Base == [words |-> <<1>>, W |-> 1, align |-> "left", indent |-> 0, ws |-> "normal", nl |-> 0, span |-> 0, pad |-> 0,
         edge |-> "padding", last |-> "auto", ow |-> FALSE, gk |-> 0, gc |-> 0]
\* (Init enumerates the four families directly; building their union as one set is slow in TLC)
ScnInit(v) ==
  \/ \E w \in WordSeqs, cw \in 1..MaxW, a \in Aligns, ind \in {0, 2} :
        v = [Base EXCEPT !.words = w, !.W = cw, !.align = a, !.indent = ind]
  \/ \E w \in WordSeqs, cw \in {3, 6}, ws \in {"nowrap", "pre-line"}, nl \in 1..2, a \in {"left", "justify"}, la \in {"auto", "right"} :
        v = [Base EXCEPT !.words = w, !.W = cw, !.ws = ws, !.nl = nl, !.align = a, !.last = la]
  \/ \E w \in {x \in WordSeqs : Len(x) >= 2}, cw \in 2..MaxW, a \in {"left", "right"}, sp \in 2..MaxWords, e \in {"padding", "margin", "border"} :
        v = [Base EXCEPT !.words = w, !.W = cw, !.align = a, !.span = sp, !.pad = 1, !.edge = e]
  \/ \E w \in WordSeqs, cw \in 1..MaxW, sp \in {0} \cup 2..MaxWords :
        v = [Base EXCEPT !.words = w, !.W = cw, !.span = sp, !.ow = TRUE]
  \/ \E w \in {x \in WordSeqs : Len(x) >= 2}, cw \in 2..MaxW, ws \in {"normal", "pre-line"}, nl \in 0..1 :
        \E k \in 2..Len(w) : \E c \in 1..(w[k] - 1) :
        /\ (ws = "normal") = (nl = 0)
        /\ v = [Base EXCEPT !.words = w, !.W = cw, !.ws = ws, !.nl = nl, !.gk = k, !.gc = c]

N(s) == Len(s.words)
HasSpan(s) == s.span >= 2 /\ s.span <= N(s)
\* a line is a sequence of items [k, from, to]: the characters from..to of word k
Whole(s, k) == [k |-> k, from |-> 1, to |-> s.words[k]]
\* extra width carried by an item: the edge of the inline box before its first / after its last character
Before(s, it) == IF HasSpan(s) /\ it.k = 2 /\ it.from = 1 THEN s.pad ELSE 0
After(s, it)  == IF HasSpan(s) /\ it.k = s.span /\ it.to = s.words[it.k] THEN s.pad ELSE 0
ItemW(s, it) == Before(s, it) + (it.to - it.from + 1) + After(s, it)
RECURSIVE SumW(_, _)
SumW(s, its) == IF its = <<>> THEN 0 ELSE ItemW(s, Head(its)) + SumW(s, Tail(its))
\* width of a line: items, inline-box edges and single spaces between words
LineW(s, its) == IF its = <<>> THEN 0 ELSE SumW(s, its) + Len(its) - 1
Avail(s, nlines) == IF nlines = 0 THEN s.W - s.indent ELSE s.W

Init == /\ ScnInit(scn) /\ i = 1 /\ off = 0 /\ line = <<>> /\ lines = <<>> /\ phase = "fill"

Rest == [k |-> i, from |-> off + 1, to |-> scn.words[i]]      \* what remains of word i
Fits == line = <<>> \/ scn.ws = "nowrap" \/ LineW(scn, Append(line, Rest)) <= Avail(scn, Len(lines))
AfterFeed == scn.ws = "pre-line" /\ line # <<>> /\ line[Len(line)].k = scn.nl
\* overflow-wrap: break-word — ONLY a word that does not fit on a line of its own is cut, at the end of that line
Cut == /\ scn.ow /\ scn.ws # "nowrap" /\ line = <<>> /\ ItemW(scn, Rest) > Avail(scn, Len(lines))
\* the next word goes on the current line if it fits, or if the line is empty (an unbreakable unit may overflow)
Place == /\ phase = "fill" /\ i <= N(scn) /\ Fits /\ ~AfterFeed /\ ~Cut
         /\ line' = Append(line, Rest) /\ i' = i + 1 /\ off' = 0 /\ UNCHANGED <<scn, lines, phase>>
PlacePart == /\ phase = "fill" /\ i <= N(scn) /\ Cut
             /\ LET av == Avail(scn, Len(lines)) - Before(scn, Rest)
                    c == IF av < 1 THEN 1 ELSE av IN
                /\ lines' = Append(lines, [ps |-> <<[k |-> i, from |-> off + 1, to |-> off + c]>>, forced |-> FALSE])
                /\ off' = off + c
             /\ UNCHANGED <<scn, i, line, phase>>
\* otherwise the line is closed (never earlier: greedy)
Break == /\ phase = "fill" /\ i <= N(scn) /\ line # <<>>
         /\ (~Fits \/ AfterFeed)
         /\ lines' = Append(lines, [ps |-> line, forced |-> AfterFeed]) /\ line' = <<>> /\ UNCHANGED <<scn, i, off, phase>>
Finish == /\ phase = "fill" /\ i > N(scn)
          /\ lines' = IF line = <<>> THEN lines ELSE Append(lines, [ps |-> line, forced |-> TRUE])
          /\ line' = <<>> /\ phase' = "done" /\ UNCHANGED <<scn, i, off>>
Next == Place \/ PlacePart \/ Break \/ Finish
Spec == Init /\ [][Next]_vars /\ WF_vars(Next)

\* properties of the result -------------------------------------------------
\* every character of every word is placed exactly once, in order (conservation)
Flat == LET RECURSIVE Cat(_)
            Cat(ls) == IF ls = <<>> THEN <<>> ELSE Head(ls).ps \o Cat(Tail(ls)) IN Cat(lines)
Conservation == phase = "done" =>
   /\ \A q \in 1..Len(Flat) : Flat[q].from <= Flat[q].to
   /\ \A q \in 1..Len(Flat) - 1 : \/ (Flat[q].to = scn.words[Flat[q].k] /\ Flat[q + 1].k = Flat[q].k + 1 /\ Flat[q + 1].from = 1)
                                     \/ (Flat[q + 1].k = Flat[q].k /\ Flat[q + 1].from = Flat[q].to + 1)
   /\ Flat # <<>> /\ Flat[1].k = 1 /\ Flat[1].from = 1 /\ Flat[Len(Flat)].k = N(scn) /\ Flat[Len(Flat)].to = scn.words[N(scn)]
\* a line never exceeds the available width unless it holds a single unbreakable unit (or wrapping is off)
FitsWidth == phase = "done" => \A j \in 1..Len(lines) :
   scn.ws = "nowrap" \/ (Len(lines[j].ps) = 1 /\ (~scn.ow \/ lines[j].ps[1].to = lines[j].ps[1].from)) \/ LineW(scn, lines[j].ps) <= Avail(scn, j - 1)
\* a word is cut only when it does not fit on a line of its own
CutOnlyIfNeeded == phase = "done" => \A q \in 1..Len(Flat) :
   (Flat[q].from > 1 \/ Flat[q].to < scn.words[Flat[q].k]) => (scn.ow /\ \E j \in 0..1 : ItemW(scn, Whole(scn, Flat[q].k)) > Avail(scn, j))
\* greedy: a line that was not ended by a forced break could not have taken the first unit of the next line
Greedy == phase = "done" => \A j \in 1..Len(lines) - 1 :
   LET nx == lines[j + 1].ps[1] IN
   \/ lines[j].forced
   \/ nx.from > 1 /\ LineW(scn, lines[j].ps) + 1 > Avail(scn, j - 1)
   \/ nx.from = 1 /\ LineW(scn, Append(lines[j].ps, Whole(scn, nx.k))) > Avail(scn, j - 1)
Terminates == <>(phase = "done")

\* geometry of line j (1-based), in em: [x of the first glyph (in half em), width of the content]
LastLine(j) == j = Len(lines) \/ lines[j].forced
Geometry(j) ==
  LET ps == lines[j].ps  lw == LineW(scn, ps)  av == Avail(scn, j - 1)  ind == IF j = 1 THEN scn.indent ELSE 0
      free == IF av > lw THEN av - lw ELSE 0
      al == IF LastLine(j) THEN (IF scn.last # "auto" THEN scn.last ELSE IF scn.align = "justify" THEN "left" ELSE scn.align)
            ELSE scn.align IN
  CASE al = "right"  -> [x2 |-> 2 * (ind + free), w |-> lw]
    [] al = "center" -> [x2 |-> 2 * ind + free, w |-> lw]
    [] al = "justify" /\ Len(ps) > 1 -> [x2 |-> 2 * ind, w |-> IF av > lw THEN av ELSE lw]
    [] OTHER -> [x2 |-> 2 * ind, w |-> lw]

Emit == phase = "done" => PrintT(ToJson([scn |-> scn, lines |-> [j \in 1..Len(lines) |-> [ps |-> lines[j].ps, g |-> Geometry(j)]]]))
=============================================================================
