------------------------------ MODULE LineBreak ------------------------------
(***************************************************************************)
(* CSS 2.1 section 9.4.2 / 16 and CSS Text 3: filling line boxes.          *)
(*                                                                         *)
(* All widths are in em of a font whose every glyph (and the space) is     *)
(* exactly 1 em wide. A paragraph is a sequence of words (lengths) in a    *)
(* block of content width W; an optional inline box with horizontal        *)
(* padding wraps the words from..to.                                       *)
(*                                                                         *)
(* The line filler is a transition system: `line` accumulates words,       *)
(* action Place adds the next word when it fits (or the line is empty),    *)
(* action Break closes the line otherwise (greedy), a forced break closes  *)
(* it after a marked word (pre-line).                                      *)
(***************************************************************************)
EXTENDS Integers, Sequences, FiniteSets, TLC, Json

CONSTANTS MaxWords, MaxW

VARIABLES scn, i, line, lines, phase
vars == <<scn, i, line, lines, phase>>

Aligns == {"left", "right", "center", "justify"}
WordSeqs == UNION {[1..m -> 1..3] : m \in 1..MaxWords}
\* ws: "normal" | "nowrap" | "pre-line" (a line feed after word `nl`)
\* span: 0 = no inline box, otherwise the inline box wraps words 2..span with `pad` em of padding on each side
Scn == {[words |-> w, W |-> cw, align |-> a, indent |-> ind, ws |-> ws, nl |-> nl, span |-> sp, pad |-> pd] :
          w \in WordSeqs, cw \in 1..MaxW, a \in Aligns, ind \in {0, 2}, ws \in {"normal"}, nl \in {0}, sp \in {0}, pd \in {0}}
       \cup {[words |-> w, W |-> cw, align |-> "left", indent |-> 0, ws |-> ws, nl |-> nl, span |-> 0, pad |-> 0] :
          w \in WordSeqs, cw \in {3, 6}, ws \in {"nowrap", "pre-line"}, nl \in 1..2}
       \cup {[words |-> w, W |-> cw, align |-> a, indent |-> 0, ws |-> "normal", nl |-> 0, span |-> sp, pad |-> 1] :
          w \in {x \in WordSeqs : Len(x) >= 2}, cw \in 2..MaxW, a \in {"left", "right"}, sp \in 2..MaxWords}

N(s) == Len(s.words)
\* extra width carried by word k: the padding of the inline box at its first / last word
Before(s, k) == IF s.span >= 2 /\ s.span <= N(s) /\ k = 2 THEN s.pad ELSE 0
After(s, k)  == IF s.span >= 2 /\ s.span <= N(s) /\ k = s.span THEN s.pad ELSE 0
WordW(s, k) == Before(s, k) + s.words[k] + After(s, k)
RECURSIVE SumW(_, _)
SumW(s, ks) == IF ks = <<>> THEN 0 ELSE WordW(s, Head(ks)) + SumW(s, Tail(ks))
\* width of a line holding the words ks: words, inline-box paddings and single spaces between words
LineW(s, ks) == IF ks = <<>> THEN 0 ELSE SumW(s, ks) + Len(ks) - 1
Avail(s, nlines) == IF nlines = 0 THEN s.W - s.indent ELSE s.W

Init == /\ scn \in Scn /\ i = 1 /\ line = <<>> /\ lines = <<>> /\ phase = "fill"

Fits == line = <<>> \/ scn.ws = "nowrap" \/ LineW(scn, Append(line, i)) <= Avail(scn, Len(lines))
\* the next word goes on the current line if it fits, or if the line is empty (an unbreakable unit may overflow)
Place == /\ phase = "fill" /\ i <= N(scn) /\ Fits
         /\ ~(scn.ws = "pre-line" /\ line # <<>> /\ line[Len(line)] = scn.nl)
         /\ line' = Append(line, i) /\ i' = i + 1 /\ UNCHANGED <<scn, lines, phase>>
\* otherwise the line is closed (never earlier: greedy)
Break == /\ phase = "fill" /\ i <= N(scn) /\ line # <<>>
         /\ (~Fits \/ (scn.ws = "pre-line" /\ line[Len(line)] = scn.nl))
         /\ lines' = Append(lines, [ks |-> line, forced |-> Fits]) /\ line' = <<>> /\ UNCHANGED <<scn, i, phase>>
Finish == /\ phase = "fill" /\ i > N(scn)
          /\ lines' = IF line = <<>> THEN lines ELSE Append(lines, [ks |-> line, forced |-> TRUE])
          /\ line' = <<>> /\ phase' = "done" /\ UNCHANGED <<scn, i>>
Next == Place \/ Break \/ Finish
Spec == Init /\ [][Next]_vars /\ WF_vars(Next)

\* properties of the result -------------------------------------------------
\* every word is placed exactly once, in order (conservation)
Flat == LET RECURSIVE Cat(_)
            Cat(ls) == IF ls = <<>> THEN <<>> ELSE Head(ls).ks \o Cat(Tail(ls)) IN Cat(lines)
Conservation == phase = "done" => Flat = [k \in 1..N(scn) |-> k]
\* a line never exceeds the available width unless it holds a single unbreakable unit (or wrapping is off)
FitsWidth == phase = "done" => \A j \in 1..Len(lines) :
   scn.ws = "nowrap" \/ Len(lines[j].ks) = 1 \/ LineW(scn, lines[j].ks) <= Avail(scn, j - 1)
\* greedy: a line that was not ended by a forced break could not have taken the first word of the next line
Greedy == phase = "done" => \A j \in 1..Len(lines) - 1 :
   lines[j].forced \/ LineW(scn, Append(lines[j].ks, lines[j + 1].ks[1])) > Avail(scn, j - 1)
Terminates == <>(phase = "done")

\* geometry of line j (1-based), in em: [x of the first glyph, width of the content]
LastLine(j) == j = Len(lines) \/ lines[j].forced
Geometry(j) ==
  LET ks == lines[j].ks  lw == LineW(scn, ks)  av == Avail(scn, j - 1)  ind == IF j = 1 THEN scn.indent ELSE 0
      free == IF av > lw THEN av - lw ELSE 0 IN
  CASE scn.align = "right"  -> [x2 |-> 2 * (ind + free), w |-> lw]
    [] scn.align = "center" -> [x2 |-> 2 * ind + free, w |-> lw]          \* x in half em
    [] scn.align = "justify" /\ ~LastLine(j) /\ Len(ks) > 1 -> [x2 |-> 2 * ind, w |-> IF av > lw THEN av ELSE lw]
    [] OTHER -> [x2 |-> 2 * ind, w |-> lw]

Emit == phase = "done" => PrintT(ToJson([scn |-> scn, lines |-> [j \in 1..Len(lines) |-> [ks |-> lines[j].ks, g |-> Geometry(j)]]]))
=============================================================================
