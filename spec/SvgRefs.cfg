CONSTANTS
  N = 3
  Kind = "use"
SPECIFICATION Spec
INVARIANTS NoSelfNesting DepthBound Emit
PROPERTIES Terminates
CHECK_DEADLOCK FALSE
