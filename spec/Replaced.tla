------------------------------ MODULE Replaced ------------------------------
(***************************************************************************)
(* Extra coverage (not one of the listed properties): the used size of an  *)
(* inline replaced element with an intrinsic size IW x IH (ratio 2 : 1)    *)
(* under width, height and the min and max sizes (CSS 2.1 10.3.2, 10.6.2 and the *)
(* constraint-violation table of 10.4), over integers (px).                *)
(* -1 stands for auto (width, height) or none (maximum sizes).             *)
(***************************************************************************)
EXTENDS Integers, TLC, Json

VARIABLE s
IW == 40
IH == 20
None == -1
Max(a, b) == IF a > b THEN a ELSE b
Min(a, b) == IF a < b THEN a ELSE b

Scn == [w : {None, 10, 100}, h : {None, 10, 100}, minw : {0, 30, 60}, maxw : {None, 20, 50}, minh : {0, 16, 30}, maxh : {None, 10, 24}]

\* a max of none = unbounded; a max below the min is raised to the min (CSS 2.1 10.4 / 10.7)
MaxW(x) == IF x.maxw = None THEN 100000 ELSE Max(x.maxw, x.minw)
MaxH(x) == IF x.maxh = None THEN 100000 ELSE Max(x.maxh, x.minh)

\* the table of 10.4 for width: auto; height: auto (w, h: the intrinsic size; ratio 2 : 1, so w*IH = h*IW)
Table(x) ==
  LET w == IW  h == IH  mnw == x.minw  mxw == MaxW(x)  mnh == x.minh  mxh == MaxH(x) IN
  IF w > mxw /\ h > mxh THEN (IF mxw * h <= mxh * w THEN <<mxw, Max(mnh, (mxw * h) \div w)>> ELSE <<Max(mnw, (mxh * w) \div h), mxh>>)
  ELSE IF w < mnw /\ h < mnh THEN (IF mnw * h <= mnh * w THEN <<Min(mxw, (mnh * w) \div h), mnh>> ELSE <<mnw, Min(mxh, (mnw * h) \div w)>>)
  ELSE IF w < mnw /\ h > mxh THEN <<mnw, mxh>>
  ELSE IF w > mxw /\ h < mnh THEN <<mxw, mnh>>
  ELSE IF w > mxw THEN <<mxw, Max((mxw * h) \div w, mnh)>>
  ELSE IF w < mnw THEN <<mnw, Min((mnw * h) \div w, mxh)>>
  ELSE IF h > mxh THEN <<Max((mxh * w) \div h, mnw), mxh>>
  ELSE IF h < mnh THEN <<Min((mnh * w) \div h, mxw), mnh>>
  ELSE <<w, h>>

Clamp(v, lo, hi) == IF v > hi THEN Max(hi, lo) ELSE IF v < lo THEN lo ELSE v
\* one or both dimensions specified: 10.3.2 / 10.6.2, then min / max applied to the width first and to the height after
Used(x) ==
  IF x.w = None /\ x.h = None THEN Table(x)
  ELSE IF x.w # None /\ x.h # None THEN <<Clamp(x.w, x.minw, MaxW(x)), Clamp(x.h, x.minh, MaxH(x))>>
  ELSE IF x.w # None THEN LET uw == Clamp(x.w, x.minw, MaxW(x)) IN <<uw, Clamp((uw * IH) \div IW, x.minh, MaxH(x))>>
  ELSE LET uh == Clamp(x.h, x.minh, MaxH(x)) IN <<Clamp((uh * IW) \div IH, x.minw, MaxW(x)), uh>>

Init == s \in Scn
Next == UNCHANGED s
\* the used size respects min and max on both axes
WithinBounds == LET u == Used(s) IN u[1] >= s.minw /\ u[1] <= MaxW(s) /\ u[2] >= s.minh /\ u[2] <= MaxH(s)
\* with both dimensions auto and at most one constraint violated, the ratio is kept
RatioKept == (s.w = None /\ s.h = None /\ s.minw = 0 /\ s.minh = 0 /\ s.maxh = None) => Used(s)[1] = 2 * Used(s)[2]
\* Left open: one dimension specified AND clamped by its min / max while the other is auto - CSS 2.1 10.3.2 says "used
\* height * ratio" but computes widths before heights; the implementation derives the auto dimension from the
\* specified (unclamped) value. Those scenarios are not emitted.
Decided == ~(s.w = None /\ s.h # None /\ Clamp(s.h, s.minh, MaxH(s)) # s.h) /\ ~(s.h = None /\ s.w # None /\ Clamp(s.w, s.minw, MaxW(s)) # s.w)
Emit == Decided => PrintT(ToJson([scn |-> s, used |-> Used(s)]))
=============================================================================
