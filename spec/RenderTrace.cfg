CONSTANTS
  N = 0
  F = 0
  NoPos <- EmptyPos
  MaxLoops = 8
  RemakeMissing = TRUE
  Force = TRUE
  MaxPages = 0
  Chgs = {}
  Less <- PathsLess
INIT TInit
NEXT TNext
INVARIANTS IndexSafe NoTwoBlanks Progress LoopBound Report
CHECK_DEADLOCK FALSE
