CONSTANTS
  MaxItems = 2
  MaxN = 2
  Kinds = {"p", "table", "float", "fixed", "running"}
  OneCfg = TRUE
  MaxOpt = 0
SPECIFICATION Spec
INVARIANTS Conserves NoDup
PROPERTIES Terminates
CHECK_DEADLOCK FALSE
