CONSTANTS
  N = 3
  F = 1
  MaxLoops = 2
  Force = TRUE
  MaxPages = 100
  Less <- IntLess
  Chgs = {FALSE}
  NoPos = 0
SPECIFICATION Spec
INVARIANTS TypeOK IndexSafe NoTwoBlanks PagesBound Progress LoopBound
PROPERTIES Terminates
CHECK_DEADLOCK FALSE
