CONSTANTS
  MaxLen = 0
  Mode = "algebra"
  BoxW = 40
  BoxH = 20
  BoxX = 7
  BoxY = 5
INIT Init
NEXT Next
INVARIANTS GroupLaws EmitAlgebra
CHECK_DEADLOCK FALSE
