-------------------------------- MODULE Docs --------------------------------
(***************************************************************************)
(* The document space of C01 ("rendering any document terminates without   *)
(* crashing").                                                             *)
(*                                                                         *)
(* A document is a tree of at most MaxNodes elements. Every element        *)
(* carries one FEATURE BUNDLE: an element kind with the declarations,      *)
(* attributes, generated content and extra rules that exercise one layout  *)
(* feature (the harness owns the table bundle -> HTML/CSS text; a name     *)
(* unknown to it is a failure of the machinery, not a verdict). Node k     *)
(* names its parent p < k (0 = body); children are in index order. A       *)
(* document also fixes the page geometry (including degenerate ones), the  *)
(* prologue before <html> and a document-level extra sheet.                *)
(*                                                                         *)
(* The state of the generator IS the document: AddNode extends it, so the  *)
(* reachable states are exactly the documents of at most MaxNodes          *)
(* elements (exhaustive mode) and a behaviour of -simulate is a random     *)
(* document of up to MaxNodes elements.                                    *)
(*                                                                         *)
(* Invalid is the set of bundles that consist only of constructs CSS       *)
(* requires to be ignored; Twin(b) is what remains of such a bundle. The   *)
(* property's second sentence is: rendering a document equals rendering    *)
(* its twin (the harness compares the complete backend recordings).        *)
(***************************************************************************)
EXTENDS Integers, Sequences, FiniteSets, TLC, Json

CONSTANTS MaxNodes,   \* number of elements
          Set,        \* "all" | "core" | "frag" (which bundles)
          Geoms,      \* set of page geometries
          Pros,       \* set of prologues
          Extras      \* set of document-level extras

VARIABLES nodes, page, pro, extra,
          fin   \* simulation only: the document is complete
vars == <<nodes, page, pro, extra, fin>>

Core == {"block", "inline", "inlineblock", "floatl", "abs", "table", "td", "flex", "flexitem", "grid", "griditem", "columns",
         "li", "before-after", "bb-page", "bb-left", "footnote", "running", "img-data", "svg-inline", "rtl", "tall", "display-none", "bad-value"}
\* the bundles that interact with fragmentation (page loop)
Frag == {"block", "inline", "floatl", "floatr-tall", "abs-far", "fixed", "table", "tr", "td", "td-span", "thead", "tfoot", "flex", "flex-colwrap", "grid", "grid-areas",
         "columns", "colspan-all", "columns-fill", "page-named", "bb-page", "bb-left", "ba-right", "bb-recto", "bi-avoid-tall", "ba-avoid", "orphans",
         "footnote", "footnote-tall", "footnote-disp", "running", "string-set", "tall", "target", "anchor", "big-font", "lh-huge", "pre-long", "break-all",
         "osc-pages", "pages-text", "full-table-coll", "full-table-sep", "full-list", "full-flex", "full-grid", "full-columns", "long-text", "footnotes-many",
         "floats-many", "abs-in-rel", "full-table-head"}
All == Core \cup Frag \cup
       {"floatr-tall", "abs-far", "fixed", "relative", "tr", "td-span", "caption", "thead", "tfoot", "col", "cell-div", "row-div", "table-coll", "inline-table",
        "flex-colwrap", "inline-flex", "grid-areas", "griditem-area", "grid-minmax", "colspan-all", "columns-fill", "li-outside", "ol", "marker",
        "counter-reset", "quotes", "var-def", "var-cycle", "var-undef", "page-named", "ba-right", "bb-recto", "bi-avoid-tall", "ba-avoid", "orphans",
        "footnote-tall", "footnote-disp", "string-set", "img-broken", "img-svg", "bg-image", "svg-bad", "bidi", "pre-long", "hyphens", "nowrap-long",
        "break-all", "ovf-hidden", "transform", "zero-size", "contents", "unknown-prop", "bad-at-rule", "bad-selector", "bad-important", "target",
        "anchor", "link", "input", "textarea", "select", "br", "hr", "first-letter", "text-decor", "valign", "spacing", "percent", "neg-margin", "clone",
        "decor", "border-image", "line-clamp", "object-fit", "unknown-elem", "details", "sticky", "big-font", "zero-font", "lh-huge", "min-content",
        "fit-content", "clear", "fontface", "counter-style", "counter-additive", "counter-systems", "counter-symbols", "grid-spans", "grid-spans-sparse", "svg-cycles", "columns-fractional", "tab-size-ch", "leader-tiny", "svg-img-ref", "media", "nested-rule", "attr-hints", "font-hints", "center", "base",
        "meta-link", "style-attr", "osc-pages", "pages-text", "full-table-coll", "full-table-sep", "full-list", "full-flex", "full-grid",
        "full-columns", "long-text", "footnotes-many", "var-lasso", "floats-many", "abs-in-rel", "calc-nested", "attr-typed", "full-table-head"}
Bundles == CASE Set = "core" -> Core [] Set = "frag" -> Frag [] OTHER -> All

Invalid == {"unknown-prop", "bad-value", "bad-at-rule", "bad-selector", "bad-important"}
Twin(b) == IF b \in Invalid THEN "block" ELSE b

Init == nodes = <<>> /\ page \in Geoms /\ pro \in Pros /\ extra \in Extras /\ fin = FALSE
AddNode(p, b) == /\ Len(nodes) < MaxNodes
                 /\ nodes' = Append(nodes, [p |-> p, b |-> b])
                 /\ UNCHANGED <<page, pro, extra, fin>>
Next == \E p \in 0..Len(nodes), b \in Bundles : AddNode(p, b)
\* Simulation: TLC evaluates the invariants on EVERY successor of the current state before it picks one, so a document is
\* printed only once it is complete and Finish, its single successor, has been taken (-depth MaxNodes + 2).
Finish == Len(nodes) = MaxNodes /\ ~fin /\ fin' = TRUE /\ UNCHANGED <<nodes, page, pro, extra>>
NextSim == Next \/ Finish
Spec == Init /\ [][Next]_vars

TypeOK == /\ \A k \in 1..Len(nodes) : nodes[k].p \in 0..(k - 1) /\ nodes[k].b \in Bundles
          /\ Len(nodes) <= MaxNodes
\* every Invalid bundle has a valid twin (the metamorphic oracle is defined on every document)
TwinsValid == \A b \in Invalid : Twin(b) \in All \ Invalid
\* exhaustive mode: every document; simulation: only the complete ones (one per behaviour)
EmitAll == Len(nodes) >= 1 => PrintT(ToJson([nodes |-> nodes, page |-> page, pro |-> pro, extra |-> extra]))
EmitFull == fin => PrintT(ToJson([nodes |-> nodes, page |-> page, pro |-> pro, extra |-> extra]))
=============================================================================
