------------------------------- MODULE SvgRefs -------------------------------
(***************************************************************************)
(* References between SVG definitions (use, gradient href, pattern, clip   *)
(* path, mask, marker): following them is a depth-first walk that keeps    *)
(* the set `active` of definitions currently being expanded; a reference   *)
(* to a missing definition or to an active one (a cycle) is ignored.       *)
(*                                                                         *)
(* defs 1..N; def i contains one shape and the references ref[i] (a set    *)
(* of targets in 1..N+1, N+1 = a missing id). The document references      *)
(* def 1.                                                                  *)
(* TLC checks: the walk terminates (Depth bound), never expands a          *)
(* definition inside itself, and on acyclic graphs draws each definition   *)
(* once per path from the root.                                            *)
(***************************************************************************)
EXTENDS Integers, Sequences, FiniteSets, TLC, Json

CONSTANTS N, Kind    \* Kind: "use" | "gradient" | "pattern" | "clip" | "mask" | "marker"

VARIABLES ref, stack, drawn, phase
vars == <<ref, stack, drawn, phase>>

Targets == 1..N + 1
RefSets == {{}} \cup {{t} : t \in Targets} \cup {{t, u} : t \in Targets, u \in Targets}

\* a frame: [d |-> definition, todo |-> references not yet followed]
Active == {stack[j].d : j \in 1..Len(stack)}

Init == /\ ref \in [1..N -> RefSets]
        /\ stack = <<[d |-> 1, todo |-> ref[1]]>> /\ drawn = [i \in 1..N |-> IF i = 1 THEN 1 ELSE 0] /\ phase = "walk"

\* follow one pending reference of the innermost definition
Follow == /\ phase = "walk" /\ stack # <<>>
          /\ LET top == stack[Len(stack)] IN
             /\ top.todo # {}
             /\ LET t == CHOOSE t \in top.todo : \A u \in top.todo : t <= u
                    rest == [stack EXCEPT ![Len(stack)].todo = top.todo \ {t}] IN
                IF t > N \/ t \in Active
                THEN /\ stack' = rest /\ drawn' = drawn                 \* missing or cyclic: ignored
                ELSE /\ stack' = Append(rest, [d |-> t, todo |-> ref[t]])
                     /\ drawn' = [drawn EXCEPT ![t] = @ + 1]
          /\ UNCHANGED <<ref, phase>>
Return == /\ phase = "walk" /\ stack # <<>> /\ stack[Len(stack)].todo = {}
          /\ stack' = SubSeq(stack, 1, Len(stack) - 1) /\ UNCHANGED <<ref, drawn, phase>>
Finish == /\ phase = "walk" /\ stack = <<>> /\ phase' = "done" /\ UNCHANGED <<ref, stack, drawn>>
Next == Follow \/ Return \/ Finish
Spec == Init /\ [][Next]_vars /\ WF_vars(Next)

NoSelfNesting == \A j, k \in 1..Len(stack) : j # k => stack[j].d # stack[k].d
DepthBound == Len(stack) <= N
Terminates == <>(phase = "done")

RECURSIVE Reach(_, _)
Reach(S, k) == IF k = 0 THEN S ELSE Reach(S \cup UNION {ref[i] \cap (1..N) : i \in S}, k - 1)
Cyclic == \E i \in 1..N : i \in Reach(ref[i] \cap (1..N), N)
Emit == phase = "done" => PrintT(ToJson([kind |-> Kind, n |-> N, ref |-> ref, cyclic |-> Cyclic,
                                          total |-> drawn[1] + (IF N >= 2 THEN drawn[2] ELSE 0) + (IF N >= 3 THEN drawn[3] ELSE 0)]))

----------------------------------------------------------------------------
(* Instances of one definition are independent: what an instance draws depends on the definition and on the  *)
(* attributes of ITS <use> only. PairInit enumerates two instances of one target (a <symbol>, a nested <svg> *)
(* or a <g>) with the attribute sets below; the harness checks that drawing both equals drawing each alone,  *)
(* in either order (the definition is not modified by being instantiated).                                   *)
UseAttrs == {"plain", "sized", "moved", "sized-moved", "wide"}
PairTargets == {"symbol", "svg", "g", "symbol-sized"}
PairInit == /\ \E t \in PairTargets, a \in UseAttrs, b \in UseAttrs : ref = <<t, a, b>>
            /\ stack = <<>> /\ drawn = <<>> /\ phase = "pair"
Stutter == UNCHANGED vars
EmitPair == phase = "pair" => PrintT(ToJson([target |-> ref[1], a |-> ref[2], b |-> ref[3]]))
=============================================================================
