CONSTANTS
  Mode = "kinds"
INIT Init
NEXT Next
INVARIANTS OrderIndependent Total UnitRatios EmitScn EmitMeta
CHECK_DEADLOCK FALSE
