------------------------------ MODULE PageLoop ------------------------------
(***************************************************************************)
(* The page loop of html/layout (layoutDocument / makeAllPages /           *)
(* remakePage) and the argument why it ends (C01).                         *)
(*                                                                         *)
(* The state is shaped like the implementation: `items` is                 *)
(* context.pageMaker (one item per page: where it resumes, the side the    *)
(* pending break asks for, the side of the page, the ContentChanged /      *)
(* PagesWanted flags of its RemakeState), `i` the index of makeAllPages,   *)
(* `pages` / `old` the pages of this round and of the previous one, `loop` *)
(* the round of layoutDocument, `rep` the footnotes reported to the next   *)
(* page (context.reportedFootnotes).                                       *)
(*                                                                         *)
(* Positions are abstract: a resume point is [k, v] with k = 0 for "the    *)
(* start of the document" (the nil of pageMaker[0]), k = 2 for "nothing    *)
(* left" (the nil that ends the loop) and k = 1 for a point v inside the   *)
(* document, ordered by the constant operator Less: integers for the       *)
(* design check, flattened resume stacks in RenderTrace.tla.               *)
(*                                                                         *)
(* What a page places is left open (that is C02/C12); what matters here    *)
(* is the progress argument:                                               *)
(*   - RemakeContent: with Force (the progress guarantee of blocks.go /    *)
(*     inline.go: the first line or child of an empty page is placed even  *)
(*     if it overflows) a non-blank page ends strictly after where it      *)
(*     started;                                                            *)
(*   - RemakeBlank: a blank page keeps the resume point and flips the      *)
(*     side, so the page after it is not blank;                            *)
(*   - FootnotePage: when nothing is left but footnotes are still          *)
(*     reported, a page takes at least one of them;                        *)
(*   - FootnoteStall: the named deviation of the implementation - a page   *)
(*     of a document with footnotes that moves neither the resume point    *)
(*     nor the reported footnotes (observed: a footnote taller than the    *)
(*     page is deferred once); bounded by the number of footnotes;         *)
(*   - Keep: a page whose RemakeState is clean is taken from the previous  *)
(*     round;                                                              *)
(*   - Check: another round only if a flag is set, at most MaxLoops.       *)
(* Invariants: the indexes used by Keep exist (IndexSafe, issue #794 of    *)
(* the original), never two blank pages in a row, PagesBound; liveness:    *)
(* Terminates. With Force = FALSE PagesBound fails (non-vacuity).          *)
(***************************************************************************)
EXTENDS Integers, Sequences, FiniteSets, TLC

CONSTANTS N,          \* design check: positions 1..N inside the document
          F,          \* design check: number of footnotes of the document
          NoPos,      \* the v of the two nil resume points (any value of the type of the points)
          MaxLoops,   \* bound of the repagination loop (8 in layout.go)
          Force,      \* the progress guarantee holds
          MaxPages,   \* state constraint for the Force = FALSE run
          RemakeMissing, \* the repaired makeAllPages (see MustRemake)
          Chgs,       \* design check: may the page state (counters) of the next page change? subset of BOOLEAN
          Less(_, _)  \* strict order on the points inside the document

VARIABLES phase, loop, i, items, pages, old, rep, called,
          nf   \* number of footnotes of the document (constant of a behaviour)
vars == <<phase, loop, i, items, pages, old, rep, called, nf>>

IntLess(a, b) == a < b

Bot == [k |-> 0, v |-> NoPos]
Top == [k |-> 2, v |-> NoPos]
Mid(v) == [k |-> 1, v |-> v]
\* strict order on resume points
Before(a, b) == a.k < b.k \/ (a.k = 1 /\ b.k = 1 /\ Less(a.v, b.v))
Sides == {"any", "left", "right"}

Item(res, side, right, changed) == [res |-> res, side |-> side, right |-> right, changed |-> changed, wanted |-> FALSE]

Init == /\ phase = "start" /\ loop = 0 /\ i = 1
        /\ \E r \in BOOLEAN : items = <<Item(Bot, "any", r, FALSE)>>   \* (initializePageMaker: the break of the root only picks the side)
        /\ pages = <<>> /\ old = <<>> /\ rep = 0 /\ called = 0 /\ nf = F

\* layoutDocument: a round of makeAllPages starts
StartRound == /\ phase = "start" /\ loop < MaxLoops
              /\ phase' = "paging" /\ loop' = loop + 1 /\ i' = 1 /\ pages' = <<>>
              /\ rep' = 0 /\ called' = 0
              /\ UNCHANGED <<items, old, nf>>

\* RemakeMissing describes the code: TRUE since the repair of makeAllPages (a page that the previous round did not
\* have is laid out); with FALSE (the code before the repair) TLC finds the behaviour that was then reproduced on the
\* real code: round 1 ends with page k and no reported footnote; in a later round page k reports a footnote,
\* makeAllPages goes on to page k+1, whose new item is clean (ContentChanged is false when resumeAt is nil), and takes
\* pages[k+1] of the shorter list of the previous round (IndexSafe fails: index out of range).
MustRemake == old = <<>> \/ items[i].changed \/ items[i].wanted \/ (RemakeMissing /\ i > Len(old))
WrongSide == (items[i].side = "left" /\ items[i].right) \/ (items[i].side = "right" /\ ~items[i].right)

\* remakePage stores the initial values of the next page in items[i+1] when they changed (or the item is new),
\* and resets the RemakeState of page i; `chg` is "the page state changed" (counters), which forces the replacement
StoreNext(res, side, chg) ==
  LET new == Item(res, side, ~items[i].right, res # Top)
      cur == [items EXCEPT ![i].changed = FALSE, ![i].wanted = FALSE] IN
  IF i + 1 > Len(items) THEN Append(cur, new)
  ELSE IF cur[i + 1].res # res \/ cur[i + 1].side # side \/ cur[i + 1].right # new.right \/ chg
       THEN [cur EXCEPT ![i + 1] = new] ELSE cur

\* a page made of content. from: where it starts, to: where the next page resumes
RemakeContent(to, side, chg, calls, placed) ==
  /\ phase = "paging" /\ MustRemake /\ ~WrongSide
  /\ ~(items[i].res = Top)                   \* (a page after the end only carries footnotes: FootnotePage)
  /\ IF Force THEN Before(items[i].res, to) ELSE (Before(items[i].res, to) \/ (to.k = 1 /\ to = [items[i].res EXCEPT !.k = 1]))
  /\ calls \in 0..(nf - called) /\ placed \in 0..(rep + calls)
  /\ called' = called + calls /\ rep' = rep + calls - placed
  /\ pages' = Append(pages, [blank |-> FALSE, from |-> items[i].res, to |-> to, rep |-> rep'])
  /\ LET its == StoreNext(to, IF to = Top THEN "any" ELSE side, chg) IN
       IF to = Top /\ rep' = 0
       THEN phase' = "check" /\ i' = i /\ items' = SubSeq(its, 1, i + 1)
       ELSE phase' = "paging" /\ i' = i + 1 /\ items' = its
  /\ UNCHANGED <<loop, old, nf>>

\* a blank page: the pending break asks for the other side (it may take reported footnotes)
RemakeBlank(placed) ==
  /\ phase = "paging" /\ MustRemake /\ WrongSide
  /\ placed \in 0..rep /\ rep' = rep - placed
  /\ pages' = Append(pages, [blank |-> TRUE, from |-> items[i].res, to |-> items[i].res, rep |-> rep'])
  /\ items' = StoreNext(items[i].res, items[i].side, FALSE)    \* (the break stays pending, the side flips)
  /\ phase' = "paging" /\ i' = i + 1
  /\ UNCHANGED <<loop, old, called, nf>>

\* nothing left but reported footnotes: the page takes some of them (at least one under Force)
FootnotePage(placed) ==
  /\ phase = "paging" /\ MustRemake /\ ~WrongSide /\ items[i].res = Top /\ rep > 0
  /\ placed \in (IF Force THEN 1 ELSE 0)..rep
  /\ rep' = rep - placed
  /\ pages' = Append(pages, [blank |-> TRUE, from |-> Top, to |-> Top, rep |-> rep'])
  /\ LET its == StoreNext(Top, "any", FALSE) IN
       IF rep' = 0
       THEN phase' = "check" /\ i' = i /\ items' = SubSeq(its, 1, i + 1)
       ELSE phase' = "paging" /\ i' = i + 1 /\ items' = its
  /\ UNCHANGED <<loop, old, called, nf>>

Stalls == Cardinality({k \in 1..Len(pages) : ~pages[k].blank /\ pages[k].from = pages[k].to})
\* deviation: a page of a document with footnotes that moves nothing (a footnote is deferred)
FootnoteStall ==
  /\ phase = "paging" /\ MustRemake /\ ~WrongSide /\ items[i].res.k = 1
  /\ nf > 0 /\ Stalls < 2 * nf
  /\ pages' = Append(pages, [blank |-> FALSE, from |-> items[i].res, to |-> items[i].res, rep |-> rep])
  /\ items' = StoreNext(items[i].res, items[i].side, FALSE)
  /\ phase' = "paging" /\ i' = i + 1
  /\ UNCHANGED <<loop, old, rep, called, nf>>

\* the RemakeState of page i is clean: the page of the previous round is kept
Keep ==
  /\ phase = "paging" /\ ~MustRemake
  /\ i <= Len(old) /\ i + 1 <= Len(items)      \* (IndexSafe states that this always holds)
  /\ pages' = Append(pages, old[i])
  /\ rep' = 0
  /\ IF items[i + 1].res = Top
     THEN phase' = "check" /\ i' = i /\ items' = SubSeq(items, 1, i + 1)
     ELSE phase' = "paging" /\ i' = i + 1 /\ items' = items
  /\ UNCHANGED <<loop, old, called, nf>>

\* layoutDocument after makeAllPages: page-based counters and targets may dirty some pages
Check(dirty, wanted) ==
  /\ phase = "check"
  /\ dirty \subseteq 1..Len(items) /\ wanted \subseteq 1..Len(items)
  /\ LET its == [k \in 1..Len(items) |-> [items[k] EXCEPT !.changed = @ \/ k \in dirty, !.wanted = k \in wanted]]
         reloopContent == \E k \in 1..Len(its) : its[k].changed
         reloopPages == wanted # {} /\ Len(old) # Len(pages) IN
       /\ items' = its
       /\ IF (reloopContent \/ reloopPages) /\ loop < MaxLoops
          THEN phase' = "start" /\ old' = pages
          ELSE phase' = "laid" /\ old' = old
  /\ UNCHANGED <<loop, i, pages, rep, called, nf>>

Draw == phase = "laid" /\ phase' = "drawn" /\ UNCHANGED <<loop, i, items, pages, old, rep, called, nf>>
Return == phase = "drawn" /\ phase' = "returned" /\ UNCHANGED <<loop, i, items, pages, old, rep, called, nf>>

Pos == {Mid(v) : v \in 1..N} \cup {Top}
Next == \/ StartRound
        \/ \E to \in Pos, side \in Sides, chg \in Chgs, c \in 0..F, p \in 0..F : RemakeContent(to, side, chg, c, p)
        \/ \E p \in 0..F : RemakeBlank(p)
        \/ \E p \in 0..F : FootnotePage(p)
        \/ FootnoteStall
        \/ Keep
        \/ \E d \in {{}} \cup {{k} : k \in 1..(Len(items) - 1)}, w \in {{}, {1}} : Check(d, w)
        \/ Draw \/ Return

Spec == Init /\ [][Next]_vars /\ WF_vars(Next)

----------------------------------------------------------------------------
TypeOK == /\ phase \in {"start", "paging", "check", "laid", "drawn", "returned"}
          /\ loop \in 0..MaxLoops /\ i \in 1..(Len(items) + 1)
          /\ rep \in 0..nf /\ called \in 0..nf
\* makeAllPages never indexes a page or an item that does not exist
IndexSafe == phase = "paging" => /\ i <= Len(items)
                                 /\ (~MustRemake => i <= Len(old) /\ i + 1 <= Len(items))
\* a blank page inserted for a side is followed by a page of the right side
NoTwoBlanks == \A k \in 1..(Len(pages) - 1) : (pages[k].blank /\ pages[k + 1].blank) => pages[k].from = Top \/ pages[k + 1].from = Top
\* pages of one round: at most N + 1 content pages, F footnote pages and 2F stalls, each followed by at most one blank page
PagesBound == Len(pages) <= 2 * (N + 1 + 3 * F)
\* each non-blank page of this round ends after where it started, except the stalls
Progress == \A k \in 1..Len(pages) : pages[k].blank \/ Before(pages[k].from, pages[k].to) \/ (nf > 0 /\ pages[k].from = pages[k].to)
LoopBound == loop <= MaxLoops
Terminates == <>(phase = "returned")
Bounded == Len(pages) <= MaxPages
=============================================================================
