CONSTANTS
  MaxRows = 3
  MaxCells = 2
  MaxSpan = 2
  Sized = FALSE
SPECIFICATION Spec
INVARIANTS InRow RowOrder StartFree SharedOnlyByRunningInto Emit
PROPERTIES Terminates
CHECK_DEADLOCK FALSE
