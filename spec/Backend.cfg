CONSTANTS
  MaxItems = 4
  Names = {"a", "b"}
  MaxLevel = 3
SPECIFICATION Spec
INVARIANTS NeverPanics OutlineRight ParentFirst EmitScn
PROPERTIES Terminates
CHECK_DEADLOCK FALSE
