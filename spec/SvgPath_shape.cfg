CONSTANTS
  Family = "shape"
  MaxCmds = 1
INIT Init
NEXT Next
INVARIANTS CurIsLastEnd StartsWithMove Emit
CHECK_DEADLOCK FALSE
