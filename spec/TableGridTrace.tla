--------------------------- MODULE TableGridTrace ---------------------------
(***************************************************************************)
(* Trace validation for C13: every record of the trace file is the         *)
(* geometry of one table laid out by the real code (columns, rows, cell    *)
(* border boxes in 1/64 px). It is accepted iff TableGrid!GridConsistent   *)
(* holds (no clause of Failures).                                          *)
(***************************************************************************)
EXTENDS TableGrid, IOUtils

VARIABLE i
Trace == ndJsonDeserialize(IOEnv.TRACE_FILE)

TInit == /\ i \in 1..Len(Trace)
         /\ tab = <<>> /\ opts = [tw |-> 0, fixed |-> FALSE, bs |-> 0, collapse |-> FALSE, cap |-> 0, rtl |-> FALSE]
         /\ r = 1 /\ k = 1 /\ gx = 1 /\ occ = {} /\ placed = <<>> /\ phase = "trace"
TNext == UNCHANGED <<vars, i>>
\* always TRUE; prints the index and the violated clauses of every rejected record
Report == GridConsistent(Trace[i]) \/ PrintT(<<"BAD", i, Failures(Trace[i])>>)
=============================================================================
