------------------------------ MODULE GridPlace ------------------------------
(***************************************************************************)
(* Extra coverage (not one of the listed properties): the grid item        *)
(* placement algorithm of CSS Grid Layout 1, section 8.5, for              *)
(* grid-auto-flow: row and row dense, in a grid of Cols explicit columns   *)
(* (implicit columns and rows are added as needed).                        *)
(*                                                                         *)
(* An item is [c, cs, r, rs]: column-start line (0 = auto), column span,   *)
(* row-start line (0 = auto), row span. The algorithm is the transition    *)
(* system of the specification, one item per step:                         *)
(*   Step1  items with a definite row and column                           *)
(*   Step2  items locked to a row (definite row, automatic column)         *)
(*   Step3  the number of columns of the implicit grid                     *)
(*   Step4  the remaining items, through the auto-placement cursor         *)
(* `before[i]` records the cells that were occupied when item i was        *)
(* placed. Invariants: NoOverlap, DefiniteKept, InColumns, SparseOrder     *)
(* (the cursor never moves backwards), DenseEarliest (under dense packing  *)
(* an automatically placed item sits at the first position, in row-major   *)
(* order, where it fitted); liveness Terminates. Terminal states carry the *)
(* position of every item.                                                 *)
(***************************************************************************)
EXTENDS Integers, Sequences, FiniteSets, TLC, Json

CONSTANTS MaxItems, Cols

VARIABLES items, dense, pos, before, ncols, cur, row2, phase
vars == <<items, dense, pos, before, ncols, cur, row2, phase>>

Item == [c : 0..Cols, cs : 1..2, r : 0..2, rs : 1..2]
None == [c |-> 0, r |-> 0]
I == 1..Len(items)
Placed(p) == {i \in DOMAIN p : p[i] # None}
Cells(it, c, r) == {<<x, y>> : x \in c..(c + it.cs - 1), y \in r..(r + it.rs - 1)}
Occ(p) == UNION {Cells(items[i], p[i].c, p[i].r) : i \in Placed(p)}
Fits(it, c, r, occ) == Cells(it, c, r) \cap occ = {}
Max(a, b) == IF a > b THEN a ELSE b
MaxS(S) == IF S = {} THEN 0 ELSE CHOOSE x \in S : \A y \in S : y <= x

Init == /\ items \in UNION {[1..m -> Item] : m \in 1..MaxItems} /\ dense \in BOOLEAN
        /\ pos = [i \in I |-> None] /\ before = [i \in I |-> {}] /\ ncols = Cols /\ cur = [c |-> 1, r |-> 1]
        /\ row2 = [y \in 1..3 |-> 1] /\ phase = "s1"

\* the next item (in document order) of a class that is not placed yet; 0 if none
NextOf(S) == IF S \ Placed(pos) = {} THEN 0 ELSE CHOOSE i \in S \ Placed(pos) : \A j \in S \ Placed(pos) : i <= j
Definite == {i \in I : items[i].c # 0 /\ items[i].r # 0}
RowLocked == {i \in I : items[i].c = 0 /\ items[i].r # 0}
Rest == {i \in I : items[i].r = 0}

Step1 == /\ phase = "s1"
         /\ IF NextOf(Definite) = 0 THEN phase' = "s2" /\ UNCHANGED <<pos, before>>
            ELSE LET i == NextOf(Definite) IN
                 /\ pos' = [pos EXCEPT ![i] = [c |-> items[i].c, r |-> items[i].r]]
                 /\ before' = [before EXCEPT ![i] = Occ(pos)] /\ UNCHANGED phase
         /\ UNCHANGED <<items, dense, ncols, cur, row2>>
\* 8.5 step 2. Sparse: the earliest column that does not overlap and is past the items placed in this row BY THIS STEP
\* (row2[y]: the first column past them); dense: the earliest column that does not overlap.
RECURSIVE FirstCol(_, _, _, _)
FirstCol(it, c, r, occ) == IF Fits(it, c, r, occ) THEN c ELSE FirstCol(it, c + 1, r, occ)
Step2 == /\ phase = "s2"
         /\ IF NextOf(RowLocked) = 0 THEN phase' = "s3" /\ UNCHANGED <<pos, before, row2>>
            ELSE LET i == NextOf(RowLocked)  it == items[i]
                     from == IF dense THEN 1 ELSE MaxS({row2[y] : y \in it.r..(it.r + it.rs - 1)})
                     c == FirstCol(it, from, it.r, Occ(pos)) IN
                 /\ pos' = [pos EXCEPT ![i] = [c |-> c, r |-> it.r]]
                 /\ before' = [before EXCEPT ![i] = Occ(pos)]
                 /\ row2' = [y \in 1..3 |-> IF y \in it.r..(it.r + it.rs - 1) THEN Max(row2[y], c + it.cs) ELSE row2[y]]
                 /\ UNCHANGED phase
         /\ UNCHANGED <<items, dense, ncols, cur>>
\* 8.5 step 3: the columns of the implicit grid
Step3 == /\ phase = "s3"
         /\ ncols' = MaxS({Cols} \cup {pos[i].c + items[i].cs - 1 : i \in Placed(pos)}
                          \cup {items[i].c + items[i].cs - 1 : i \in {j \in Rest : items[j].c # 0}}
                          \cup {items[i].cs : i \in {j \in Rest : items[j].c = 0}})
         /\ phase' = "s4" /\ UNCHANGED <<items, dense, pos, before, cur, row2>>
\* 8.5 step 4
RECURSIVE FirstRow(_, _, _, _), Scan(_, _, _, _, _)
FirstRow(it, c, r, occ) == IF Fits(it, c, r, occ) THEN r ELSE FirstRow(it, c, r + 1, occ)
\* move the cursor along the row, then to the start of the next row, until the item fits inside the implicit grid
Scan(it, c, r, occ, n) == IF c + it.cs - 1 > n THEN Scan(it, 1, r + 1, occ, n)
                          ELSE IF Fits(it, c, r, occ) THEN [c |-> c, r |-> r] ELSE Scan(it, c + 1, r, occ, n)
Step4 == /\ phase = "s4"
         /\ IF NextOf(Rest) = 0 THEN phase' = "done" /\ UNCHANGED <<pos, before, cur>>
            ELSE LET i == NextOf(Rest)  it == items[i]  occ == Occ(pos)
                     p == IF it.c # 0
                          THEN LET r0 == IF dense THEN 1 ELSE IF it.c < cur.c THEN cur.r + 1 ELSE cur.r IN
                               [c |-> it.c, r |-> FirstRow(it, it.c, r0, occ)]
                          ELSE IF dense THEN Scan(it, 1, 1, occ, ncols) ELSE Scan(it, cur.c, cur.r, occ, ncols) IN
                 /\ pos' = [pos EXCEPT ![i] = p] /\ before' = [before EXCEPT ![i] = occ] /\ cur' = p /\ UNCHANGED phase
         /\ UNCHANGED <<items, dense, ncols, row2>>
Next == Step1 \/ Step2 \/ Step3 \/ Step4
Spec == Init /\ [][Next]_vars /\ WF_vars(Next)

----------------------------------------------------------------------------
\* (items with two definite lines may overlap each other: the author said so)
NoOverlap == \A i, j \in Placed(pos) : (i # j /\ ~(i \in Definite /\ j \in Definite)) => Cells(items[i], pos[i].c, pos[i].r) \cap Cells(items[j], pos[j].c, pos[j].r) = {}
DefiniteKept == \A i \in Placed(pos) : (items[i].c # 0 => pos[i].c = items[i].c) /\ (items[i].r # 0 => pos[i].r = items[i].r)
InColumns == phase = "done" => \A i \in Rest : pos[i].c >= 1 /\ pos[i].c + items[i].cs - 1 <= ncols
RowMajorLess(a, b) == a.r < b.r \/ (a.r = b.r /\ a.c < b.c)
\* sparse packing: the items placed by step 4 follow each other in row-major order (the cursor never moves backwards)
SparseOrder == (phase = "done" /\ ~dense) => \A i, j \in Rest : i < j => (pos[i].r <= pos[j].r /\ (items[i].c = 0 /\ items[j].c = 0 => RowMajorLess(pos[i], pos[j])))
\* dense packing: an item without any definite line sits at the first row-major position where it fitted when it was placed
DenseEarliest == (phase = "done" /\ dense) => \A i \in {j \in Rest : items[j].c = 0} :
   ~\E c \in 1..ncols, r \in 1..pos[i].r : /\ c + items[i].cs - 1 <= ncols /\ RowMajorLess([c |-> c, r |-> r], pos[i])
                                           /\ Fits(items[i], c, r, before[i])
Terminates == <>(phase = "done")
Emit == phase = "done" => PrintT(ToJson([items |-> items, dense |-> dense, pos |-> pos, ncols |-> ncols]))
=============================================================================
