CONSTANTS
  Mode = "units"
INIT Init
NEXT Next
INVARIANTS OrderIndependent Total UnitRatios EmitScn EmitMeta
CHECK_DEADLOCK FALSE
