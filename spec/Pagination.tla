----------------------------- MODULE Pagination -----------------------------
(***************************************************************************)
(* CSS Fragmentation 3 / CSS Paged Media 3: breaking a flow of paragraphs  *)
(* into pages.                                                             *)
(*                                                                         *)
(* A document is a sequence of paragraphs [lines, bb, ba, bi, orphans,     *)
(* widows]; its lines are numbered 1..N in document order. A page type has *)
(* a capacity in lines: Hfirst for the first page (@page :first), H for    *)
(* the others. `right` tells whether a page is a right (recto) page; the   *)
(* first page of an ltr document is a right page.                          *)
(*                                                                         *)
(* The page maker of html/layout/pages.go is the transition system         *)
(*   RemakePage   lay out the next page from `resume`                      *)
(*   InsertBlank  a forced break asked for the other side: one blank page  *)
(*   Finish                                                                *)
(* with history variable `placed` (lines laid out so far).                 *)
(* A page ends at the LAST candidate of the first non-empty rule-dropping  *)
(* tier (section 4.4 of CSS Fragmentation).                                *)
(***************************************************************************)
EXTENDS Integers, Sequences, FiniteSets, TLC, Json

CONSTANTS MaxBlocks, Hs, Rich,   \* Rich: TRUE adds left/right forced breaks and a distinct first-page height
          NthAll               \* TRUE: every @page :nth(An+B) selector of the bounded family, FALSE: :nth(2n+1) only

VARIABLES doc, rtl, H, Hfirst, nth, resume, right, pages, placed, pending, phase
vars == <<doc, rtl, H, Hfirst, nth, resume, right, pages, placed, pending, phase>>

\* rtl: the direction of the root element is right-to-left: the first page is a left page and recto means left (CSS
\* Fragmentation 3, 3.1: recto / verso depend on the page progression)
BVafter == IF Rich THEN {"auto", "avoid", "page", "left", "right", "recto", "verso"} ELSE {"auto", "avoid", "page"}
SideVals == {"left", "right", "recto", "verso"}
SideOf(v, r) == CASE v = "recto" -> (IF r THEN "left" ELSE "right") [] v = "verso" -> (IF r THEN "right" ELSE "left") [] OTHER -> v
\* pg: the `page` property of the paragraph (0: auto, 1: the page named "n", 2: the page named "m"). A paragraph that names
\* a page other than the one its previous sibling names starts a new page (CSS Paged Media 3, 6.2). As in WeasyPrint (and in
\* the repository's TestPageNames4) `auto` stays on the page it is on: going from a named paragraph to an auto one is no break.
BVbefore == IF Rich THEN {"auto", "avoid", "page", "left", "right"} ELSE {"auto", "avoid", "page"}
Blk == [lines : 1..3, bb : BVbefore, ba : BVafter, bi : {"auto", "avoid"}, orphans : 1..2, widows : 1..2, pg : (IF Rich THEN 0..2 ELSE {0})]

RECURSIVE SumLines(_, _)
SumLines(d, i) == IF i = 0 THEN 0 ELSE SumLines(d, i - 1) + d[i].lines
N(d) == SumLines(d, Len(d))
StartOf(d, b) == SumLines(d, b - 1) + 1
EndOf(d, b)   == SumLines(d, b)
BlockOf(d, i) == CHOOSE b \in 1..Len(d) : StartOf(d, b) <= i /\ i <= EndOf(d, b)
Forcing(v)    == v \in {"page"} \cup SideVals
\* value of the break opportunity after line p (CSS Fragmentation 3.1: the values of all boxes meeting there)
Combined(d, p) ==
  LET b == BlockOf(d, p) IN
  IF p < EndOf(d, b) THEN "inside"
  ELSE LET a == d[b].ba  c == d[b + 1].bb IN
       IF c \in SideVals THEN c ELSE IF a \in SideVals THEN a
       ELSE IF a = "page" \/ c = "page" \/ (d[b + 1].pg # 0 /\ d[b].pg # d[b + 1].pg) THEN "page"
       ELSE IF a = "avoid" \/ c = "avoid" THEN "avoid" ELSE "auto"
\* orphans / widows of the fragment of block b that ends the page at p, the page starting at s
OW(d, p, s) == LET b == BlockOf(d, p) IN
  /\ p - (IF StartOf(d, b) > s THEN StartOf(d, b) ELSE s) + 1 >= d[b].orphans
  /\ EndOf(d, b) - p >= d[b].widows
T0(d, p, s) == IF Combined(d, p) = "inside" THEN d[BlockOf(d, p)].bi = "auto" /\ OW(d, p, s) ELSE Combined(d, p) = "auto"
T1(d, p, s) == IF Combined(d, p) = "inside" THEN d[BlockOf(d, p)].bi = "auto" /\ OW(d, p, s) ELSE TRUE
T2(d, p, s) == IF Combined(d, p) = "inside" THEN OW(d, p, s) ELSE TRUE
MaxS(S) == CHOOSE x \in S : \A y \in S : y <= x
MinS(S) == CHOOSE x \in S : \A y \in S : x <= y

\* the end of the page that starts at line s with capacity h
PageEnd(d, h, s) ==
  LET n == N(d)
      cap == IF h < 1 THEN s ELSE IF s + h - 1 > n THEN n ELSE s + h - 1      \* progress: at least line s
      forced == {p \in s..(n - 1) : Forcing(Combined(d, p))}
      lim == IF forced # {} /\ MinS(forced) <= cap THEN MinS(forced) ELSE cap
      isF == forced # {} /\ MinS(forced) = lim
      c0 == {p \in s..lim : T0(d, p, s)}  c1 == {p \in s..lim : T1(d, p, s)}  c2 == {p \in s..lim : T2(d, p, s)}
  IN IF lim = n \/ isF THEN lim ELSE IF c0 # {} THEN MaxS(c0) ELSE IF c1 # {} THEN MaxS(c1) ELSE IF c2 # {} THEN MaxS(c2) ELSE lim
\* the set of ends CSS allows (any candidate of the first non-empty tier), for trace validation
LegalEnds(d, h, s) ==
  LET n == N(d)
      cap == IF h < 1 THEN s ELSE IF s + h - 1 > n THEN n ELSE s + h - 1
      forced == {p \in s..(n - 1) : Forcing(Combined(d, p))}
      lim == IF forced # {} /\ MinS(forced) <= cap THEN MinS(forced) ELSE cap
      isF == forced # {} /\ MinS(forced) = lim
      c0 == {p \in s..lim : T0(d, p, s)}  c1 == {p \in s..lim : T1(d, p, s)}  c2 == {p \in s..lim : T2(d, p, s)}
  IN IF lim = n \/ isF THEN {lim} ELSE IF c0 # {} THEN c0 ELSE IF c1 # {} THEN c1 ELSE IF c2 # {} THEN c2 ELSE {lim}

\* what the property demands of the end of a page (the transition relation that observed page sequences are
\* validated against): the greedy end when a break conforming to every rule exists; otherwise any break of the first
\* tier that has one; any line boundary that fits when none has.
AllowedEnds(d, h, s) ==
  LET n == N(d)
      cap == IF h < 1 THEN s ELSE IF s + h - 1 > n THEN n ELSE s + h - 1
      forced == {p \in s..(n - 1) : Forcing(Combined(d, p))}
      lim == IF forced # {} /\ MinS(forced) <= cap THEN MinS(forced) ELSE cap
      isF == forced # {} /\ MinS(forced) = lim
      c0 == {p \in s..lim : T0(d, p, s)}  c1 == {p \in s..lim : T1(d, p, s)}  c2 == {p \in s..lim : T2(d, p, s)}
      \* no break before the page is full respects even orphans / widows: the property then allows the content to run over
      \* ("never extends below the content box WHEN AN EARLIER LEGAL BREAK POINT EXISTS") up to the first break that does
      later == {p \in (lim + 1)..n : p = n \/ T2(d, p, s) \/ Forcing(Combined(d, p))}
  IN IF lim = n \/ isF THEN {lim} ELSE IF c0 # {} THEN {MaxS(c0)} ELSE IF c1 # {} THEN c1 ELSE IF c2 # {} THEN c2
     ELSE (s..lim) \cup {MinS(later)}
\* why an end is not allowed (for reports)
WhyNot(d, h, s, e) ==
  LET n == N(d)
      cap == IF h < 1 THEN s ELSE IF s + h - 1 > n THEN n ELSE s + h - 1
      forced == {p \in s..(n - 1) : Forcing(Combined(d, p))}
      lim == IF forced # {} /\ MinS(forced) <= cap THEN MinS(forced) ELSE cap
      isF == forced # {} /\ MinS(forced) = lim
      c0 == {p \in s..lim : T0(d, p, s)}
  IN IF e > lim THEN (IF isF THEN "forced-break-ignored" ELSE "overflows-the-page")
     ELSE IF lim = n \/ isF THEN "ends-early"
     ELSE IF c0 # {} /\ e \in c0 THEN "ends-early"
     ELSE IF Combined(d, e) = "avoid" THEN "break-avoid-ignored"
     ELSE IF Combined(d, e) = "inside" /\ ~OW(d, e, s) THEN "orphans-widows-ignored"
     ELSE IF Combined(d, e) = "inside" /\ d[BlockOf(d, e)].bi = "avoid" THEN "break-inside-avoid-ignored"
     ELSE "other"

---------------------------------------------------------------------------
\* @page :nth(An+B) matches the page of (1-based) index i iff i = A*n + B for some integer n >= 0
NthSet == IF NthAll THEN [a : (-2)..3, b : (-1)..5] ELSE {[a |-> 2, b |-> 1]}
NthMatch(sel, i) == \E n \in 0..(i + 6) : sel.a * n + sel.b = i
Docs(n) == UNION {[1..m -> Blk] : m \in 1..n}
Init == /\ doc \in Docs(MaxBlocks) /\ rtl \in (IF Rich THEN BOOLEAN ELSE {FALSE}) /\ H \in Hs /\ Hfirst \in (IF Rich THEN Hs \cup {0} ELSE {0}) /\ nth \in NthSet
        /\ resume = 1 /\ right = ~rtl /\ pages = <<>> /\ placed = <<>> /\ pending = "auto" /\ phase = "paginate"
\* (Hfirst = 0 means: no @page :first rule, the first page is like the others)
Cap(i) == IF i = 1 /\ Hfirst # 0 THEN Hfirst ELSE H

\* a forced break asked for a side that the next page does not have: one blank page
InsertBlank == /\ phase = "paginate" /\ resume <= N(doc)
               /\ (SideOf(pending, rtl) = "left" /\ right) \/ (SideOf(pending, rtl) = "right" /\ ~right)
               /\ pages' = Append(pages, [lines |-> <<>>, right |-> right, blank |-> TRUE])
               /\ right' = ~right /\ pending' = "auto"
               /\ UNCHANGED <<doc, rtl, H, Hfirst, nth, resume, placed, phase>>
RemakePage == /\ phase = "paginate" /\ resume <= N(doc)
              /\ ~((SideOf(pending, rtl) = "left" /\ right) \/ (SideOf(pending, rtl) = "right" /\ ~right))
              /\ LET e == PageEnd(doc, Cap(Len(pages) + 1), resume) IN
                 /\ pages' = Append(pages, [lines |-> [j \in 1..(e - resume + 1) |-> resume + j - 1], right |-> right, blank |-> FALSE])
                 /\ placed' = placed \o [j \in 1..(e - resume + 1) |-> resume + j - 1]
                 /\ pending' = IF e < N(doc) THEN Combined(doc, e) ELSE "auto"
                 /\ resume' = e + 1
              /\ right' = ~right
              /\ UNCHANGED <<doc, rtl, H, Hfirst, nth, phase>>
Finish == /\ phase = "paginate" /\ resume > N(doc) /\ phase' = "done"
          /\ UNCHANGED <<doc, rtl, H, Hfirst, nth, resume, right, pages, placed, pending>>
\* building the document one paragraph at a time (simulation of larger documents: INIT InitBuild)
InitBuild == /\ doc = <<>> /\ rtl \in (IF Rich THEN BOOLEAN ELSE {FALSE}) /\ H \in Hs /\ Hfirst \in (IF Rich THEN Hs \cup {0} ELSE {0}) /\ nth \in NthSet
             /\ resume = 1 /\ right = ~rtl /\ pages = <<>> /\ placed = <<>> /\ pending = "auto" /\ phase = "build"
AddBlock == /\ phase = "build" /\ Len(doc) < MaxBlocks /\ \E b \in Blk : doc' = Append(doc, b)
            /\ UNCHANGED <<rtl, H, Hfirst, nth, resume, right, pages, placed, pending, phase>>
EndBuild == /\ phase = "build" /\ Len(doc) = MaxBlocks /\ phase' = "paginate"
            /\ UNCHANGED <<doc, rtl, H, Hfirst, nth, resume, right, pages, placed, pending>>
Next == AddBlock \/ EndBuild \/ InsertBlank \/ RemakePage \/ Finish
Spec == Init /\ [][Next]_vars /\ WF_vars(Next)
SpecBuild == InitBuild /\ [][Next]_vars /\ WF_vars(Next)

---------------------------------------------------------------------------
\* every non-blank page advances the resume point; a blank page keeps it and flips the side
Progress == [][phase = "paginate" /\ phase' = "paginate" => (resume' > resume \/ (resume' = resume /\ right' # right /\ Len(pages') = Len(pages) + 1))]_vars
\* the deterministic page maker refines the relation
Refines == \A i \in 1..Len(pages) : pages[i].blank \/ pages[i].lines = <<>> \/
   pages[i].lines[Len(pages[i].lines)] \in AllowedEnds(doc, Cap(i), pages[i].lines[1])
NoTwoBlanks == \A i \in 1..Len(pages) - 1 : ~(pages[i].blank /\ pages[i + 1].blank)
\* content is laid out exactly once, in order
Conservation == placed = [j \in 1..Len(placed) |-> j]
Complete == phase = "done" => placed = [j \in 1..N(doc) |-> j]
\* the page after a left/right forced break has the requested side
SideHonoured == \A i \in 1..Len(pages) - 1 :
   (~pages[i].blank /\ pages[i].lines # <<>> /\ pages[i].lines[Len(pages[i].lines)] < N(doc)) =>
     LET v == SideOf(Combined(doc, pages[i].lines[Len(pages[i].lines)]), rtl)
         nxt == IF pages[i + 1].blank /\ i + 2 <= Len(pages) THEN pages[i + 2] ELSE pages[i + 1] IN
     (v = "left" /\ ~nxt.blank => ~nxt.right) /\ (v = "right" /\ ~nxt.blank => nxt.right)
\* a page never holds more lines than its capacity, unless it holds a single line (an unbreakable unit)
FitsPage == \A i \in 1..Len(pages) : Len(pages[i].lines) <= 1 \/ Len(pages[i].lines) <= Cap(i)
Terminates == <>(phase = "done")

\* the sides alternate, starting with a right page (a left page in a right-to-left document)
SidesAlternate == \A i \in 1..Len(pages) : pages[i].right = ((i % 2 = 1) # rtl)
Emit == phase = "done" => PrintT(ToJson([doc |-> doc, rtl |-> rtl, H |-> H, Hfirst |-> Hfirst, nth |-> nth, pages |-> pages,
                                         nthpages |-> [k \in 1..Len(pages) |-> NthMatch(nth, k)]]))
=============================================================================
