------------------------------ MODULE Metadata ------------------------------
(***************************************************************************)
(* C14, last clause: "<title> / <meta> metadata is forwarded unchanged".   *)
(*                                                                         *)
(* The head of a document is a sequence of elements  title(text)  and      *)
(* meta(name, content); texts are sequences of code points. Collecting the *)
(* metadata (HTML, "standard metadata names") is a transition system that  *)
(* consumes one element per step: the first non-empty title, description   *)
(* and generator win, every author is kept in order, the keywords of every *)
(* meta are split on commas, stripped of ASCII white space (TAB LF FF CR   *)
(* SPACE - not of other Unicode spaces) and kept once, in order of first   *)
(* appearance; names are matched ASCII case-insensitively.                 *)
(* Invariants: KeywordsClean, FirstWins, AuthorsInOrder; liveness          *)
(* Terminates; terminal states carry what the backend must receive.        *)
(***************************************************************************)
EXTENDS Integers, Sequences, FiniteSets, TLC, Json

CONSTANTS MaxElems

VARIABLES els, pos, title, desc, gen, kws, authors
vars == <<els, pos, title, desc, gen, kws, authors>>

\* texts (code points):  T1  T2  " T3 "  A  B  k1  ...
T1 == <<84, 49>>   T2 == <<84, 50>>   T3 == <<32, 84, 51, 32>>
Values == [t1 |-> T1, t2 |-> T2, t3 |-> T3, e |-> <<>>,
           a |-> <<65>>, b |-> <<66, 32>>,
           d1 |-> <<68, 49>>, d2 |-> <<68, 50>>,
           g1 |-> <<71, 49>>, g2 |-> <<71, 50>>,
           \* "k1, k2"   "k2,k1"   " k1<TAB>,<NBSP>k3<NBSP>"   "k1,,k1"   "<LF>k4<FF>,k2<CR>"   "<U+2003>k5"
           ka |-> <<107, 49, 44, 32, 107, 50>>, kb |-> <<107, 50, 44, 107, 49>>,
           kc |-> <<32, 107, 49, 9, 44, 160, 107, 51, 160>>, kd |-> <<107, 49, 44, 44, 107, 49>>,
           ke |-> <<10, 107, 52, 12, 44, 107, 50, 13>>, kf |-> <<8195, 107, 53>>]
Elem == {[k |-> "title", v |-> x] : x \in {"t1", "t2", "t3", "e"}} \cup
        {[k |-> "author", v |-> x] : x \in {"a", "b"}} \cup {[k |-> "Author", v |-> "a"]} \cup
        {[k |-> "description", v |-> x] : x \in {"d1", "d2", "e"}} \cup
        {[k |-> "generator", v |-> x] : x \in {"g1", "g2"}} \cup
        {[k |-> "keywords", v |-> x] : x \in {"ka", "kb", "kc", "kd", "ke", "kf", "e"}} \cup {[k |-> "KeyWords", v |-> "kb"]} \cup
        {[k |-> "other", v |-> "a"]}
Lower(k) == CASE k = "Author" -> "author" [] k = "KeyWords" -> "keywords" [] OTHER -> k

IsWs(c) == c \in {9, 10, 12, 13, 32}
RECURSIVE StripL(_), StripR(_), Split(_, _)
StripL(s) == IF s # <<>> /\ IsWs(Head(s)) THEN StripL(Tail(s)) ELSE s
StripR(s) == IF s # <<>> /\ IsWs(s[Len(s)]) THEN StripR(SubSeq(s, 1, Len(s) - 1)) ELSE s
Strip(s) == StripR(StripL(s))
\* split on commas (code point 44); acc is the token being read
Split(s, acc) == IF s = <<>> THEN <<acc>> ELSE IF Head(s) = 44 THEN <<acc>> \o Split(Tail(s), <<>>) ELSE Split(Tail(s), Append(acc, Head(s)))
RECURSIVE AddAll(_, _)
AddAll(ks, toks) == IF toks = <<>> THEN ks
                    ELSE LET t == Strip(Head(toks)) IN
                         AddAll(IF \E j \in 1..Len(ks) : ks[j] = t THEN ks ELSE Append(ks, t), Tail(toks))

Init == /\ els \in UNION {[1..m -> Elem] : m \in 0..MaxElems} /\ pos = 1
        /\ title = <<>> /\ desc = <<>> /\ gen = <<>> /\ kws = <<>> /\ authors = <<>>
Step == /\ pos <= Len(els)
        /\ LET e == els[pos]  v == Values[e.v]  n == Lower(e.k) IN
           /\ title' = IF n = "title" /\ title = <<>> THEN v ELSE title
           /\ desc' = IF n = "description" /\ desc = <<>> THEN v ELSE desc
           /\ gen' = IF n = "generator" /\ gen = <<>> THEN v ELSE gen
           /\ authors' = IF n = "author" THEN Append(authors, v) ELSE authors
           /\ kws' = IF n = "keywords" THEN AddAll(kws, Split(v, <<>>)) ELSE kws
        /\ pos' = pos + 1 /\ UNCHANGED els
Done == pos > Len(els) /\ UNCHANGED vars
Next == Step \/ Done
Spec == Init /\ [][Next]_vars /\ WF_vars(Step)

----------------------------------------------------------------------------
KeywordsClean == /\ \A i, j \in 1..Len(kws) : i # j => kws[i] # kws[j]
                 /\ \A i \in 1..Len(kws) : kws[i] = <<>> \/ (~IsWs(kws[i][1]) /\ ~IsWs(kws[i][Len(kws[i])]))
Firsts(n) == SelectSeq(SubSeq(els, 1, pos - 1), LAMBDA e : Lower(e.k) = n /\ Values[e.v] # <<>>)
FirstWins == /\ title = (IF Firsts("title") = <<>> THEN <<>> ELSE Values[Firsts("title")[1].v])
             /\ desc = (IF Firsts("description") = <<>> THEN <<>> ELSE Values[Firsts("description")[1].v])
             /\ gen = (IF Firsts("generator") = <<>> THEN <<>> ELSE Values[Firsts("generator")[1].v])
AuthorsInOrder == Len(authors) = Len(SelectSeq(SubSeq(els, 1, pos - 1), LAMBDA e : Lower(e.k) = "author"))
Terminates == <>(pos > Len(els))
Emit == pos > Len(els) => PrintT(ToJson([els |-> [j \in 1..Len(els) |-> [k |-> els[j].k, v |-> Values[els[j].v]]],
                                         title |-> title, desc |-> desc, gen |-> gen, kws |-> kws, authors |-> authors]))
=============================================================================
