------------------------------ MODULE TableGrid ------------------------------
(***************************************************************************)
(* CSS 2.1 section 17 / HTML table model: the grid of a table.             *)
(*                                                                         *)
(* Part 1 - slot assignment (html/boxes/build.go wrapTable) as a           *)
(* transition system: cells are taken row by row; PlaceCell puts the next  *)
(* cell at the first column of its row that no row-spanning cell from      *)
(* above occupies, clamps its rowspan to the rows that remain (0 = all of  *)
(* them) and reserves its slots in the rows below.                         *)
(*                                                                         *)
(* Part 2 - GridConsistent: the declarative statement of C13 on a laid-out *)
(* table (columns, rows, cell rectangles in 1/64 px), evaluated by         *)
(* TableGridTrace.tla on the geometry observed in the real layout.         *)
(***************************************************************************)
EXTENDS Integers, Sequences, FiniteSets, TLC, Json

CONSTANTS MaxRows, MaxCells, MaxSpan, Sized   \* Sized: TRUE adds contents, widths, table width, layout, spacing

VARIABLES tab, opts, r, k, gx, occ, placed, phase
vars == <<tab, opts, r, k, gx, occ, placed, phase>>

\* cs: colspan, rs: rowspan (0 = to the end of the row group), words: 0..2 words of 4 em, w: 0 = auto, n > 0 = n px, n < 0 = -n %
CellW == IF Sized THEN {0, 20, 48, -30} ELSE {0}
\* rh: specified height of the ROW, carried by its first cell (0 auto, n px)
\* (cs = 0 stands for an invalid colspan attribute - "0", "-2" or not a number -, which counts as 1: HTML 4.9.11)
Cell == [cs : (IF Sized \/ MaxRows <= 2 THEN 0..MaxSpan ELSE 1..MaxSpan), rs : 0..MaxSpan, words : (IF Sized THEN 0..2 ELSE {1}), w : CellW, rh : (IF Sized THEN {0, 5, 30} ELSE {0})]
\* tw: table width (0 auto, n px), fixed: table-layout fixed, bs: border-spacing px, collapse, cap: caption (0 none, 1 top, 2 bottom)
\* rtl: direction: rtl on the table: the columns run from right to left
Opts == IF Sized THEN [tw : {0, 60, 200}, fixed : BOOLEAN, bs : {0, 2}, collapse : BOOLEAN, cap : 0..2, rtl : BOOLEAN]
        ELSE {[tw |-> 0, fixed |-> FALSE, bs |-> 2, collapse |-> FALSE, cap |-> 0, rtl |-> FALSE]}

NRows == Len(tab)
\* the slots of a placed cell
Slots(p) == {<<y, x>> : y \in p.r..(p.r + p.rs - 1), x \in p.x..(p.x + p.cs - 1)}

InitBuild == /\ tab = <<>> /\ opts \in Opts /\ r = 1 /\ k = 1 /\ gx = 1 /\ occ = {} /\ placed = <<>> /\ phase = "build"
AddRow == /\ phase = "build" /\ Len(tab) < MaxRows /\ (IF tab = <<>> THEN TRUE ELSE tab[Len(tab)] # <<>>)
          /\ tab' = Append(tab, <<>>) /\ UNCHANGED <<opts, r, k, gx, occ, placed, phase>>
AddCell == /\ phase = "build" /\ (IF tab = <<>> THEN FALSE ELSE Len(tab[Len(tab)]) < MaxCells)
           /\ \E c \in Cell : (tab[Len(tab)] # <<>> => c.rh = 0) /\ tab' = [tab EXCEPT ![Len(tab)] = Append(@, c)]
           /\ UNCHANGED <<opts, r, k, gx, occ, placed, phase>>
EndBuild == /\ phase = "build" /\ (IF tab = <<>> THEN FALSE ELSE tab[Len(tab)] # <<>>) /\ phase' = "place"
            /\ UNCHANGED <<tab, opts, r, k, gx, occ, placed>>

\* first free column at or after g in row y
RECURSIVE FirstFree(_, _)
FirstFree(y, g) == IF <<y, g>> \in occ THEN FirstFree(y, g + 1) ELSE g
PlaceCell == /\ phase = "place" /\ r <= NRows /\ k <= Len(tab[r])
             /\ LET c == [tab[r][k] EXCEPT !.cs = IF @ = 0 THEN 1 ELSE @]
                    x == FirstFree(r, gx)
                    left == NRows - r + 1
                    rs == IF c.rs = 0 THEN left ELSE IF c.rs > left THEN left ELSE c.rs
                    p == [r |-> r, i |-> k, x |-> x, cs |-> c.cs, rs |-> rs] IN
                /\ placed' = Append(placed, p)
                \* only the rows BELOW are reserved (a later cell of this row continues at x + cs)
                /\ occ' = occ \cup {s \in Slots(p) : s[1] > r}
                /\ gx' = x + c.cs
             /\ k' = k + 1 /\ UNCHANGED <<tab, opts, r, phase>>
NextRow == /\ phase = "place" /\ r <= NRows /\ k > Len(tab[r])
           /\ r' = r + 1 /\ k' = 1 /\ gx' = 1 /\ UNCHANGED <<tab, opts, occ, placed, phase>>
\* table-layout: fixed (CSS 2.1 17.5.2.1): the columns are those of the first row; what lies beyond them is not rendered
\* (a cell starting beyond is dropped, a cell running beyond is cut)
FirstRowWidth == LET S == {placed[q].x + placed[q].cs - 1 : q \in {z \in 1..Len(placed) : placed[z].r = 1}} IN CHOOSE w \in S : \A n \in S : n <= w
CutToFirstRow == LET W == FirstRowWidth
                     kept == SelectSeq(placed, LAMBDA p : p.x <= W) IN
                 [q \in 1..Len(kept) |-> [kept[q] EXCEPT !.cs = IF kept[q].x + @ - 1 > W THEN W - kept[q].x + 1 ELSE @]]
Finish == /\ phase = "place" /\ r > NRows /\ phase' = "done"
          /\ placed' = IF opts.fixed /\ opts.tw # 0 THEN CutToFirstRow ELSE placed   \* (fixed layout needs a specified width)
          /\ UNCHANGED <<tab, opts, r, k, gx, occ>>
Next == AddRow \/ AddCell \/ EndBuild \/ PlaceCell \/ NextRow \/ Finish
Spec == InitBuild /\ [][Next]_vars /\ WF_vars(PlaceCell \/ NextRow \/ Finish)

GridWidth == IF placed = <<>> THEN 0 ELSE LET S == {placed[q].x + placed[q].cs - 1 : q \in 1..Len(placed)} IN CHOOSE m \in S : \A n \in S : n <= m
\* design properties of the slot assignment
InRow == \A q \in 1..Len(placed) : placed[q].rs >= 1 /\ placed[q].r + placed[q].rs - 1 <= NRows /\ placed[q].x >= 1
\* cells of one row are placed left to right without sharing a slot of that row
RowOrder == \A a, b \in 1..Len(placed) : (placed[a].r = placed[b].r /\ placed[a].i < placed[b].i) => placed[a].x + placed[a].cs <= placed[b].x
\* a cell never STARTS on a slot reserved by a row-spanning cell from above
StartFree == \A a, b \in 1..Len(placed) : a # b => <<placed[b].r, placed[b].x>> \notin {s \in Slots(placed[a]) : s[1] > placed[a].r}
\* two cells share a slot only when a column-spanning cell runs into a row-spanning cell from above (HTML "table model error")
Shared == {<<a, b>> \in (1..Len(placed)) \X (1..Len(placed)) : a < b /\ Slots(placed[a]) \cap Slots(placed[b]) # {}}
SharedOnlyByRunningInto == \A pr \in Shared : placed[pr[2]].cs > 1 /\ placed[pr[1]].rs > 1 /\ placed[pr[1]].r < placed[pr[2]].r
Terminates == (phase = "place") ~> (phase = "done")

Emit == phase = "done" => PrintT(ToJson([tab |-> tab, opts |-> opts, placed |-> placed, gridw |-> GridWidth, shared |-> Shared # {}]))

---------------------------------------------------------------------------
\* Part 2. g = [cols |-> <<[p, w]>>, rows |-> <<[p, h]>>, cells |-> <<[r, x, cs, rs, px, py, w, h (border box), cw (content width), minw, specw]>>,
\*             tx, tw (content), tbw (border box), spec, bsh, bsv, collapse, fixed]   all lengths in 1/64 px, r/x 1-based
Near(a, b) == a - b <= 3 /\ b - a <= 3
RECURSIVE SumW(_, _, _)
SumW(s, a, b) == IF a > b THEN 0 ELSE s[a].w + SumW(s, a + 1, b)
RECURSIVE SumH(_, _, _)
SumH(s, a, b) == IF a > b THEN 0 ELSE s[a].h + SumH(s, a + 1, b)
CellSlots(c) == {<<y, x>> : y \in c.r..(c.r + c.rs - 1), x \in c.x..(c.x + c.cs - 1)}
NearN(a, b, tol) == a - b <= tol /\ b - a <= tol
F(cond, name) == IF cond THEN {name} ELSE {}
\* the set of clauses of C13 that the laid-out table g violates
\* The clauses are stated in inline-start coordinates: the geometry of a right-to-left table is mirrored about the vertical
\* axis of the table before they are evaluated (column 1 is then the leftmost one).
Mirror(g) == LET ax == 2 * g.tx + g.tw IN
  [g EXCEPT !.cells = [j \in 1..Len(g.cells) |-> [g.cells[j] EXCEPT !.px = ax - (g.cells[j].px + g.cells[j].w)]],
            !.cols = [j \in 1..Len(g.cols) |-> [g.cols[j] EXCEPT !.p = ax - (g.cols[j].p + g.cols[j].w)]]]
FailuresLtr(g) ==
  LET C == g.cells  n == Len(g.cols)  m == Len(g.rows)  I == 1..Len(C)
      structural ==
             F(\E i \in I : C[i].w < 0 \/ C[i].h < 0, "negative-cell-size")
        \cup F((\E j \in 1..n : g.cols[j].w < 0) \/ (\E j \in 1..m : g.rows[j].h < 0), "negative-track-size")
        \cup F(\E i \in I : C[i].x < 1 \/ C[i].r < 1 \/ C[i].cs < 1 \/ C[i].rs < 1 \/ C[i].x + C[i].cs - 1 > n \/ C[i].r + C[i].rs - 1 > m, "cell-outside-the-grid")
  IN IF structural # {} THEN structural ELSE
             F(\E i, j \in I : C[i].x = C[j].x /\ ~Near(C[i].px, C[j].px), "left-edges-differ-in-a-column")
        \cup F(\E i, j \in I : C[i].x + C[i].cs = C[j].x + C[j].cs /\ ~Near(C[i].px + C[i].w, C[j].px + C[j].w), "right-edges-differ-in-a-column")
        \cup F(\E i, j \in I : C[i].r = C[j].r /\ ~Near(C[i].py, C[j].py), "top-edges-differ-in-a-row")
        \cup F(\E i, j \in I : C[i].r = C[j].r /\ C[i].rs = C[j].rs /\ ~Near(C[i].h, C[j].h), "heights-differ-in-a-row")
        \cup F(\E i \in I : ~Near(C[i].px, g.cols[C[i].x].p), "cell-not-at-its-column")
        \cup F(\E i \in I : ~Near(C[i].py, g.rows[C[i].r].p), "cell-not-at-its-row")
        \cup F(\E i \in I : ~Near(C[i].w, SumW(g.cols, C[i].x, C[i].x + C[i].cs - 1) + (C[i].cs - 1) * g.bsh), "cell-width-is-not-its-columns-plus-spacing")
        \cup F(\E i \in I : ~Near(C[i].h, SumH(g.rows, C[i].r, C[i].r + C[i].rs - 1) + (C[i].rs - 1) * g.bsv), "cell-height-is-not-its-rows-plus-spacing")
        \cup F(\E j \in 1..(n - 1) : ~Near(g.cols[j + 1].p, g.cols[j].p + g.cols[j].w + g.bsh), "columns-not-separated-by-border-spacing")
        \cup F(\E j \in 1..(m - 1) : ~Near(g.rows[j + 1].p, g.rows[j].p + g.rows[j].h + g.bsv), "rows-not-separated-by-border-spacing")
        \* (every column width is observed rounded to 1/64 px: the sum of n of them may be off by n/2 units)
        \cup F(n > 0 /\ ~NearN(SumW(g.cols, 1, n) + (n + 1) * g.bsh, g.tw, 3 + n), "columns-plus-spacing-do-not-fill-the-table")
        \cup F(n > 0 /\ ~Near(g.cols[1].p, g.tx + g.bsh), "first-column-not-at-the-table-edge")
        \cup F(g.spec > 0 /\ g.tbw < g.spec - 3, "table-narrower-than-its-specified-width")
        \cup F(\E i \in I : C[i].cs = 1 /\ ~g.fixed /\ C[i].cw < C[i].minw - 3, "cell-narrower-than-its-longest-word")
        \* (a specified cell width is NOT a lower bound of the used width: CSS Tables 3 makes it a max-content contribution only)
        \cup F(\E i, j \in I : i < j /\ CellSlots(C[i]) \cap CellSlots(C[j]) = {} /\
                 C[i].px + 3 < C[j].px + C[j].w /\ C[j].px + 3 < C[i].px + C[i].w /\ C[i].py + 3 < C[j].py + C[j].h /\ C[j].py + 3 < C[i].py + C[i].h,
             "cells-of-disjoint-slots-overlap")
Failures(g0) == FailuresLtr(IF g0.rtl THEN Mirror(g0) ELSE g0)
GridConsistent(g) == Failures(g) = {}
=============================================================================
