CONSTANTS
  Family = "path"
  MaxCmds = 2
INIT Init
NEXT Next
INVARIANTS CurIsLastEnd StartsWithMove Emit
CHECK_DEADLOCK FALSE
