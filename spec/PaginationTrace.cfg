CONSTANTS
  MaxBlocks = 0
  Hs = {}
  Rich = FALSE
INIT TInit
NEXT TNext
INVARIANT Report
CHECK_DEADLOCK FALSE
