------------------------------- MODULE Decor -------------------------------
(***************************************************************************)
(* Box decorations (C14, drawing protocol): the alphabet of single boxes   *)
(* whose painting exercises every path-building branch of                  *)
(* html/document/draw.go: sizes that may be zero, border styles, rounded   *)
(* corners, backgrounds (colour, gradient, tiled with repeat / space /     *)
(* round, degenerate radial gradients), overflow clipping, opacity,      *)
(* transforms, outlines, a text drawn with two fonts (fallback).            *)
(* There is no behaviour here: the module only enumerates the scenarios    *)
(* that the protocol checker Backend!Proto is run on.                      *)
(***************************************************************************)
EXTENDS Integers, TLC, Json

VARIABLE box
Box == [w : {0, 20}, h : {0, 20}, border : {"none", "solid", "dashed", "dotted", "double", "groove"}, bw : {1, 3}, radius : {0, 4},
        bg : {"none", "color", "gradient", "tile-repeat", "tile-space", "tile-space-one", "tile-round", "radial", "radial-side", "radial-corner", "radial-zero"},
        txt : {"plain", "fallback"},
        ovf : BOOLEAN, opac : BOOLEAN, tf : BOOLEAN, outline : BOOLEAN]
Init == box \in Box
Next == UNCHANGED box
Emit == PrintT(ToJson(box))
=============================================================================
