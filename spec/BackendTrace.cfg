CONSTANTS
  MaxItems = 0
  Names = {}
  MaxLevel = 1
INIT TInit
NEXT TNext
INVARIANT Report
CHECK_DEADLOCK FALSE
