----------------------------- MODULE Declarations -----------------------------
(***************************************************************************)
(* What a block of declarations means (CSS Syntax / Cascade / Variables).  *)
(*                                                                         *)
(* Mode "vars"       custom-property graphs and var() substitution          *)
(* Mode "blocks"     a block with invalid members means the block without   *)
(*                   them (each bad declaration is dropped alone)           *)
(* Mode "shorthands" shorthand -> longhand tables (TRBL, border family,     *)
(*                   list-style, flex-flow, flex keywords, aliases)         *)
(* Mode "spellings"  spelling variants that must not change the meaning     *)
(***************************************************************************)
EXTENDS Integers, Sequences, FiniteSets, TLC, Json

CONSTANT Mode

VARIABLES scn, stack, val, phase
vars == <<scn, stack, val, phase>>

---------------------------------------------------------------------------
(* vars: names a b c; a definition is
     [k |-> "undef"] | [k |-> "lit", v |-> 7 | 9] | [k |-> BAD]            (a token that is no length)
   | [k |-> "ref", to |-> name, fb |-> 0 (no fallback) | 9]                  var(--to) / var(--to, 9px)
   The probe is  width: var(--a)  or  width: var(--a, 5px)  (and the same on the inherited text-indent). *)
\* value encoding (TLC cannot compare strings with numbers): a number of px, or one of
INVALID == -1     \* the guaranteed-invalid value
BAD == -2         \* tokens that are not a length
UNKNOWN == -9     \* not resolved yet
DEFAULT == 0      \* invalid at computed-value time: initial (width) / inherited (text-indent) value
VN == {"a", "b", "c"}
VDefs == {[k |-> "undef"], [k |-> "lit", v |-> 7], [k |-> "lit", v |-> 9], [k |-> "bad"]}
         \cup {[k |-> "ref", to |-> t, fb |-> f] : t \in VN, f \in {0, 9}}
         \* a fallback that is itself a reference:  var(--to, var(--to2, 3px))
         \cup {[k |-> "nest", to |-> t, to2 |-> u] : t \in VN, u \in VN}
\* probes: width / text-indent: var(--a) or var(--a, 5px) ;  "pair":  margin: var(--a, 1px) var(--b, 2px)
VarScn(u) == {[defs |-> d, probefb |-> p, prop |-> pp] : d \in [VN -> VDefs], p \in {0, 5}, pp \in {"width", "text-indent"}}
          \cup {[defs |-> d, probefb |-> 1, prop |-> "pair"] : d \in [VN -> VDefs]}

RefTo(d, x) == IF d[x].k = "ref" THEN {d[x].to} ELSE IF d[x].k = "nest" THEN {d[x].to, d[x].to2} ELSE {}
RECURSIVE ReachV(_, _, _)
ReachV(d, S, n) == IF n = 0 THEN S ELSE ReachV(d, S \cup UNION {RefTo(d, y) : y \in S}, n - 1)
\* x is on a cycle of references: all properties of a cycle are invalid at computed-value time
InCycle(d, x) == x \in ReachV(d, RefTo(d, x), 3)
\* the computed value of a custom property: INVALID (guaranteed-invalid), BAD or a number
RECURSIVE CVal(_, _, _)
CVal(d, x, fuel) ==
  IF fuel = 0 \/ InCycle(d, x) THEN INVALID
  ELSE CASE d[x].k = "undef" -> INVALID
         [] d[x].k = "lit" -> d[x].v
         [] d[x].k = "bad" -> BAD
         [] d[x].k = "nest" -> LET t == CVal(d, d[x].to, fuel - 1) IN
                               IF t # INVALID THEN t ELSE LET u == CVal(d, d[x].to2, fuel - 1) IN IF u # INVALID THEN u ELSE 3
         [] OTHER -> LET t == CVal(d, d[x].to, fuel - 1) IN
                     IF t = INVALID THEN (IF d[x].fb = 0 THEN INVALID ELSE d[x].fb) ELSE t
\* the computed value of the probe: a number of px, or DEFAULT = invalid at computed-value time
\* (initial value for width, inherited value for text-indent)
\* the pair probe: <<margin-top, margin-right>>, both 0 when the declaration is invalid at computed-value time
PairValue(s) ==
  LET a == CVal(s.defs, "a", 4)  b == CVal(s.defs, "b", 4)
      top == IF a = INVALID THEN 1 ELSE a   right == IF b = INVALID THEN 2 ELSE b IN
  IF top = BAD \/ right = BAD THEN <<0, 0>> ELSE <<top, right>>
ProbeValue(s) ==
  LET t == CVal(s.defs, "a", 4)
      u == IF t = INVALID THEN (IF s.probefb = 0 THEN INVALID ELSE s.probefb) ELSE t IN
  IF u \in {INVALID, BAD} THEN DEFAULT ELSE u

---------------------------------------------------------------------------
(* blocks: sequences of <= 4 declarations on margin-top *)
BDecl == {"A1", "A2", "SH3", "BADVAL", "UNKNOWN", "VAR4", "EMPTY", "IMPA5"}
\*  A1: margin-top:1px   A2: margin-top:2px   SH3: margin:3px   BADVAL: margin-top:red   UNKNOWN: zzz-top:8px
\*  VAR4: margin-top:var(--m) with --m:4px   EMPTY: margin-top:   IMPA5: margin-top:5px !important
BlockScn == UNION {[1..m -> BDecl] : m \in 1..4}
ValidDecl(x) == x \in {"A1", "A2", "SH3", "VAR4", "IMPA5"}
DeclVal(x) == CASE x = "A1" -> 1 [] x = "A2" -> 2 [] x = "SH3" -> 3 [] x = "VAR4" -> 4 [] x = "IMPA5" -> 5
\* the last valid declaration wins, an !important one beats the others
BlockValue(b) ==
  LET v == SelectSeq(b, ValidDecl) IN
  IF v = <<>> THEN 0
  ELSE IF \E j \in 1..Len(v) : v[j] = "IMPA5" THEN 5 ELSE DeclVal(v[Len(v)])
\* margin-bottom is only set by the shorthand
BlockBottom(b) == LET v == SelectSeq(b, ValidDecl) IN IF \E j \in 1..Len(v) : v[j] = "SH3" THEN 3 ELSE 0

---------------------------------------------------------------------------
(* shorthands *)
\* top right bottom left from 1 to 4 values (CSS 2.1 8.3)
TRBL(v) == CASE Len(v) = 1 -> <<v[1], v[1], v[1], v[1]>>
             [] Len(v) = 2 -> <<v[1], v[2], v[1], v[2]>>
             [] Len(v) = 3 -> <<v[1], v[2], v[3], v[2]>>
             [] OTHER      -> <<v[1], v[2], v[3], v[4]>>
TrblFamilies == {"margin", "padding", "border-width", "border-style", "border-color"}
TrblScn == {[fam |-> f, vals |-> v] : f \in TrblFamilies, v \in UNION {[1..m -> 1..4] : m \in 1..4}}
\* border-like shorthands: any subset of {width, style, color} in any order; omitted parts are reset to initial
Perms(S) == {q \in [1..Cardinality(S) -> S] : \A i, j \in 1..Cardinality(S) : i # j => q[i] # q[j]}
BorderScn == {[sh |-> sh, parts |-> q] : sh \in {"border", "border-top", "border-left", "outline", "column-rule"},
                q \in UNION {Perms(S) : S \in (SUBSET {"width", "style", "color"}) \ {{}}}}
\* flex keywords and numbers (CSS Flexbox 7.1.1): <<grow, shrink, basis>> ; basis "0" | "auto" | "content"
\* (a unitless zero that is not preceded by two flex factors is a flex factor; after two factors it is the basis)
FlexScn == {"none", "auto", "initial", "2", "2 3", "10px", "2 10px", "2 3 10px", "0 auto", "2 3 0", "0 0 0", "0", "0 0", "0 10px", "10px 2", "10px 2 3", "0 2 auto"}
FlexValue(t) == CASE t = "none" -> <<0, 0, "auto">> [] t = "auto" -> <<1, 1, "auto">> [] t = "initial" -> <<0, 1, "auto">>
                  [] t = "2" -> <<2, 1, "0">> [] t = "2 3" -> <<2, 3, "0">> [] t = "10px" -> <<1, 1, "10px">>
                  [] t = "2 10px" -> <<2, 1, "10px">> [] t = "2 3 10px" -> <<2, 3, "10px">> [] t = "0 auto" -> <<0, 1, "auto">>
                  [] t = "2 3 0" -> <<2, 3, "0">> [] t = "0 0 0" -> <<0, 0, "0">> [] t = "0" -> <<0, 1, "0">> [] t = "0 0" -> <<0, 0, "0">>
                  [] t = "0 10px" -> <<0, 1, "10px">> [] t = "10px 2" -> <<2, 1, "10px">> [] t = "10px 2 3" -> <<2, 3, "10px">>
                  [] t = "0 2 auto" -> <<0, 2, "auto">>
\* columns: <width> || <count> in any order, `auto` for either (CSS Multicol 1): <<column-width, column-count>> ; "auto" | "10em" | "3"
ColumnsScn == {"auto", "10em", "3", "auto auto", "auto 10em", "10em auto", "auto 3", "3 auto", "10em 3", "3 10em"}
ColumnsValue(t) == CASE t \in {"auto", "auto auto"} -> <<"auto", "auto">> [] t \in {"10em", "auto 10em", "10em auto"} -> <<"10em", "auto">>
                     [] t \in {"3", "auto 3", "3 auto"} -> <<"auto", "3">> [] OTHER -> <<"10em", "3">>
\* list-style: type, position, image in any order, omitted parts reset
ListScn == {[parts |-> q] : q \in UNION {Perms(S) : S \in (SUBSET {"type", "position", "image"}) \ {{}}}}
\* flex-flow: direction and wrap in any order
FlowScn == {[parts |-> q] : q \in UNION {Perms(S) : S \in (SUBSET {"direction", "wrap"}) \ {{}}}}
\* background: comma-separated layers, each with an image, a position and (after "/") a size; the longhands are the lists
\* of the layers' values IN THE ORDER OF THE LAYERS (CSS Backgrounds 3, 3.10); an omitted part takes its initial value
BgSizes == {"", "10px 20px", "cover", "30%"}
BgPositions == {"", "1px 2px", "right bottom"}
BgLayer == {[img |-> i, pos |-> p, size |-> z] : i \in {"a", "b"}, p \in BgPositions, z \in BgSizes} \ {[img |-> i, pos |-> "", size |-> z] : i \in {"a", "b"}, z \in BgSizes \ {""}}
BgScn == {<<x>> : x \in BgLayer} \cup {<<x, y>> : x \in BgLayer, y \in BgLayer}
ShortScn == {[kind |-> "background", s |-> [layers |-> x]] : x \in BgScn} \cup {[kind |-> "trbl", s |-> x] : x \in TrblScn} \cup {[kind |-> "columns", s |-> [t |-> x]] : x \in ColumnsScn}
            \cup {[kind |-> "list-style", s |-> x] : x \in ListScn} \cup {[kind |-> "flex-flow", s |-> x] : x \in FlowScn} \cup {[kind |-> "border", s |-> x] : x \in BorderScn}
            \cup {[kind |-> "flex", s |-> [t |-> x]] : x \in FlexScn}

---------------------------------------------------------------------------
(* spellings: (declaration family, variant) ; every variant means what the canonical spelling means *)
SpellDecls == {"length", "keyword", "color-fn", "url", "shorthand", "important", "string", "multi", "fr", "angle", "resolution", "em",
               "gradient-fn", "radial-fn", "counter-fn", "attr-fn", "steps-fn"}
SpellVariants == {"canonical", "upper-name", "upper-keyword", "upper-unit", "upper-function", "comment-between", "extra-space",
                  "comment-before-colon", "newline-tab", "upper-important"}
\* ASCII case-insensitivity does not extend to non-ASCII look-alikes: with U+212A KELVIN SIGN for k or U+0130 for i
\* (next to an ASCII capital) a name or keyword is unknown and the declaration is dropped
LookAlikes == {"kelvin-name", "dotted-i-keyword", "kelvin-keyword"}
\* properties whose grammar accepts an arbitrary identifier: everywhere else an unknown identifier is an invalid value
CustomIdentProps == {"font-family", "counter-reset", "counter-increment", "counter-set", "grid-row-start", "grid-row-end",
                     "grid-column-start", "grid-column-end", "page", "string-set", "list-style-type", "anchor", "font-language-override"}
SpellScn == {[decl |-> d, variant |-> v] : d \in SpellDecls, v \in SpellVariants}
            \cup {[decl |-> "look-alike", variant |-> v] : v \in LookAlikes}
            \* every supported property with the explicit value found for it at run time
            \cup {[decl |-> "all-properties", variant |-> v, custom |-> CustomIdentProps] : v \in {"upper-value", "upper-name", "garbage-value"}}

---------------------------------------------------------------------------
(* Resolution of var() as a transition system with an explicit `stack` of properties being substituted *)
Init == /\ scn \in CASE Mode = "vars" -> VarScn(0) [] Mode = "blocks" -> BlockScn [] Mode = "shorthands" -> ShortScn [] OTHER -> SpellScn
        \* the stack machine covers the single-reference fragment; nested fallbacks and the pair probe are declarative only
        /\ stack = IF Mode = "vars" THEN <<"a">> ELSE <<>>
        /\ val = [x \in VN |-> UNKNOWN]
        /\ phase = IF Mode = "vars" /\ scn.prop # "pair" /\ (\A x \in VN : scn.defs[x].k # "nest") THEN "resolve" ELSE "done"

Top == stack[Len(stack)]
\* the property on top needs another one that is not resolved yet: descend, unless that would close a cycle
Descend == /\ phase = "resolve" /\ stack # <<>>
           /\ scn.defs[Top].k = "ref" /\ val[scn.defs[Top].to] = UNKNOWN
           /\ LET t == scn.defs[Top].to IN
              IF \E j \in 1..Len(stack) : stack[j] = t
              THEN \* cycle: every property from t upwards on the stack is invalid
                   /\ val' = [x \in VN |-> IF \E j \in 1..Len(stack) : stack[j] = x /\ (\E i \in 1..j : stack[i] = t) THEN INVALID ELSE val[x]]
                   /\ stack' = SubSeq(stack, 1, (CHOOSE i \in 1..Len(stack) : stack[i] = t) - 1)
              ELSE /\ stack' = Append(stack, t) /\ val' = val
           /\ UNCHANGED <<scn, phase>>
\* the property on top can be computed from resolved ones
Compute == /\ phase = "resolve" /\ stack # <<>>
           /\ LET d == scn.defs[Top] IN
              /\ (IF d.k = "ref" THEN val[d.to] # UNKNOWN ELSE TRUE)
              /\ val' = [val EXCEPT ![Top] =
                    CASE d.k = "undef" -> INVALID [] d.k = "lit" -> d.v [] d.k = "bad" -> BAD
                      [] OTHER -> IF val[d.to] = INVALID THEN (IF d.fb = 0 THEN INVALID ELSE d.fb) ELSE val[d.to]]
           /\ stack' = SubSeq(stack, 1, Len(stack) - 1) /\ UNCHANGED <<scn, phase>>
FinishV == /\ phase = "resolve" /\ stack = <<>> /\ phase' = "done" /\ UNCHANGED <<scn, stack, val>>
Next == Descend \/ Compute \/ FinishV
Spec == Init /\ [][Next]_vars /\ WF_vars(Next)

\* the stack never holds a property twice, so resolution terminates
NoRepeat == \A i, j \in 1..Len(stack) : i # j => stack[i] # stack[j]
Terminates == <>(phase = "done")
\* the stack machine computes the declarative value of --a
\* (a property that was cut off a cycle keeps INVALID; one never reached keeps UNKNOWN)
MachineAgrees == (Mode = "vars" /\ phase = "done" /\ val["a"] # UNKNOWN) => val["a"] = CVal(scn.defs, "a", 4)

Emit == phase = "done" =>
  PrintT(ToJson(CASE Mode = "vars" -> [mode |-> "vars", scn |-> scn, want |-> IF scn.prop = "pair" THEN 0 ELSE ProbeValue(scn),
                                                      pair |-> IF scn.prop = "pair" THEN PairValue(scn) ELSE <<>>]
                  [] Mode = "blocks" -> [mode |-> "blocks", block |-> scn, top |-> BlockValue(scn), bottom |-> BlockBottom(scn)]
                  [] Mode = "shorthands" -> [mode |-> "shorthands", scn |-> scn,
                                             trbl |-> IF scn.kind = "trbl" THEN TRBL(scn.s.vals) ELSE <<>>,
                                             flex |-> IF scn.kind = "flex" THEN FlexValue(scn.s.t) ELSE <<>>,
                                             columns |-> IF scn.kind = "columns" THEN ColumnsValue(scn.s.t) ELSE <<>>]
                  [] OTHER -> [mode |-> "spellings", scn |-> scn]))
=============================================================================
