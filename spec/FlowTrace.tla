------------------------------ MODULE FlowTrace ------------------------------
(***************************************************************************)
(* Trace validation for C02: every record of the trace file is             *)
(*   [doc, cfg, pages |-> <<tokens of page 1>>, <<tokens of page 2>>, ...] *)
(* observed on the real layout. It is accepted iff Flow!Accept says "ok",  *)
(* i.e. iff it is the page sequence of some behaviour of the fragmenter of *)
(* Flow.tla (which may break anywhere).                                    *)
(***************************************************************************)
EXTENDS Flow, IOUtils

VARIABLE i
Trace == ndJsonDeserialize(IOEnv.TRACE_FILE)

TInit == /\ i \in 1..Len(Trace)
         /\ doc = <<>> /\ cfg = [H |-> 0, W |-> 0, ow |-> 0] /\ c = 1 /\ opos = <<>> /\ ranch = {} /\ cur = <<>> /\ pages = <<>> /\ phase = "trace" /\ blank = FALSE /\ ifl = {}
TNext == UNCHANGED <<vars, i>>
Verdict(r) == Accept(r.doc, r.pages)
\* always TRUE; prints the index and the reason of every rejected record
Report == Verdict(Trace[i]) = "ok" \/ PrintT(<<"BAD", i, Verdict(Trace[i])>>)
=============================================================================
