----------------------------- MODULE BlockLayout -----------------------------
(***************************************************************************)
(* CSS 2.1 normal-flow block layout over integers (px).                    *)
(*                                                                         *)
(* Mode "width"    section 10.3.3 + 10.4: the used horizontal values of a  *)
(*                 block-level box in a containing block of width CB       *)
(* Mode "vertical" section 8.3.1 + 10.6.3: margin collapsing and stacking  *)
(*                 of nested in-flow blocks                                *)
(*                                                                         *)
(* A value of -1 means `auto` (margins, width, height) or `none`           *)
(* (max-width).                                                            *)
(***************************************************************************)
EXTENDS Integers, Sequences, FiniteSets, TLC, Json

CONSTANTS Mode, MaxBoxes

VARIABLES scn, phase
vars == <<scn, phase>>

Auto == -1
Max(a, b) == IF a > b THEN a ELSE b
Min(a, b) == IF a < b THEN a ELSE b

---------------------------------------------------------------------------
(* Mode "width" *)
CB == 40
\* a scenario: margins ml mr, width w (px), wpct (percentage, 0 = not a percentage), paddings pl pr, borders bl br,
\* minw, maxw, border-box sizing bs
WidthScn == {[ml |-> ml, mr |-> mr, w |-> w, wpct |-> wp, pl |-> pl, pr |-> pr, bl |-> bl, br |-> br, minw |-> mn, maxw |-> mx, bs |-> bs] :
   ml \in {Auto, 0, 10, -4}, mr \in {Auto, 0, 6}, w \in {Auto, 10, 60}, wp \in {0}, pl \in {0, 2}, pr \in {0, 4}, bl \in {0, 2}, br \in {0},
   mn \in {0, 30}, mx \in {Auto, 8}, bs \in BOOLEAN}
   \cup {[ml |-> ml, mr |-> mr, w |-> Auto, wpct |-> 50, pl |-> 2, pr |-> 0, bl |-> 0, br |-> 0, minw |-> 0, maxw |-> Auto, bs |-> bs] :
   ml \in {Auto, 0, 10}, mr \in {Auto, 0}, bs \in BOOLEAN}
\* content width specified (or Auto), taking percentages and box-sizing into account
SpecWidth(s) == LET raw == IF s.wpct > 0 THEN (CB * s.wpct) \div 100 ELSE s.w IN
                IF raw = Auto THEN Auto ELSE IF s.bs THEN Max(0, raw - s.pl - s.pr - s.bl - s.br) ELSE raw
BoxSizingAdj(s, v) == IF s.bs THEN Max(0, v - s.pl - s.pr - s.bl - s.br) ELSE v
\* 10.3.3 with the content width `w` (Auto or a number): returns <<ml, w, mr>>
Solve(s, w) ==
  LET extras == s.pl + s.pr + s.bl + s.br
      ml0 == s.ml  mr0 == s.mr
      \* "if width is not auto and the total of the non-auto values is larger than CB, auto margins are treated as zero"
      total == extras + (IF w = Auto THEN 0 ELSE w) + (IF ml0 = Auto THEN 0 ELSE ml0) + (IF mr0 = Auto THEN 0 ELSE mr0)
      ml1 == IF w # Auto /\ total > CB /\ ml0 = Auto THEN 0 ELSE ml0
      mr1 == IF w # Auto /\ total > CB /\ mr0 = Auto THEN 0 ELSE mr0
  IN IF w = Auto THEN LET a == IF ml1 = Auto THEN 0 ELSE ml1  b == IF mr1 = Auto THEN 0 ELSE mr1 IN <<a, CB - extras - a - b, b>>
     ELSE IF ml1 # Auto /\ mr1 # Auto THEN <<ml1, w, CB - extras - w - ml1>>          \* over-constrained, ltr: margin-right gives way
     ELSE IF ml1 = Auto /\ mr1 = Auto THEN <<(CB - extras - w) \div 2, w, (CB - extras - w) - ((CB - extras - w) \div 2)>>
     ELSE IF ml1 = Auto THEN <<CB - extras - w - mr1, w, mr1>>
     ELSE <<ml1, w, CB - extras - w - ml1>>
\* 10.4: tentative width, then max-width, then min-width
UsedWidth(s) ==
  LET t == Solve(s, SpecWidth(s))
      mx == IF s.maxw = Auto THEN Auto ELSE BoxSizingAdj(s, s.maxw)
      mn == BoxSizingAdj(s, s.minw)
      t2 == IF mx # Auto /\ t[2] > mx THEN Solve(s, mx) ELSE t
      t3 == IF t2[2] < mn THEN Solve(s, mn) ELSE t2
  IN t3
\* the equation of 10.3.3
WidthEquation(s) == LET u == UsedWidth(s) IN u[1] + s.bl + s.pl + u[2] + s.pr + s.br + u[3] = CB

---------------------------------------------------------------------------
(* Mode "vertical": boxes are records [mt, mb, bt, bb, h, mh, kids] ; kids is a sequence of boxes *)
Margins == {-3, 0, 5}
\* mh: min-height (on leaves): the used height is at least mh (10.7), and a box with a non-zero min-height does not collapse
\* through (8.3.1)
\* mxp: max-height as a percentage (0 = none): it refers to the height of the containing block and is treated as none when
\* that height is not specified explicitly (10.7); the used height is max(min(height, max-height), min-height)
Leaf == {[mt |-> a, mb |-> b, bt |-> c, bb |-> d, h |-> e, mh |-> m[1], mxp |-> m[2], kids |-> <<>>] :
            a \in Margins, b \in Margins, c \in {0, 1}, d \in {0, 1}, e \in {Auto, 0, 4}, m \in {<<0, 0>>, <<3, 0>>, <<0, 50>>}}
PlainLeaf == {x \in Leaf : x.mh = 0 /\ x.mxp = 0}
\* (the leaves with a min- or max-height of the exhaustive family: no top border, two heights)
VarLeaf == {x \in Leaf : (x.mh # 0 \/ x.mxp # 0) /\ x.bt = 0 /\ x.h # 0}
WithKids(K) == {[mt |-> a, mb |-> b, bt |-> c, bb |-> d, h |-> e, mh |-> 0, mxp |-> 0, kids |-> k] : a \in Margins, b \in Margins, c \in {0, 1}, d \in {0, 1}, e \in {Auto, 0, 4}, k \in K}
\* forests of at most two boxes: two siblings, or a parent with one child, or a single box; at most one of the two has a min- / max-height
\* (an operator with a dummy parameter: TLC evaluates constant definitions eagerly, this one only when Init needs it)
Forests2(dummy) == {<<x>> : x \in PlainLeaf \cup VarLeaf} \cup {<<x, y>> : x \in PlainLeaf, y \in PlainLeaf}
            \cup {<<x, y>> : x \in VarLeaf, y \in PlainLeaf} \cup {<<x, y>> : x \in PlainLeaf, y \in VarLeaf}
            \cup {<<p>> : p \in WithKids({<<c>> : c \in PlainLeaf \cup VarLeaf})}

None == -1000
PosOf(S) == {m \in S : m > 0}
NegOf(S) == {m \in S : m < 0}
MaxS(S) == IF S = {} THEN 0 ELSE CHOOSE x \in S : \A y \in S : y <= x
MinS(S) == IF S = {} THEN 0 ELSE CHOOSE x \in S : \A y \in S : x <= y
\* collapsed size of a set of adjoining margins: largest positive + most negative
Coll(P) == LET S == {P[j] : j \in 1..Len(P)} IN MaxS(PosOf(S)) + MinS(NegOf(S))

\* V(b, y, P): y = last solid edge above, P = pending adjoining margins.
\* result [obs: per box in pre-order [yb, bh, vis], yA, PA, solidY]
\* ph: the explicit height of the containing block (Auto when it depends on the content)
RECURSIVE V(_, _, _, _), Kids(_, _, _, _, _)
Kids(ks, y, P, acc, ph) ==
  IF ks = <<>> THEN acc
  ELSE LET r == V(Head(ks), acc.yA, acc.PA, ph) IN
       Kids(Tail(ks), y, P, [obs |-> acc.obs \o r.obs, yA |-> r.yA, PA |-> r.PA,
                             solidY |-> IF acc.solidY # None THEN acc.solidY ELSE r.solidY], ph)
V(b, y, P, ph) ==
  LET P1 == Append(P, b.mt)
      fixedH == b.h # Auto
      own == IF fixedH THEN b.h ELSE Auto
      maxh == IF b.mxp = 0 \/ ph = Auto THEN 1000000 ELSE (ph * b.mxp) \div 100
      base == IF fixedH THEN b.h ELSE 0
      ch == Max(IF base > maxh THEN maxh ELSE base, b.mh) IN
  IF b.kids = <<>> THEN
    \* (8.3.1 speaks of the 'height' PROPERTY being 0 or auto: a height clamped to 0 by max-height does not collapse through)
    IF b.bt = 0 /\ b.bb = 0 /\ ch = 0 /\ b.h \in {Auto, 0}
    THEN \* the margins collapse through the box: its position is not observable
         [obs |-> <<[yb |-> 0, bh |-> 0, vis |-> FALSE]>>, yA |-> y, PA |-> Append(P1, b.mb), solidY |-> None]
    ELSE LET yb == y + Coll(P1)  bh == b.bt + ch + b.bb IN
         [obs |-> <<[yb |-> yb, bh |-> bh, vis |-> TRUE]>>, yA |-> yb + bh, PA |-> <<b.mb>>, solidY |-> yb]
  ELSE IF b.bt > 0 THEN
    \* a top border separates the box's top margin from its children's
    LET yb == y + Coll(P1)
        k == Kids(b.kids, yb + b.bt, <<>>, [obs |-> <<>>, yA |-> yb + b.bt, PA |-> <<>>, solidY |-> None], own)
        cb == Max(yb + b.bt, IF fixedH THEN yb + b.bt + b.h ELSE IF b.bb > 0 THEN k.yA + Coll(k.PA) ELSE k.yA)
        sealed == fixedH \/ b.bb > 0 IN
    [obs |-> <<[yb |-> yb, bh |-> cb + b.bb - yb, vis |-> TRUE]>> \o k.obs, yA |-> cb + b.bb,
     PA |-> IF sealed THEN <<b.mb>> ELSE Append(k.PA, b.mb), solidY |-> yb]
  ELSE
    LET k == Kids(b.kids, y, P1, [obs |-> <<>>, yA |-> y, PA |-> P1, solidY |-> None], own)
        sealed == fixedH \/ b.bb > 0 IN
    IF k.solidY # None THEN
      \* the top margin class is resolved at the first solid edge inside: that is where the box starts
      LET yb == k.solidY
          cb == Max(yb, IF fixedH THEN yb + b.h ELSE IF b.bb > 0 THEN k.yA + Coll(k.PA) ELSE k.yA) IN
      [obs |-> <<[yb |-> yb, bh |-> cb + b.bb - yb, vis |-> TRUE]>> \o k.obs, yA |-> cb + b.bb,
       PA |-> IF sealed THEN <<b.mb>> ELSE Append(k.PA, b.mb), solidY |-> yb]
    ELSE IF sealed THEN
      \* every child collapsed through; the box itself is solid
      LET yb == y + Coll(k.PA)  bh == ch + b.bb IN
      [obs |-> <<[yb |-> yb, bh |-> bh, vis |-> TRUE]>> \o k.obs, yA |-> yb + bh, PA |-> <<b.mb>>, solidY |-> yb]
    ELSE [obs |-> <<[yb |-> 0, bh |-> 0, vis |-> FALSE]>> \o k.obs, yA |-> y, PA |-> Append(k.PA, b.mb), solidY |-> None]

LayoutForest(f) == Kids(f, 0, <<>>, [obs |-> <<>>, yA |-> 0, PA |-> <<>>, solidY |-> None], Auto)
\* (the forest sits in a container with a top border: nothing collapses with the outside)

\* incremental construction for `tlc -simulate` (forests of MaxBoxes boxes, depth <= 3)
RECURSIVE Count(_)
Count(f) == IF f = <<>> THEN 0 ELSE 1 + Count(Head(f).kids) + Count(Tail(f))

---------------------------------------------------------------------------
Init == /\ scn \in (IF Mode = "width" THEN WidthScn ELSE Forests2(0)) /\ phase = "done"
\* simulation: grow a forest box by box
InitBuild == /\ scn = <<>> /\ phase = "build"
AddSibling == /\ phase = "build" /\ Mode = "vertical" /\ Count(scn) < MaxBoxes
              /\ scn' = Append(scn, RandomElement(Leaf)) /\ UNCHANGED phase      \* (simulation only: one random leaf)
\* wrap the last top-level box into a new parent
WrapLast == /\ phase = "build" /\ Mode = "vertical" /\ scn # <<>> /\ Count(scn) < MaxBoxes
            /\ \E p \in WithKids({<<scn[Len(scn)]>>}) : scn' = [scn EXCEPT ![Len(scn)] = p] /\ UNCHANGED phase
\* make the last two top-level boxes the two children of a new parent
WrapTwo == /\ phase = "build" /\ Mode = "vertical" /\ Len(scn) >= 2 /\ Count(scn) < MaxBoxes
           /\ \E p \in WithKids({<<scn[Len(scn) - 1], scn[Len(scn)]>>}) : scn' = Append(SubSeq(scn, 1, Len(scn) - 2), p) /\ UNCHANGED phase
EndBuild == /\ phase = "build" /\ scn # <<>> /\ phase' = "done" /\ UNCHANGED scn
Next == AddSibling \/ WrapLast \/ WrapTwo \/ EndBuild
Spec == Init /\ [][Next]_vars

WidthOK == (Mode = "width" /\ phase = "done") => WidthEquation(scn) /\ UsedWidth(scn)[2] >= 0
\* visible boxes never have a negative height, and a box with an explicit height is exactly that high (+ borders)
HeightsOK == (Mode = "vertical" /\ phase = "done") =>
   LET r == LayoutForest(scn) IN \A j \in 1..Len(r.obs) : r.obs[j].vis => r.obs[j].bh >= 0

Emit == phase = "done" =>
  IF Mode = "width" THEN PrintT(ToJson([mode |-> "width", scn |-> scn, used |-> UsedWidth(scn)]))
  ELSE PrintT(ToJson([mode |-> "vertical", forest |-> scn, obs |-> LayoutForest(scn).obs]))
=============================================================================
