---------------------------- MODULE ContractTrace ----------------------------
(***************************************************************************)
(* Trace validation for C07 (and the terminal step of C01): every record   *)
(* is one call of a parsing entry point [ep, input, outcome]. It is a      *)
(* behaviour of Inputs!Spec iff the call is followed by a Return, i.e. iff *)
(* outcome is "ok", "error" or "ignored".                                  *)
(***************************************************************************)
EXTENDS Inputs, IOUtils

VARIABLE i
Trace == ndJsonDeserialize(IOEnv.TRACE_FILE)
TInit == i \in 1..Len(Trace) /\ w = <<>> /\ st = "trace"
TNext == UNCHANGED <<vars, i>>
Accepted(r) == r.outcome \in {"ok", "error", "ignored"}
Report == Accepted(Trace[i]) \/ PrintT(<<"BAD", i, Trace[i].outcome>>)
=============================================================================
