CONSTANTS
  MaxBlocks = 2
  Hs = {1, 2, 3, 4}
  Rich = FALSE
  NthAll = FALSE
SPECIFICATION Spec
INVARIANTS Refines NoTwoBlanks Conservation Complete SideHonoured FitsPage Emit
PROPERTIES Progress Terminates
CHECK_DEADLOCK FALSE
