CONSTANTS
  MaxOcc = 2
  StyleAttrSpec = 1000
  NestedBeforeOwn = FALSE
INIT Init
NEXT Next
INVARIANTS ImplCorrect PrefixMax Emit
CHECK_DEADLOCK FALSE
