CONSTANTS
  Family = "nth"
  Size = 3
  Depth = 1
INIT Init
NEXT Next
INVARIANTS EvalAgrees SpecSane Emit
CHECK_DEADLOCK FALSE
