CONSTANTS
  MaxWords = 4
  MaxW = 10
SPECIFICATION Spec
INVARIANTS Conservation FitsWidth Greedy Emit
PROPERTIES Terminates
CHECK_DEADLOCK FALSE
