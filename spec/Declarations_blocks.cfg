CONSTANTS
  Mode = "blocks"
SPECIFICATION Spec
INVARIANTS NoRepeat MachineAgrees Emit
PROPERTIES Terminates
CHECK_DEADLOCK FALSE
