---------------------------- MODULE RenderTrace ----------------------------
(***************************************************************************)
(* Trace validation of real renders (C01) against the render contract and  *)
(* the page loop of PageLoop.tla.                                          *)
(*                                                                         *)
(* A record of the trace file is ONE render: [sid, cfg, units, fnotes,     *)
(* evs]. Its events are, in the order the implementation produced them:    *)
(*   Call                      the harness calls the renderer              *)
(*   Parsed | Refused          tree.NewHTML returned (a tree | an error)   *)
(*   Loop k  dirty wanted      hook verifLoop: round k of layoutDocument   *)
(*                             starts; the RemakeState flags at that time  *)
(*   Page i  remade blank right start end from to fn brk                   *)
(*                             hook verifPageMade: makeAllPages appended   *)
(*                             page i (resume stacks flattened to sorted   *)
(*                             lists of paths)                             *)
(*   Loop -1 dirty wanted      pagination is over                          *)
(*   LongLoop n                stands for the Loop / Page events of a      *)
(*                             render of more than 100 page steps          *)
(*   Laid n                    document.Render returned n pages            *)
(*   Drawn n                   Document.Write returned, n AddPage calls    *)
(*   Return                    back in the caller                          *)
(* and the terminal events of a render that did NOT return: Panic,         *)
(* PageBudget (the page loop exceeded the budget 2 * units + 16), and -    *)
(* added by the orchestrator from the worker pool's verdicts - Timeout and *)
(* Fatal. There is no action for them.                                     *)
(*                                                                         *)
(* Every event is bound to the action of PageLoop.tla it is the            *)
(* linearization point of, with the logged fields as arguments; what is    *)
(* not logged (how many footnotes a page called and placed, whether the    *)
(* page state changed) is chosen canonically from the logged state. A      *)
(* record is accepted iff all its events can be consumed; the invariants   *)
(* of PageLoop.tla are evaluated after every step.                         *)
(***************************************************************************)
EXTENDS PageLoop, Json, IOUtils

VARIABLES r,      \* the record under validation
          l,      \* next event of the record
          stage   \* contract state before the page loop: "init", "called", "parsed", "refused", "loop"
tvars == <<vars, r, l, stage>>

Trace == ndJsonDeserialize(IOEnv.TRACE_FILE)
Evs == Trace[r].evs
Ev == Evs[l]

\* lexicographic order of sequences (a proper prefix is smaller), as for the keys of a resume stack in document order
LexLess(a, b, Lt(_, _)) == \E k \in 1..(Len(a) + 1) : /\ \A j \in 1..(k - 1) : j <= Len(b) /\ a[j] = b[j]
                                                      /\ k <= Len(b)
                                                      /\ (k <= Len(a) => Lt(a[k], b[k]))
IntLt(x, y) == x < y
EmptyPos == <<>>
PathLess(p, q) == LexLess(p, q, IntLt)
PathsLess(a, b) == LexLess(a, b, PathLess)

ToSet(s) == {s[k] + 1 : k \in 1..Len(s)}    \* page indexes of the code are 0-based

\* the side of the first page is not logged before the first Page event: it is taken from it (the alternation of the
\* sides of all later pages is then checked against the model)
FirstRight(evs) == LET ks == {k \in 1..Len(evs) : evs[k].e = "Page"} IN
                   IF ks = {} THEN TRUE ELSE evs[CHOOSE k \in ks : \A j \in ks : k <= j].right

TInit == /\ r \in 1..Len(Trace) /\ l = 1 /\ stage = "init"
         /\ phase = "start" /\ loop = 0 /\ i = 1
         /\ items = <<Item(Bot, "any", FirstRight(Trace[r].evs), FALSE)>>
         /\ pages = <<>> /\ old = <<>> /\ rep = 0 /\ called = 0 /\ nf = Trace[r].fnotes

Consume == l <= Len(Evs) /\ l' = l + 1 /\ UNCHANGED r
Is(e) == l <= Len(Evs) /\ Ev.e = e

TCall == Is("Call") /\ stage = "init" /\ stage' = "called" /\ Consume /\ UNCHANGED vars
TParsed == Is("Parsed") /\ stage = "called" /\ stage' = "parsed" /\ Consume /\ UNCHANGED vars
TRefused == Is("Refused") /\ stage = "called" /\ stage' = "refused" /\ Consume /\ UNCHANGED vars

\* the flags logged at the start of a round are the flags of the model
FlagsAre(its, dirty, wanted) == \A k \in 1..Len(its) : (its[k].changed <=> k \in dirty) /\ (its[k].wanted <=> k \in wanted)

\* Loop 0: the first round
TLoop0 == /\ Is("Loop") /\ Ev.k = 0 /\ stage = "parsed" /\ stage' = "loop"
          /\ StartRound /\ Consume
\* Loop k > 0: layoutDocument found a dirty page (Check) and starts another round (StartRound)
TLoopAgain ==
  /\ Is("Loop") /\ Ev.k > 0 /\ stage = "loop" /\ phase = "check" /\ Ev.k = loop /\ loop < MaxLoops
  /\ LET d == ToSet(Ev.dirty) w == ToSet(Ev.wanted)
         its == [k \in 1..Len(items) |-> [items[k] EXCEPT !.changed = @ \/ k \in d, !.wanted = k \in w]] IN
       /\ d \subseteq 1..Len(items) /\ w \subseteq 1..Len(items)
       /\ FlagsAre(its, d, w)
       /\ (d # {} \/ (w # {} /\ Len(old) # Len(pages)))       \* (the reason of Check for another round)
       /\ items' = its /\ old' = pages
       /\ phase' = "paging" /\ loop' = loop + 1 /\ i' = 1 /\ pages' = <<>> /\ rep' = 0 /\ called' = 0
  /\ Consume /\ UNCHANGED <<nf, stage>>
\* Loop -1: no other round (nothing dirty, or MaxLoops rounds done)
TLoopEnd ==
  /\ Is("Loop") /\ Ev.k = -1 /\ stage = "loop" /\ phase = "check"
  /\ LET d == ToSet(Ev.dirty) w == ToSet(Ev.wanted) IN
       /\ d \subseteq 1..Len(items) /\ w \subseteq 1..Len(items)
       /\ Check(d \ {k \in 1..Len(items) : items[k].changed}, w)
       /\ FlagsAre(items', d, w)
       /\ phase' = "laid"
  /\ Consume /\ UNCHANGED stage

From(e) == IF e.start THEN (IF i = 1 THEN Bot ELSE Top) ELSE Mid(e.from)
To(e) == IF e.end THEN Top ELSE Mid(e.to)
\* the side the pending break asks for (recto / verso depend on the direction of the root, which is not logged)
SideOf(b) == IF b = "left" THEN {"left"} ELSE IF b = "right" THEN {"right"} ELSE IF b \in {"recto", "verso"} THEN {"left", "right"} ELSE {"any"}

\* a page event: index, side and start are those of the model; then one of the five page actions
TPage ==
  /\ Is("Page") /\ stage = "loop" /\ phase = "paging"
  /\ Ev.k = i - 1 /\ i <= Len(items)
  /\ Ev.right = items[i].right
  /\ From(Ev) = items[i].res
  /\ Ev.remade = MustRemake
  /\ \/ /\ Ev.remade /\ Ev.blank /\ ~Ev.start
        /\ Ev.fn <= rep /\ RemakeBlank(rep - Ev.fn) /\ To(Ev) = items[i].res
     \/ /\ Ev.remade /\ Ev.blank /\ Ev.start /\ i > 1 /\ Ev.end
        /\ Ev.fn <= rep /\ FootnotePage(rep - Ev.fn)
     \/ /\ Ev.remade /\ ~Ev.blank /\ To(Ev) # items[i].res
        /\ LET calls == IF Ev.fn > rep THEN Ev.fn - rep ELSE 0
               placed == IF Ev.fn > rep THEN 0 ELSE rep - Ev.fn IN
             \E side \in (IF Ev.end THEN {"any"} ELSE SideOf(Ev.brk)), chg \in BOOLEAN : RemakeContent(To(Ev), side, chg, calls, placed)
     \/ /\ Ev.remade /\ ~Ev.blank /\ To(Ev) = items[i].res
        /\ FootnoteStall /\ Ev.fn = rep
     \/ /\ ~Ev.remade
        /\ Keep /\ To(Ev) = items[i + 1].res
  /\ Consume /\ UNCHANGED stage

\* a render of more than 100 page steps is validated on the contract only: the harness replaces its page-loop events
\* by one LongLoop event with the number of pages of the last round
TLongLoop == /\ Is("LongLoop") /\ stage = "parsed" /\ stage' = "loop"
             /\ phase' = "laid" /\ pages' = [j \in 1..Ev.k |-> [blank |-> TRUE, from |-> Top, to |-> Top, rep |-> 0]]
             /\ Consume /\ UNCHANGED <<loop, i, items, old, rep, called, nf>>

TLaid == Is("Laid") /\ stage = "loop" /\ phase = "laid" /\ Ev.k = Len(pages) /\ Consume /\ UNCHANGED <<vars, stage>>
TDrawn == Is("Drawn") /\ stage = "loop" /\ Ev.k = Len(pages) /\ Draw /\ Consume /\ UNCHANGED stage
TReturn == /\ Is("Return") /\ l = Len(Evs)
           /\ \/ stage = "loop" /\ Return
              \/ stage = "refused" /\ UNCHANGED vars
           /\ Consume /\ UNCHANGED stage

TNext == TCall \/ TParsed \/ TRefused \/ TLongLoop \/ TLoop0 \/ TLoopAgain \/ TLoopEnd \/ TPage \/ TLaid \/ TDrawn \/ TReturn

Accepted == l = Len(Evs) + 1
\* a branch whose next event is not a step of the specification is reported with the position and the event; a record
\* is rejected iff none of its branches is accepted (the unlogged choices make a few branches, most of which die early)
Report == /\ (l <= Len(Evs) /\ ~ENABLED TNext) => PrintT(<<"BAD", r, l, Ev.e>>)
          /\ Accepted => PrintT(<<"OK", r>>)
=============================================================================
