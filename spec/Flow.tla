-------------------------------- MODULE Flow --------------------------------
(***************************************************************************)
(* Conservation of content by fragmentation (C02).                         *)
(*                                                                         *)
(* A document is a sequence of items; an item owns a sequence of tokens    *)
(* (words / cells). Tokens are records [it, role, k]:                      *)
(*   role 0  ordinary content, k-th word (or body cell) of item `it`       *)
(*   role 1  cell of the table header group   (repeated on every fragment) *)
(*   role 2  cell of the table footer group   (repeated on every fragment) *)
(*   role 3  position: fixed content          (repeated on every page)     *)
(*   role 4  running element (repeated in a margin box of every page from  *)
(*           the page of its anchor on)                                    *)
(*   role 5  the word of a float that sits INSIDE a paragraph (kind "pfl": *)
(*           laid out once, on the page of its line or a later one)        *)
(* Blank pages: a "side" item asks for a page of a given side; the page    *)
(* inserted to get there carries the marker token [0, 9, 0], no content of *)
(* the main flow (it may carry the continuation of a float or of an        *)
(* absolutely positioned item; fixed content and running elements are      *)
(* repeated on it as on every page, CSS 2.1 9.6.1).                        *)
(* In-flow items are fragmented in document order; floats and absolutely   *)
(* positioned items are flows of their own, anchored in the main flow.     *)
(*                                                                         *)
(* The fragmenter below is deliberately non-deterministic (it may close a  *)
(* page anywhere): conservation must not depend on WHERE the breaks fall.  *)
(* `Accept` is the declarative statement of C02 on a page sequence; the    *)
(* invariant Conserves shows every behaviour of the fragmenter satisfies   *)
(* it, and FlowTrace.tla evaluates it on the page sequences of the real    *)
(* layout and of the real drawing.                                         *)
(***************************************************************************)
EXTENDS Integers, Sequences, FiniteSets, TLC, Json

CONSTANTS MaxItems, MaxN, Kinds, OneCfg, MaxOpt

VARIABLES doc, cfg, c, opos, ranch, cur, pages, phase, blank, ifl
vars == <<doc, cfg, c, opos, ranch, cur, pages, phase, blank, ifl>>

AllKinds == {"p", "table", "float", "abs", "fixed", "running", "ib", "cols", "flex", "list", "pre", "grid", "rel", "span", "glue", "stack", "side", "pfl", "avf"}
OutOfFlow == {"float", "abs"}
Repeated == {"fixed", "running"}
Item == [kind : Kinds, n : 1..MaxN, wrap : 0..MaxOpt, hdr : BOOLEAN, ftr : BOOLEAN, opt : 0..MaxOpt]
WellFormed(it) == (it.kind # "table" => ~it.hdr /\ ~it.ftr) /\ (it.kind \in Repeated => it.n = 1 /\ it.wrap = 0 /\ it.opt = 0)
\* page capacity in lines, container width in em, orphans = widows
Cfg == IF OneCfg THEN {[H |-> 3, W |-> 6, ow |-> 1]} ELSE [H : 2..5, W : {6, 12, 16, 20}, ow : 1..2]

Tok(i, r, k) == [it |-> i, role |-> r, k |-> k]
Marker == Tok(0, 9, 0)                      \* first token of a blank page
\* "pfl": one word in a float inside the paragraph; "avf": a block (break-inside: avoid) that holds a float of three lines
IFToks(d, i) == CASE d[i].kind = "pfl" -> <<Tok(i, 5, 1)>> [] d[i].kind = "avf" -> <<Tok(i, 5, 1), Tok(i, 5, 2), Tok(i, 5, 3)>> [] OTHER -> <<>>
BodyToks(d, i) ==
  LET x == d[i] IN
  CASE x.kind = "table" -> [k \in 1..(2 * x.n) |-> Tok(i, 0, k)]          \* two cells per row
    [] x.kind = "glue"  -> [k \in 1..(2 * x.n + 2) |-> Tok(i, 0, k)]
    [] x.kind = "fixed"   -> <<>>
    [] x.kind = "running" -> <<>>
    [] OTHER              -> [k \in 1..x.n |-> Tok(i, 0, k)]
HeadToks(d, i) == IF d[i].kind = "table" /\ d[i].hdr THEN <<Tok(i, 1, 1), Tok(i, 1, 2)>> ELSE <<>>
FootToks(d, i) == IF d[i].kind = "table" /\ d[i].ftr THEN <<Tok(i, 2, 1), Tok(i, 2, 2)>> ELSE <<>>
\* R: the running items whose anchor has been reached
PageToks(d, R) == LET RECURSIVE F(_)
                      F(i) == IF i = 0 THEN <<>> ELSE F(i - 1) \o (IF d[i].kind = "fixed" THEN <<Tok(i, 3, 1)>> ELSE IF d[i].kind = "running" /\ i \in R THEN <<Tok(i, 4, 1)>> ELSE <<>>)
                  IN F(Len(d))
InFlowItem(d, i) == d[i].kind \notin OutOfFlow \cup Repeated
\* the main flow, in document order
MainFlow(d) == LET RECURSIVE F(_)
                   F(i) == IF i = 0 THEN <<>> ELSE F(i - 1) \o (IF InFlowItem(d, i) THEN BodyToks(d, i) ELSE <<>>)
               IN F(Len(d))

---------------------------------------------------------------------------
\* C02 on a page sequence ps (each page: a sequence of tokens in box-tree order)
RECURSIVE Concat(_)
Concat(ps) == IF ps = <<>> THEN <<>> ELSE Head(ps) \o Concat(Tail(ps))
Count(s, t) == Cardinality({q \in 1..Len(s) : s[q] = t})
Accept(d, ps0) ==
  LET B == {p \in 1..Len(ps0) : \E q \in 1..Len(ps0[p]) : ps0[p][q] = Marker}          \* the blank pages
      ps == [p \in 1..Len(ps0) |-> SelectSeq(ps0[p], LAMBDA t : t # Marker)]
      all == Concat(ps)
      main == SelectSeq(all, LAMBDA t : t.role = 0 /\ InFlowItem(d, t.it))
      want == MainFlow(d) IN
  IF \E q \in 1..Len(all) : all[q].it \notin 1..Len(d) THEN "unknown-text"
  ELSE IF main # want THEN
       (IF \E t \in {want[q] : q \in 1..Len(want)} : Count(main, t) = 0 THEN "lost"
        ELSE IF \E t \in {want[q] : q \in 1..Len(want)} : Count(main, t) > 1 THEN "duplicated" ELSE "reordered")
  ELSE IF \E i \in 1..Len(d) : d[i].kind \in OutOfFlow /\ SelectSeq(all, LAMBDA t : t.it = i) # BodyToks(d, i) THEN
       (IF \E i \in 1..Len(d) : d[i].kind \in OutOfFlow /\ \E q \in 1..Len(BodyToks(d, i)) : Count(all, BodyToks(d, i)[q]) = 0 THEN "out-of-flow-lost"
        ELSE "out-of-flow-duplicated-or-reordered")
  ELSE IF \E p \in 1..Len(ps) : \E i \in 1..Len(d) : d[i].kind = "table" /\
            LET onpage == \E q \in 1..Len(ps[p]) : ps[p][q].it = i /\ ps[p][q].role = 0
                \* a table whose rows can be split inside their cells (option 3) may have a fragment without any body
                \* token: the page after one that holds the table; the groups may be repeated there
                cont == d[i].opt = 3 /\ p > 1 /\ \E q \in 1..Len(ps[p - 1]) : ps[p - 1][q].it = i IN
            \E t \in {HeadToks(d, i)[q] : q \in 1..Len(HeadToks(d, i))} \cup {FootToks(d, i)[q] : q \in 1..Len(FootToks(d, i))} :
               IF onpage THEN Count(ps[p], t) # 1 ELSE (Count(ps[p], t) # 0 /\ ~(cont /\ Count(ps[p], t) = 1))
          THEN "table-header-footer-not-once-per-fragment"
  ELSE IF \E p \in B : \E q \in 1..Len(ps[p]) : ps[p][q].role \in {0, 1, 2} /\ InFlowItem(d, ps[p][q].it) THEN "main-flow-content-on-a-blank-page"
  ELSE IF \E p \in B : p = 1 \/ p - 1 \in B THEN "blank-page-not-between-two-pages"
  ELSE IF \E i \in 1..Len(d) : \E q \in 1..Len(IFToks(d, i)) : Count(all, IFToks(d, i)[q]) = 0 THEN "float-inside-paragraph-lost"
  ELSE IF \E i \in 1..Len(d) : \E q \in 1..Len(IFToks(d, i)) : Count(all, IFToks(d, i)[q]) > 1 THEN "float-inside-paragraph-duplicated"
  ELSE IF \E i \in 1..Len(d) : SelectSeq(all, LAMBDA t : t.it = i /\ t.role = 5) # IFToks(d, i) THEN "float-inside-paragraph-reordered"
  ELSE IF \E p \in 1..Len(ps) : \E i \in 1..Len(d) : d[i].kind = "fixed" /\ Count(ps[p], Tok(i, 3, 1)) # 1 THEN "fixed-not-once-per-page"
  ELSE IF \E i \in 1..Len(d) : d[i].kind = "running" /\
            LET on == {p \in 1..Len(ps) : Count(ps[p], Tok(i, 4, 1)) > 0}
                later == {p \in 1..Len(ps) : \E q \in 1..Len(ps[p]) : ps[p][q].role = 0 /\ ps[p][q].it > i /\ InFlowItem(d, ps[p][q].it)} IN
            \/ on = {} \/ (\E p \in on : Count(ps[p], Tok(i, 4, 1)) > 1)
            \/ (\E p \in on : \E q \in (p + 1)..Len(ps) : q \notin on)        \* from the page of its anchor on, every page
            \/ (\E p \in later : \A q \in on : q > p)                          \* not later than the content that follows it
       THEN "running-element-not-once-per-page-from-its-anchor-on"
  ELSE IF \E q \in 1..Len(all) : all[q].role \notin 0..5 \/ (all[q].role = 5 /\ IFToks(d, all[q].it) = <<>>) THEN "unknown-text"
  ELSE IF \E q \in 1..Len(all) : all[q].role \in {1, 2} /\ all[q] \notin ({HeadToks(d, all[q].it)[z] : z \in 1..Len(HeadToks(d, all[q].it))} \cup {FootToks(d, all[q].it)[z] : z \in 1..Len(FootToks(d, all[q].it))}) THEN "unknown-text"
  ELSE "ok"

---------------------------------------------------------------------------
\* building the document (one item at a time, so that simulation can sample large documents)
InitBuild == /\ doc = <<>> /\ cfg \in Cfg /\ c = 1 /\ opos = <<>> /\ ranch = {} /\ cur = <<>> /\ pages = <<>> /\ phase = "build"
             /\ blank = FALSE /\ ifl = {}
AddItem == /\ phase = "build" /\ Len(doc) < MaxItems
           /\ \E it \in Item : /\ WellFormed(it)
                               /\ (doc = <<>> => it.kind \notin Repeated)
                               /\ (it.kind = "running" => \A j \in 1..Len(doc) : doc[j].kind # "running")
                               /\ doc' = Append(doc, it)
           /\ UNCHANGED <<cfg, c, opos, ranch, cur, pages, phase, blank, ifl>>
EndBuild == /\ phase = "build" /\ Len(doc) = MaxItems
            /\ phase' = "built" /\ opos' = [j \in 1..Len(doc) |-> 1]
            /\ UNCHANGED <<doc, cfg, c, ranch, cur, pages, blank, ifl>>
Start == /\ phase = "built" /\ phase' = "paginate" /\ UNCHANGED <<doc, cfg, c, opos, ranch, cur, pages, blank, ifl>>

\* the non-deterministic fragmenter
HasBody(s, i) == \E q \in 1..Len(s) : s[q].it = i /\ s[q].role = 0
\* index of the in-flow item that the cursor is in (Len(doc)+1 at the end)
CursorItem == IF c > Len(MainFlow(doc)) THEN Len(doc) + 1 ELSE MainFlow(doc)[c].it
PlaceMain == /\ phase = "paginate" /\ c <= Len(MainFlow(doc)) /\ ~blank
             /\ \A i \in 1..Len(doc) : (doc[i].kind = "running" /\ i < MainFlow(doc)[c].it) => i \in ranch   \* anchors are passed in order
             /\ LET t == MainFlow(doc)[c] IN
                cur' = (IF doc[t.it].kind = "table" /\ ~HasBody(cur, t.it) THEN cur \o HeadToks(doc, t.it) ELSE cur) \o <<t>>
             /\ c' = c + 1 /\ UNCHANGED <<doc, cfg, opos, ranch, pages, phase, blank, ifl>>
\* a float / absolutely positioned item is laid out once the main flow has reached its anchor, on this page or a later one
PlaceOut(i) == /\ phase = "paginate" /\ i \in 1..Len(doc) /\ doc[i].kind \in OutOfFlow
               /\ opos[i] <= Len(BodyToks(doc, i)) /\ CursorItem > i
               /\ cur' = Append(cur, BodyToks(doc, i)[opos[i]])
               /\ opos' = [opos EXCEPT ![i] = @ + 1] /\ UNCHANGED <<doc, cfg, c, ranch, pages, phase, blank, ifl>>
\* the float inside a paragraph is laid out once the main flow has entered the paragraph, on this page or a later one
PlaceIFloat(i) == /\ phase = "paginate" /\ i \in 1..Len(doc)
                  /\ (CursorItem > i \/ (CursorItem = i /\ MainFlow(doc)[c].k > 1))
                  /\ \E k \in 1..Len(IFToks(doc, i)) :
                       /\ IFToks(doc, i)[k] \notin ifl /\ \A j \in 1..(k - 1) : IFToks(doc, i)[j] \in ifl
                       /\ cur' = Append(cur, IFToks(doc, i)[k]) /\ ifl' = ifl \cup {IFToks(doc, i)[k]}
                  /\ UNCHANGED <<doc, cfg, c, opos, ranch, pages, phase, blank>>
Closed(s) == LET RECURSIVE F(_)
                 F(i) == IF i = 0 THEN <<>> ELSE F(i - 1) \o (IF doc[i].kind = "table" /\ HasBody(s, i) THEN FootToks(doc, i) ELSE <<>>)
             IN s \o F(Len(doc)) \o PageToks(doc, ranch)
\* the anchor of a running element is passed once the main flow has reached it (on this page or, at a page boundary, the next)
PassAnchor(i) == /\ phase = "paginate" /\ i \in 1..Len(doc) /\ doc[i].kind = "running" /\ i \notin ranch /\ CursorItem > i
                 /\ ranch' = ranch \cup {i} /\ UNCHANGED <<doc, cfg, c, opos, cur, pages, phase, blank, ifl>>
AllPlaced == /\ c > Len(MainFlow(doc)) /\ \A i \in 1..Len(doc) : doc[i].kind \in OutOfFlow => opos[i] > Len(BodyToks(doc, i))
             /\ \A i \in 1..Len(doc) : doc[i].kind = "running" => i \in ranch
             /\ \A i \in 1..Len(doc) : \A k \in 1..Len(IFToks(doc, i)) : IFToks(doc, i)[k] \in ifl
ClosePage == /\ phase = "paginate" /\ cur # <<>> /\ ~AllPlaced /\ ~blank
             /\ pages' = Append(pages, Closed(cur)) /\ cur' = <<>> /\ UNCHANGED <<doc, cfg, c, opos, ranch, phase, blank, ifl>>
\* a blank page: before an item that asks for a page of a given side, at most one, between two pages
StartBlank == /\ phase = "paginate" /\ ~blank /\ cur = <<>> /\ pages # <<>> /\ Head(pages[Len(pages)]) # Marker
              /\ c <= Len(MainFlow(doc)) /\ doc[MainFlow(doc)[c].it].kind = "side" /\ MainFlow(doc)[c].k = 1
              /\ blank' = TRUE /\ cur' = <<Marker>> /\ UNCHANGED <<doc, cfg, c, opos, ranch, pages, phase, ifl>>
CloseBlank == /\ phase = "paginate" /\ blank
              /\ pages' = Append(pages, cur \o PageToks(doc, ranch)) /\ cur' = <<>> /\ blank' = FALSE
              /\ UNCHANGED <<doc, cfg, c, opos, ranch, phase, ifl>>
Finish == /\ phase = "paginate" /\ AllPlaced /\ ~blank
          /\ pages' = Append(pages, Closed(cur)) /\ cur' = <<>> /\ phase' = "done" /\ UNCHANGED <<doc, cfg, c, opos, ranch, blank, ifl>>
Next == AddItem \/ EndBuild \/ Start \/ PlaceMain \/ (\E i \in 1..MaxItems : PlaceOut(i) \/ PassAnchor(i) \/ PlaceIFloat(i)) \/ ClosePage \/ StartBlank \/ CloseBlank \/ Finish
Spec == InitBuild /\ [][Next]_vars /\ WF_vars(Next)

\* every behaviour of the fragmenter conserves content, wherever the breaks fall
Conserves == phase = "done" => Accept(doc, pages) = "ok"
\* nothing is placed twice while paginating
NoDup == \A t \in {Concat(pages)[q] : q \in 1..Len(Concat(pages))} : t.role = 0 => Count(Concat(pages) \o cur, t) = 1
Terminates == <>(phase = "done")

Emit == phase = "built" => PrintT(ToJson([doc |-> doc, cfg |-> cfg]))
=============================================================================
