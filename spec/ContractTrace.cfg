CONSTANTS
  Family = "none"
  MaxLen = 0
INIT TInit
NEXT TNext
INVARIANT Report
CHECK_DEADLOCK FALSE
