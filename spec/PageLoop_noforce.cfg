CONSTANTS
  N = 2
  F = 0
  MaxLoops = 1
  RemakeMissing = TRUE
  Force = FALSE
  MaxPages = 12
  Less <- IntLess
  Chgs = {FALSE}
  NoPos = 0
INIT Init
NEXT Next
INVARIANTS PagesBound
CONSTRAINT Bounded
CHECK_DEADLOCK FALSE
