CONSTANTS
  Family = "T5"
  MaxLen = 3
  SkipComments = FALSE
INIT Init
NEXT Next
INVARIANTS Tiling Balanced SameAsOperator Emit
PROPERTIES Progress
CHECK_DEADLOCK FALSE
