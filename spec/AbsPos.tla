------------------------------- MODULE AbsPos -------------------------------
(***************************************************************************)
(* Extra coverage (not one of the listed properties): the used values of   *)
(* an absolutely positioned, non-replaced box (CSS 2.1 10.3.7 and 10.6.4), *)
(* over integers (px), in a left-to-right containing block whose padding   *)
(* box is CBW x CBH.                                                       *)
(*                                                                         *)
(* A scenario gives the specified left / width / right, margins (Auto =    *)
(* -1000), paddings and borders of the box, and the same for the vertical  *)
(* axis. The box holds one word of CW x CH px (its shrink-to-fit width and *)
(* content height) and is the first child of its containing block, so its  *)
(* static position is the content edge (SPX, SPY) of the containing block. *)
(* Solve is the rule list of 10.3.7 / 10.6.4; Equation is the constraint   *)
(* it must satisfy; TLC checks Equation on every scenario and emits the    *)
(* used values, which the harness compares with the real layout.           *)
(***************************************************************************)
EXTENDS Integers, TLC, Json

CONSTANTS Axis   \* "x" | "y"

VARIABLE s
Auto == -1000
CBW == 100
CBH == 60
CW == 16      \* width of the content (two glyphs of 8px)
CH == 10      \* height of the content (one line)
SP == 3       \* static position: the padding of the containing block (3px on both axes)

CB == IF Axis = "x" THEN CBW ELSE CBH
Content == IF Axis = "x" THEN CW ELSE CH

Offsets == {Auto, 0, 10}
Sizes == {Auto, 20, 120}
Margins == {Auto, 0, 5, -4}
Scn == [a : Offsets, size : Sizes, b : Offsets, ma : Margins, mb : Margins, pad : {0, 2}, bor : {0, 1}]

\* [a, ma, size, mb, b]: start offset, start margin, content size, end margin, end offset
Solve(x) ==
  LET e == 2 * x.pad + 2 * x.bor
      z(m) == IF m = Auto THEN 0 ELSE m
      fit == Content                        \* shrink-to-fit width / content height: the single word
  IN
  IF x.a = Auto /\ x.size = Auto /\ x.b = Auto THEN
       LET ma == z(x.ma)  mb == z(x.mb) IN [a |-> SP, ma |-> ma, size |-> fit, mb |-> mb, b |-> CB - SP - ma - fit - mb - e]
  ELSE IF x.a # Auto /\ x.size # Auto /\ x.b # Auto THEN
       LET free == CB - x.a - x.b - x.size - e IN
       IF x.ma = Auto /\ x.mb = Auto THEN
            (IF Axis = "x" /\ free < 0 THEN [a |-> x.a, ma |-> 0, size |-> x.size, mb |-> free, b |-> x.b]
             ELSE [a |-> x.a, ma |-> free \div 2, size |-> x.size, mb |-> free - (free \div 2), b |-> x.b])
       ELSE IF x.ma = Auto THEN [a |-> x.a, ma |-> free - x.mb, size |-> x.size, mb |-> x.mb, b |-> x.b]
       ELSE IF x.mb = Auto THEN [a |-> x.a, ma |-> x.ma, size |-> x.size, mb |-> free - x.ma, b |-> x.b]
       ELSE [a |-> x.a, ma |-> x.ma, size |-> x.size, mb |-> x.mb, b |-> free - x.ma - x.mb + x.b]   \* over-constrained: the end offset gives way
  ELSE
       LET ma == z(x.ma)  mb == z(x.mb)  m == ma + mb + e IN
       IF x.a = Auto /\ x.size = Auto THEN [a |-> CB - x.b - fit - m, ma |-> ma, size |-> fit, mb |-> mb, b |-> x.b]
       ELSE IF x.a = Auto /\ x.b = Auto THEN [a |-> SP, ma |-> ma, size |-> x.size, mb |-> mb, b |-> CB - SP - x.size - m]
       ELSE IF x.size = Auto /\ x.b = Auto THEN [a |-> x.a, ma |-> ma, size |-> fit, mb |-> mb, b |-> CB - x.a - fit - m]
       ELSE IF x.a = Auto THEN [a |-> CB - x.b - x.size - m, ma |-> ma, size |-> x.size, mb |-> mb, b |-> x.b]
       ELSE IF x.size = Auto THEN [a |-> x.a, ma |-> ma, size |-> CB - x.a - x.b - m, mb |-> mb, b |-> x.b]
       ELSE [a |-> x.a, ma |-> ma, size |-> x.size, mb |-> mb, b |-> CB - x.a - x.size - m]

\* the constraint of 10.3.7 / 10.6.4
Equation(x) == LET u == Solve(x) IN u.a + u.ma + x.bor + x.pad + u.size + x.pad + x.bor + u.mb + u.b = CB
\* specified values are kept wherever the rules do not say otherwise
Keeps(x) == LET u == Solve(x) IN /\ (x.a # Auto => u.a = x.a) /\ (x.size # Auto => u.size = x.size)
                                 /\ (x.ma # Auto => u.ma = x.ma) /\ (x.mb # Auto => u.mb = x.mb)

Init == s \in Scn
Next == UNCHANGED s
EquationOK == Equation(s) /\ Keeps(s)
\* a negative used width only arises from an auto width squeezed by the offsets: it is floored at 0 by the harness
Emit == PrintT(ToJson([axis |-> Axis, scn |-> s, used |-> Solve(s)]))
=============================================================================
