CONSTANTS
  MaxEls = 0
  Displays = {}
  Rich = FALSE
INIT TInit
NEXT TNext
INVARIANT Report
CHECK_DEADLOCK FALSE
