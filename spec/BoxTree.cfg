CONSTANTS
  MaxEls = 4
  Displays = {"block", "inline", "inline-block", "none"}
  Rich = FALSE
SPECIFICATION Spec
INVARIANTS PreOrder GenWellFormed EmitGen
CHECK_DEADLOCK FALSE
