----------------------------- MODULE Transform -----------------------------
(***************************************************************************)
(* 2-D affine transforms as CSS Transforms 1 and SVG 1.1 define them, and  *)
(* the way webrender composes them (html/document/document.go getMatrix,   *)
(* svg/elements.go transform.applyTo, matrix/matrix.go).                   *)
(*                                                                         *)
(* A matrix is <<a, b, c, d, e, f>> meaning                                *)
(*        x' = a x + c y + e          y' = b x + d y + f                   *)
(* (the CSS / SVG `matrix(a,b,c,d,e,f)` convention).  Everything is kept   *)
(* in Int: angles are quarter turns, skews have tan in {-1, 0, 1}, scale   *)
(* factors and lengths are integers, percentages are taken of a box whose  *)
(* sizes make them integral.                                               *)
(*                                                                         *)
(* The module has two parts:                                               *)
(*  - the algebra (Mul, Apply, Adj, constructors) with the group laws as   *)
(*    invariants over a bounded matrix universe; the in-place operations   *)
(*    are written with the formulas the code uses and must equal right     *)
(*    multiplication by the constructor;                                   *)
(*  - the list-composition state machine: `acc` starts at the translation  *)
(*    to the transform origin, every step right-multiplies by the next     *)
(*    function's matrix, the last step translates back.                    *)
(***************************************************************************)
EXTENDS Integers, Sequences, FiniteSets, TLC, Json

CONSTANTS
  MaxLen,      \* maximal length of a transform list
  Mode,        \* "css" | "svg" | "algebra"
  BoxW, BoxH,  \* border-box size of the transformed HTML box (css mode)
  BoxX, BoxY   \* border-box position of the transformed HTML box

VARIABLES fns, i, acc, origin, phase, T, U, pt
vars == <<fns, i, acc, origin, phase, T, U, pt>>

---------------------------------------------------------------------------
(* Algebra *)

Id == <<1, 0, 0, 1, 0, 0>>
Mul(M, N) == << M[1]*N[1] + M[3]*N[2],          M[2]*N[1] + M[4]*N[2],
                M[1]*N[3] + M[3]*N[4],          M[2]*N[3] + M[4]*N[4],
                M[1]*N[5] + M[3]*N[6] + M[5],   M[2]*N[5] + M[4]*N[6] + M[6] >>
Apply(M, p) == << M[1]*p[1] + M[3]*p[2] + M[5],  M[2]*p[1] + M[4]*p[2] + M[6] >>
Det(M) == M[1]*M[4] - M[2]*M[3]
\* Adj(M) = Det(M) * M^-1 (so that inverses stay integral)
Adj(M) == << M[4], -M[2], -M[3], M[1], M[3]*M[6] - M[4]*M[5], M[2]*M[5] - M[1]*M[6] >>
ScaleBy(k, M) == [j \in 1..6 |-> k * M[j]]
\* k * Id as an affine map has translation 0 and linear part k*I
KId(k) == <<k, 0, 0, k, 0, 0>>
\* product with a "projective" scalar: Mul(M, Adj(M)) has linear part Det*I and translation 0
Translate(tx, ty) == <<1, 0, 0, 1, tx, ty>>
Scale(sx, sy)     == <<sx, 0, 0, sy, 0, 0>>
Cos4(q) == CASE q % 4 = 0 -> 1 [] q % 4 = 1 -> 0 [] q % 4 = 2 -> -1 [] OTHER -> 0
Sin4(q) == CASE q % 4 = 0 -> 0 [] q % 4 = 1 -> 1 [] q % 4 = 2 -> 0 [] OTHER -> -1
\* rotation by q quarter turns, positive = from +x towards +y (clockwise on a y-down canvas)
Rotate(q)    == << Cos4(q), Sin4(q), -Sin4(q), Cos4(q), 0, 0 >>
RotateAt(q, cx, cy) == Mul(Mul(Translate(cx, cy), Rotate(q)), Translate(-cx, -cy))
SkewX(t)     == <<1, 0, t, 1, 0, 0>>      \* x' = x + tan(a) y
SkewY(t)     == <<1, t, 0, 1, 0, 0>>      \* y' = y + tan(a) x
Skew(tx, ty) == <<1, ty, tx, 1, 0, 0>>

\* The in-place operations, written with the formulas of matrix.go
InPlaceTranslate(M, tx, ty) == [M EXCEPT ![5] = M[5] + M[1]*tx + M[3]*ty, ![6] = M[6] + M[2]*tx + M[4]*ty]
InPlaceScale(M, sx, sy)     == <<M[1]*sx, M[2]*sx, M[3]*sy, M[4]*sy, M[5], M[6]>>

---------------------------------------------------------------------------
(* Transform functions *)

Units == {"deg", "grad", "rad", "turn"}
Custom == << <<1, 0, 0, 1, 0, 0>>, <<0, 1, -1, 0, 3, 4>>, <<2, 0, 1, 1, -5, 0>>, <<1, 2, 3, 4, 5, 6>> >>
Centers == << <<0, 0>>, <<10, 4>>, <<-3, 7>> >>

Fn(k, a, b, u) == [k |-> k, a |-> a, b |-> b, u |-> u]
Common ==
  {Fn("translate", a, b, "px") : a \in {3, -8}, b \in {0, 5}} \cup
  {Fn("translate1", a, 0, "px") : a \in {6}} \cup
  {Fn("scale", a, b, "") : a \in {2, -1}, b \in {1, 3}} \cup
  {Fn("scale1", a, 0, "") : a \in {2, -1}} \cup
  {Fn("rotate", q, 0, u) : q \in {1, 2, 3, -1}, u \in Units} \cup
  {Fn("rotate", 0, 0, u) : u \in {"deg", "rad"}} \cup {Fn("skewX", 0, 0, "deg")} \cup       \* (zero angles are angles)
  {Fn("skewX", t, 0, u) : t \in {1, -1}, u \in {"deg", "rad"}} \cup
  {Fn("skewY", t, 0, u) : t \in {1, -1}, u \in {"deg", "grad"}} \cup
  {Fn("matrix", m, 0, "") : m \in 2..4}
CssOnly ==
  {Fn("translateX", a, 0, "px") : a \in {4}} \cup {Fn("translateY", a, 0, "px") : a \in {-9}} \cup
  {Fn("translateP", a, b, "%") : a \in {50, -100}, b \in {0, 25}} \cup
  {Fn("scaleX", a, 0, "") : a \in {3}} \cup {Fn("scaleY", a, 0, "") : a \in {-2}}
SvgOnly ==
  {Fn("rotateAt", q, c, "") : q \in {1, 2, -1}, c \in 2..3}
\* SVG angles are plain numbers (degrees)
SvgCommon == {f \in Common : f.u \in {"", "px", "deg"}}
Alphabet == IF Mode = "css" THEN Common \cup CssOnly ELSE SvgCommon \cup SvgOnly

Mat(f) ==
  CASE f.k = "translate"  -> Translate(f.a, f.b)
    [] f.k = "translate1" -> Translate(f.a, 0)
    [] f.k = "translateX" -> Translate(f.a, 0)
    [] f.k = "translateY" -> Translate(0, f.a)
    [] f.k = "translateP" -> Translate((f.a * BoxW) \div 100, (f.b * BoxH) \div 100)
    [] f.k = "scale"      -> Scale(f.a, f.b)
    [] f.k = "scale1"     -> Scale(f.a, f.a)
    [] f.k = "scaleX"     -> Scale(f.a, 1)
    [] f.k = "scaleY"     -> Scale(1, f.a)
    [] f.k = "rotate"     -> Rotate(f.a)
    [] f.k = "rotateAt"   -> RotateAt(f.a, Centers[f.b][1], Centers[f.b][2])
    [] f.k = "skewX"      -> SkewX(f.a)
    [] f.k = "skewY"      -> SkewY(f.a)
    [] f.k = "skew"       -> Skew(f.a, f.b)
    [] f.k = "matrix"     -> Custom[f.a]

RECURSIVE Prod(_)
Prod(s) == IF s = <<>> THEN Id ELSE Mul(Mat(Head(s)), Prod(Tail(s)))

\* transform-origin offsets inside the border box (css mode): the keyword / percentage / length forms
Origins == IF Mode = "css"
           THEN { [txt |-> "0 0",          x |-> 0,            y |-> 0],
                  [txt |-> "50% 50%",      x |-> BoxW \div 2,  y |-> BoxH \div 2],
                  [txt |-> "10px 4px",     x |-> 10,           y |-> 4],
                  [txt |-> "right bottom", x |-> BoxW,         y |-> BoxH],
                  [txt |-> "",             x |-> BoxW \div 2,  y |-> BoxH \div 2] }   \* initial value 50% 50%
           ELSE { [txt |-> "", x |-> 0 - BoxX, y |-> 0 - BoxY] }   \* svg: origin of user space
OX(o) == BoxX + o.x
OY(o) == BoxY + o.y

\* What CSS Transforms 1 §6 / SVG 1.1 §7.6 require for a list
Required(s, o) == Mul(Mul(Translate(OX(o), OY(o)), Prod(s)), Translate(0 - OX(o), 0 - OY(o)))

IsLinear(f) == f.k \notin {"translate", "translate1", "translateX", "translateY", "translateP", "rotateAt", "matrix"}

---------------------------------------------------------------------------
(* Matrix universe of the algebra mode *)

Lin  == {-1, 0, 1, 2}
Univ == {<<a, b, c, d, e, f>> : a \in Lin, b \in Lin, c \in Lin, d \in Lin, e \in {0, 3}, f \in {0, -2}}
Reps == {<<1, 0, 0, 1, 0, 0>>, <<0, 1, -1, 0, 0, 0>>, <<2, 0, 0, -1, 3, 0>>, <<1, 1, 0, 1, 0, -2>>,
         <<1, 0, 2, 1, 3, -2>>, <<2, 1, 1, 1, 0, 0>>, <<0, 0, 0, 0, 3, -2>>, <<-1, 2, 2, -1, 3, 0>>,
         <<1, 2, 2, 1, 0, 0>>, <<2, 2, -1, 1, 3, -2>>, <<0, 2, 1, 0, 0, -2>>, <<1, -1, 1, 1, 3, 0>>}
Pts  == {<<0, 0>>, <<1, 0>>, <<-2, 5>>}

---------------------------------------------------------------------------
(* State machine *)

Lists(n) == UNION {[1..m -> Alphabet] : m \in 1..n}

Init ==
  IF Mode = "algebra"
  THEN /\ T \in Univ /\ U \in Reps /\ pt \in Pts
       /\ fns = <<>> /\ i = 0 /\ acc = Id /\ origin = [txt |-> "", x |-> 0, y |-> 0] /\ phase = "algebra"
  ELSE /\ fns \in Lists(MaxLen) /\ origin \in Origins
       /\ i = 0 /\ acc = Translate(OX(origin), OY(origin)) /\ phase = "fold"
       /\ T = Id /\ U = Id /\ pt = <<0, 0>>

\* one iteration of the loop in getMatrix / applyTo : right-multiply by the next function
Step == /\ phase = "fold" /\ i < Len(fns)
        /\ acc' = Mul(acc, Mat(fns[i + 1]))
        /\ i' = i + 1
        /\ UNCHANGED <<fns, origin, phase, T, U, pt>>
\* after the loop: translate back (in place)
Finish == /\ phase = "fold" /\ i = Len(fns)
          /\ acc' = InPlaceTranslate(acc, 0 - OX(origin), 0 - OY(origin))
          /\ phase' = "done"
          /\ UNCHANGED <<fns, i, origin, T, U, pt>>
Next == Step \/ Finish
Spec == Init /\ [][Next]_vars

---------------------------------------------------------------------------
(* Properties *)

\* the fold computes what the specifications require
FoldCorrect == phase = "done" => acc = Required(fns, origin)
\* the transform origin is a fixed point of every list of linear functions
OriginFixed == (phase = "done" /\ \A k \in 1..Len(fns) : IsLinear(fns[k]))
                 => Apply(acc, <<OX(origin), OY(origin)>>) = <<OX(origin), OY(origin)>>
\* a list denotes the composition "last function applied first"
RECURSIVE ApplyList(_, _)
ApplyList(s, p) == IF s = <<>> THEN p ELSE Apply(Mat(Head(s)), ApplyList(Tail(s), p))
ListSemantics == phase = "done" =>
   \A p \in Pts : Apply(Prod(fns), p) = ApplyList(fns, p)

GroupLaws == phase = "algebra" =>
  /\ Mul(T, Id) = T /\ Mul(Id, T) = T
  /\ Apply(Mul(T, U), pt) = Apply(T, Apply(U, pt))
  /\ \A V \in Reps : Mul(Mul(T, U), V) = Mul(T, Mul(U, V))
  /\ Det(Mul(T, U)) = Det(T) * Det(U)
  \* two-sided inverse, stated on points and scaled by Det so that it stays in Int:
  \*   T^-1(T p) = p      and      T(T^-1 p) = p
  /\ Apply(Adj(T), Apply(T, pt)) = <<Det(T) * pt[1], Det(T) * pt[2]>>
  /\ LET q == Apply(Adj(T), pt) IN
       <<T[1]*q[1] + T[3]*q[2] + Det(T)*T[5], T[2]*q[1] + T[4]*q[2] + Det(T)*T[6]>> = <<Det(T) * pt[1], Det(T) * pt[2]>>
  /\ InPlaceTranslate(T, pt[1], pt[2]) = Mul(T, Translate(pt[1], pt[2]))
  /\ InPlaceScale(T, pt[1], pt[2]) = Mul(T, Scale(pt[1], pt[2]))
  /\ \A q \in 0..3 : Mul(Rotate(q), Rotate(4 - q)) = Id
  /\ RotateAt(1, pt[1], pt[2]) = Mul(Translate(pt[1] + pt[2], pt[2] - pt[1]), Rotate(1))

---------------------------------------------------------------------------
(* Scenario emission (always-true invariants used as printers) *)

EmitList == phase = "done" =>
  PrintT(ToJson([mode |-> Mode, fns |-> fns, origin |-> origin.txt, want |-> acc,
                 box |-> <<BoxX, BoxY, BoxW, BoxH>>]))
EmitAlgebra == phase = "algebra" =>
  PrintT(ToJson([mode |-> "algebra", T |-> T, U |-> U, pt |-> pt,
                 mul |-> Mul(T, U), app |-> Apply(T, pt), det |-> Det(T), adj |-> Adj(T),
                 tr |-> Mul(T, Translate(pt[1], pt[2])), sc |-> Mul(T, Scale(pt[1], pt[2])),
                 rot |-> Mul(T, Rotate(1)), skw |-> Mul(T, Skew(1, -1)),
                 mul3 |-> Mul(Mul(T, U), T)]))
=============================================================================
