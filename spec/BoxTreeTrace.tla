---------------------------- MODULE BoxTreeTrace ----------------------------
(***************************************************************************)
(* Trace validation for C09: every record of the trace file is             *)
(*   [doc |-> the element tree, boxes |-> the box tree that the real       *)
(*    boxes.BuildFormattingStructure built for it (flat, pre-order)]       *)
(* It is accepted iff BoxTree!WellFormed holds (no clause of Failures).    *)
(***************************************************************************)
EXTENDS BoxTree, IOUtils

VARIABLE i
Trace == ndJsonDeserialize(IOEnv.TRACE_FILE)

TInit == /\ i \in 1..Len(Trace) /\ doc = <<>> /\ phase = "trace"
TNext == UNCHANGED <<vars, i>>
\* always TRUE; prints the index and the violated clauses of every rejected record
Report == WellFormed(Trace[i].doc, Trace[i].boxes) \/ PrintT(<<"BAD", i, Failures(Trace[i].doc, Trace[i].boxes)>>)
=============================================================================
