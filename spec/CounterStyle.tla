---------------------------- MODULE CounterStyle ----------------------------
(***************************************************************************)
(* Extra coverage (not one of the listed properties): "generating a        *)
(* counter representation" (CSS Counter Styles 3, section 2.1 and the      *)
(* algorithms of section 3.1) for the six counter systems, with the range, *)
(* negative and pad descriptors and the fallback to decimal.               *)
(*                                                                         *)
(* A scenario is a counter style and a counter value. The generation is a  *)
(* transition system: CheckRange (step 2; outside the range: Fallback),    *)
(* Construct / Digit (step 3: the algorithm of the system, one symbol or   *)
(* one additive tuple per step for the iterating systems; a value the      *)
(* algorithm cannot represent: Fallback), Pad (step 4), Negative (step 5). *)
(* `parts` holds the indices of the symbols so that the invariants can     *)
(* evaluate the representation: positional value (numeric), bijective      *)
(* value (alphabetic), sum of the weights (additive), length (symbolic,    *)
(* pad); at most two Fallbacks (loops end in decimal); Terminates. The terminal states    *)
(* carry the text, which the harness compares with the text laid out for   *)
(* content: counter(k, style).                                             *)
(***************************************************************************)
EXTENDS Integers, Sequences, FiniteSets, TLC, Json

CONSTANTS MaxVal

VARIABLES st, orig, val, phase, rem, parts, k, fell, seen, padded, text
vars == <<st, orig, val, phase, rem, parts, k, fell, seen, padded, text>>

Alphabet == <<"a", "b", "c">>
Syms(n) == SubSeq(Alphabet, 1, n)
\* additive tuples, by descending weight
Tuples == <<[w |-> 5, s |-> "V"], [w |-> 2, s |-> "U"], [w |-> 1, s |-> "I"], [w |-> 0, s |-> "Z"]>>
RECURSIVE Pick(_, _)
Pick(S, i) == IF i > Len(Tuples) THEN <<>> ELSE (IF i \in S THEN <<Tuples[i]>> ELSE <<>>) \o Pick(S, i + 1)
\* (at least two tuples: like WeasyPrint, the implementation rejects an additive rule with a single tuple, which the
\* specification allows - a deviation left alone, see DESIGN.md)
AddLists == {Pick(S, 1) : S \in {T \in SUBSET (1..Len(Tuples)) : Cardinality(T) >= 2}}

Ranges == {<<"auto">>, <<1, 4>>, <<-2, 3>>}
Negs == {<<"-", "">>, <<"(", ")">>}
Pads == {<<0, "">>, <<3, "0">>}
Systems ==
  {[sys |-> "cyclic", syms |-> Syms(n), first |-> 1, adds |-> <<>>] : n \in 1..3} \cup
  {[sys |-> "fixed", syms |-> Syms(n), first |-> f, adds |-> <<>>] : n \in 1..2, f \in {1, 3, -1}} \cup
  {[sys |-> "symbolic", syms |-> Syms(n), first |-> 1, adds |-> <<>>] : n \in 1..2} \cup
  {[sys |-> "alphabetic", syms |-> Syms(n), first |-> 1, adds |-> <<>>] : n \in 2..3} \cup
  {[sys |-> "numeric", syms |-> Syms(n), first |-> 1, adds |-> <<>>] : n \in 2..3} \cup
  {[sys |-> "additive", syms |-> <<>>, first |-> 1, adds |-> a] : a \in AddLists}
\* `system: extends <base>`: the algorithm (system, symbols) of the base, the other descriptors of the extending rule
Bases == {"", "decimal", "st2"}
Styles == {[sys |-> b.sys, syms |-> b.syms, first |-> b.first, adds |-> b.adds, range |-> r, neg |-> n, pad |-> p, fb |-> f, base |-> ""] :
             b \in Systems, r \in Ranges, n \in Negs, p \in Pads, f \in {"decimal", "st2", "st"}} \cup
          {[sys |-> "extends", syms |-> <<>>, first |-> 1, adds |-> <<>>, range |-> r, neg |-> n, pad |-> p, fb |-> f, base |-> e] :
             r \in Ranges, n \in Negs, p \in Pads, f \in {"decimal", "st2", "st"}, e \in {"decimal", "st2"}}
Decimal == [sys |-> "numeric", syms |-> <<"0", "1", "2", "3", "4", "5", "6", "7", "8", "9">>, first |-> 1, adds |-> <<>>,
            range |-> <<"auto">>, neg |-> <<"-", "">>, pad |-> <<0, "">>, fb |-> "decimal", base |-> ""]
\* the second rule of every document: two symbols for the values 1 and 2, falling back to the first rule (a loop when that one
\* falls back to st2)
Other == [sys |-> "fixed", syms |-> <<"x", "y">>, first |-> 1, adds |-> <<>>, range |-> <<"auto">>, neg |-> <<"-", "">>, pad |-> <<0, "">>,
          fb |-> "st", base |-> ""]
Named(n) == CASE n = "decimal" -> Decimal [] n = "st2" -> Other
Resolve(s) == IF s.sys # "extends" THEN s
              ELSE LET b == Named(s.base) IN [s EXCEPT !.sys = b.sys, !.syms = b.syms, !.first = b.first, !.adds = b.adds]

UsesNegative(s) == s.sys \in {"symbolic", "alphabetic", "numeric", "additive"}
InRange(s, v) == IF s.range = <<"auto">>
                 THEN (CASE s.sys \in {"alphabetic", "symbolic"} -> v >= 1 [] s.sys = "additive" -> v >= 0 [] OTHER -> TRUE)
                 ELSE s.range[1] <= v /\ v <= s.range[2]
Abs(v) == IF v < 0 THEN 0 - v ELSE v
L == Len(st.syms)
Mod(a, n) == a % n                       \* TLA+'s % is the mathematical modulo (never negative)

Init == /\ orig \in Styles /\ st = Resolve(orig) /\ seen = {"st"} /\ val \in (0 - MaxVal)..MaxVal /\ phase = "range" /\ rem = 0 /\ parts = <<>> /\ k = 1
        /\ fell = 0 /\ padded = 0 /\ text = ""

\* the fallback style; a loop in the fallbacks ends in decimal
Fallback == /\ LET n == st.fb IN
               IF n = "decimal" \/ n \in seen THEN st' = Decimal /\ seen' = seen \cup {"decimal"}
               ELSE st' = (IF n = "st" THEN Resolve(orig) ELSE Other) /\ seen' = seen \cup {n}
            /\ fell' = fell + 1 /\ phase' = "range" /\ parts' = <<>> /\ k' = 1 /\ rem' = 0
            /\ UNCHANGED <<orig, val, padded, text>>
CheckRange == /\ phase = "range"
              /\ IF InRange(st, val)
                 THEN /\ phase' = "construct" /\ rem' = IF val < 0 /\ UsesNegative(st) THEN Abs(val) ELSE val
                      /\ UNCHANGED <<st, orig, seen, val, parts, k, fell, padded, text>>
                 ELSE Fallback
\* the systems that produce their representation in one step
Construct ==
  /\ phase = "construct" /\ st.sys \in {"cyclic", "fixed", "symbolic"}
  /\ CASE st.sys = "cyclic" -> /\ parts' = <<Mod(rem - 1, L) + 1>> /\ phase' = "pad" /\ UNCHANGED <<st, orig, seen, val, rem, k, fell, padded, text>>
       [] st.sys = "fixed" -> IF st.first <= rem /\ rem < st.first + L
                              THEN /\ parts' = <<rem - st.first + 1>> /\ phase' = "pad" /\ UNCHANGED <<st, orig, seen, val, rem, k, fell, padded, text>>
                              ELSE Fallback
       [] st.sys = "symbolic" -> IF rem >= 1
                                 THEN /\ parts' = [j \in 1..((rem - 1) \div L + 1) |-> Mod(rem - 1, L) + 1] /\ phase' = "pad"
                                      /\ UNCHANGED <<st, orig, seen, val, rem, k, fell, padded, text>>
                                 ELSE Fallback
\* alphabetic and numeric: one symbol per step, the least significant first
Digit ==
  /\ phase = "construct" /\ st.sys \in {"alphabetic", "numeric"}
  /\ IF st.sys = "alphabetic" THEN
        IF rem < 1 /\ parts = <<>> THEN Fallback                                     \* defined over the positive values only
        ELSE IF rem = 0 THEN phase' = "pad" /\ UNCHANGED <<st, orig, seen, val, rem, parts, k, fell, padded, text>>
        ELSE /\ parts' = <<Mod(rem - 1, L) + 1>> \o parts /\ rem' = (rem - 1) \div L
             /\ UNCHANGED <<st, orig, seen, val, phase, k, fell, padded, text>>
     ELSE
        IF rem = 0 /\ parts = <<>> THEN parts' = <<1>> /\ phase' = "pad" /\ UNCHANGED <<st, orig, seen, val, rem, k, fell, padded, text>>
        ELSE IF rem = 0 THEN phase' = "pad" /\ UNCHANGED <<st, orig, seen, val, rem, parts, k, fell, padded, text>>
        ELSE /\ parts' = <<Mod(rem, L) + 1>> \o parts /\ rem' = rem \div L
             /\ UNCHANGED <<st, orig, seen, val, phase, k, fell, padded, text>>
\* additive: one tuple per step
Tuple ==
  /\ phase = "construct" /\ st.sys = "additive"
  /\ IF val = 0 THEN
        (IF \E j \in 1..Len(st.adds) : st.adds[j].w = 0
         THEN /\ parts' = <<CHOOSE j \in 1..Len(st.adds) : st.adds[j].w = 0>> /\ phase' = "pad"
              /\ UNCHANGED <<st, orig, seen, val, rem, k, fell, padded, text>>
         ELSE Fallback)
     ELSE IF rem = 0 THEN phase' = "pad" /\ UNCHANGED <<st, orig, seen, val, rem, parts, k, fell, padded, text>>
     ELSE IF k > Len(st.adds) THEN Fallback                                          \* no representation
     ELSE LET w == st.adds[k].w IN
          IF w = 0 \/ w > rem THEN k' = k + 1 /\ UNCHANGED <<st, orig, seen, val, phase, rem, parts, fell, padded, text>>
          ELSE /\ parts' = parts \o [j \in 1..(rem \div w) |-> k] /\ rem' = rem - w * (rem \div w) /\ k' = k + 1
               /\ UNCHANGED <<st, orig, seen, val, phase, fell, padded, text>>
Negated == val < 0 /\ UsesNegative(st)
StrLen(s) == IF s = "" THEN 0 ELSE 1                     \* the prefixes and suffixes of the model have at most one character
Pad == /\ phase = "pad"
       /\ LET d == st.pad[1] - Len(parts) - (IF Negated THEN StrLen(st.neg[1]) + StrLen(st.neg[2]) ELSE 0) IN
          padded' = IF d > 0 THEN d ELSE 0
       /\ phase' = "negative" /\ UNCHANGED <<st, orig, seen, val, rem, parts, k, fell, text>>
SymbolOf(j) == IF st.sys = "additive" THEN st.adds[j].s ELSE st.syms[j]
RECURSIVE Cat(_), Rep(_, _)
Cat(s) == IF s = <<>> THEN "" ELSE SymbolOf(Head(s)) \o Cat(Tail(s))
Rep(c, n) == IF n = 0 THEN "" ELSE c \o Rep(c, n - 1)
Negative == /\ phase = "negative"
            /\ text' = (IF Negated THEN st.neg[1] ELSE "") \o Rep(st.pad[2], padded) \o Cat(parts) \o (IF Negated THEN st.neg[2] ELSE "")
            /\ phase' = "done" /\ UNCHANGED <<st, orig, seen, val, rem, parts, k, fell, padded>>
Next == CheckRange \/ Construct \/ Digit \/ Tuple \/ Pad \/ Negative
Spec == Init /\ [][Next]_vars /\ WF_vars(Next)

----------------------------------------------------------------------------
RECURSIVE Positional(_, _), Bijective(_, _), Weights(_)
Positional(s, b) == IF s = <<>> THEN 0 ELSE Positional(SubSeq(s, 1, Len(s) - 1), b) * b + (s[Len(s)] - 1)
Bijective(s, b) == IF s = <<>> THEN 0 ELSE Bijective(SubSeq(s, 1, Len(s) - 1), b) * b + s[Len(s)]
Weights(s) == IF s = <<>> THEN 0 ELSE st.adds[Head(s)].w + Weights(Tail(s))
Built == phase \in {"pad", "negative", "done"}
\* the representation denotes the value (of its absolute value under a negative sign)
Magnitude == IF Negated THEN Abs(val) ELSE val
NumericValue == (Built /\ st.sys = "numeric") => Positional(parts, L) = Magnitude /\ (Len(parts) > 1 => parts[1] # 1)
AlphabeticValue == (Built /\ st.sys = "alphabetic") => Bijective(parts, L) = Magnitude
AdditiveSum == (Built /\ st.sys = "additive") => Weights(parts) = Magnitude /\ \A j \in 1..(Len(parts) - 1) : parts[j] <= parts[j + 1]
SymbolicShape == (Built /\ st.sys = "symbolic") => Len(parts) * L >= Magnitude /\ (Len(parts) - 1) * L < Magnitude /\ \A j \in 1..Len(parts) : parts[j] = parts[1]
NeverEmpty == Built => parts # <<>>
\* the decimal style represents every integer: at most one fallback
FallbackBound == fell <= 2 /\ (fell = 2 => st = Decimal) /\ (st = Decimal => "decimal" \in seen \/ orig = Decimal)
PadReached == phase = "done" => Len(parts) + padded + (IF Negated THEN StrLen(st.neg[1]) + StrLen(st.neg[2]) ELSE 0) >= st.pad[1]
Terminates == <>(phase = "done")
Emit == phase = "done" => PrintT(ToJson([style |-> orig, val |-> val, text |-> text, fell |-> fell]))
=============================================================================
