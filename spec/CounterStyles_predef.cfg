CONSTANTS
  Family = "predef"
  NegLo = 4
  VHi = 9
SPECIFICATION Spec
INVARIANTS DecimalTotal NonEmpty Emit
PROPERTIES Terminates
CHECK_DEADLOCK FALSE
