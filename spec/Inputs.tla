------------------------------- MODULE Inputs -------------------------------
(***************************************************************************)
(* Parsers of document-supplied text (C07): the input spaces and the       *)
(* contract.                                                               *)
(*                                                                         *)
(* A family is an alphabet of fragments; an input is a sequence of at most *)
(* MaxLen fragments (the harness joins them with the family's separator    *)
(* and, for some families, crosses them with every property / descriptor / *)
(* attribute name of the real tables). The contract of every entry point   *)
(* is the two-step automaton Call -> Return(outcome) with outcome in       *)
(* {"ok", "error", "ignored"}: there is no transition for a panic, a fatal *)
(* error or a time-out, so a recorded call that ends that way is not a     *)
(* behaviour (ContractTrace.tla).                                          *)
(***************************************************************************)
EXTENDS Integers, Sequences, FiniteSets, TLC, Json

CONSTANTS Family, MaxLen

VARIABLES w, st
vars == <<w, st>>

Alpha ==
  CASE Family = "selector" ->
         <<"a", "*", "#b", ".c", "[d", "]", "=", "~=", "^=", "\"s\"", "'", ":", "::", "(", ")", ":not(", ":nth-child(", ":contains(", ":has(", ":lang(",
           "n", "+", "-", "2", ",", ">", " ", "\\", "|", "/*", "*/", "even", "of">>
    [] Family = "value" ->
         <<"x", "inherit", "var(--v)", "var(", "var(--v,)", "attr(y)", "0", "-1", "1e9", "1px", "1%", "1fr", "#fff", "\"s\"", "url(u)", "/", ",", "f()", "f(g(1))", "{}", ")",
           "auto", "none", "normal", "bold", "calc(1px + 2%)", "!important", "1 /", "/ auto", "calc(calc(var(--v)))", "attr(y url)", "attr(y,", "2 2 2 2 /">>
    [] Family = "gradient" ->
         <<"to", "top", "left", "right", "corner", "red", "blue", "1px", "50%", ",", "45deg", "0", "circle", "at", "closest-side", "ellipse">>
    [] Family = "svgpath" ->
         <<"M", "m", "L", "l", "H", "v", "C", "c", "s", "Q", "t", "A", "a", "z", "0", "1", "-2", "1e9", ".5", ",", "1-2.5.5", "+">>
    [] Family = "svgattr" ->
         <<"translate(", "rotate(", "scale(", "matrix(", "skewX(", ")", ",", " ", "1", "-2", "1e+5", ".5", "xMidYMid", "xMin", "meet", "slice", "none", "x", "%", "px", "em", "+", "e">>
    [] Family = "svgref" ->   \* values of the attributes that hold a reference: url(#id) with or without quotes, broken in every way
         <<"url(", "'", "\"", "#", "g", ")", " ", "none", "x">>
    [] Family = "descriptor" ->
         <<"x", "\"s\"", "url(u)", "format(", "format(\"woff\")", "local(", "local(n)", ")", ",", "U+26", "U+0-7F", "U+4??", "cyclic", "fixed", "additive", "extends", "symbolic",
           "infinite", "0", "1", "-3", "5", "auto", "bold", "italic", "normal", "/", "1px">>
    [] Family = "color" ->
         <<"rgb(", "rgba(", "hsl(", "#", "fff", "ff", "g", ")", ",", "/", "1", "255", "300", "-1", "50%", "1e9", "none", "red", "currentColor", "transparent", " ", ".5", "deg">>
    [] Family = "nth" ->
         <<"n", "2n", "-n", "+", "-", "1", "+1", "-1", "2", "odd", "even", " ", "of", "n-", "n-1", "3n+", "1e3", ".5", "N">>
    [] Family = "media" ->
         <<"print", "screen", "all", "not", "only", "and", "(", ")", ",", "(min-width:1px)", "(orientation", ":", "landscape", "x", "1", "/">>
    [] Family = "url" ->
         <<"data:", "text/plain", "image/png", ";base64", ";charset=utf-8", ",", "%41", "%", "%4", "%zz", "SGVsbG8=", "=", "//", "?", "#", "a b", "/", ":", "http:", "..">>
    [] Family = "htmlattr" ->
         <<"", " ", "-1", "0", "1e3", "999999999999", "+3", "٣", "2", "x", "1.5", "0x10", "%", "px", "*">>
    [] Family = "page" ->
         <<":first", ":left", ":right", ":blank", ":nth(", "2n+1", "n", "of", "x", ")", ",", " ", "name", ":", "-", "0">>
    [] OTHER -> <<>>

Words == UNION {[1..n -> 1..Len(Alpha)] : n \in 0..MaxLen}
Init == w \in Words /\ st = "call"
\* the contract: a call returns one of the three outcomes
Return == st = "call" /\ \E o \in {"ok", "error", "ignored"} : st' = o /\ UNCHANGED w
Next == Return
Stutter == UNCHANGED vars      \* (generation runs only enumerate the initial states)
Spec == Init /\ [][Next]_vars /\ WF_vars(Next)
AlwaysReturns == <>(st \in {"ok", "error", "ignored"})
Emit == st = "call" => PrintT(ToJson([f |-> Family, x |-> [q \in 1..Len(w) |-> Alpha[w[q]]]]))
=============================================================================
