------------------------------- MODULE Cascade -------------------------------
(***************************************************************************)
(* CSS Cascading and Inheritance: which of the declarations of one         *)
(* property that apply to one element is the cascaded value.               *)
(*                                                                         *)
(* A scenario is an ordered list `occs` of declaration occurrences (the    *)
(* order is the order of appearance of the author style sheets in the      *)
(* document) plus the `hints` switch (presentational hints on/off).        *)
(* An occurrence is [car, imp, sh]:                                        *)
(*   car  carrier: "ua" UA sheet | "user" user sheet | "style" <style>     *)
(*        | "link" <link> | "import" @import at the top of a <style>       *)
(*        | "import_late" @import after a rule (must be ignored)           *)
(*        | "media_print" @media print | "media_screen" (never applies)    *)
(*        | "nested" a nested `&` rule after an own declaration of its     *)
(*          parent rule | "attr" style attribute | "hint" presentational   *)
(*          hint | "nomatch" rule whose selector does not match            *)
(*   imp  !important                                                       *)
(*   sh   selector shape, see SpecOf                                       *)
(*                                                                         *)
(* Part 1 (declarative): Winner = maximum of Rank.                         *)
(* Part 2 (implementation-shaped): html/tree/style.go visits the style     *)
(* attributes and hints first, then every sheet in the order UA, author    *)
(* (document order), user, and replaces the slot when the old weight is    *)
(* <= the new one. TLC checks that part 2 computes part 1.                 *)
(***************************************************************************)
EXTENDS Integers, Sequences, FiniteSets, TLC, Json

CONSTANTS MaxOcc,        \* maximal number of occurrences in a scenario
          StyleAttrSpec, \* first component of the pseudo-specificity the code gives to style attributes
          NestedBeforeOwn \* TRUE: the code emits a nested rule before its parent's own declarations

VARIABLES occs, hints, todo, slot, phase
vars == <<occs, hints, todo, slot, phase>>

None == [car |-> "none"]

\* selector shapes for the probe element <font id="t" class="c">
\*   0: *   1: font   2: .c   3: font.c   4: #t   5: #t.c   6: :is(font, #t)   7: :not(.zz)
\*   8: font, #t   9: #zz, .c     (selector lists: the most specific MATCHING alternative counts)
SpecOf(sh) == CASE sh = 0 -> <<0, 0, 0>> [] sh = 1 -> <<0, 0, 1>> [] sh = 2 -> <<0, 1, 0>> [] sh = 3 -> <<0, 1, 1>>
                [] sh = 4 -> <<1, 0, 0>> [] sh = 5 -> <<1, 1, 0>> [] sh = 6 -> <<1, 0, 0>> [] sh = 7 -> <<0, 1, 0>>
                [] sh = 8 -> <<1, 0, 0>> [] sh = 9 -> <<0, 1, 0>>
Shapes == 0..9
\* number of equal-specificity rules of a "burst" sheet (three sizes, all beyond the small-slice threshold of sorts)
BurstSize(car) == CASE car = "burst15" -> 15 [] car = "burst20" -> 20 [] car = "burst33" -> 33 [] OTHER -> 0

SheetCarriers == {"ua", "user", "style", "link", "import", "import_late", "media_print", "media_screen", "nested", "nomatch"}
Occ == {[car |-> c, imp |-> i, sh |-> s] : c \in {"user", "style", "link", "import", "media_print", "nested"}, i \in BOOLEAN, s \in Shapes}
       \cup {[car |-> c, imp |-> i, sh |-> s] : c \in {"burst15", "burst20", "burst33"}, i \in BOOLEAN, s \in {1, 4}}
       \cup {[car |-> "ua", imp |-> FALSE, sh |-> s] : s \in Shapes}
       \cup {[car |-> c, imp |-> i, sh |-> 4] : c \in {"media_screen", "nomatch", "import_late"}, i \in BOOLEAN}
       \cup {[car |-> "attr", imp |-> i, sh |-> 0] : i \in BOOLEAN}
       \cup {[car |-> "hint", imp |-> FALSE, sh |-> 0]}

\* at most one style attribute and one hint per element
WellFormed(q) == /\ Cardinality({j \in 1..Len(q) : q[j].car = "attr"}) <= 1
                 /\ Cardinality({j \in 1..Len(q) : q[j].car = "hint"}) <= 1
Lists == {q \in UNION {[1..m -> Occ] : m \in 0..MaxOcc} : WellFormed(q)}

---------------------------------------------------------------------------
(* Expansion: every occurrence becomes one or two candidate declarations   *)
(* [car, imp, sh, pos, val]; val identifies the declared value.            *)
\* a nested rule is written  SEL { color: decoy; & { color: val } } : the parent's own declaration is a
\* candidate too, of the same specificity, appearing just before the nested one
Cands(q) ==
  UNION {
    IF q[j].car = "nested"
    THEN {[car |-> "style", imp |-> FALSE, sh |-> q[j].sh, pos |-> 64 * j, val |-> 100 + j],
          [car |-> "nested", imp |-> q[j].imp, sh |-> q[j].sh, pos |-> 64 * j + 1, val |-> j]}
    \* a "burst" is one <style> sheet with Burst rules of the same selector and importance, all declaring
    \* the property; only the last one carries the occurrence's value
    ELSE IF BurstSize(q[j].car) > 0
    THEN {[car |-> "style", imp |-> q[j].imp, sh |-> q[j].sh, pos |-> 64 * j + b, val |-> IF b = BurstSize(q[j].car) THEN j ELSE 200 + b] : b \in 1..BurstSize(q[j].car)}
    ELSE {[car |-> q[j].car, imp |-> q[j].imp, sh |-> q[j].sh, pos |-> 64 * j, val |-> j]}
    : j \in 1..Len(q)}

Applies(d, h) == /\ d.car \notin {"nomatch", "media_screen", "import_late"}
                 /\ (d.car = "hint" => h)
Origin(d) == IF d.car = "ua" THEN "ua" ELSE IF d.car = "user" THEN "user" ELSE "author"
\* user agent < user < author < author !important < user !important
OI(d) == CASE Origin(d) = "ua" -> 1
           [] Origin(d) = "user" /\ ~d.imp -> 2
           [] Origin(d) = "author" /\ ~d.imp -> 3
           [] Origin(d) = "author" /\ d.imp -> 4
           [] OTHER -> 5
\* a nested `&` stands for :is(<parent selector list>): its specificity is that of the most specific
\* alternative of the list, whether or not that alternative matches (shape 9: #zz, .c)
NestedSpecOf(sh) == IF sh = 9 THEN <<1, 0, 0>> ELSE SpecOf(sh)
CssSpec(d) == IF d.car \in {"hint", "attr"} THEN <<0, 0, 0>> ELSE IF d.car = "nested" THEN NestedSpecOf(d.sh) ELSE SpecOf(d.sh)
\* presentational hints sit at the start of the author style sheet
CssPos(d) == IF d.car = "hint" THEN 0 ELSE d.pos
Rank(d) == <<OI(d), IF d.car = "attr" THEN 1 ELSE 0, CssSpec(d)[1], CssSpec(d)[2], CssSpec(d)[3], CssPos(d)>>
RECURSIVE LexLess(_, _)
LexLess(u, v) == IF u = <<>> THEN FALSE
                 ELSE Head(u) < Head(v) \/ (Head(u) = Head(v) /\ LexLess(Tail(u), Tail(v)))
Applicable(q, h) == {d \in Cands(q) : Applies(d, h)}
Winner(q, h) == IF Applicable(q, h) = {} THEN None
                ELSE CHOOSE d \in Applicable(q, h) : \A e \in Applicable(q, h) \ {d} : LexLess(Rank(e), Rank(d))

---------------------------------------------------------------------------
(* Implementation-shaped insertion (html/tree/style.go newStyleFor) *)
ImplSpec(d) == CASE d.car = "attr" -> <<StyleAttrSpec, 0, 0>> [] d.car = "hint" -> <<0, 0, 0>>
                 [] d.car = "nested" -> NestedSpecOf(d.sh) [] OTHER -> SpecOf(d.sh)
Weight(d) == <<OI(d), ImplSpec(d)[1], ImplSpec(d)[2], ImplSpec(d)[3]>>
Leq(u, v) == u = v \/ LexLess(u, v)

SortByPos(S) == LET RECURSIVE Srt(_)
                    Srt(T) == IF T = {} THEN <<>> ELSE
                              LET m == CHOOSE d \in T : \A e \in T : d.pos <= e.pos IN <<m>> \o Srt(T \ {m})
                IN Srt(S)
\* the order in which the code meets the applicable candidates
VisitOrder(q, h) ==
  LET A == Applicable(q, h) IN
  SortByPos({d \in A : d.car \in {"attr", "hint"}})
  \o SortByPos({d \in A : d.car = "ua"})
  \o SortByPos({[d EXCEPT !.pos = IF NestedBeforeOwn /\ d.car = "nested" THEN d.pos - 2 ELSE d.pos] :
                   d \in {e \in A : Origin(e) = "author" /\ e.car \notin {"attr", "hint"}}})
  \o SortByPos({d \in A : d.car = "user"})

Init == /\ occs \in Lists /\ hints \in BOOLEAN
        /\ todo = <<>> /\ slot = None /\ phase = "collect"
\* incremental construction of a scenario (used with `tlc -simulate`, where enumerating Lists is too costly)
InitBuild == /\ occs = <<>> /\ hints \in BOOLEAN /\ todo = <<>> /\ slot = None /\ phase = "build"
AddOcc == /\ phase = "build" /\ Len(occs) < MaxOcc
          /\ \E o \in Occ : WellFormed(Append(occs, o)) /\ occs' = Append(occs, o)
          /\ UNCHANGED <<hints, todo, slot, phase>>
EndBuild == /\ phase = "build" /\ Len(occs) = MaxOcc /\ phase' = "collect" /\ UNCHANGED <<occs, hints, todo, slot>>
Collect == /\ phase = "collect"
           /\ todo' = VisitOrder(occs, hints) /\ phase' = "insert"
           /\ UNCHANGED <<occs, hints, slot>>
\* `if oldWeight.isNone() || oldWeight.Less(we) { style[name] = ... }`  (Less is <=)
Insert == /\ phase = "insert" /\ todo # <<>>
          /\ LET d == Head(todo) IN
             slot' = IF slot = None \/ Leq(Weight(slot), Weight(d)) THEN d ELSE slot
          /\ todo' = Tail(todo)
          /\ UNCHANGED <<occs, hints, phase>>
Finish == /\ phase = "insert" /\ todo = <<>> /\ phase' = "done"
          /\ UNCHANGED <<occs, hints, todo, slot>>
Next == AddOcc \/ EndBuild \/ Collect \/ Insert \/ Finish
Spec == Init /\ [][Next]_vars

\* the insertion loop leaves the CSS winner in the slot
ImplCorrect == phase = "done" => slot = Winner(occs, hints)
\* after any prefix the slot holds the best candidate met so far (inductive form)
Seen == LET v == VisitOrder(occs, hints) IN {v[j] : j \in 1..(Len(v) - Len(todo))}
PrefixMax == phase = "insert" => (slot = None /\ Seen = {}) \/ (slot \in Seen /\ \A e \in Seen \ {slot} : LexLess(Rank(e), Rank(slot)))

Emit == phase = "done" =>
  PrintT(ToJson([occs |-> occs, hints |-> hints,
                 want |-> IF Winner(occs, hints) = None THEN 0 ELSE Winner(occs, hints).val,
                 wantcar |-> Winner(occs, hints).car]))

---------------------------------------------------------------------------
(* The page context (CSS Paged Media 3, 5.1): @page rules and their margin-box rules cascade like rules, with the      *)
(* specificity of the page selector: (named page, :first / :blank, :left / :right); later wins among equals. A scenario  *)
(* is an ordered pair of page selectors that both match the first page of a document whose body is on the named page    *)
(* "n" (a first, right, non-blank page); each rule sets margin-top and the width of its @top-left box.                   *)
PageSels == {"", ":first", ":right", "n", "n:first", "n:right", ":first:right", "n:first:right"}
PageSpec(ps) == CASE ps = "" -> <<0, 0, 0>> [] ps = ":first" -> <<0, 1, 0>> [] ps = ":right" -> <<0, 0, 1>> [] ps = "n" -> <<1, 0, 0>>
                  [] ps = "n:first" -> <<1, 1, 0>> [] ps = "n:right" -> <<1, 0, 1>> [] ps = ":first:right" -> <<0, 1, 1>> [] OTHER -> <<1, 1, 1>>
SpecLess(a, b) == a[1] < b[1] \/ (a[1] = b[1] /\ (a[2] < b[2] \/ (a[2] = b[2] /\ a[3] < b[3])))
\* 1 or 2: which of the two rules gives the page (and its margin box) its value
PageWinner(p, q) == IF SpecLess(PageSpec(q), PageSpec(p)) THEN 1 ELSE 2
PageInit == /\ \E p \in PageSels, q \in PageSels : occs = <<p, q>>
            /\ hints = FALSE /\ todo = <<>> /\ slot = None /\ phase = "page"
PageStutter == UNCHANGED vars
\* specificity is a strict weak order: exactly one of the two wins in either order unless they are equally specific
PageOrderLaw == phase = "page" => (PageSpec(occs[1]) = PageSpec(occs[2]) \/ PageWinner(occs[1], occs[2]) # PageWinner(occs[2], occs[1]))
EmitPage == phase = "page" => PrintT(ToJson([mode |-> "page", sels |-> occs, winner |-> PageWinner(occs[1], occs[2])]))
=============================================================================
