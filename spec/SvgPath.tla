------------------------------- MODULE SvgPath -------------------------------
(***************************************************************************)
(* SVG 1.1 section 8.3: path data as a transition system over the          *)
(* interpreter state                                                       *)
(*   cur   current point            start  initial point of the sub-path   *)
(*   ctl   last control point       last   family of the last command      *)
(*   ops   emitted backend path operations                                 *)
(* one action per command letter (absolute / relative), each consuming all *)
(* its argument groups ("implicit repetition"). Coordinates are integers   *)
(* that are multiples of 3, so that quadratic -> cubic elevation stays in  *)
(* Int.                                                                    *)
(*                                                                         *)
(* Families (CONSTANT Family):                                             *)
(*   "path"     sequences of commands M L H V C S Q T Z and relatives      *)
(*   "arc"      M + one elliptical arc built from quarter-turn geometry:   *)
(*              the spec states end point, centre, radii and swept angle   *)
(*   "viewport" viewBox x viewport x preserveAspectRatio -> transform      *)
(***************************************************************************)
EXTENDS Integers, Sequences, FiniteSets, TLC, Json

CONSTANTS Family, MaxCmds

VARIABLES cmds, pc, cur, ctl, start, last, ops, phase
vars == <<cmds, pc, cur, ctl, start, last, ops, phase>>

Pt(x, y) == <<x, y>>
Add(p, q) == <<p[1] + q[1], p[2] + q[2]>>
Reflect(p, c) == <<2 * p[1] - c[1], 2 * p[2] - c[2]>>
\* quadratic (p0, q, p2) elevated to a cubic: c1 = p0 + 2/3 (q - p0), c2 = p2 + 2/3 (q - p2)
Elev(p0, q, p2) == << <<p0[1] + (2 * (q[1] - p0[1])) \div 3, p0[2] + (2 * (q[2] - p0[2])) \div 3>>,
                      <<p2[1] + (2 * (q[1] - p2[1])) \div 3, p2[2] + (2 * (q[2] - p2[2])) \div 3>>, p2 >>

Coords == {-3, 0, 6}
Points == {Pt(x, y) : x \in Coords, y \in Coords}

\* a command: [c |-> letter, rel |-> BOOLEAN, g |-> sequence of argument groups]
\* group shapes: M/L/T: <<p>>   H/V: <<n>>   C: <<c1, c2, p>>   S/Q: <<c, p>>   Z: none
Cmd(c, rel, g) == [c |-> c, rel |-> rel, g |-> g]
P1 == {Pt(3, 0), Pt(-3, 6), Pt(6, 6)}
Groups(c) ==
  CASE c \in {"M", "L", "T"} -> {<<p>> : p \in P1}
    [] c \in {"H", "V"} -> {<<3>>, <<-6>>}
    [] c = "C" -> {<<Pt(0, 3), Pt(3, 3), Pt(6, 0)>>, <<Pt(-3, 0), Pt(0, -6), Pt(3, 3)>>}
    [] c \in {"S", "Q"} -> {<<Pt(3, 3), Pt(6, 0)>>, <<Pt(0, -6), Pt(-3, 3)>>}
    [] OTHER -> {}
Letters == {"M", "L", "H", "V", "C", "S", "Q", "T"}
OneOrTwo(S) == {<<a>> : a \in S} \cup {<<a, b>> : a \in S, b \in S}
Commands == UNION {{Cmd(c, r, gs) : r \in BOOLEAN, gs \in OneOrTwo(Groups(c))} : c \in Letters}
            \cup {Cmd("Z", FALSE, <<>>)}
\* a path starts with a moveto
FirstCmds == {k \in Commands : k.c = "M"}
RECURSIVE Seqs(_)
Seqs(n) == IF n = 1 THEN {<<k>> : k \in FirstCmds}
           ELSE LET S == Seqs(n - 1) IN S \cup {Append(s, k) : s \in {t \in S : Len(t) = n - 1}, k \in Commands}

\* family "closes": longer sequences over few commands, for what follows a closepath (a command other than a moveto after Z
\* starts a new sub-path at the same initial point, which a later Z closes again - SVG 1.1, 8.3.3)
CloseCmds == {Cmd("L", FALSE, <<<<Pt(6, 3)>>>>), Cmd("L", TRUE, <<<<Pt(-3, 3)>>>>), Cmd("H", TRUE, <<<<3>>>>), Cmd("Z", FALSE, <<>>),
              Cmd("M", FALSE, <<<<Pt(3, 6)>>>>)}
RECURSIVE CloseSeqs(_)
CloseSeqs(n) == IF n = 1 THEN {<<Cmd("M", FALSE, <<<<Pt(3, 0)>>>>)>>}
                ELSE LET S == CloseSeqs(n - 1) IN S \cup {Append(s, k) : s \in {t \in S : Len(t) = n - 1}, k \in CloseCmds}
PathLike == Family \in {"path", "closes"}

Abs(rel, base, p) == IF rel THEN Add(base, p) ELSE p

\* ---- one command, all its argument groups; st = [cur, ctl, start, last, ops]
RECURSIVE RunGroups(_, _, _, _)
RunGroups(st, k, gs, first) ==
  IF gs = <<>> THEN st ELSE
  LET g == Head(gs) IN
  LET nxt ==
    CASE k.c = "M" ->
           LET p == Abs(k.rel, st.cur, g[1]) IN
           IF first THEN [st EXCEPT !.ops = Append(@, [op |-> "M", p |-> <<p>>]), !.cur = p, !.start = p, !.last = "M"]
           \* the extra pairs of a moveto are implicit linetos
           ELSE [st EXCEPT !.ops = Append(@, [op |-> "L", p |-> <<p>>]), !.cur = p, !.last = "M"]
      [] k.c = "L" -> LET p == Abs(k.rel, st.cur, g[1]) IN
           [st EXCEPT !.ops = Append(@, [op |-> "L", p |-> <<p>>]), !.cur = p, !.last = "L"]
      [] k.c = "H" -> LET p == Pt(IF k.rel THEN st.cur[1] + g[1] ELSE g[1], st.cur[2]) IN
           [st EXCEPT !.ops = Append(@, [op |-> "L", p |-> <<p>>]), !.cur = p, !.last = "L"]
      [] k.c = "V" -> LET p == Pt(st.cur[1], IF k.rel THEN st.cur[2] + g[1] ELSE g[1]) IN
           [st EXCEPT !.ops = Append(@, [op |-> "L", p |-> <<p>>]), !.cur = p, !.last = "L"]
      [] k.c = "C" -> LET c1 == Abs(k.rel, st.cur, g[1])  c2 == Abs(k.rel, st.cur, g[2])  p == Abs(k.rel, st.cur, g[3]) IN
           [st EXCEPT !.ops = Append(@, [op |-> "C", p |-> <<c1, c2, p>>]), !.cur = p, !.ctl = c2, !.last = "C"]
      [] k.c = "S" -> \* first control point: reflection of the previous one only after a cubic
           LET c1 == IF st.last = "C" THEN Reflect(st.cur, st.ctl) ELSE st.cur
               c2 == Abs(k.rel, st.cur, g[1])  p == Abs(k.rel, st.cur, g[2]) IN
           [st EXCEPT !.ops = Append(@, [op |-> "C", p |-> <<c1, c2, p>>]), !.cur = p, !.ctl = c2, !.last = "C"]
      [] k.c = "Q" -> LET q == Abs(k.rel, st.cur, g[1])  p == Abs(k.rel, st.cur, g[2]) IN
           [st EXCEPT !.ops = Append(@, [op |-> "C", p |-> Elev(st.cur, q, p)]), !.cur = p, !.ctl = q, !.last = "Q"]
      [] k.c = "T" -> LET q == IF st.last = "Q" THEN Reflect(st.cur, st.ctl) ELSE st.cur
                          p == Abs(k.rel, st.cur, g[1]) IN
           [st EXCEPT !.ops = Append(@, [op |-> "C", p |-> Elev(st.cur, q, p)]), !.cur = p, !.ctl = q, !.last = "Q"]
  IN RunGroups(nxt, k, Tail(gs), FALSE)

RunCmd(st, k) ==
  IF k.c = "Z"
  \* closepath: the current point returns to the start of the sub-path; closing a closed path draws nothing
  THEN IF st.last = "Z" THEN st
       ELSE [st EXCEPT !.ops = Append(@, [op |-> "Z", p |-> <<>>]), !.cur = st.start, !.last = "Z"]
  ELSE RunGroups(st, k, k.g, TRUE)

---------------------------------------------------------------------------
(* arcs: quarter-turn geometry. Angles in quarter turns, y axis down, sweep = 1 means increasing angle. *)
CosQ(q) == CASE q % 4 = 0 -> 1 [] q % 4 = 2 -> -1 [] OTHER -> 0
SinQ(q) == CASE q % 4 = 1 -> 1 [] q % 4 = 3 -> -1 [] OTHER -> 0
ArcScn == {[cx |-> cx, cy |-> cy, rx |-> rx, ry |-> ry, q0 |-> q0, dq |-> dq, sweep |-> sw, rel |-> rel, kind |-> "ellipse"] :
              cx \in {0, 3}, cy \in {0, -3}, rx \in {3, 6}, ry \in {3, 6}, q0 \in 0..3, dq \in 1..3, sw \in BOOLEAN, rel \in BOOLEAN}
          \cup \* one arc command with two argument groups: two consecutive quarter arcs (dq = 2 in total)
          {[cx |-> 0, cy |-> 0, rx |-> r, ry |-> r2, q0 |-> q0, dq |-> 2, sweep |-> sw, rel |-> rel, kind |-> "two-groups"] :
              r \in {3, 6}, r2 \in {3, 6}, q0 \in 0..3, sw \in BOOLEAN, rel \in BOOLEAN}
          \cup \* degenerate arcs: a zero radius is a straight line, identical end points draw nothing,
               \* radii too small are scaled up until the end points fit (here: a half circle on the segment)
          {[cx |-> 0, cy |-> 0, rx |-> 0, ry |-> 3, q0 |-> 0, dq |-> 2, sweep |-> TRUE, rel |-> rel, kind |-> "zero-radius"] : rel \in BOOLEAN}
          \cup {[cx |-> 0, cy |-> 0, rx |-> 3, ry |-> 3, q0 |-> 0, dq |-> 0, sweep |-> TRUE, rel |-> rel, kind |-> "same-point"] : rel \in BOOLEAN}
          \cup {[cx |-> 0, cy |-> 0, rx |-> 1, ry |-> 1, q0 |-> 0, dq |-> 2, sweep |-> sw, rel |-> rel, kind |-> "too-small"] : sw \in BOOLEAN, rel \in BOOLEAN}
          \* radii 2 x 1 for a chord of length 12 on the x axis: both are scaled by 3 (F.6.6), i.e. the ellipse 6 x 3 around the origin
          \cup {[cx |-> 0, cy |-> 0, rx |-> 2, ry |-> 1, q0 |-> q0, dq |-> 2, sweep |-> sw, rel |-> rel, kind |-> "too-small-ellipse"] :
                   q0 \in {0, 2}, sw \in BOOLEAN, rel \in BOOLEAN}
UsedR(a) == CASE a.kind = "too-small" -> <<3, 3>> [] a.kind = "too-small-ellipse" -> <<6, 3>> [] OTHER -> <<a.rx, a.ry>>
ArcStart(a) == LET r == UsedR(a)[1]  s == IF a.kind = "zero-radius" THEN 3 ELSE UsedR(a)[2] IN
               IF a.kind = "zero-radius" THEN Pt(3, 0) ELSE Pt(a.cx + r * CosQ(a.q0), a.cy + s * SinQ(a.q0))
ArcEndQ(a) == IF a.sweep THEN a.q0 + a.dq ELSE a.q0 + 4 - a.dq
ArcEnd(a) == LET r == UsedR(a)[1]  s == UsedR(a)[2] IN
             IF a.kind = "zero-radius" THEN Pt(-3, 0) ELSE Pt(a.cx + r * CosQ(ArcEndQ(a)), a.cy + s * SinQ(ArcEndQ(a)))

---------------------------------------------------------------------------
(* viewBox / preserveAspectRatio (SVG 1.1 section 7.8): viewport (0, 0, W, H), viewBox (vx, vy, vw, vh).          *)
(* All quantities are chosen so that scale factors are integers or halves: the spec works in halves (x2).        *)
Aligns == {"xMinYMin", "xMidYMin", "xMaxYMin", "xMinYMid", "xMidYMid", "xMaxYMid", "xMinYMax", "xMidYMax", "xMaxYMax"}
VpScn == {[w |-> w, h |-> h, vx |-> vx, vy |-> vy, vw |-> vw, vh |-> vh, align |-> al, slice |-> sl] :
            w \in {40, 80}, h \in {40, 20}, vx \in {0, 10}, vy \in {0, -10}, vw \in {20, 40}, vh \in {10, 20},
            al \in Aligns \cup {"none", ""}, sl \in BOOLEAN}
MinI(a, b) == IF a < b THEN a ELSE b
MaxI(a, b) == IF a > b THEN a ELSE b
\* result in 1/4 units: [sx4, sy4, tx4, ty4]
VpTransform(s) ==
  LET sx4 == (4 * s.w) \div s.vw   sy4 == (4 * s.h) \div s.vh
      u4  == IF s.slice THEN MaxI(sx4, sy4) ELSE MinI(sx4, sy4)
      ax4 == IF s.align = "none" THEN sx4 ELSE u4
      ay4 == IF s.align = "none" THEN sy4 ELSE u4
      al  == IF s.align = "" THEN "xMidYMid" ELSE s.align
      freeX4 == 4 * s.w - s.vw * ax4     freeY4 == 4 * s.h - s.vh * ay4
      fx == IF s.align = "none" THEN 0 ELSE CASE al \in {"xMinYMin", "xMinYMid", "xMinYMax"} -> 0
                                                [] al \in {"xMidYMin", "xMidYMid", "xMidYMax"} -> 1 [] OTHER -> 2
      fy == IF s.align = "none" THEN 0 ELSE CASE al \in {"xMinYMin", "xMidYMin", "xMaxYMin"} -> 0
                                                [] al \in {"xMinYMid", "xMidYMid", "xMaxYMid"} -> 1 [] OTHER -> 2
  IN [sx4 |-> ax4, sy4 |-> ay4, tx4 |-> (freeX4 * fx) \div 2 - s.vx * ax4, ty4 |-> (freeY4 * fy) \div 2 - s.vy * ay4]

---------------------------------------------------------------------------
(* basic shapes (SVG 1.1 section 9) as the path they are equivalent to *)
ShapeScn ==
  {[shape |-> "rect", x |-> x, y |-> y, w |-> w, h |-> h, rx |-> rx, ry |-> ry] :
      x \in {0, 3}, y \in {-3}, w \in {0, 12, 30}, h \in {6, 18}, rx \in {-1, 0, 3, 9}, ry \in {-1, 0, 3}}  \* -1: attribute absent
  \cup {[shape |-> "circle", x |-> x, y |-> y, w |-> r, h |-> r, rx |-> 0, ry |-> 0] : x \in {0, 6}, y \in {3}, r \in {0, 3, 6}}
  \cup {[shape |-> "ellipse", x |-> x, y |-> y, w |-> a, h |-> b, rx |-> 0, ry |-> 0] : x \in {0, 6}, y \in {3}, a \in {0, 3, 6}, b \in {3, 9}}
  \cup {[shape |-> k, x |-> x, y |-> y, w |-> w, h |-> h, rx |-> 0, ry |-> 0] :
            k \in {"line", "polyline", "polygon"}, x \in {0, 3}, y \in {-3, 0}, w \in {6}, h \in {0, 9}}
\* used radii of a rounded rectangle: an absent one copies the other, each is clamped to half the side
UsedRx(s) == LET r == IF s.rx = -1 THEN (IF s.ry = -1 THEN 0 ELSE s.ry) ELSE s.rx IN IF 2 * r > s.w THEN s.w \div 2 ELSE r
UsedRy(s) == LET r == IF s.ry = -1 THEN (IF s.rx = -1 THEN 0 ELSE s.rx) ELSE s.ry IN IF 2 * r > s.h THEN s.h \div 2 ELSE r
ShapeOutline(s) ==
  CASE s.shape = "rect" ->
         IF s.w <= 0 \/ s.h <= 0 THEN [kind |-> "nothing"]
         ELSE IF UsedRx(s) = 0 \/ UsedRy(s) = 0 THEN [kind |-> "rectangle", p |-> <<s.x, s.y, s.w, s.h>>]
         ELSE LET a == UsedRx(s)  b == UsedRy(s) IN
              [kind |-> "rounded", rx |-> a, ry |-> b,
               \* the eight points where straight sides and corner arcs meet, clockwise from the top left
               pts |-> << <<s.x + a, s.y>>, <<s.x + s.w - a, s.y>>, <<s.x + s.w, s.y + b>>, <<s.x + s.w, s.y + s.h - b>>,
                          <<s.x + s.w - a, s.y + s.h>>, <<s.x + a, s.y + s.h>>, <<s.x, s.y + s.h - b>>, <<s.x, s.y + b>> >>]
    [] s.shape \in {"circle", "ellipse"} ->
         IF s.w = 0 \/ s.h = 0 THEN [kind |-> "nothing"] ELSE [kind |-> "ellipse", p |-> <<s.x, s.y, s.w, s.h>>]
    [] s.shape = "line" -> [kind |-> "path", ops |-> <<[op |-> "M", p |-> <<<<s.x, s.y>>>>], [op |-> "L", p |-> <<<<s.x + s.w, s.y + s.h>>>>]>>]
    [] s.shape = "polyline" -> [kind |-> "path", ops |-> <<[op |-> "M", p |-> <<<<s.x, s.y>>>>], [op |-> "L", p |-> <<<<s.x + s.w, s.y>>>>],
                                                          [op |-> "L", p |-> <<<<s.x + s.w, s.y + s.h>>>>]>>]
    [] s.shape = "polygon" -> [kind |-> "path", ops |-> <<[op |-> "M", p |-> <<<<s.x, s.y>>>>], [op |-> "L", p |-> <<<<s.x + s.w, s.y>>>>],
                                                         [op |-> "L", p |-> <<<<s.x + s.w, s.y + s.h>>>>], [op |-> "Z", p |-> <<>>]>>]

\* incremental construction for `tlc -simulate`
InitBuild == /\ pc = 1 /\ cur = Pt(0, 0) /\ ctl = Pt(0, 0) /\ start = Pt(0, 0) /\ last = "" /\ ops = <<>> /\ phase = "build"
             /\ cmds \in {<<k>> : k \in FirstCmds}
AddCmd == /\ phase = "build" /\ Len(cmds) < MaxCmds /\ \E k \in Commands : cmds' = Append(cmds, k)
          /\ UNCHANGED <<pc, cur, ctl, start, last, ops, phase>>
EndBuild == /\ phase = "build" /\ Len(cmds) = MaxCmds /\ phase' = "run" /\ UNCHANGED <<cmds, pc, cur, ctl, start, last, ops>>

Init == /\ pc = 1 /\ cur = Pt(0, 0) /\ ctl = Pt(0, 0) /\ start = Pt(0, 0) /\ last = "" /\ ops = <<>> /\ phase = "run"
        /\ CASE Family = "path" -> cmds \in Seqs(MaxCmds)
             [] Family = "closes" -> cmds \in CloseSeqs(MaxCmds)
             [] Family = "arc" -> cmds \in {<<a>> : a \in ArcScn}
             [] Family = "viewport" -> cmds \in {<<s>> : s \in VpScn}
             [] Family = "shape" -> cmds \in {<<s>> : s \in ShapeScn}

Step(letter) == /\ phase = "run" /\ PathLike /\ pc <= Len(cmds) /\ cmds[pc].c = letter
                /\ LET st == RunCmd([cur |-> cur, ctl |-> ctl, start |-> start, last |-> last, ops |-> ops], cmds[pc]) IN
                   /\ cur' = st.cur /\ ctl' = st.ctl /\ start' = st.start /\ last' = st.last /\ ops' = st.ops
                /\ pc' = pc + 1 /\ UNCHANGED <<cmds, phase>>
MoveTo == Step("M")
LineTo == Step("L")
HorizontalTo == Step("H")
VerticalTo == Step("V")
CurveTo == Step("C")
SmoothCurveTo == Step("S")
QuadTo == Step("Q")
SmoothQuadTo == Step("T")
ClosePath == Step("Z")
Finish == /\ phase = "run" /\ (~PathLike \/ pc > Len(cmds)) /\ phase' = "done"
          /\ UNCHANGED <<cmds, pc, cur, ctl, start, last, ops>>
Next == AddCmd \/ EndBuild \/ MoveTo \/ LineTo \/ HorizontalTo \/ VerticalTo \/ CurveTo \/ SmoothCurveTo \/ QuadTo \/ SmoothQuadTo \/ ClosePath \/ Finish
Spec == Init /\ [][Next]_vars

\* the current point is always the end point of the last emitted operation (or the sub-path start after Z)
CurIsLastEnd == (PathLike /\ ops # <<>>) =>
   LET o == ops[Len(ops)] IN IF o.op = "Z" THEN cur = start ELSE cur = o.p[Len(o.p)]
\* every sub-path begins with a moveto: the first operation is M
StartsWithMove == (PathLike /\ ops # <<>>) => ops[1].op = "M"

Emit == phase = "done" =>
  PrintT(ToJson(CASE PathLike -> [family |-> "path", cmds |-> cmds, ops |-> ops]
                  [] Family = "arc" -> [family |-> "arc", arc |-> cmds[1], from |-> ArcStart(cmds[1]), to |-> ArcEnd(cmds[1]), used |-> UsedR(cmds[1])]
                  [] Family = "viewport" -> [family |-> "viewport", vp |-> cmds[1], want |-> VpTransform(cmds[1])]
                  [] Family = "shape" -> [family |-> "shape", shape |-> cmds[1], outline |-> ShapeOutline(cmds[1])]))
=============================================================================
