CONSTANTS
  MaxLen = 4
  Entry = "onedecl"
  Family = "full"
INIT Init
NEXT Next
INVARIANTS Deterministic NoSwallow EmitP
PROPERTIES Progress
CHECK_DEADLOCK FALSE
