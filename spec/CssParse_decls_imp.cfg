CONSTANTS
  MaxLen = 5
  Entry = "decls"
  Family = "imp"
INIT Init
NEXT Next
INVARIANTS Deterministic NoSwallow EmitP
PROPERTIES Progress
CHECK_DEADLOCK FALSE
