--------------------------- MODULE PaginationTrace ---------------------------
(***************************************************************************)
(* Trace validation for C12 / C02: every record of the trace file is the   *)
(* page sequence that the real layout produced for one document            *)
(*   [doc, H, Hfirst, pages |-> <<[lines, right, blank], ...>>]            *)
(* It is accepted iff it is a behaviour of the page maker of Pagination    *)
(* with RemakePage relaxed to AllowedEnds (any end the property allows).   *)
(***************************************************************************)
EXTENDS Pagination, IOUtils

VARIABLE i
Trace == ndJsonDeserialize(IOEnv.TRACE_FILE)

CapR(r, k) == IF k = 1 /\ r.Hfirst # 0 THEN r.Hfirst ELSE r.H
RECURSIVE Walk(_, _, _, _, _)
\* k: index of the next page, s: resume point, rt: side of the next page, pend: side asked by the last forced break
Walk(r, k, s, rt, pend) ==
  LET n == N(r.doc) IN
  IF k > Len(r.pages) THEN (IF s > n THEN "ok" ELSE "content-lost-at-end")
  ELSE LET p == r.pages[k]
           need == (SideOf(pend, r.rtl) = "left" /\ rt) \/ (SideOf(pend, r.rtl) = "right" /\ ~rt) IN
       IF p.right # rt THEN "side-does-not-alternate"
       ELSE IF need THEN (IF p.blank /\ p.lines = <<>> THEN Walk(r, k + 1, s, ~rt, "auto") ELSE "blank-page-missing")
       ELSE IF p.blank THEN "unexpected-blank-page"
       ELSE IF s > n THEN "page-after-the-end"
       ELSE IF p.lines = <<>> THEN "empty-page"
       ELSE IF p.lines # [j \in 1..Len(p.lines) |-> s + j - 1] THEN "content-not-conserved"
       ELSE LET e == s + Len(p.lines) - 1 IN
            IF e \notin AllowedEnds(r.doc, CapR(r, k), s) THEN WhyNot(r.doc, CapR(r, k), s, e)
            ELSE Walk(r, k + 1, e + 1, ~rt, IF e < n THEN Combined(r.doc, e) ELSE "auto")

Verdict(r) == Walk(r, 1, 1, ~r.rtl, "auto")

TInit == /\ i \in 1..Len(Trace)
         /\ doc = <<>> /\ rtl = FALSE /\ H = 0 /\ Hfirst = 0 /\ nth = [a |-> 0, b |-> 0] /\ resume = 1 /\ right = TRUE /\ pages = <<>> /\ placed = <<>>
         /\ pending = "auto" /\ phase = "trace"
TNext == UNCHANGED <<vars, i>>
\* always TRUE; prints the index and the reason of every rejected record
Report == Verdict(Trace[i]) = "ok" \/ PrintT(<<"BAD", i, Verdict(Trace[i])>>)
=============================================================================
