---------------------------- MODULE CounterScopes ----------------------------
(***************************************************************************)
(* CSS counters: nesting and scope (CSS 2.1 section 12.4.1 / CSS Lists 3   *)
(* section 4).                                                             *)
(*                                                                         *)
(* The document is a tree of n elements in document order given by the     *)
(* depth sequence `dep` (dep[1] = 0 is the root; dep[i+1] <= dep[i] + 1).  *)
(* Every element carries one counter operation `ops[i]` on the counter     *)
(* names "c" and "d".                                                      *)
(*                                                                         *)
(* Part 1 (declarative): an instance of a counter is created by a reset    *)
(* (or by a set / increment when no instance is in scope), its scope is    *)
(* the creator, its descendants, its following siblings and their          *)
(* descendants, minus the scope of an instance created by a later sibling  *)
(* of the creator. set/increment act on the innermost visible instance.    *)
(* counters() lists the visible instances outermost first.                 *)
(*                                                                         *)
(* Part 2 (implementation-shaped): html/boxes/build.go keeps               *)
(*   values[name] : a stack of integers, innermost last                    *)
(*   scopes       : a stack of sets of names, one per open tree depth      *)
(* UpdateCounters on entering an element, pop of the scope on leaving.     *)
(* TLC checks that what part 2 observes at every element is part 1.        *)
(***************************************************************************)
EXTENDS Integers, Sequences, FiniteSets, TLC, Json

CONSTANTS N,              \* number of elements
          OpSet,          \* "core": operations on c and d | "list": list items (implicit list-item counter "l") and c
          SetBeforeIncr   \* TRUE: the code applies counter-set before counter-increment (CSS Lists 3: after)

VARIABLES dep, ops, pos, open, values, scopes, obs, phase
vars == <<dep, ops, pos, open, values, scopes, obs, phase>>

Names == {"c", "d", "l"}   \* "l" stands for the implicit counter `list-item`
Op(r, s, i) == [r |-> r, s |-> s, i |-> i]          \* each: set of [n |-> name, v |-> value]
NoOp == Op({}, {}, {})
R(n, v) == {[n |-> n, v |-> v]}
\* a list item (display: list-item) increments `list-item` by 1 implicitly; li marks it for the materialiser
ListOps == { NoOp, Op({}, {}, R("l", 1)) @@ [li |-> TRUE], Op(R("l", 0), {}, {}), Op(R("l", 3), {}, R("l", 1)) @@ [li |-> TRUE],
             Op(R("c", 0), {}, R("l", 1)) @@ [li |-> TRUE], Op({}, {}, R("c", 1)), Op({}, R("l", 7), {}) }
CoreOps == { NoOp, Op(R("c", 0), {}, {}), Op(R("c", 5), {}, {}), Op({}, {}, R("c", 1)), Op({}, R("c", 7), {}),
         Op(R("c", 2), {}, R("c", 1)), Op({}, R("c", 7), R("c", 1)), Op(R("d", 0), {}, {}), Op({}, {}, R("d", 1)),
         Op({}, {}, R("c", 1) \cup R("d", 1)) }
Ops == IF OpSet = "list" THEN ListOps ELSE CoreOps

DepSeqs(n) == {s \in [1..n -> 0..n - 1] : s[1] = 0 /\ \A i \in 2..n : s[i] >= 1 /\ s[i] <= s[i - 1] + 1}

Par(d, i) == IF i = 1 THEN 0 ELSE CHOOSE j \in 1..i - 1 : d[j] = d[i] - 1 /\ \A k \in j + 1..i - 1 : d[k] >= d[i]
RECURSIVE AncSelf(_, _)
AncSelf(d, i) == IF i = 0 THEN {} ELSE {i} \cup AncSelf(d, Par(d, i))
\* e is in the scope of an instance created at c
InScope(d, c, e) == \E a \in AncSelf(d, e) : a = c \/ (c # 1 /\ a > c /\ Par(d, a) = Par(d, c))

Has(S, n) == \E x \in S : x.n = n
Val(S, n) == (CHOOSE x \in S : x.n = n).v

---------------------------------------------------------------------------
(* Part 1: declarative reference *)
RECURSIVE IsCreator(_, _, _, _), Visible(_, _, _, _)
Superseded(d, o, c, e, n) == \E c2 \in c + 1..e : IsCreator(d, o, c2, n) /\ c # 1 /\ Par(d, c2) = Par(d, c) /\ InScope(d, c2, e)
\* instances visible at e, counting the ones e itself creates iff `incl`
VisibleUpTo(d, o, e, n, incl) ==
  {c \in 1..(IF incl THEN e ELSE e - 1) : IsCreator(d, o, c, n) /\ InScope(d, c, e) /\ ~Superseded(d, o, c, e, n)}
IsCreator(d, o, x, n) ==
  \/ Has(o[x].r, n)
  \/ (Has(o[x].s, n) \/ Has(o[x].i, n)) /\
       {c \in 1..x - 1 : IsCreator(d, o, c, n) /\ InScope(d, c, x)
                          /\ ~(\E c2 \in c + 1..x - 1 : IsCreator(d, o, c2, n) /\ c # 1 /\ Par(d, c2) = Par(d, c) /\ InScope(d, c2, x))} = {}
Visible(d, o, e, n) == VisibleUpTo(d, o, e, n, TRUE)
MaxOf(S) == CHOOSE x \in S : \A y \in S : y <= x
Innermost(d, o, e, n) == MaxOf(Visible(d, o, e, n))
\* effect of the set / increment of element y on a value (CSS Lists 3: increment, then set)
ApplyRef(o, y, n, val) ==
  LET a == IF Has(o[y].i, n) THEN val + Val(o[y].i, n) ELSE val IN
  IF Has(o[y].s, n) THEN Val(o[y].s, n) ELSE a
RECURSIVE ValueAt(_, _, _, _, _)
ValueAt(d, o, c, y, n) ==
  IF y = c THEN ApplyRef(o, c, n, IF Has(o[c].r, n) THEN Val(o[c].r, n) ELSE 0)
  ELSE LET prev == ValueAt(d, o, c, y - 1, n) IN
       IF Visible(d, o, y, n) # {} /\ Innermost(d, o, y, n) = c THEN ApplyRef(o, y, n, prev) ELSE prev
SortedSeq(S) == LET RECURSIVE Srt(_)
                    Srt(T) == IF T = {} THEN <<>> ELSE LET m == CHOOSE x \in T : \A y \in T : x <= y IN <<m>> \o Srt(T \ {m})
                IN Srt(S)
RefAt(d, o, e, n) == LET vs == SortedSeq(Visible(d, o, e, n)) IN [j \in 1..Len(vs) |-> ValueAt(d, o, vs[j], e, n)]
RefObs(d, o) == [e \in 1..Len(d) |-> [n \in Names |-> RefAt(d, o, e, n)]]

---------------------------------------------------------------------------
(* Part 2: the stack algorithm of build.go *)
Front(s) == SubSeq(s, 1, Len(s) - 1)
RECURSIVE FoldReset(_, _, _), FoldSet(_, _, _), FoldIncr(_, _, _)
\* UpdateCounters, counter-reset part: st = [values, sib]
FoldReset(st, S, todo) ==
  IF todo = {} THEN st ELSE
  LET x == CHOOSE x \in todo : TRUE
      cur == st.values[x.n]
      nv == IF x.n \in st.sib THEN Append(Front(cur), x.v) ELSE Append(cur, x.v) IN
  FoldReset([values |-> [st.values EXCEPT ![x.n] = nv], sib |-> st.sib \cup {x.n}], S, todo \ {x})
FoldSet(st, S, todo) ==
  IF todo = {} THEN st ELSE
  LET x == CHOOSE x \in todo : TRUE
      cur == st.values[x.n]
      base == IF cur = <<>> THEN <<0>> ELSE cur
      nv == [base EXCEPT ![Len(base)] = x.v] IN
  FoldSet([values |-> [st.values EXCEPT ![x.n] = nv], sib |-> IF cur = <<>> THEN st.sib \cup {x.n} ELSE st.sib], S, todo \ {x})
FoldIncr(st, S, todo) ==
  IF todo = {} THEN st ELSE
  LET x == CHOOSE x \in todo : TRUE
      cur == st.values[x.n]
      base == IF cur = <<>> THEN <<0>> ELSE cur
      nv == [base EXCEPT ![Len(base)] = @ + x.v] IN
  FoldIncr([values |-> [st.values EXCEPT ![x.n] = nv], sib |-> IF cur = <<>> THEN st.sib \cup {x.n} ELSE st.sib], S, todo \ {x})
Update(vals, sib, o) ==
  LET s1 == FoldReset([values |-> vals, sib |-> sib], {}, o.r) IN
  IF SetBeforeIncr THEN FoldIncr(FoldSet(s1, {}, o.s), {}, o.i)
  ELSE FoldSet(FoldIncr(s1, {}, o.i), {}, o.s)

Init == /\ dep \in DepSeqs(N) /\ ops \in [1..N -> Ops]
        /\ pos = 1 /\ open = <<>> /\ values = [n \in Names |-> <<>>] /\ scopes = <<{}>>
        /\ obs = <<>> /\ phase = "walk"

\* leave the innermost open element: the scopes created by its children stop here
Leave == /\ phase = "walk" /\ open # <<>>
         /\ (IF pos > N THEN TRUE ELSE dep[open[Len(open)]] >= dep[pos])
         /\ LET S == scopes[Len(scopes)] IN
            values' = [n \in Names |-> IF n \in S THEN Front(values[n]) ELSE values[n]]
         /\ scopes' = Front(scopes) /\ open' = Front(open)
         /\ UNCHANGED <<dep, ops, pos, obs, phase>>
\* enter the next element: UpdateCounters, then open a scope for its children
Enter == /\ phase = "walk" /\ pos <= N
         /\ (IF open = <<>> THEN TRUE ELSE dep[open[Len(open)]] < dep[pos])
         /\ LET st == Update(values, scopes[Len(scopes)], ops[pos]) IN
            /\ values' = st.values
            /\ scopes' = Append([scopes EXCEPT ![Len(scopes)] = st.sib], {})
            /\ obs' = Append(obs, st.values)
         /\ open' = Append(open, pos) /\ pos' = pos + 1
         /\ UNCHANGED <<dep, ops, phase>>
Finish == /\ phase = "walk" /\ pos > N /\ open = <<>> /\ phase' = "done"
          /\ UNCHANGED <<dep, ops, pos, open, values, scopes, obs>>
Next == Leave \/ Enter \/ Finish
Spec == Init /\ [][Next]_vars

\* what the stack algorithm shows at every element is what the scoping rules define
Agree == phase = "done" => obs = RefObs(dep, ops)
\* structural invariants of the implementation state
StackShape == /\ Len(scopes) = Len(open) + 1
              /\ \A n \in Names : Len(values[n]) = Cardinality({k \in 1..Len(scopes) : n \in scopes[k]})
Balanced == phase = "done" => (scopes = <<scopes[1]>> /\ \A n \in Names : Len(values[n]) <= 1)

Emit == phase = "done" => PrintT(ToJson([dep |-> dep, ops |-> ops,
                                         want |-> RefObs(dep, ops)]))
=============================================================================
