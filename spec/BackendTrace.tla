---------------------------- MODULE BackendTrace ----------------------------
(***************************************************************************)
(* Trace validation for C14: every record of the trace file is the         *)
(* sequence of backend calls recorded while the real document.Write drew   *)
(* one document ([evs, laidout]). It is accepted iff Backend!Proto says    *)
(* "ok" (every guard of the drawing protocol holds at every call).         *)
(***************************************************************************)
EXTENDS Backend, IOUtils

VARIABLE i
Trace == ndJsonDeserialize(IOEnv.TRACE_FILE)

TInit == /\ i \in 1..Len(Trace)
         /\ doc = <<>> /\ k = 1 /\ skipped = <<>> /\ lastBy = <<0>> /\ prevLevel = 0 /\ parent = <<>> /\ failed = FALSE /\ phase = "trace"
TNext == UNCHANGED <<vars, i>>
Report == Proto(Trace[i]) = "ok" \/ PrintT(<<"BAD", i, Proto(Trace[i])>>)
=============================================================================
