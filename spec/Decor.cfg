INIT Init
NEXT Next
INVARIANT Emit
CHECK_DEADLOCK FALSE
