CONSTANTS
  MaxRows = 0
  MaxCells = 0
  MaxSpan = 1
  Sized = FALSE
INIT TInit
NEXT TNext
INVARIANT Report
CHECK_DEADLOCK FALSE
