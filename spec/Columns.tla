------------------------------- MODULE Columns -------------------------------
(***************************************************************************)
(* Extra coverage (not one of the listed properties): the number and the   *)
(* width of the columns of a multi-column container (CSS Multi-column      *)
(* Layout 1, section 3.4, the pseudo-algorithm) and their positions, in    *)
(* 1/1000 px.                                                              *)
(*                                                                         *)
(* A scenario is [U: available width, w: column-width (0 = auto), n:       *)
(* column-count (0 = auto), gap, rtl]. Resolve is the pseudo-algorithm;    *)
(* the invariants are the statements of the section: at least one column,  *)
(* never more than column-count, the columns and gaps fill the container   *)
(* exactly, a column is at least column-width wide unless the container is *)
(* narrower (then there is one column as wide as the container), and with  *)
(* column-count alone the count is honoured. Column i (0-based) starts at  *)
(* i * (W + gap) from the inline start edge. The terminal state carries    *)
(* the geometry, which the harness compares with the column boxes laid     *)
(* out for a text of 12 lines.                                             *)
(***************************************************************************)
EXTENDS Integers, TLC, Json

VARIABLE s
Unit == 1000
Scn == [U : {100, 90, 37}, w : {0, 20, 45, 120}, n : {0, 1, 2, 3, 7}, gap : {0, 8, 50}, rtl : BOOLEAN]
Valid(x) == x.w # 0 \/ x.n # 0          \* (both auto: not a multi-column container)
Max(a, b) == IF a > b THEN a ELSE b
Min(a, b) == IF a < b THEN a ELSE b

\* section 3.4 (widths in 1/1000 px)
Resolve(x) ==
  LET U == x.U * Unit  g == x.gap * Unit  w == x.w * Unit IN
  IF x.w = 0 THEN LET N == x.n IN [N |-> N, W |-> Max(0, (U - (N - 1) * g)) \div N]
  ELSE LET fit == Max(1, (U + g) \div (w + g))
           N == IF x.n = 0 THEN fit ELSE Min(x.n, fit) IN
       [N |-> N, W |-> (U + g) \div N - g]

Init == s \in {x \in Scn : Valid(x)}
Next == UNCHANGED s

R == Resolve(s)
AtLeastOne == R.N >= 1
CountBound == s.n # 0 => R.N <= s.n
\* the columns and the gaps between them fill the container (integer division loses less than N units), unless the gaps alone
\* are wider than the container
Fills == (s.U * Unit >= (R.N - 1) * s.gap * Unit) =>
            LET used == R.N * R.W + (R.N - 1) * s.gap * Unit IN used <= s.U * Unit /\ used > s.U * Unit - R.N
WidthFloor == (s.w # 0 /\ s.U >= s.w) => R.W >= s.w * Unit
Narrow == (s.w # 0 /\ s.U < s.w) => R.N = 1 /\ R.W = s.U * Unit
CountAlone == (s.w = 0) => R.N = s.n
\* more columns would not fit: with one more column (and column-count permitting) the columns would be narrower than column-width
Greedy == (s.w # 0 /\ (s.n = 0 \/ R.N < s.n)) => (R.N + 1) * s.w * Unit + R.N * s.gap * Unit > s.U * Unit
Emit == PrintT(ToJson([scn |-> s, N |-> R.N, W |-> R.W, x |-> [i \in 1..R.N |-> (i - 1) * (R.W + s.gap * Unit)]]))
=============================================================================
