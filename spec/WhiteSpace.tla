----------------------------- MODULE WhiteSpace -----------------------------
(***************************************************************************)
(* Extra coverage (not one of the listed properties): the white-space      *)
(* processing rules (CSS Text 3, 4.1.1 - 4.1.3; CSS 2.1 16.6.1) for the    *)
(* five values of `white-space`, on one paragraph in a container wide      *)
(* enough for every line.                                                  *)
(*                                                                         *)
(* The text is a sequence over  "a" (a letter), " " (space), "t" (tab),    *)
(* "n" (line feed). The processing is a transition system over the input:  *)
(* Step consumes one character and either appends it to the current line, *)
(* collapses it into the previous space, or closes the line (a preserved   *)
(* segment break); Finish closes the last line and removes the spaces at   *)
(* the ends of the lines when they collapse. Invariants: no letter is lost *)
(* or reordered (Letters), collapsible lines never start or end with a     *)
(* space nor hold two consecutive spaces (Collapsed), preserved values     *)
(* keep every character (Preserved).                                       *)
(***************************************************************************)
EXTENDS Integers, Sequences, FiniteSets, TLC, Json

CONSTANTS MaxLen

VARIABLES ws, src, pos, cur, lines, phase
vars == <<ws, src, pos, cur, lines, phase>>

Values == {"normal", "nowrap", "pre", "pre-wrap", "pre-line"}
Chars == {"a", " ", "t", "n"}
Texts == UNION {[1..m -> Chars] : m \in 1..MaxLen}

CollapseSpaces(v) == v \in {"normal", "nowrap", "pre-line"}
KeepBreaks(v) == v \in {"pre", "pre-wrap", "pre-line"}
IsSpace(c) == c \in {" ", "t"}

Init == /\ ws \in Values /\ src \in Texts /\ pos = 1 /\ cur = <<>> /\ lines = <<>> /\ phase = "run"

Last(s) == s[Len(s)]
Step ==
  /\ phase = "run" /\ pos <= Len(src)
  /\ LET c == src[pos] IN
     IF c = "n" THEN
        IF KeepBreaks(ws) THEN /\ lines' = Append(lines, cur) /\ cur' = <<>>                      \* a forced line break
        ELSE /\ lines' = lines                                                                   \* a segment break becomes a space ...
             /\ cur' = IF cur # <<>> /\ Last(cur) = " " THEN cur ELSE Append(cur, " ")           \* ... which collapses with a space before it
     ELSE IF IsSpace(c) /\ CollapseSpaces(ws) THEN
        /\ lines' = lines
        /\ cur' = IF cur # <<>> /\ Last(cur) = " " THEN cur ELSE Append(cur, " ")                \* tabs become spaces, runs collapse
     ELSE /\ lines' = lines /\ cur' = Append(cur, c)
  /\ pos' = pos + 1 /\ UNCHANGED <<ws, src, phase>>

RECURSIVE TrimStart(_), TrimEnd(_)
TrimStart(s) == IF s # <<>> /\ s[1] = " " THEN TrimStart(Tail(s)) ELSE s
TrimEnd(s) == IF s # <<>> /\ Last(s) = " " THEN TrimEnd(SubSeq(s, 1, Len(s) - 1)) ELSE s
Finish == /\ phase = "run" /\ pos > Len(src)
          /\ LET all == Append(lines, cur)
                 trimmed == IF CollapseSpaces(ws) THEN [j \in 1..Len(all) |-> TrimEnd(TrimStart(all[j]))] ELSE all IN
             \* a last line with nothing on it (the text ends with a forced break) is no line box (CSS 2.1 9.4.2)
             lines' = IF Len(trimmed) > 1 /\ Last(trimmed) = <<>> THEN SubSeq(trimmed, 1, Len(trimmed) - 1) ELSE trimmed
          /\ cur' = <<>> /\ phase' = "done" /\ UNCHANGED <<ws, src, pos>>
Next == Step \/ Finish
Spec == Init /\ [][Next]_vars /\ WF_vars(Next)

----------------------------------------------------------------------------
RECURSIVE Concat(_)
Concat(ls) == IF ls = <<>> THEN <<>> ELSE Head(ls) \o Concat(Tail(ls))
OnlyLetters(s) == SelectSeq(s, LAMBDA c : c = "a")
Letters == phase = "done" => OnlyLetters(Concat(lines)) = OnlyLetters(src)
Collapsed == (phase = "done" /\ CollapseSpaces(ws)) =>
   \A j \in 1..Len(lines) : LET l == lines[j] IN
      /\ (l # <<>> => l[1] # " " /\ Last(l) # " ")
      /\ \A q \in 1..(Len(l) - 1) : ~(l[q] = " " /\ l[q + 1] = " ")
      /\ \A q \in 1..Len(l) : l[q] # "t"
Preserved == (phase = "done" /\ ~CollapseSpaces(ws)) => SelectSeq(src, LAMBDA c : c # "n") = Concat(lines)
BreaksKept == (phase = "done" /\ KeepBreaks(ws)) => LET nb == Cardinality({q \in 1..Len(src) : src[q] = "n"}) IN Len(lines) \in {nb, nb + 1} /\ (nb = 0 => Len(lines) = 1)
Terminates == <>(phase = "done")
Emit == phase = "done" => PrintT(ToJson([ws |-> ws, src |-> src, lines |-> lines]))
=============================================================================
