CONSTANTS
  Mode = "width"
  MaxBoxes = 2
INIT Init
NEXT Next
INVARIANTS WidthOK HeightsOK Emit
CHECK_DEADLOCK FALSE
