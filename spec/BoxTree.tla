------------------------------- MODULE BoxTree -------------------------------
(***************************************************************************)
(* CSS 2.1 sections 9.2 and 17.2.1, CSS Display 3, CSS Flexbox 4: the box  *)
(* tree generated for an element tree (C09).                               *)
(*                                                                         *)
(* Part 1 - the element trees: a document is a sequence of elements in     *)
(* document order, [parent, display, float, abs, text, cs, rs]; AddElement *)
(* builds                                                                  *)
(* it one element at a time (the parent is any earlier element on the      *)
(* rightmost branch, so the sequence IS the pre-order).                    *)
(*                                                                         *)
(* Part 2 - WellFormed / Failures: the clauses of C09 as a declarative     *)
(* predicate over a box tree given as a flat pre-order sequence of records *)
(*   [parent, type, anon, el, oof, wrapper, gx, cs, rs, txt]               *)
(* evaluated by BoxTreeTrace.tla on the box trees built by the real        *)
(* boxes.BuildFormattingStructure.                                         *)
(*                                                                         *)
(* Part 3 - a small reference box generator for block/inline content       *)
(* (Gen): the inline-in-block and block-in-inline fix-ups of CSS 2.1 9.2   *)
(* as recursive operators; the invariant GenWellFormed shows that its      *)
(* output satisfies the clauses, so they are not contradictory.            *)
(***************************************************************************)
EXTENDS Integers, Sequences, FiniteSets, TLC, Json

CONSTANTS MaxEls, Displays, Rich      \* Rich: floats, absolute positioning and text on every element

VARIABLES doc, phase
vars == <<doc, phase>>

Floats == IF Rich THEN {"none", "left"} ELSE {"none"}
\* cs, rs: colspan and rowspan attributes (only meaningful on table cells)
El(n) == [parent : 0..(n - 1), display : Displays, float : Floats, abs : (IF Rich THEN BOOLEAN ELSE {FALSE}), text : BOOLEAN,
          cs : (IF Rich THEN 1..2 ELSE {1}), rs : (IF Rich THEN 1..2 ELSE {1})]

\* the rightmost branch of the tree built so far: the last element and its ancestors (0 = the root container)
RECURSIVE Anc(_, _)
Anc(d, i) == IF i = 0 THEN {0} ELSE {i} \cup Anc(d, d[i].parent)
InitBuild == doc = <<>> /\ phase = "build"
AddElement == /\ phase = "build" /\ Len(doc) < MaxEls
              /\ \E e \in El(Len(doc) + 1) :
                    /\ e.parent \in (IF doc = <<>> THEN {0} ELSE Anc(doc, Len(doc)))
                    /\ ((e.cs # 1 \/ e.rs # 1) => e.display = "table-cell")
                    /\ doc' = Append(doc, e)
              /\ UNCHANGED phase
EndBuild == /\ phase = "build" /\ doc # <<>> /\ phase' = "done" /\ UNCHANGED doc
Next == AddElement \/ EndBuild
Spec == InitBuild /\ [][Next]_vars

\* elements inside a display:none subtree generate nothing
RECURSIVE Hidden(_, _)
Hidden(d, i) == IF i = 0 THEN FALSE ELSE d[i].display = "none" \/ Hidden(d, d[i].parent)
\* elements inside a table-column / table-column-group generate no box of their own (CSS 2.1 17.2)
RECURSIVE InColumn(_, _)
InColumn(d, i) == IF i = 0 THEN FALSE ELSE d[i].display \in {"table-column", "table-column-group"} \/ InColumn(d, d[i].parent)
PreOrder == \A i \in 1..Len(doc) : doc[i].parent < i
Emit == TRUE

---------------------------------------------------------------------------
\* Part 2
BlockLevelT == {"BlockBox", "TableBox", "FlexBox", "GridBox", "BlockReplacedBox"}
InlineLevelT == {"InlineBox", "TextBox", "InlineBlockBox", "InlineTableBox", "InlineFlexBox", "InlineGridBox", "InlineReplacedBox"}
BlockContainerT == {"BlockBox", "InlineBlockBox", "TableCellBox", "TableCaptionBox"}
TableT == {"TableBox", "InlineTableBox"}
TablePartT == {"TableRowGroupBox", "TableRowBox", "TableCellBox", "TableColumnGroupBox", "TableColumnBox", "TableCaptionBox"}
FlexGridT == {"FlexBox", "InlineFlexBox", "GridBox", "InlineGridBox"}

Kids(b, i) == {j \in 1..Len(b) : b[j].parent = i}
\* children that take part in the flow of their parent (floats, absolutely positioned and running boxes do not)
Flow(b, i) == {j \in Kids(b, i) : ~b[j].oof}
F(cond, name) == IF cond THEN {name} ELSE {}
RECURSIVE Under(_, _, _)
Under(b, t, j) == t # 0 /\ (b[t].parent = j \/ Under(b, b[t].parent, j))
CellSlotsB(b, j) == {<<y, x>> : y \in b[j].ry..(b[j].ry + b[j].rs - 1), x \in b[j].gx..(b[j].gx + b[j].cs - 1)}
Failures(d, b) ==
  LET I == 1..Len(b) IN
       F(\E i \in I : b[i].type \in BlockContainerT /\ ~b[i].wrapper /\
            ~((\A j \in Flow(b, i) : b[j].type \in BlockLevelT) \/ (Cardinality(Flow(b, i)) = 1 /\ \A j \in Flow(b, i) : b[j].type = "LineBox")),
         "block-container-mixes-block-level-and-inline-level-children")
  \cup F(\E i \in I : b[i].type = "LineBox" /\ \E j \in Flow(b, i) : b[j].type \notin InlineLevelT, "line-box-holds-a-non-inline-level-box")
  \cup F(\E i \in I : b[i].type = "InlineBox" /\ \E j \in Flow(b, i) : b[j].type \notin InlineLevelT, "inline-box-holds-a-non-inline-level-box")
  \cup F(\E i \in I : b[i].type = "LineBox" /\ (b[i].parent = 0 \/ b[b[i].parent].type \notin BlockContainerT), "line-box-outside-a-block-container")
  \cup F(\E i \in I : b[i].type = "TextBox" /\ Kids(b, i) # {}, "text-box-with-children")
  \cup F(\E i \in I : b[i].type \in TableT /\ (b[i].parent = 0 \/ ~b[b[i].parent].wrapper), "table-without-wrapper")
  \cup F(\E i \in I : b[i].wrapper /\ ~(Cardinality({j \in Kids(b, i) : b[j].type \in TableT}) = 1 /\ \A j \in Kids(b, i) : b[j].type \in TableT \cup {"TableCaptionBox"}),
         "table-wrapper-holds-something-else-than-captions-and-one-table")
  \cup F(\E i \in I : b[i].wrapper /\ b[i].type \notin {"BlockBox", "InlineBlockBox"}, "table-wrapper-of-wrong-type")
  \cup F(\E i \in I : b[i].type \in TableT /\ \E j \in Kids(b, i) : b[j].type \notin {"TableRowGroupBox"}, "table-holds-something-else-than-row-groups")
  \cup F(\E i \in I : b[i].type = "TableRowGroupBox" /\ \E j \in Kids(b, i) : b[j].type # "TableRowBox", "row-group-holds-something-else-than-rows")
  \cup F(\E i \in I : b[i].type = "TableRowBox" /\ \E j \in Kids(b, i) : b[j].type # "TableCellBox", "row-holds-something-else-than-cells")
  \cup F(\E i \in I : b[i].type = "TableRowGroupBox" /\ (b[i].parent = 0 \/ b[b[i].parent].type \notin TableT), "row-group-outside-a-table")
  \cup F(\E i \in I : b[i].type = "TableRowBox" /\ (b[i].parent = 0 \/ b[b[i].parent].type # "TableRowGroupBox"), "row-outside-a-row-group")
  \cup F(\E i \in I : b[i].type = "TableCellBox" /\ (b[i].parent = 0 \/ b[b[i].parent].type # "TableRowBox"), "cell-outside-a-row")
  \cup F(\E i \in I : b[i].type = "TableCaptionBox" /\ (b[i].parent = 0 \/ ~b[b[i].parent].wrapper), "caption-outside-a-table-wrapper")
  \cup F(\E i \in I : b[i].type \in {"TableColumnGroupBox", "TableColumnBox"}, "column-box-in-the-flow-of-the-box-tree")
  \cup F(\E i \in I : b[i].type \in FlexGridT /\ \E j \in Flow(b, i) : b[j].type \notin BlockLevelT, "flex-or-grid-item-not-blockified")
  \cup F(\E i \in I : b[i].type \in FlexGridT /\ \E j \in Flow(b, i) : b[j].anon /\ ~b[j].wrapper /\ ~(\E t \in I : Under(b, t, j) /\ (~b[t].anon \/ b[t].type \in TableT \/ (b[t].type = "TextBox" /\ b[t].txt # ""))),
          "anonymous-flex-or-grid-item-without-text")       \* (a white-space-only run in a flex container is not rendered: CSS Flexbox 4)
  \cup F(\E i \in I : b[i].el \in 1..Len(d) /\ Hidden(d, b[i].el), "box-generated-inside-display-none")
  \cup F(\E e \in 1..Len(d) : ~Hidden(d, e) /\ ~InColumn(d, e) /\ ~(\E i \in I : b[i].el = e /\ ~b[i].anon), "displayed-element-without-box")
  \cup F(\E i, j \in I : i < j /\ b[i].type = "TableCellBox" /\ b[j].type = "TableCellBox" /\ b[b[i].parent].parent = b[b[j].parent].parent
                          /\ CellSlotsB(b, i) \cap CellSlotsB(b, j) # {}, "two-cells-on-the-same-grid-slot")
  \cup F(\E i, j \in I : i < j /\ b[i].type = "TableCellBox" /\ b[j].type = "TableCellBox" /\ b[b[i].parent].parent = b[b[j].parent].parent
                          /\ <<b[j].ry, b[j].gx>> \in CellSlotsB(b, i), "cell-starts-on-an-occupied-slot")
  \cup F(\E i \in I : b[i].parent >= i, "not-a-tree")
WellFormed(d, b) == Failures(d, b) = {}

---------------------------------------------------------------------------
\* Part 3: reference generator for documents whose displays are block / inline / inline-block / none
\* (boxes are built bottom-up; a box is [type, anon, el, kids])
Box(t, a, e, ks) == [type |-> t, anon |-> a, el |-> e, kids |-> ks]
IsBlockLevel(x) == x.type \in BlockLevelT
RECURSIVE ChildrenOf(_, _, _)
ChildrenOf(d, i, from) == IF from > Len(d) THEN <<>> ELSE IF d[from].parent = i THEN <<from>> \o ChildrenOf(d, i, from + 1) ELSE ChildrenOf(d, i, from + 1)
\* The generator follows the passes of the implementation (build.go CreateAnonymousBox):
\*   Raw   one box per displayed element, text boxes, inline boxes still holding their block-level children
\*   IIB   inline-in-block: the inline-level children of a block container are put in a line box, runs of them in
\*         anonymous blocks when there are block-level siblings (an inline box counts as inline-level whatever it holds)
\*   BII   block-in-inline: block-level boxes are lifted out of the inline boxes of a line; the inline boxes are split
\*         around them (parts are kept even when empty) and the pieces of the line are wrapped in anonymous blocks
RECURSIVE Raw(_, _), RawKids(_, _), SplitInline(_, _, _), WrapRuns(_, _, _), IIB(_), IIBSeq(_), BII(_), Items(_), ItemsOfSeq(_), BIISeq(_)
RawKids(d, i) ==
  LET cs == ChildrenOf(d, i, 1)
      RECURSIVE Cat(_)
      Cat(s) == IF s = <<>> THEN <<>> ELSE Raw(d, Head(s)) \o Cat(Tail(s)) IN
  (IF i > 0 /\ d[i].text THEN <<Box("TextBox", TRUE, i, <<>>)>> ELSE <<>>) \o Cat(cs)
Raw(d, i) ==
  CASE d[i].display = "none" -> <<>>
    [] d[i].display = "block" -> <<Box("BlockBox", FALSE, i, RawKids(d, i))>>
    [] d[i].display = "inline-block" -> <<Box("InlineBlockBox", FALSE, i, RawKids(d, i))>>
    [] OTHER -> <<Box("InlineBox", FALSE, i, RawKids(d, i))>>
SplitInline(e, ks, acc) ==
  IF ks = <<>> THEN <<Box("InlineBox", FALSE, e, acc)>>
  ELSE IF IsBlockLevel(Head(ks)) THEN <<Box("InlineBox", FALSE, e, acc)>> \o <<Head(ks)>> \o SplitInline(e, Tail(ks), <<>>)
  ELSE SplitInline(e, Tail(ks), Append(acc, Head(ks)))
\* the children of a block container: runs of inline-level boxes are wrapped in anonymous blocks holding a line box
WrapRuns(e, ks, run) ==
  LET flush == IF run = <<>> THEN <<>> ELSE <<Box("BlockBox", TRUE, e, <<Box("LineBox", TRUE, e, run)>>)>> IN
  IF ks = <<>> THEN flush
  ELSE IF IsBlockLevel(Head(ks)) THEN flush \o <<Head(ks)>> \o WrapRuns(e, Tail(ks), <<>>)
  ELSE WrapRuns(e, Tail(ks), Append(run, Head(ks)))
IIBSeq(ks) == IF ks = <<>> THEN <<>> ELSE <<IIB(Head(ks))>> \o IIBSeq(Tail(ks))
IIB(x) ==
  LET ks == IIBSeq(x.kids) IN
  IF x.type \notin BlockContainerT \/ ks = <<>> THEN [x EXCEPT !.kids = ks]
  ELSE IF \A q \in 1..Len(ks) : ~IsBlockLevel(ks[q]) THEN [x EXCEPT !.kids = <<Box("LineBox", TRUE, x.el, ks)>>]
  ELSE [x EXCEPT !.kids = WrapRuns(x.el, ks, <<>>)]
\* what a child of a line becomes: an inline box holding block-level boxes becomes the sequence part, block, part, ...
Items(c) ==
  IF c.type = "InlineBox" THEN
     LET its == ItemsOfSeq(c.kids) IN
     IF \A q \in 1..Len(its) : ~IsBlockLevel(its[q]) THEN <<[c EXCEPT !.kids = its]>> ELSE SplitInline(c.el, its, <<>>)
  ELSE <<BII(c)>>
ItemsOfSeq(ks) == IF ks = <<>> THEN <<>> ELSE Items(Head(ks)) \o ItemsOfSeq(Tail(ks))
BIISeq(ks) == IF ks = <<>> THEN <<>> ELSE <<BII(Head(ks))>> \o BIISeq(Tail(ks))
BII(x) ==
  IF x.type \in BlockContainerT /\ Len(x.kids) = 1 /\ x.kids[1].type = "LineBox" THEN
     LET its == ItemsOfSeq(x.kids[1].kids) IN
     IF \A q \in 1..Len(its) : ~IsBlockLevel(its[q]) THEN [x EXCEPT !.kids = <<Box("LineBox", TRUE, x.el, its)>>]
     ELSE [x EXCEPT !.kids = WrapRuns(x.el, its, <<>>)]
  ELSE [x EXCEPT !.kids = BIISeq(x.kids)]
GenRoot(d) == BII(IIB(Box("BlockBox", FALSE, 0, RawKids(d, 0))))
\* the clauses, on nested boxes
RECURSIVE NestedOK(_)
NestedOK(x) ==
  /\ (x.type \in BlockContainerT => (\A q \in 1..Len(x.kids) : IsBlockLevel(x.kids[q])) \/ (Len(x.kids) = 1 /\ x.kids[1].type = "LineBox"))
  /\ (x.type \in {"LineBox", "InlineBox"} => \A q \in 1..Len(x.kids) : x.kids[q].type \in InlineLevelT)
  /\ \A q \in 1..Len(x.kids) : NestedOK(x.kids[q])
RECURSIVE Els(_)
Els(x) == (IF x.anon THEN {} ELSE {x.el}) \cup UNION {Els(x.kids[q]) : q \in 1..Len(x.kids)}
GenWellFormed == (phase = "done" /\ \A i \in 1..Len(doc) : doc[i].display \in {"block", "inline", "inline-block", "none"}) =>
   /\ NestedOK(GenRoot(doc))
   /\ Els(GenRoot(doc)) \ {0} = {e \in 1..Len(doc) : ~Hidden(doc, e)}
Simple == \A i \in 1..Len(doc) : doc[i].display \in {"block", "inline", "inline-block", "none"} /\ doc[i].float = "none" /\ ~doc[i].abs
\* scenarios: the document, and for the block/inline subset the reference box tree
EmitGen == phase = "done" => PrintT(ToJson([doc |-> doc, gen |-> IF Simple THEN <<GenRoot(doc)>> ELSE <<>>]))
=============================================================================
