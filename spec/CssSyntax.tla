------------------------------ MODULE CssSyntax ------------------------------
(***************************************************************************)
(* The CSS tokenizer of CSS Syntax Level 3 (section 4) as a transition     *)
(* system over code points, producing the flattened component-value tree   *)
(* (blocks are `open` ... `close` event pairs kept on `stack`).            *)
(*                                                                         *)
(* Three deliberate deviations of css/parser (a tinycss2 port) are named   *)
(* actions here so that they are neither hidden nor reported:              *)
(*   ConsumeUnicodeRange  legacy <unicode-range> token  (CSS Syntax 2014)  *)
(*   ConsumeMatchToken    ~= |= ^= $= *= and ||         (CSS Syntax 2014)  *)
(*   parse errors are materialised as `error` events (tinycss2 ParseError) *)
(*   and an unmatched closer is an `error` event instead of a delimiter.   *)
(*                                                                         *)
(* Events (records; `s` = 1-based index of the first code point in the     *)
(* preprocessed input):                                                    *)
(*   ws | comment v | ident v | at v | hash v id | string v err            *)
(*   | url v err | number/percentage repr int neg mant scale exp           *)
(*   | dimension ... unit | urange a b | lit v | open c [v = function name] *)
(*   | close | error e                                                     *)
(***************************************************************************)
EXTENDS Integers, Sequences, FiniteSets, TLC, Json

CONSTANTS
  Family,        \* which input family (alphabet + fixed prefixes), see below
  MaxLen,        \* maximal length of the free part
  SkipComments   \* BOOLEAN: drop comment events (Tokenize(css, true))

\* Input families: the inputs of a family are  prefix \o t  for every string t of
\* length <= MaxLen over the family's alphabet.
\* T12: 1  -  -->  <!--  #a  a  1%  +  .  --  1e  @a   (tokens that fuse with a following CDC / CDO / sign / number when the
\* comment between them is dropped)
Pieces == << <<49>>, <<45>>, <<45, 45, 62>>, <<60, 33, 45, 45>>, <<35, 97>>, <<97>>, <<49, 37>>, <<43>>, <<46>>, <<45, 45>>, <<49, 101>>, <<64, 97>> >>
Alphabet ==
  CASE Family = "T1" -> \* a e u - \ 0 1 . + % # @ " ' ( ) / * space newline { ;
         {97, 101, 117, 45, 92, 48, 49, 46, 43, 37, 35, 64, 34, 39, 40, 41, 47, 42, 32, 10, 123, 59}
    [] Family = "T2" -> \* nesting and unmatched closers: { } [ ] ( ) a space ; / * " \
         {123, 125, 91, 93, 40, 41, 97, 32, 59, 47, 42, 34, 92}
    [] Family = "T3" -> \* url( ... : a space newline ) ( " ' \ 0 DEL
         {97, 32, 10, 41, 40, 34, 39, 92, 48, 127}
    [] Family = "T4" -> \* CDO CDC match tokens unicode-range: < ! - > | = ~ ^ $ * ? u + 0 f U
         {60, 33, 45, 62, 124, 61, 126, 94, 36, 42, 63, 117, 43, 48, 102, 85}
    [] Family = "T5" -> \* preprocessing and non-ASCII: CR LF FF NUL e-acute U+1F600 a space " \ - 1
         {13, 10, 12, 0, 233, 128512, 97, 32, 34, 92, 45, 49}
    [] Family = "T6" -> \* numbers: 0 1 . + - e E % a space
         {48, 49, 46, 43, 45, 101, 69, 37, 97, 32}
    [] Family = "T7" -> \* long hex escapes after a backslash: 0 4 space b
         {48, 52, 32, 98}
    [] Family = "T8" -> \* control characters through escapes, in strings and names: \ d c space " a newline
         {92, 100, 99, 32, 34, 97, 10}
    [] Family = "T9" -> \* single characters separated by comments (run with SkipComments = TRUE: the token list has
                        \* adjacent tokens that a serializer must keep apart): a e E u U f 1 - + . % # @ ( ) / * | = ~ < ! > ? \
         {97, 101, 69, 117, 85, 102, 49, 45, 43, 46, 37, 35, 64, 40, 41, 47, 42, 124, 61, 126, 60, 33, 62, 63, 92}
    [] Family = "T10" -> \* units that look like exponents, after the digit 1: \ 6 5 4 space 3 e E -
         {92, 54, 53, 52, 32, 51, 101, 69, 45}
    [] Family = "T11" -> \* hex escapes at the limits of the code space (10FFFF / 110000) and of the surrogates (D7FF D800 DFFF E000): 1 0 F d 8 7 e
         {49, 48, 70, 100, 56, 55, 101}
    [] Family = "T13" -> \* strings that hold quotes of both kinds (after an opening quote of either kind): ' " \ a
         {39, 34, 92, 97}
    [] Family = "T12" -> \* whole tokens separated by comments (the alphabet is the set of indices of Pieces)
         1..Len(Pieces)
Prefixes ==
  CASE Family = "T3" -> {<<117, 114, 108, 40>>, <<85, 114, 76, 40>>, <<117, 114, 108, 40, 32>>}
    [] Family = "T7" -> {<<92>>, <<34, 92>>}
    [] Family = "T11" -> {<<92>>, <<34, 92>>}
    [] Family = "T13" -> {<<34>>, <<39>>}
    [] Family = "T8" -> {<<>>, <<34>>}
    [] Family = "T10" -> {<<49>>}
    [] OTHER -> {<<>>}
\* T9: every character is followed by an empty comment
RECURSIVE Inter(_)
Inter(t) == IF t = <<>> THEN <<>> ELSE <<Head(t), 47, 42, 42, 47>> \o Inter(Tail(t))
RECURSIVE InterP(_)
InterP(t) == IF t = <<>> THEN <<>> ELSE Pieces[Head(t)] \o <<47, 42, 42, 47>> \o InterP(Tail(t))
Shape(t) == IF Family = "T9" THEN Inter(t) ELSE IF Family = "T12" THEN InterP(t) ELSE t

VARIABLES raw, src, pos, out, stack, phase
vars == <<raw, src, pos, out, stack, phase>>

---------------------------------------------------------------------------
(* Code point classes *)
EOF == -1
At(s, p)       == IF p >= 1 /\ p <= Len(s) THEN s[p] ELSE EOF
IsWs(c)        == c \in {32, 10, 9}
IsDigit(c)     == c >= 48 /\ c <= 57
IsHex(c)       == IsDigit(c) \/ (c >= 65 /\ c <= 70) \/ (c >= 97 /\ c <= 102)
IsNameStart(c) == (c >= 65 /\ c <= 90) \/ (c >= 97 /\ c <= 122) \/ c = 95 \/ c > 127
IsName(c)      == IsNameStart(c) \/ IsDigit(c) \/ c = 45
NonPrintable(c) == (c >= 0 /\ c <= 8) \/ c = 11 \/ (c >= 14 /\ c <= 31) \/ c = 127
HexDigit(c)    == IF IsDigit(c) THEN c - 48 ELSE IF c >= 97 THEN c - 87 ELSE c - 55
Lower(c)       == IF c >= 65 /\ c <= 90 THEN c + 32 ELSE c

\* section 3.3 preprocessing
RECURSIVE Pre(_)
Pre(s) == IF s = <<>> THEN <<>>
          ELSE IF s[1] = 13 /\ At(s, 2) = 10 THEN <<10>> \o Pre(SubSeq(s, 3, Len(s)))
          ELSE IF s[1] \in {13, 12} THEN <<10>> \o Pre(Tail(s))
          ELSE IF s[1] = 0 THEN <<65533>> \o Pre(Tail(s))
          ELSE <<s[1]>> \o Pre(Tail(s))

RECURSIVE DigitRun(_, _)
DigitRun(s, p) == IF IsDigit(At(s, p)) THEN 1 + DigitRun(s, p + 1) ELSE 0
RECURSIVE WsRun(_, _)
WsRun(s, p)    == IF IsWs(At(s, p)) THEN 1 + WsRun(s, p + 1) ELSE 0
RECURSIVE HexRun(_, _, _)
HexRun(s, p, max) == IF max > 0 /\ IsHex(At(s, p)) THEN 1 + HexRun(s, p + 1, max - 1) ELSE 0
RECURSIVE QRun(_, _, _)
QRun(s, p, max) == IF max > 0 /\ At(s, p) = 63 THEN 1 + QRun(s, p + 1, max - 1) ELSE 0
RECURSIVE HexVal(_)
HexVal(d) == IF d = <<>> THEN 0 ELSE 16 * HexVal(SubSeq(d, 1, Len(d) - 1)) + HexDigit(d[Len(d)])
RECURSIVE DecVal(_)
DecVal(d) == IF d = <<>> THEN 0 ELSE 10 * DecVal(SubSeq(d, 1, Len(d) - 1)) + (d[Len(d)] - 48)

\* 4.3.8 two code points are a valid escape
ValidEscape(s, p) == At(s, p) = 92 /\ At(s, p + 1) # 10
\* 4.3.9 three code points would start an identifier
WouldStartIdent(s, p) ==
  LET c == At(s, p) IN
  IF c = 45 THEN IsNameStart(At(s, p + 1)) \/ At(s, p + 1) = 45 \/ ValidEscape(s, p + 1)
  ELSE IF IsNameStart(c) THEN TRUE
  ELSE IF c = 92 THEN ValidEscape(s, p)
  ELSE FALSE
\* 4.3.10 three code points would start a number
StartsNumber(s, p) ==
  LET c == At(s, p) IN
  IF c \in {43, 45} THEN IsDigit(At(s, p + 1)) \/ (At(s, p + 1) = 46 /\ IsDigit(At(s, p + 2)))
  ELSE IF c = 46 THEN IsDigit(At(s, p + 1))
  ELSE IsDigit(c)

\* 4.3.7 consume an escaped code point; p is just after the backslash
ConsumeEscape(s, p) ==
  IF IsHex(At(s, p)) THEN
    LET n == HexRun(s, p, 6)
        v == HexVal(SubSeq(s, p, p + n - 1))
        q == p + n IN
    [cp  |-> IF v = 0 \/ v > 1114111 \/ (v >= 55296 /\ v <= 57343) THEN 65533 ELSE v,
     pos |-> IF IsWs(At(s, q)) THEN q + 1 ELSE q]
  ELSE IF At(s, p) = EOF THEN [cp |-> 65533, pos |-> p]
  ELSE [cp |-> s[p], pos |-> p + 1]

\* 4.3.11 consume a name
RECURSIVE ConsumeName(_, _, _)
ConsumeName(s, p, acc) ==
  IF IsName(At(s, p)) THEN ConsumeName(s, p + 1, Append(acc, s[p]))
  ELSE IF ValidEscape(s, p) THEN LET e == ConsumeEscape(s, p + 1) IN ConsumeName(s, e.pos, Append(acc, e.cp))
  ELSE [v |-> acc, pos |-> p]

\* 4.3.12 consume a number
ConsumeNumber(s, p) ==
  LET sgn   == IF At(s, p) \in {43, 45} THEN 1 ELSE 0
      p1    == p + sgn
      ni    == DigitRun(s, p1)
      p2    == p1 + ni
      frac  == At(s, p2) = 46 /\ IsDigit(At(s, p2 + 1))
      nf    == IF frac THEN DigitRun(s, p2 + 1) ELSE 0
      p3    == IF frac THEN p2 + 1 + nf ELSE p2
      es    == IF At(s, p3 + 1) \in {43, 45} THEN 1 ELSE 0
      hasE  == At(s, p3) \in {69, 101} /\ IsDigit(At(s, p3 + 1 + es))
      ne    == IF hasE THEN DigitRun(s, p3 + 1 + es) ELSE 0
      p4    == IF hasE THEN p3 + 1 + es + ne ELSE p3
      ev    == IF hasE THEN DecVal(SubSeq(s, p3 + 1 + es, p4 - 1)) ELSE 0
  IN [repr |-> SubSeq(s, p, p4 - 1), int |-> ~frac /\ ~hasE, neg |-> At(s, p) = 45,
      mant |-> DecVal(SubSeq(s, p1, p2 - 1) \o (IF frac THEN SubSeq(s, p2 + 1, p3 - 1) ELSE <<>>)),
      scale |-> nf, exp |-> IF hasE /\ At(s, p3 + 1) = 45 THEN 0 - ev ELSE ev, pos |-> p4]

\* 4.3.3 consume a numeric token
ConsumeNumeric(s, p) ==
  LET n == ConsumeNumber(s, p)
      base == [s |-> p, repr |-> n.repr, int |-> n.int, neg |-> n.neg, mant |-> n.mant, scale |-> n.scale, exp |-> n.exp] IN
  IF WouldStartIdent(s, n.pos) THEN
     LET u == ConsumeName(s, n.pos, <<>>) IN [ev |-> base @@ [k |-> "dimension", unit |-> u.v], pos |-> u.pos]
  ELSE IF At(s, n.pos) = 37 THEN [ev |-> base @@ [k |-> "percentage"], pos |-> n.pos + 1]
  ELSE [ev |-> base @@ [k |-> "number"], pos |-> n.pos]

\* 4.3.5 consume a string token; p is just after the opening quote.
\* result: kind "ok" | "eof" (string + parse error) | "bad" (bad-string, newline not consumed)
RECURSIVE ConsumeString(_, _, _, _)
ConsumeString(s, p, q, acc) ==
  LET c == At(s, p) IN
  IF c = q THEN [kind |-> "ok", v |-> acc, pos |-> p + 1]
  ELSE IF c = EOF THEN [kind |-> "eof", v |-> acc, pos |-> p]
  ELSE IF c = 10 THEN [kind |-> "bad", v |-> acc, pos |-> p]
  ELSE IF c = 92 THEN
    IF At(s, p + 1) = EOF THEN ConsumeString(s, p + 1, q, acc)
    ELSE IF At(s, p + 1) = 10 THEN ConsumeString(s, p + 2, q, acc)
    ELSE LET e == ConsumeEscape(s, p + 1) IN ConsumeString(s, e.pos, q, Append(acc, e.cp))
  ELSE ConsumeString(s, p + 1, q, Append(acc, c))

\* 4.3.14 consume the remnants of a bad url
RECURSIVE BadUrlRemnants(_, _)
BadUrlRemnants(s, p) ==
  IF At(s, p) = EOF THEN p
  ELSE IF At(s, p) = 41 THEN p + 1
  ELSE IF ValidEscape(s, p) THEN BadUrlRemnants(s, ConsumeEscape(s, p + 1).pos)
  ELSE BadUrlRemnants(s, p + 1)

\* 4.3.6 consume a url token; p is just after "url(" (leading white space not yet skipped)
RECURSIVE UrlBody(_, _, _)
UrlBody(s, p, acc) ==
  LET c == At(s, p) IN
  IF c = 41 THEN [kind |-> "ok", v |-> acc, pos |-> p + 1]
  ELSE IF c = EOF THEN [kind |-> "eof", v |-> acc, pos |-> p]
  ELSE IF IsWs(c) THEN
    LET q == p + WsRun(s, p) IN
    IF At(s, q) = 41 THEN [kind |-> "ok", v |-> acc, pos |-> q + 1]
    ELSE IF At(s, q) = EOF THEN [kind |-> "eof", v |-> acc, pos |-> q]
    ELSE [kind |-> "bad", v |-> acc, pos |-> BadUrlRemnants(s, q)]
  ELSE IF c \in {34, 39, 40} \/ NonPrintable(c) THEN [kind |-> "bad", v |-> acc, pos |-> BadUrlRemnants(s, p + 1)]
  ELSE IF c = 92 THEN
    IF ValidEscape(s, p) THEN LET e == ConsumeEscape(s, p + 1) IN UrlBody(s, e.pos, Append(acc, e.cp))
    ELSE [kind |-> "bad", v |-> acc, pos |-> BadUrlRemnants(s, p + 1)]
  ELSE UrlBody(s, p + 1, Append(acc, c))
ConsumeUrl(s, p) == UrlBody(s, p + WsRun(s, p), <<>>)

\* comment: p is at "/*"
RECURSIVE CommentEnd(_, _)
CommentEnd(s, p) == IF At(s, p) = EOF THEN [closed |-> FALSE, pos |-> p]
                    ELSE IF At(s, p) = 42 /\ At(s, p + 1) = 47 THEN [closed |-> TRUE, pos |-> p]
                    ELSE CommentEnd(s, p + 1)

\* legacy <unicode-range> (CSS Syntax CR 2014 4.3.7); p is just after "U+"
ConsumeURange(s, p) ==
  LET nh == HexRun(s, p, 6)
      nq == QRun(s, p + nh, 6 - nh)
      h  == SubSeq(s, p, p + nh - 1)
      q  == p + nh + nq IN
  IF nq > 0 THEN [a |-> HexVal(h \o [j \in 1..nq |-> 48]), b |-> HexVal(h \o [j \in 1..nq |-> 70]), pos |-> q]
  ELSE IF At(s, q) = 45 /\ IsHex(At(s, q + 1)) THEN
       LET ne == HexRun(s, q + 1, 6) IN [a |-> HexVal(h), b |-> HexVal(SubSeq(s, q + 1, q + ne)), pos |-> q + 1 + ne]
  ELSE [a |-> HexVal(h), b |-> HexVal(h), pos |-> q]

Closer(c) == CASE c = 123 -> 125 [] c = 91 -> 93 [] OTHER -> 41   \* { [ ( and functions
IsUrlName(v) == Len(v) = 3 /\ Lower(v[1]) = 117 /\ Lower(v[2]) = 114 /\ Lower(v[3]) = 108

\* Which "consume ..." algorithm section 4.3.1 selects at position p
Dispatch(s, p, stk) ==
  LET c == At(s, p) IN
  CASE c = EOF -> "EOF"
    [] IsWs(c) -> "Whitespace"
    [] c \in {85, 117} /\ At(s, p + 1) = 43 /\ (IsHex(At(s, p + 2)) \/ At(s, p + 2) = 63) -> "UnicodeRange"
    [] c = 45 /\ At(s, p + 1) = 45 /\ At(s, p + 2) = 62 -> "CDC"
    [] WouldStartIdent(s, p) -> "IdentLike"
    [] StartsNumber(s, p) -> "Numeric"
    [] c = 64 -> "AtKeyword"
    [] c = 35 -> "Hash"
    [] c \in {123, 91, 40} -> "OpenBlock"
    [] c \in {125, 93, 41} -> IF stk # <<>> /\ Closer(stk[Len(stk)]) = c THEN "CloseBlock" ELSE "UnmatchedClose"
    [] c \in {34, 39} -> "String"
    [] c = 47 /\ At(s, p + 1) = 42 -> "Comment"
    [] c = 60 /\ At(s, p + 1) = 33 /\ At(s, p + 2) = 45 /\ At(s, p + 3) = 45 -> "CDO"
    [] (c = 124 /\ At(s, p + 1) = 124) \/ (c \in {126, 124, 94, 36, 42} /\ At(s, p + 1) = 61) -> "MatchToken"
    [] OTHER -> "Delim"

\* One tokenizer step: events produced, new position, new stack
Step(s, p, stk) ==
  LET d == Dispatch(s, p, stk)  c == At(s, p) IN
  CASE d = "Whitespace" -> [evs |-> <<[k |-> "ws", s |-> p]>>, pos |-> p + WsRun(s, p), stk |-> stk]
    [] d = "UnicodeRange" -> LET u == ConsumeURange(s, p + 2) IN
         [evs |-> <<[k |-> "urange", s |-> p, a |-> u.a, b |-> u.b]>>, pos |-> u.pos, stk |-> stk]
    [] d = "CDC" -> [evs |-> <<[k |-> "lit", s |-> p, v |-> <<45, 45, 62>>]>>, pos |-> p + 3, stk |-> stk]
    [] d = "CDO" -> [evs |-> <<[k |-> "lit", s |-> p, v |-> <<60, 33, 45, 45>>]>>, pos |-> p + 4, stk |-> stk]
    [] d = "IdentLike" ->
         LET n == ConsumeName(s, p, <<>>) IN
         IF At(s, n.pos) # 40 THEN [evs |-> <<[k |-> "ident", s |-> p, v |-> n.v]>>, pos |-> n.pos, stk |-> stk]
         ELSE LET q == n.pos + 1 + WsRun(s, n.pos + 1) IN
           IF IsUrlName(n.v) /\ At(s, q) \notin {34, 39} THEN
             LET u == ConsumeUrl(s, n.pos + 1) IN
             [evs |-> CASE u.kind = "ok"  -> <<[k |-> "url", s |-> p, v |-> u.v, err |-> FALSE]>>
                        [] u.kind = "eof" -> <<[k |-> "url", s |-> p, v |-> u.v, err |-> TRUE], [k |-> "error", s |-> p, e |-> "eof-in-url"]>>
                        [] OTHER          -> <<[k |-> "error", s |-> p, e |-> "bad-url"]>>,
              pos |-> u.pos, stk |-> stk]
           ELSE [evs |-> <<[k |-> "open", s |-> p, c |-> 40, fn |-> TRUE, v |-> n.v]>>, pos |-> n.pos + 1, stk |-> Append(stk, 40)]
    [] d = "Numeric" -> LET n == ConsumeNumeric(s, p) IN [evs |-> <<n.ev>>, pos |-> n.pos, stk |-> stk]
    [] d = "AtKeyword" ->
         IF WouldStartIdent(s, p + 1) THEN LET n == ConsumeName(s, p + 1, <<>>) IN
              [evs |-> <<[k |-> "at", s |-> p, v |-> n.v]>>, pos |-> n.pos, stk |-> stk]
         ELSE [evs |-> <<[k |-> "lit", s |-> p, v |-> <<64>>]>>, pos |-> p + 1, stk |-> stk]
    [] d = "Hash" ->
         IF IsName(At(s, p + 1)) \/ ValidEscape(s, p + 1) THEN LET n == ConsumeName(s, p + 1, <<>>) IN
              [evs |-> <<[k |-> "hash", s |-> p, v |-> n.v, id |-> WouldStartIdent(s, p + 1)]>>, pos |-> n.pos, stk |-> stk]
         ELSE [evs |-> <<[k |-> "lit", s |-> p, v |-> <<35>>]>>, pos |-> p + 1, stk |-> stk]
    [] d = "OpenBlock" -> [evs |-> <<[k |-> "open", s |-> p, c |-> c, fn |-> FALSE, v |-> <<>>]>>, pos |-> p + 1, stk |-> Append(stk, c)]
    [] d = "CloseBlock" -> [evs |-> <<[k |-> "close", s |-> p]>>, pos |-> p + 1, stk |-> SubSeq(stk, 1, Len(stk) - 1)]
    [] d = "UnmatchedClose" -> [evs |-> <<[k |-> "error", s |-> p, e |-> <<c>>]>>, pos |-> p + 1, stk |-> stk]
    [] d = "String" ->
         LET r == ConsumeString(s, p + 1, c, <<>>) IN
         [evs |-> CASE r.kind = "ok"  -> <<[k |-> "string", s |-> p, v |-> r.v, err |-> FALSE]>>
                    [] r.kind = "eof" -> <<[k |-> "string", s |-> p, v |-> r.v, err |-> TRUE], [k |-> "error", s |-> p, e |-> "eof-in-string"]>>
                    [] OTHER          -> <<[k |-> "error", s |-> p, e |-> "bad-string"]>>,
          pos |-> r.pos, stk |-> stk]
    [] d = "Comment" ->
         LET r == CommentEnd(s, p + 2) IN
         [evs |-> IF SkipComments THEN <<>> ELSE <<[k |-> "comment", s |-> p, v |-> SubSeq(s, p + 2, r.pos - 1)]>>,
          pos |-> IF r.closed THEN r.pos + 2 ELSE r.pos, stk |-> stk]
    [] d = "MatchToken" -> [evs |-> <<[k |-> "lit", s |-> p, v |-> <<c, At(s, p + 1)>>]>>, pos |-> p + 2, stk |-> stk]
    [] d = "Delim" -> [evs |-> <<[k |-> "lit", s |-> p, v |-> <<c>>]>>, pos |-> p + 1, stk |-> stk]

\* The whole tokenizer as an operator (used by the round-trip checks)
RECURSIVE TokAll(_, _, _, _)
TokAll(s, p, stk, acc) ==
  IF p > Len(s) THEN acc \o [j \in 1..Len(stk) |-> [k |-> "close", s |-> p]]
  ELSE LET r == Step(s, p, stk) IN TokAll(s, r.pos, r.stk, acc \o r.evs)
Tokens(text) == TokAll(Pre(text), 1, <<>>, <<>>)

---------------------------------------------------------------------------
(* State machine *)

Strings(n) == UNION {[1..m -> Alphabet] : m \in 0..n}

Init == /\ raw \in {pre \o Shape(t) : pre \in Prefixes, t \in Strings(MaxLen)}
        /\ src = <<>> /\ pos = 1 /\ out = <<>> /\ stack = <<>> /\ phase = "raw"

Preprocess == /\ phase = "raw"
              /\ src' = Pre(raw) /\ phase' = "tok"
              /\ UNCHANGED <<raw, pos, out, stack>>

Do(name) == /\ phase = "tok" /\ Dispatch(src, pos, stack) = name
            /\ LET r == Step(src, pos, stack) IN
               /\ out' = out \o r.evs /\ pos' = r.pos /\ stack' = r.stk
            /\ UNCHANGED <<raw, src, phase>>

ConsumeWhitespace   == Do("Whitespace")
ConsumeUnicodeRange == Do("UnicodeRange")
ConsumeCDC          == Do("CDC")
ConsumeCDO          == Do("CDO")
ConsumeIdentLike    == Do("IdentLike")
ConsumeNumericToken == Do("Numeric")
ConsumeAtKeyword    == Do("AtKeyword")
ConsumeHash         == Do("Hash")
OpenBlock           == Do("OpenBlock")
CloseBlock          == Do("CloseBlock")
UnmatchedClose      == Do("UnmatchedClose")
ConsumeStringToken  == Do("String")
ConsumeComment      == Do("Comment")
ConsumeMatchToken   == Do("MatchToken")
ConsumeDelim        == Do("Delim")
\* end of input: every open block is closed implicitly
AtEOF == /\ phase = "tok" /\ pos > Len(src)
         /\ out' = out \o [j \in 1..Len(stack) |-> [k |-> "close", s |-> pos]]
         /\ stack' = <<>> /\ phase' = "done"
         /\ UNCHANGED <<raw, src, pos>>

Next == \/ Preprocess \/ ConsumeWhitespace \/ ConsumeUnicodeRange \/ ConsumeCDC \/ ConsumeCDO
        \/ ConsumeIdentLike \/ ConsumeNumericToken \/ ConsumeAtKeyword \/ ConsumeHash
        \/ OpenBlock \/ CloseBlock \/ UnmatchedClose \/ ConsumeStringToken \/ ConsumeComment
        \/ ConsumeMatchToken \/ ConsumeDelim \/ AtEOF
Spec == Init /\ [][Next]_vars /\ WF_vars(Next)

---------------------------------------------------------------------------
(* Properties *)

\* every step consumes input: the tokenizer terminates
Progress == [][phase = "tok" /\ phase' = "tok" => pos' > pos]_vars
Terminates == <>(phase = "done")

Positioned(e) == e.k # "close"
\* token spans tile the input: starts are strictly increasing and the first token starts at 1
Tiling == LET ps == SelectSeq(out, Positioned) IN
          /\ \A j \in 1..Len(ps) - 1 : ps[j].s < ps[j + 1].s \/ (ps[j].s = ps[j + 1].s /\ ps[j + 1].k = "error")
          /\ (ps # <<>> /\ (~SkipComments)) => ps[1].s = 1
          /\ \A j \in 1..Len(ps) : ps[j].s < pos
\* stack depth = opens - closes
Depth(evs) == Len(SelectSeq(evs, LAMBDA e : e.k = "open")) - Len(SelectSeq(evs, LAMBDA e : e.k = "close"))
Balanced == Len(stack) = Depth(out) /\ (phase = "done" => Depth(out) = 0)
\* the action machine and the operator agree
SameAsOperator == phase = "done" => out = Tokens(raw)

Emit == phase = "done" => PrintT(ToJson([raw |-> raw, skip |-> SkipComments, out |-> out]))
=============================================================================
