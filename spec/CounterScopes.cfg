CONSTANTS
  N = 4
  SetBeforeIncr = FALSE
INIT Init
NEXT Next
INVARIANTS Agree StackShape Balanced Emit
CHECK_DEADLOCK FALSE
