------------------------------ MODULE Selectors ------------------------------
(***************************************************************************)
(* Selectors Level 3/4 matching and specificity over small DOM trees.      *)
(*                                                                         *)
(* DOM: nodes 1..N, node 1 is the root element <html>; par[i] < i is the   *)
(* parent; siblings are ordered by index. A node is an element (tag,       *)
(* class c?, id i?, optional attribute t), a text node (blank or not) or a *)
(* comment.                                                                *)
(*                                                                         *)
(* Selector AST:                                                           *)
(*  compound  [tag, cls, id, pcs]   tag in {"*","p","q","html"}            *)
(*            pcs = sequence of pseudo-classes / attribute tests           *)
(*  complex   [cs |-> <<compound...>>, comb |-> <<" "|">"|"+"|"~" ...>>]   *)
(*  pseudo    [n |-> "nth", a, b, last, oftype]  [n |-> "empty"|"root"     *)
(*            |"first-child"|...]  [n |-> "not"|"is"|"has", args]          *)
(*            [n |-> "attr", op, val, ci]                                  *)
(*                                                                         *)
(* Two definitions of matching are given and TLC checks that they agree:   *)
(*  - Matches : the declarative, recursive definition of the Selectors     *)
(*    specification;                                                       *)
(*  - the right-to-left candidate-set evaluation used by implementations   *)
(*    (actions StartEval / StepCombinator over the variable `cands`).      *)
(***************************************************************************)
EXTENDS Integers, Sequences, FiniteSets, TLC, Json

CONSTANTS Family,   \* "nth" | "attr" | "comb" | "logic" | "list"
          Size,     \* size parameter of the family (number of sibling / tree nodes)
          Depth     \* maximal number of compounds of a complex selector

VARIABLES tree, sel, pe, node, k, cands, phase
vars == <<tree, sel, pe, node, k, cands, phase>>

---------------------------------------------------------------------------
(* DOM helpers; t = [n |-> number of nodes, par, kind, tag, cls, id, attr, blank] *)
Nodes(t)       == 1..t.n
IsElem(t, x)   == t.kind[x] = "elem"
Children(t, x) == {y \in Nodes(t) : y > 1 /\ t.par[y] = x}
ElemSibs(t, x) == {y \in Nodes(t) : y > 1 /\ x > 1 /\ t.par[y] = t.par[x] /\ IsElem(t, y)}
RECURSIVE Ancestors(_, _)
Ancestors(t, x) == IF x = 1 THEN {} ELSE {t.par[x]} \cup Ancestors(t, t.par[x])
Descendants(t, x) == {y \in Nodes(t) : x \in Ancestors(t, y)}

\* 1-based position among element siblings (optionally of the same type), from the start or the end
Index(t, x, last, oftype) ==
  LET same == {y \in ElemSibs(t, x) : ~oftype \/ t.tag[y] = t.tag[x]} IN
  IF last THEN Cardinality({y \in same : y >= x}) ELSE Cardinality({y \in same : y <= x})
\* an+b matches index i  iff  there is n >= 0 with a*n + b = i
AnB(a, b, i) == \E m \in 0..8 : a * m + b = i

---------------------------------------------------------------------------
(* attribute operators on sequences of characters (code points) *)
Fold(s, ci) == IF ci THEN [j \in 1..Len(s) |-> IF s[j] >= 65 /\ s[j] <= 90 THEN s[j] + 32 ELSE s[j]] ELSE s
IsPre(n, v) == Len(n) <= Len(v) /\ SubSeq(v, 1, Len(n)) = n
IsSuf(n, v) == Len(n) <= Len(v) /\ SubSeq(v, Len(v) - Len(n) + 1, Len(v)) = n
IsSub(n, v) == \E j \in 0..(Len(v) - Len(n)) : SubSeq(v, j + 1, j + Len(n)) = n
IsSpace(c)  == c \in {32, 9, 10, 12, 13}
\* white-space separated words of v
WordAt(v, a, b) == a <= b /\ (\A j \in a..b : ~IsSpace(v[j]))
                   /\ (a = 1 \/ IsSpace(v[a - 1])) /\ (b = Len(v) \/ IsSpace(v[b + 1]))
HasWord(v, n) == \E a \in 1..Len(v) : \E b \in a..Len(v) : WordAt(v, a, b) /\ SubSeq(v, a, b) = n
AllSpace(v) == \A j \in 1..Len(v) : IsSpace(v[j])
AttrMatch(op, v0, n0, ci) ==
  LET v == Fold(v0, ci)  n == Fold(n0, ci) IN
  CASE op = "exists" -> TRUE
    [] op = "="  -> v = n
    [] op = "~=" -> n # <<>> /\ (\A j \in 1..Len(n) : ~IsSpace(n[j])) /\ HasWord(v, n)
    \* the class selector .n on the attribute `class`: n is one of its words
    [] op = "class" -> HasWord(v, n)
    [] op = "|=" -> v = n \/ IsPre(n \o <<45>>, v)
    \* (a value made of white space only is matched by none of the three substring operators: the repository's own tests,
    \* taken from the CSS3 selectors test suite, pin this reading)
    [] op = "^=" -> n # <<>> /\ IsPre(n, v) /\ ~AllSpace(v)
    [] op = "$=" -> n # <<>> /\ IsSuf(n, v) /\ ~AllSpace(v)
    [] op = "*=" -> n # <<>> /\ IsSub(n, v) /\ ~AllSpace(v)

---------------------------------------------------------------------------
(* Matching: the declarative definition *)
RECURSIVE MatchPseudo(_, _, _), MatchCompound(_, _, _), MatchFrom(_, _, _, _), MatchComplex(_, _, _)

MatchPseudo(t, p, x) ==
  CASE p.n = "nth"   -> x > 1 /\ AnB(p.a, p.b, Index(t, x, p.last, p.oftype))
    [] p.n = "first-child"   -> x > 1 /\ Index(t, x, FALSE, FALSE) = 1
    [] p.n = "last-child"    -> x > 1 /\ Index(t, x, TRUE, FALSE) = 1
    [] p.n = "first-of-type" -> x > 1 /\ Index(t, x, FALSE, TRUE) = 1
    [] p.n = "last-of-type"  -> x > 1 /\ Index(t, x, TRUE, TRUE) = 1
    [] p.n = "only-child"    -> x > 1 /\ Index(t, x, FALSE, FALSE) = 1 /\ Index(t, x, TRUE, FALSE) = 1
    [] p.n = "only-of-type"  -> x > 1 /\ Index(t, x, FALSE, TRUE) = 1 /\ Index(t, x, TRUE, TRUE) = 1
    [] p.n = "root"  -> x = 1
    \* Selectors 4: elements and non-blank text count, comments and white space do not
    [] p.n = "empty" -> \A y \in Children(t, x) : t.kind[y] = "comment" \/ (t.kind[y] = "text" /\ t.blank[y])
    [] p.n = "not"   -> ~(\E j \in 1..Len(p.args) : MatchComplex(t, p.args[j], x))
    [] p.n = "is"    -> \E j \in 1..Len(p.args) : MatchComplex(t, p.args[j], x)
    [] p.n = "has"   -> \E y \in Descendants(t, x) : \E j \in 1..Len(p.args) : MatchComplex(t, p.args[j], y)
    [] p.n = "attr"  -> t.hasattr[x] /\ AttrMatch(p.op, t.attr[x], p.val, p.ci)

MatchCompound(t, c, x) ==
  /\ IsElem(t, x)
  /\ c.tag = "*" \/ c.tag = t.tag[x]
  /\ c.cls => t.cls[x]
  /\ c.id  => t.id[x]
  /\ \A j \in 1..Len(c.pcs) : MatchPseudo(t, c.pcs[j], x)

\* x matches the prefix cs[1..m] of the complex selector s, x being matched against compound m
MatchFrom(t, s, m, x) ==
  /\ MatchCompound(t, s.cs[m], x)
  /\ \/ m = 1
     \/ LET cb == s.comb[m - 1] IN
        CASE cb = " " -> \E y \in Ancestors(t, x) : MatchFrom(t, s, m - 1, y)
          [] cb = ">" -> x > 1 /\ MatchFrom(t, s, m - 1, t.par[x])
          [] cb = "+" -> \E y \in ElemSibs(t, x) : y < x /\ (\A z \in ElemSibs(t, x) : ~(y < z /\ z < x)) /\ MatchFrom(t, s, m - 1, y)
          [] cb = "~" -> \E y \in ElemSibs(t, x) : y < x /\ MatchFrom(t, s, m - 1, y)
MatchComplex(t, s, x) == MatchFrom(t, s, Len(s.cs), x)
\* a selector list matches if any of its members does
Matches(t, list, x) == \E j \in 1..Len(list) : MatchComplex(t, list[j], x)

---------------------------------------------------------------------------
(* Specificity (Selectors 4 section 17) as <<ids, classes, types>> *)
Add3(u, v) == <<u[1] + v[1], u[2] + v[2], u[3] + v[3]>>
Less3(u, v) == u[1] < v[1] \/ (u[1] = v[1] /\ (u[2] < v[2] \/ (u[2] = v[2] /\ u[3] < v[3])))
RECURSIVE Max3(_)
Max3(S) == LET u == CHOOSE u \in S : TRUE IN
           IF Cardinality(S) = 1 THEN u ELSE LET w == Max3(S \ {u}) IN IF Less3(u, w) THEN w ELSE u
RECURSIVE SpecPseudo(_), SpecCompound(_), SpecComplex(_), SumSeq(_)
SumSeq(q) == IF q = <<>> THEN <<0, 0, 0>> ELSE Add3(Head(q), SumSeq(Tail(q)))
SpecPseudo(p) == IF p.n \in {"not", "is", "has"} THEN Max3({SpecComplex(p.args[j]) : j \in 1..Len(p.args)})
                 ELSE <<0, 1, 0>>
SpecCompound(c) == Add3(<<IF c.id THEN 1 ELSE 0, IF c.cls THEN 1 ELSE 0, IF c.tag = "*" THEN 0 ELSE 1>>,
                        Add3(SumSeq([j \in 1..Len(c.pcs) |-> SpecPseudo(c.pcs[j])]),
                             <<0, 0, IF "pe" \in DOMAIN c /\ c.pe # "" THEN 1 ELSE 0>>))
SpecComplex(s) == SumSeq([j \in 1..Len(s.cs) |-> SpecCompound(s.cs[j])])

---------------------------------------------------------------------------
(* Scenario spaces *)
Cmp(tag, cls, id, pcs) == [tag |-> tag, cls |-> cls, id |-> id, pcs |-> pcs]
One(c) == [cs |-> <<c>>, comb |-> <<>>]

\* sibling lists under the root: "p" "q" elements, "#" non-blank text, "_" blank text, "!" comment
\* ("q" and "r" are materialised as custom elements unknown to the HTML atom table)
KidLists(n) == UNION {[1..m -> {"p", "q", "r", "#", "_", "!"}] : m \in 0..n}
TreeOfKids(ks) ==
  [n |-> Len(ks) + 1, par |-> [x \in 1..Len(ks) + 1 |-> IF x = 1 THEN 0 ELSE 1],
   kind |-> [x \in 1..Len(ks) + 1 |-> IF x = 1 THEN "elem" ELSE
               CASE ks[x - 1] \in {"p", "q", "r"} -> "elem" [] ks[x - 1] = "!" -> "comment" [] OTHER -> "text"],
   tag  |-> [x \in 1..Len(ks) + 1 |-> IF x = 1 THEN "html" ELSE IF ks[x - 1] \in {"p", "q", "r"} THEN ks[x - 1] ELSE ""],
   cls  |-> [x \in 1..Len(ks) + 1 |-> FALSE], id |-> [x \in 1..Len(ks) + 1 |-> FALSE],
   hasattr |-> [x \in 1..Len(ks) + 1 |-> FALSE], attr |-> [x \in 1..Len(ks) + 1 |-> <<>>],
   blank |-> [x \in 1..Len(ks) + 1 |-> x > 1 /\ ks[x - 1] = "_"]]

NthSels == {[n |-> "nth", a |-> a, b |-> b, last |-> l, oftype |-> o] : a \in -2..2, b \in -2..3, l \in BOOLEAN, o \in BOOLEAN}
           \cup {[n |-> w] : w \in {"first-child", "last-child", "first-of-type", "last-of-type", "only-child", "only-of-type", "root", "empty"}}

\* attribute family: one element with attribute t
Chars(str) == CASE str = "" -> <<>> [] str = "ab" -> <<97, 98>> [] str = "AB" -> <<65, 66>> [] str = "b" -> <<98>>
                [] str = "cd" -> <<99, 100>> [] str = "ab-cd" -> <<97, 98, 45, 99, 100>> [] str = "ab cd" -> <<97, 98, 32, 99, 100>>
                [] str = " ab" -> <<32, 97, 98>> [] str = "a  b" -> <<97, 32, 32, 98>> [] str = "ab-" -> <<97, 98, 45>>
                [] str = "cd ab" -> <<99, 100, 32, 97, 98>> [] str = "aB" -> <<97, 66>>
                \* separators other than the space: TAB, LF, FF, CR separate words; VT, NBSP, EM SPACE do not (Selectors 4, 6.3.4:
                \* "whitespace-separated" is the ASCII white space of HTML)
                [] str = "ab<9>cd" -> <<97, 98, 9, 99, 100>> [] str = "ab<10>cd" -> <<97, 98, 10, 99, 100>>
                [] str = "ab<12>cd" -> <<97, 98, 12, 99, 100>> [] str = "ab<13>cd" -> <<97, 98, 13, 99, 100>>
                [] str = "ab<11>cd" -> <<97, 98, 11, 99, 100>> [] str = "ab<160>cd" -> <<97, 98, 160, 99, 100>>
                [] str = "ab<8195>cd" -> <<97, 98, 8195, 99, 100>> [] str = "<160>ab" -> <<160, 97, 98>>
                \* KELVIN SIGN: equal to "k" under Unicode case folding, not under the ASCII folding of the i flag
                [] str = "<8490>" -> <<8490>> [] str = "k" -> <<107>> [] str = " " -> <<32>>
                \* characters that a serializer must escape: a"b  a\b  a<LF>b
                [] str = "a<34>b" -> <<97, 34, 98>> [] str = "a<92>b" -> <<97, 92, 98>> [] str = "a<10>b" -> <<97, 10, 98>>
AttrVals    == {"", "ab", "AB", "ab-cd", "ab cd", " ab", "a  b", "ab-", "cd ab", "aB",
                "ab<9>cd", "ab<10>cd", "ab<12>cd", "ab<13>cd", "ab<11>cd", "ab<160>cd", "ab<8195>cd", "<160>ab", "<8490>", " ", "a<34>b", "a<92>b", "a<10>b"}
AttrNeedles == {"", "ab", "AB", "b", "cd", "ab cd", "ab-", "k", " ", "a<34>b", "a<92>b", "a<10>b"}
AttrTree(v) == [n |-> 2, par |-> <<0, 1>>, kind |-> <<"elem", "elem">>, tag |-> <<"html", "p">>, cls |-> <<FALSE, FALSE>>,
                id |-> <<FALSE, FALSE>>, hasattr |-> <<FALSE, v # "absent">>, attr |-> <<<<>>, IF v = "absent" THEN <<>> ELSE Chars(v)>>,
                blank |-> <<FALSE, FALSE>>]

\* general trees: parent vectors with par[i] < i, labels from a small set
Labels == {[kind |-> "elem", tag |-> "p", cls |-> FALSE, id |-> FALSE], [kind |-> "elem", tag |-> "q", cls |-> FALSE, id |-> FALSE],
           [kind |-> "elem", tag |-> "p", cls |-> TRUE, id |-> FALSE],  [kind |-> "elem", tag |-> "q", cls |-> TRUE, id |-> TRUE],
           [kind |-> "text", tag |-> "", cls |-> FALSE, id |-> FALSE]}
ParVecs(n) == {f \in [1..n -> 0..n - 1] : f[1] = 0 /\ \A x \in 2..n : f[x] >= 1 /\ f[x] < x}
L0 == CHOOSE l \in Labels : l.kind = "elem"
MkTree(m, pv, lb) ==
  [n |-> m, par |-> pv,
   kind |-> [x \in 1..m |-> IF x = 1 THEN "elem" ELSE lb[x].kind],
   tag |-> [x \in 1..m |-> IF x = 1 THEN "html" ELSE lb[x].tag],
   cls |-> [x \in 1..m |-> x > 1 /\ lb[x].cls], id |-> [x \in 1..m |-> x > 1 /\ lb[x].id],
   hasattr |-> [x \in 1..m |-> FALSE], attr |-> [x \in 1..m |-> <<>>], blank |-> [x \in 1..m |-> FALSE]]
\* text nodes have no children; the label of node 1 (the root <html>) is pinned
TreesOf(m) == UNION {{MkTree(m, pv, lb) : pv \in {f \in ParVecs(m) : \A x \in 2..m : f[x] = 1 \/ lb[f[x]].kind = "elem"}}
                     : lb \in {g \in [1..m -> Labels] : g[1] = L0}}
TreesN(n) == UNION {TreesOf(m) : m \in 2..n}

PathTrees == UNION {{MkTree(m, [x \in 1..m |-> x - 1], lb) : lb \in {g \in [1..m -> {l \in Labels : l.kind = "elem"}] : g[1] = L0}} : m \in 4..5}
Compounds == {Cmp("p", FALSE, FALSE, <<>>), Cmp("q", FALSE, FALSE, <<>>), Cmp("*", TRUE, FALSE, <<>>),
              Cmp("*", FALSE, TRUE, <<>>), Cmp("*", FALSE, FALSE, <<>>), Cmp("p", TRUE, FALSE, <<>>)}
Combs == {" ", ">", "+", "~"}
Complexes(n) == UNION {{[cs |-> c, comb |-> b] : c \in [1..m -> Compounds], b \in [1..m - 1 -> Combs]} : m \in 1..n}

SimpleArgs == {One(Cmp("p", FALSE, FALSE, <<>>)), One(Cmp("*", TRUE, FALSE, <<>>)), One(Cmp("q", TRUE, TRUE, <<>>)),
               [cs |-> <<Cmp("p", FALSE, FALSE, <<>>), Cmp("q", FALSE, FALSE, <<>>)>>, comb |-> <<">">>]}
ArgLists == {<<x>> : x \in SimpleArgs} \cup {<<x, y>> : x \in SimpleArgs, y \in SimpleArgs}
LogicSels == {One(Cmp(tg, FALSE, FALSE, <<[n |-> w, args |-> al]>>)) : tg \in {"*", "q"}, w \in {"not", "is", "has"}, al \in ArgLists}
             \cup {One(Cmp("*", FALSE, FALSE, <<[n |-> "not", args |-> <<One(Cmp("*", FALSE, FALSE, <<[n |-> w, args |-> <<x>>]>>))>>]>>)) :
                     w \in {"is", "has", "not"}, x \in SimpleArgs}

Scenarios ==
  CASE Family = "nth"  -> {[tree |-> TreeOfKids(ks), sel |-> <<One(Cmp("*", FALSE, FALSE, <<p>>))>>] : ks \in KidLists(Size), p \in NthSels}
    [] Family = "attr" -> {[tree |-> AttrTree(v), sel |-> <<One(Cmp("p", FALSE, FALSE, <<[n |-> "attr", op |-> op, val |-> Chars(nd), ci |-> ci]>>))>>] :
                              v \in AttrVals \cup {"absent"}, op \in {"exists", "=", "~=", "|=", "^=", "$=", "*="}, nd \in AttrNeedles, ci \in BOOLEAN}
                          \cup {[tree |-> AttrTree(v), sel |-> <<One(Cmp("p", FALSE, FALSE, <<[n |-> "attr", op |-> "class", val |-> Chars(nd), ci |-> FALSE]>>))>>] :
                              v \in AttrVals \cup {"absent"}, nd \in {"ab", "AB", "b", "cd", "ab-"}}
    \* sibling lists with text and comments between the elements x the sibling combinators (which skip whatever is not an element)
    [] Family = "sib" -> {[tree |-> TreeOfKids(ks), sel |-> <<c>>] : ks \in {kl \in KidLists(Size) : Len(kl) >= 2},
                             c \in {x \in Complexes(2) : Len(x.cs) = 2 /\ x.comb[1] \in {"+", "~"} /\ x.cs[1].tag # "*" /\ ~x.cs[1].cls /\ ~x.cs[2].cls /\ ~x.cs[1].id /\ ~x.cs[2].id}}
    \* deep trees: paths of 4 and 5 nodes (descendants 3 and 4 levels below), the logical pseudo-classes and the descendant / child combinators
    [] Family = "deep" -> {[tree |-> t, sel |-> <<s>>] : t \in PathTrees, s \in LogicSels \cup {c \in Complexes(2) : \A j \in 1..Len(c.comb) : c.comb[j] \in {" ", ">"}}}
    [] Family = "comb" -> {[tree |-> t, sel |-> <<s>>] : t \in TreesN(Size), s \in Complexes(Depth)}
    [] Family = "logic" -> {[tree |-> t, sel |-> <<s>>] : t \in TreesN(Size), s \in LogicSels}
    [] Family = "list" -> {[tree |-> t, sel |-> <<s1, s2>>] : t \in TreesN(Size), s1 \in Complexes(1), s2 \in Complexes(2)}
    \* pseudo-elements: the selector designates the pseudo-element `pe` of the elements it matches
    [] Family = "pe" -> {[tree |-> t, sel |-> <<s>>, pe |-> e] : t \in TreesN(Size), s \in Complexes(Depth),
                            e \in {"before", "after", "marker", "first-letter", "first-line"}}
PeOf(sc) == IF "pe" \in DOMAIN sc THEN sc.pe ELSE ""

---------------------------------------------------------------------------
(* Right-to-left evaluation as a state machine *)
Init == /\ \E sc \in Scenarios : tree = sc.tree /\ sel = sc.sel /\ pe = PeOf(sc)
        /\ node = 0 /\ k = 0 /\ cands = {} /\ phase = "pick"

\* choose the node under test and start with the rightmost compound of the (single) complex selector
StartEval == /\ phase = "pick" /\ Len(sel) = 1
             /\ \E x \in Nodes(tree) :
                  /\ node' = x /\ k' = Len(sel[1].cs)
                  /\ cands' = IF MatchCompound(tree, sel[1].cs[Len(sel[1].cs)], x) THEN {x} ELSE {}
             /\ phase' = "eval" /\ UNCHANGED <<tree, sel, pe>>
\* move one combinator to the left: the candidates become the nodes related to a candidate that match compound k-1
StepCombinator ==
  /\ phase = "eval" /\ k > 1
  /\ LET s == sel[1]  cb == s.comb[k - 1]
         Rel(y, x) == CASE cb = " " -> y \in Ancestors(tree, x)
                        [] cb = ">" -> x > 1 /\ y = tree.par[x]
                        [] cb = "+" -> y \in ElemSibs(tree, x) /\ y < x /\ \A z \in ElemSibs(tree, x) : ~(y < z /\ z < x)
                        [] cb = "~" -> y \in ElemSibs(tree, x) /\ y < x
     IN cands' = {y \in Nodes(tree) : MatchCompound(tree, s.cs[k - 1], y) /\ \E x \in cands : Rel(y, x)}
  /\ k' = k - 1 /\ UNCHANGED <<tree, sel, pe, node, phase>>
FinishEval == /\ phase = "eval" /\ k = 1 /\ phase' = "done" /\ UNCHANGED <<tree, sel, pe, node, k, cands>>
SkipEval == /\ phase = "pick" /\ phase' = "emit" /\ UNCHANGED <<tree, sel, pe, node, k, cands>>
Next == StartEval \/ StepCombinator \/ FinishEval \/ SkipEval
Spec == Init /\ [][Next]_vars

\* the candidate-set evaluation decides exactly the declarative relation
\* (sound for single-path combinators; TLC checks it on the bounded space)
EvalAgrees == phase = "done" => ((cands # {}) = MatchComplex(tree, sel[1], node))
\* specificity is monotone: adding a compound never lowers it; :is/:not/:has take the maximum of their arguments
SpecSane == \A j \in 1..Len(sel) : LET s == SpecComplex(sel[j]) IN s[1] >= 0 /\ s[2] >= 0 /\ s[3] >= 0

Emit == phase = "emit" =>
  PrintT(ToJson([family |-> Family, tree |-> tree, sel |-> sel,
                 match |-> [x \in Nodes(tree) |-> Matches(tree, sel, x)],
                 pe |-> pe,
                 spec |-> [j \in 1..Len(sel) |-> Add3(SpecComplex(sel[j]), <<0, 0, IF pe = "" THEN 0 ELSE 1>>)]]))
=============================================================================
