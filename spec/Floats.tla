------------------------------- MODULE Floats -------------------------------
(***************************************************************************)
(* Extra coverage (not one of the listed properties): placement of floats  *)
(* (CSS 2.1 9.5.1) in a block container of content width CW, over          *)
(* integers (px).                                                          *)
(*                                                                         *)
(* A scenario is a sequence of floats [side, w, h, clear]. The floats are  *)
(* placed one after the other by the action Place: a float goes as high as *)
(* possible (rule 8) but not above the top of an earlier float (rules 5,   *)
(* 6) nor, with `clear`, above the bottom of the earlier floats it clears; *)
(* at that height as far to its side as possible (rule 9) without          *)
(* overlapping earlier floats (rules 2, 3) nor sticking out of the         *)
(* container (rules 1, 7) - unless it is alone at that height. The         *)
(* invariants are the declarative rules; TLC checks that the placement     *)
(* satisfies them in every reachable state; the terminal states carry the  *)
(* rectangles, which the harness compares with the real layout.            *)
(***************************************************************************)
EXTENDS Integers, Sequences, FiniteSets, TLC, Json

CONSTANTS MaxFloats

VARIABLES fl, placed, phase
vars == <<fl, placed, phase>>

CW == 40
Sides == {"left", "right"}
Float == [side : Sides, w : {10, 25, 50}, h : {10, 20}, clear : {"none", "left", "right", "both"}]

Max(a, b) == IF a > b THEN a ELSE b
Min(a, b) == IF a < b THEN a ELSE b
MaxS(S) == IF S = {} THEN 0 ELSE CHOOSE x \in S : \A y \in S : y <= x
MinS(S, d) == IF S = {} THEN d ELSE CHOOSE x \in S : \A y \in S : x <= y

\* placed floats: [side, x, y, w, h]
Overlaps(p, y, h) == p.y < y + h /\ y < p.y + p.h
\* the band available at height y for a float of height h (at least 1px high for the test)
LeftEdge(ps, y, h) == MaxS({ps[j].x + ps[j].w : j \in {k \in 1..Len(ps) : ps[k].side = "left" /\ Overlaps(ps[k], y, Max(h, 1))}})
RightEdge(ps, y, h) == MinS({ps[j].x : j \in {k \in 1..Len(ps) : ps[k].side = "right" /\ Overlaps(ps[k], y, Max(h, 1))}}, CW)
Beside(ps, y, h) == {k \in 1..Len(ps) : Overlaps(ps[k], y, Max(h, 1))}
\* the next height to try: the lowest bottom edge of the floats beside the current one
NextY(ps, y, h) == MinS({ps[k].y + ps[k].h : k \in Beside(ps, y, h)}, y + 1)

ClearY(ps, c) == MaxS({ps[k].y + ps[k].h : k \in {j \in 1..Len(ps) : c = "both" \/ ps[j].side = c}})
StartY(ps, f) == Max(IF ps = <<>> THEN 0 ELSE ps[Len(ps)].y, IF f.clear = "none" THEN 0 ELSE ClearY(ps, f.clear))

RECURSIVE FindY(_, _, _)
FindY(ps, f, y) == IF Beside(ps, y, f.h) = {} \/ f.w <= RightEdge(ps, y, f.h) - LeftEdge(ps, y, f.h) THEN y ELSE FindY(ps, f, NextY(ps, y, f.h))
Position(ps, f) == LET y == FindY(ps, f, StartY(ps, f)) IN
                   [side |-> f.side, y |-> y, w |-> f.w, h |-> f.h,
                    x |-> IF f.side = "left" THEN LeftEdge(ps, y, f.h) ELSE RightEdge(ps, y, f.h) - f.w]

InitBuild == fl = <<>> /\ placed = <<>> /\ phase = "build"
AddFloat == /\ phase = "build" /\ Len(fl) < MaxFloats /\ \E f \in Float : fl' = Append(fl, f) /\ UNCHANGED <<placed, phase>>
EndBuild == /\ phase = "build" /\ fl # <<>> /\ phase' = "place" /\ UNCHANGED <<fl, placed>>
Place == /\ phase = "place" /\ Len(placed) < Len(fl)
         /\ placed' = Append(placed, Position(placed, fl[Len(placed) + 1])) /\ UNCHANGED <<fl, phase>>
Done == /\ phase = "place" /\ Len(placed) = Len(fl) /\ phase' = "done" /\ UNCHANGED <<fl, placed>>
Next == AddFloat \/ EndBuild \/ Place \/ Done
Spec == InitBuild /\ [][Next]_vars /\ WF_vars(Next)

----------------------------------------------------------------------------
I == 1..Len(placed)
\* rules 2, 3, 7 (and the symmetric ones): no two floats overlap
NoOverlap == \A a, b \in I : a < b => ~(Overlaps(placed[a], placed[b].y, Max(placed[b].h, 1)) /\ placed[a].x < placed[b].x + placed[b].w /\ placed[b].x < placed[a].x + placed[a].w)
\* rules 5, 6: the top of a float is not above the top of an earlier float
TopsOrdered == \A a, b \in I : a < b => placed[a].y <= placed[b].y
\* rules 1, 7: a float sticks out of its side of the container only if it is wider than the container or alone at its height
Inside == \A b \in I : /\ (placed[b].side = "left" => placed[b].x >= 0)
                       /\ (placed[b].side = "right" => placed[b].x + placed[b].w <= CW)
                       /\ (placed[b].x < 0 \/ placed[b].x + placed[b].w > CW => Beside(SubSeq(placed, 1, b - 1), placed[b].y, placed[b].h) = {})
\* clear: below the earlier floats of the cleared sides
Cleared == \A a, b \in I : (a < b /\ fl[b].clear \in {"both", placed[a].side}) => placed[b].y >= placed[a].y + placed[a].h
Terminates == <>(phase = "done")
Emit == phase = "done" => PrintT(ToJson([floats |-> fl, placed |-> placed]))
=============================================================================
