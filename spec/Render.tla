------------------------------- MODULE Render -------------------------------
(***************************************************************************)
(* Determinism and non-interference of renders (C15).                      *)
(*                                                                         *)
(* NRenders renders run in one process. A render goes through the phases   *)
(* parse -> layout -> draw (the API boundaries tree.NewHTML,               *)
(* document.Render, Document.Write); a step of render r executes its next  *)
(* phase. Everything a render computes goes to its own context ctx[r] (the *)
(* layoutContext / drawContext objects of the implementation); the global  *)
(* tables (UA style sheets, initial values) are initialised before any     *)
(* render and only read. One table is filled lazily, as the hyphenation    *)
(* dictionaries of text/hyphen are (under a lock, hence one atomic step):  *)
(* `lazy` is "unset" in a fresh process and "loaded" after the first       *)
(* layout that needs it; what is loaded does not depend on the render that *)
(* loads it (LazyStable), so that Isolation holds from both initial values *)
(* of `lazy` - a fresh process, or any history of previous renders.        *)
(*                                                                         *)
(* Isolation: whatever the interleaving and whatever was rendered before,  *)
(* the output of a render is the output of a lone render of its document.  *)
(* The constant SharedCache names the defect the property excludes: a      *)
(* cache written by one render and read by another (TRUE makes TLC find    *)
(* the interleaving that breaks Isolation - the non-vacuity check).        *)
(* Every complete behaviour is a schedule that the harness replays on      *)
(* goroutines of a race-detector build.                                    *)
(***************************************************************************)
EXTENDS Integers, Sequences, FiniteSets, TLC, Json

CONSTANTS NRenders, NDocs, SharedCache

VARIABLES docOf, pc, ctx, cache, globals, out, sched, lazy, fresh
vars == <<docOf, pc, ctx, cache, globals, out, sched, lazy, fresh>>

R == 1..NRenders
Phases == <<"parse", "layout", "draw">>
\* (user: the user style sheet, parsed once by the caller and handed to every render)
G0 == [ua |-> "ua-sheet", user |-> "user-sheet", initial |-> "initial-values"]
\* what a phase computes from the document and the global tables
Compute(ph, d, g) == <<ph, d, g.ua, g.user>> \o (IF ph = "layout" THEN <<"dictionary">> ELSE <<>>)
Loaded(l) == IF l = "unset" THEN "dictionary" ELSE l
\* the output of a lone render of document d
Ref(d) == <<Compute("parse", d, G0), Compute("layout", d, G0), Compute("draw", d, G0)>>

Init == /\ docOf \in [R -> 1..NDocs] /\ pc = [r \in R |-> 1] /\ ctx = [r \in R |-> <<>>] /\ cache = <<>>
        /\ globals = G0 /\ out = [r \in R |-> <<>>] /\ sched = <<>>
        /\ fresh \in BOOLEAN /\ lazy = IF fresh THEN "unset" ELSE "dictionary"
Step(r) == /\ pc[r] <= Len(Phases)
           /\ LET ph == Phases[pc[r]]
                  \* with a shared cache, the layout phase reuses what the last render to go through it left
                  val == IF SharedCache /\ ph = "layout" /\ cache # <<>> THEN cache ELSE Compute(ph, docOf[r], globals) IN
              /\ ctx' = [ctx EXCEPT ![r] = Append(@, val)]
              /\ cache' = IF SharedCache /\ ph = "layout" THEN val ELSE cache
              /\ out' = IF pc[r] = Len(Phases) THEN [out EXCEPT ![r] = ctx'[r]] ELSE out
           /\ pc' = [pc EXCEPT ![r] = @ + 1] /\ sched' = Append(sched, r)
           /\ lazy' = IF Phases[pc[r]] = "layout" THEN Loaded(lazy) ELSE lazy
           /\ UNCHANGED <<docOf, globals, fresh>>
Next == \E r \in R : Step(r)
Spec == Init /\ [][Next]_vars /\ WF_vars(Next)

Done == \A r \in R : pc[r] > Len(Phases)
GlobalsUnchanged == globals = G0
\* the lazily filled table is written once, with a value that does not depend on who fills it
LazyStable == [][lazy # "unset" => lazy' = lazy]_vars
LazyValue == lazy \in {"unset", "dictionary"}
Isolation == \A r \in R : pc[r] > Len(Phases) => out[r] = Ref(docOf[r])
\* same document, same output: renders of one document agree with each other
Deterministic == \A a, b \in R : (pc[a] > Len(Phases) /\ pc[b] > Len(Phases) /\ docOf[a] = docOf[b]) => out[a] = out[b]
Terminates == <>Done

Emit == Done => PrintT(ToJson([docs |-> docOf, sched |-> sched, fresh |-> fresh]))
=============================================================================
