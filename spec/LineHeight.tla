----------------------------- MODULE LineHeight -----------------------------
(***************************************************************************)
(* C11, vertical part: "lines of a block stack without gap or overlap,     *)
(* each as tall as line-height and its contents require" - CSS 2.1 10.8    *)
(* (line height calculations) with vertical-align baseline / top / bottom. *)
(*                                                                         *)
(* A line holds the strut of its paragraph (font-size 8px, line-height     *)
(* 10px, font weasyprint.otf: A above and D below the baseline, in 1/128   *)
(* px) and a sequence of chains  span > span > atom : an empty             *)
(* inline-block of height h (its baseline is its bottom margin edge),      *)
(* optionally inside one or two inline boxes; every box of a chain has     *)
(* vertical-align baseline, top or bottom.                                 *)
(*                                                                         *)
(* A box aligned top or bottom is the root of an "aligned subtree" of its  *)
(* own: itself and the descendants reached through baseline-aligned boxes. *)
(* The measuring is a transition system over a WORKLIST of subtree roots   *)
(* that grows while it is processed (Measure appends the top / bottom      *)
(* boxes it meets below the subtree it measures) - the structure of        *)
(* lineBoxVerticality. Invariants: AllDiscovered (every top / bottom box   *)
(* of the line is measured exactly once, however deeply nested),           *)
(* ContentsFit (the line is at least as tall as the strut and every atom), *)
(* liveness Terminates. Terminal states carry the height of the line box   *)
(* and, where CSS defines it, the position of every atom.                  *)
(***************************************************************************)
EXTENDS Integers, Sequences, FiniteSets, TLC, Json

CONSTANTS MaxChains

VARIABLES line, work, idx, hts, phase
vars == <<line, work, idx, hts, phase>>

A == 947       \* strut: above the baseline (half-leading included), 1/128 px
D == 333       \* strut: below the baseline
VAs == {"base", "top", "bottom"}
Chain == {c \in [s1 : {"none"} \cup VAs, s2 : {"none"} \cup VAs, va : VAs, h : {512, 2560, 5120}] : c.s1 = "none" => c.s2 = "none"}
Lines == UNION {[1..m -> Chain] : m \in 1..MaxChains}

\* nodes: Root, or <<c, l>>: level l of chain c (1, 2: the inline boxes, 3: the atom)
Root == <<0, 0>>
Exists(c, l) == l = 3 \/ (l = 1 /\ line[c].s1 # "none") \/ (l = 2 /\ line[c].s2 # "none")
Nodes == {<<c, l>> : c \in 1..Len(line), l \in 1..3} \cap {n \in (1..Len(line)) \X (1..3) : Exists(n[1], n[2])}
VA(n) == IF n[2] = 1 THEN line[n[1]].s1 ELSE IF n[2] = 2 THEN line[n[1]].s2 ELSE line[n[1]].va
ParentOf(n) == LET ls == {l \in 1..(n[2] - 1) : Exists(n[1], l)} IN
               IF ls = {} THEN Root ELSE <<n[1], CHOOSE l \in ls : \A k \in ls : k <= l>>
Kids(n) == {k \in Nodes : ParentOf(k) = n}
Max(a, b) == IF a > b THEN a ELSE b
MaxS(S) == IF S = {} THEN 0 ELSE CHOOSE x \in S : \A y \in S : y <= x
OwnUp(n) == IF n # Root /\ n[2] = 3 THEN line[n[1]].h ELSE A
OwnDown(n) == IF n # Root /\ n[2] = 3 THEN 0 ELSE D
\* extents of the aligned subtree of n around the baseline of n (baseline-aligned boxes share the baseline of their parent)
RECURSIVE Up(_), Down(_), Discover(_)
Up(n) == Max(OwnUp(n), MaxS({Up(k) : k \in {x \in Kids(n) : VA(x) = "base"}}))
Down(n) == Max(OwnDown(n), MaxS({Down(k) : k \in {x \in Kids(n) : VA(x) = "base"}}))
\* the top / bottom boxes met below n without crossing another top / bottom box
Discover(n) == {k \in Kids(n) : VA(k) # "base"} \cup UNION {Discover(k) : k \in {x \in Kids(n) : VA(x) = "base"}}
RECURSIVE Ordered(_)
Less(a, b) == a[1] < b[1] \/ (a[1] = b[1] /\ a[2] < b[2])
Ordered(S) == IF S = {} THEN <<>> ELSE LET m == CHOOSE x \in S : \A y \in S : x = y \/ Less(x, y) IN <<m>> \o Ordered(S \ {m})

Init == /\ line \in Lines /\ work = <<Root>> /\ idx = 1 /\ hts = <<>> /\ phase = "measure"
\* (simulation of longer lines: three random chains per behaviour)
InitSample == /\ line = <<RandomElement(Chain), RandomElement(Chain), RandomElement(Chain)>>
              /\ work = <<Root>> /\ idx = 1 /\ hts = <<>> /\ phase = "measure"
Measure == /\ phase = "measure" /\ idx <= Len(work)
           /\ hts' = Append(hts, Up(work[idx]) + Down(work[idx]))
           /\ work' = work \o Ordered(Discover(work[idx]))          \* the worklist grows while it is walked
           /\ idx' = idx + 1 /\ UNCHANGED <<line, phase>>
Close == /\ phase = "measure" /\ idx > Len(work) /\ phase' = "done" /\ UNCHANGED <<line, work, idx, hts>>
Next == Measure \/ Close
Spec == Init /\ [][Next]_vars /\ WF_vars(Next)

----------------------------------------------------------------------------
LineH == MaxS({hts[j] : j \in 1..Len(hts)})
AllDiscovered == phase = "done" =>
   /\ \A n \in Nodes : VA(n) # "base" => Cardinality({j \in 1..Len(work) : work[j] = n}) = 1
   /\ \A j \in 1..Len(work) : work[j] = Root \/ VA(work[j]) # "base"
   /\ Len(hts) = Len(work)
ContentsFit == phase = "done" => LineH >= A + D /\ \A c \in 1..Len(line) : LineH >= line[c].h
Terminates == <>(phase = "done")

\* the root of the aligned subtree a node belongs to
RECURSIVE SubRoot(_)
SubRoot(n) == IF n = Root \/ VA(n) # "base" THEN n ELSE SubRoot(ParentOf(n))
\* y of the top margin edge of the atom of chain c below the top of the line box; -1 where CSS 2.1 leaves it undefined (the
\* root subtree is shorter than the line box: "CSS 2.1 does not define the position of the line box's baseline")
AtomY(c) ==
  LET a == <<c, 3>>  r == SubRoot(a)  h == line[c].h IN
  IF r = Root THEN (IF Up(Root) + Down(Root) = LineH THEN Up(Root) - h ELSE -1)
  ELSE IF VA(r) = "top" THEN Up(r) - h
  ELSE LineH - Down(r) - h
Emit == phase = "done" => PrintT(ToJson([line |-> line, height |-> LineH, ys |-> [c \in 1..Len(line) |-> AtomY(c)], roots |-> Len(work)]))
=============================================================================
