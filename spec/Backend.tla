------------------------------ MODULE Backend ------------------------------
(***************************************************************************)
(* What the backend receives (C14).                                        *)
(*                                                                         *)
(* Part 1 - links, anchors and bookmarks. A document is a sequence of      *)
(* items [t, name, level, brk]:                                            *)
(*   t = "id"    an element with id = name                                 *)
(*   t = "link"  <a href="#name">                                          *)
(*   t = "h"     a heading with bookmark-level = level                     *)
(* brk = TRUE starts a new page before the item.                           *)
(* The outline builder of html/document/document.go (makeBookmarkTree:     *)
(* skippedLevels / lastByDepth) is the transition system AddBookmark; its  *)
(* result must be the declarative Outline (parent = nearest previous entry *)
(* of smaller level) and its internal assertion must never fail.           *)
(*                                                                         *)
(* Part 2 - the drawing protocol: Proto folds the transition function Step *)
(* over a recorded sequence of backend calls and returns the first guard   *)
(* that fails; BackendTrace.tla evaluates it on the calls recorded from    *)
(* the real document.Write.                                                *)
(***************************************************************************)
EXTENDS Integers, Sequences, FiniteSets, TLC, Json

CONSTANTS MaxItems, Names, MaxLevel

VARIABLES doc, k, skipped, lastBy, prevLevel, parent, failed, phase
vars == <<doc, k, skipped, lastBy, prevLevel, parent, failed, phase>>

Item == [t : {"id", "link", "h"}, name : Names, level : 1..MaxLevel, brk : BOOLEAN]
Norm(it) == (it.t = "h" => it.name = CHOOSE n \in Names : TRUE) /\ (it.t # "h" => it.level = 1)

\* ---- declarative expectations
\* 1-based page of item i (a break before the first item adds no page)
RECURSIVE PageOf(_, _)
PageOf(d, i) == IF i = 1 THEN 1 ELSE PageOf(d, i - 1) + (IF d[i].brk THEN 1 ELSE 0)
NPages(d) == PageOf(d, Len(d))
Defined(d) == {d[i].name : i \in {j \in 1..Len(d) : d[j].t = "id"}}
FirstId(d, n) == CHOOSE i \in 1..Len(d) : d[i].t = "id" /\ d[i].name = n /\ \A j \in 1..(i - 1) : ~(d[j].t = "id" /\ d[j].name = n)
\* the anchors defined on page p: every name, once, on the page of the first element carrying it
AnchorsOn(d, p) == {n \in Defined(d) : PageOf(d, FirstId(d, n)) = p}
\* the internal links emitted on page p, in order: those whose target exists
LinksOn(d, p) == LET RECURSIVE F(_)
                     F(i) == IF i > Len(d) THEN <<>> ELSE
                             (IF d[i].t = "link" /\ PageOf(d, i) = p /\ d[i].name \in Defined(d) THEN <<d[i].name>> ELSE <<>>) \o F(i + 1)
                 IN F(1)
\* the headings, in order
Heads(d) == LET RECURSIVE F(_)
                F(i) == IF i > Len(d) THEN <<>> ELSE (IF d[i].t = "h" THEN <<i>> ELSE <<>>) \o F(i + 1)
            IN F(1)
\* outline: the parent of the q-th heading is the nearest previous heading of smaller level (0 = top level)
OutlineParent(d, q) == LET hs == Heads(d)
                           S == {j \in 1..(q - 1) : d[hs[j]].level < d[hs[q]].level} IN
                       IF S = {} THEN 0 ELSE CHOOSE j \in S : \A z \in S : z <= j

\* ---- the outline builder as a transition system (document.go makeBookmarkTree)
InitBuild == /\ doc = <<>> /\ k = 1 /\ skipped = <<>> /\ lastBy = <<0>> /\ prevLevel = 0 /\ parent = <<>> /\ failed = FALSE /\ phase = "build"
AddItem == /\ phase = "build" /\ Len(doc) < MaxItems
           /\ \E it \in Item : Norm(it) /\ doc' = Append(doc, it)
           /\ UNCHANGED <<k, skipped, lastBy, prevLevel, parent, failed, phase>>
EndBuild == /\ phase = "build" /\ doc # <<>> /\ phase' = "outline" /\ UNCHANGED <<doc, k, skipped, lastBy, prevLevel, parent, failed>>
RECURSIVE Sum(_)
Sum(s) == IF s = <<>> THEN 0 ELSE Head(s) + Sum(Tail(s))
\* pop skipped levels until temp >= previous level
RECURSIVE PopTo(_, _, _)
PopTo(s, temp, prev) == IF temp < prev /\ s # <<>> THEN PopTo(SubSeq(s, 1, Len(s) - 1), temp + 1 + s[Len(s)], prev) ELSE <<s, temp>>
AddBookmark == /\ phase = "outline" /\ k <= Len(Heads(doc)) /\ ~failed
               /\ LET level == doc[Heads(doc)[k]].level
                      sk == IF level > prevLevel THEN Append(skipped, level - prevLevel - 1)
                            ELSE LET r == PopTo(skipped, level, prevLevel) IN
                                 IF r[2] > prevLevel THEN Append(r[1], r[2] - prevLevel - 1) ELSE r[1]
                      depth == level - Sum(sk) IN
                  /\ skipped' = sk /\ prevLevel' = level
                  /\ IF depth # Len(sk) \/ depth < 1 \/ depth > Len(lastBy)
                     THEN failed' = TRUE /\ UNCHANGED <<lastBy, parent>>                 \* the panic of the implementation
                     ELSE /\ failed' = FALSE
                          /\ parent' = Append(parent, lastBy[depth])
                          /\ lastBy' = Append(SubSeq(lastBy, 1, depth), k)
               /\ k' = k + 1 /\ UNCHANGED <<doc, phase>>
Finish == /\ phase = "outline" /\ (k > Len(Heads(doc)) \/ failed) /\ phase' = "done"
          /\ UNCHANGED <<doc, k, skipped, lastBy, prevLevel, parent, failed>>
Next == AddItem \/ EndBuild \/ AddBookmark \/ Finish
Spec == InitBuild /\ [][Next]_vars /\ WF_vars(AddBookmark \/ Finish)

NeverPanics == ~failed
OutlineRight == phase = "done" => parent = [q \in 1..Len(Heads(doc)) |-> OutlineParent(doc, q)]
\* bookmarks are attached in document order: a parent precedes its children
ParentFirst == \A q \in 1..Len(parent) : parent[q] < q
Terminates == (phase = "outline") ~> (phase = "done")

EmitScn == phase = "done" => PrintT(ToJson([doc |-> doc, npages |-> NPages(doc),
              anchors |-> [p \in 1..NPages(doc) |-> AnchorsOn(doc, p)], links |-> [p \in 1..NPages(doc) |-> LinksOn(doc, p)],
              heads |-> [q \in 1..Len(Heads(doc)) |-> [item |-> Heads(doc)[q], page |-> PageOf(doc, Heads(doc)[q]), parent |-> parent[q]]]]))

---------------------------------------------------------------------------
\* Part 2: the drawing protocol. An event is [op, c, fin, fonts, a, pg]:
\*   op   the backend method;  c  the canvas (0 = document level);  fin  TRUE iff every numeric argument is finite
\*   fonts  font keys used (DrawText) / registered (AddFont);  a  an integer argument (alpha x 1000, smallest dash x 1000);
\*   pg   pages laid out (AddPage: index of the page, 0-based)
\* State: [pages, path (canvas -> has a current path), depth (canvas -> OnNewStack nesting), fonts, err]
PathOps == {"Rectangle", "MoveTo"}
NeedPoint == {"LineTo", "CubicTo", "ClosePath"}
St0 == [pages |-> 0, path |-> {}, depth |-> <<>>, fonts |-> {}, err |-> "ok"]
Fail(st, why) == [st EXCEPT !.err = why]
Step(st, e) ==
  IF st.err # "ok" THEN st
  ELSE IF ~e.fin THEN Fail(st, "non-finite-argument:" \o e.op)
  ELSE CASE e.op = "AddPage" -> IF e.pg # st.pages THEN Fail(st, "AddPage-out-of-order") ELSE [st EXCEPT !.pages = @ + 1, !.path = {}]
         [] e.op \in PathOps -> [st EXCEPT !.path = @ \cup {e.c}]
         [] e.op \in NeedPoint -> IF e.c \notin st.path THEN Fail(st, "path-continued-without-current-point:" \o e.op) ELSE st
         [] e.op = "Paint" -> IF e.c \notin st.path THEN Fail(st, "Paint-without-path") ELSE [st EXCEPT !.path = @ \ {e.c}]
         [] e.op = "Clip" -> IF e.c \notin st.path THEN Fail(st, "Clip-without-path") ELSE [st EXCEPT !.path = @ \ {e.c}]
         [] e.op = "AddFont" -> [st EXCEPT !.fonts = @ \cup {e.fonts[q] : q \in 1..Len(e.fonts)}]
         [] e.op = "DrawText" -> IF \E q \in 1..Len(e.fonts) : e.fonts[q] \notin st.fonts THEN Fail(st, "DrawText-with-unregistered-font") ELSE st
         [] e.op = "SetAlpha" -> IF e.a < 0 \/ e.a > 1000 THEN Fail(st, "alpha-out-of-range") ELSE st
         [] e.op = "DrawWithOpacity" -> IF e.a < 0 \/ e.a > 1000 THEN Fail(st, "alpha-out-of-range") ELSE st
         [] e.op = "SetDash" -> IF e.a < 0 THEN Fail(st, "negative-dash") ELSE st
         [] e.op = "Restore" -> IF e.a # 1 THEN Fail(st, "Restore-without-Save") ELSE st
         [] OTHER -> st
RECURSIVE Run(_, _, _)
Run(st, evs, i) == IF i > Len(evs) \/ st.err # "ok" THEN st ELSE Run(Step(st, evs[i]), evs, i + 1)
\* the verdict on a whole recorded document: the first failing guard, or a page-count mismatch
Proto(r) == LET st == Run(St0, r.evs, 1) IN
            IF st.err # "ok" THEN st.err ELSE IF st.pages # r.laidout THEN "AddPage-count-differs-from-pages-laid-out" ELSE "ok"
=============================================================================
