CONSTANTS
  NRenders = 2
  NDocs = 3
  SharedCache = FALSE
SPECIFICATION Spec
INVARIANTS GlobalsUnchanged Isolation Deterministic Emit
PROPERTIES Terminates
CHECK_DEADLOCK FALSE
