CONSTANTS
  Family = "comb"
  Size = 3
  Depth = 2
INIT Init
NEXT Next
INVARIANTS EvalAgrees SpecSane Emit
CHECK_DEADLOCK FALSE
