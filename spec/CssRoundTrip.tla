---------------------------- MODULE CssRoundTrip ----------------------------
(***************************************************************************)
(* Trace validation for C20: every record of the trace file is             *)
(*   [raw |-> input code points, ser |-> code points of the text that the  *)
(*    real parser.Serialize produced for the real tokens of raw]           *)
(* The specification's tokenizer (CssSyntax!Tokens) is applied to BOTH and  *)
(* the two token lists must be equal up to comments, positions and the     *)
(* merging of white space runs that a removed comment separated.           *)
(* The real tokenizer takes no part in the verdict.                        *)
(***************************************************************************)
EXTENDS CssSyntax, IOUtils

VARIABLE i
Trace == ndJsonDeserialize(IOEnv.TRACE_FILE)

StripPos(e) == [f \in (DOMAIN e) \ {"s"} |-> e[f]]
RECURSIVE Norm(_, _)
Norm(evs, acc) ==
  IF evs = <<>> THEN acc
  ELSE LET e == Head(evs) IN
       IF e.k = "comment" THEN Norm(Tail(evs), acc)
       ELSE IF e.k = "ws" /\ acc # <<>> /\ acc[Len(acc)].k = "ws" THEN Norm(Tail(evs), acc)
       ELSE Norm(Tail(evs), Append(acc, StripPos(e)))

RoundTrips(r) == Norm(Tokens(r.ser), <<>>) = Norm(Tokens(r.raw), <<>>)

RTInit == /\ i \in 1..Len(Trace)
          /\ raw = <<>> /\ src = <<>> /\ pos = 1 /\ out = <<>> /\ stack = <<>> /\ phase = "rt"
RTNext == UNCHANGED <<vars, i>>
\* always TRUE; prints the index of every record that does not round-trip
Report == RoundTrips(Trace[i]) \/ PrintT(<<"BAD", i>>)
=============================================================================
