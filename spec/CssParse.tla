------------------------------- MODULE CssParse -------------------------------
(***************************************************************************)
(* CSS Syntax Level 3, section 5: the rule / declaration consumers over a  *)
(* list of component values (abstract token classes; nesting is already    *)
(* resolved by the tokenizer, see CssSyntax).                              *)
(*                                                                         *)
(* Abstract tokens:                                                        *)
(*   "ws" "comment" "ident" "imp" (the ident `important`) ":" ";" "!"      *)
(*   "at" (at-keyword) "{}" (curly block) "()" (paren block holding a ;)   *)
(*   "num" "cdo" "cdc"                                                     *)
(*                                                                         *)
(* The parser is a cursor `i` over `toks`; every action consumes the span  *)
(* the specification assigns to one construct and appends one result item: *)
(*   [k |-> "at",   np |-> #prelude tokens, blk |-> has a {} block]        *)
(*   [k |-> "qual", np |-> #prelude tokens]                                *)
(*   [k |-> "decl", nv |-> #value tokens (after removing !important),      *)
(*                  imp |-> BOOLEAN]                                       *)
(*   [k |-> "error"]  [k |-> "ws"]  [k |-> "comment"]                      *)
(* Error recovery is the span: an invalid declaration ends at the next     *)
(* top-level ";" (inclusive), an at-rule at ";" or its {} block, a         *)
(* qualified rule at its {} block (EOF before it: error).                  *)
(***************************************************************************)
EXTENDS Integers, Sequences, FiniteSets, TLC, Json

CONSTANTS MaxLen,    \* maximal number of (free) tokens
          Entry,     \* "stylesheet" | "rules" | "decls" | "onedecl" | "blocks"
          Family     \* "full": all tokens | "imp": `ident :` followed by tokens of the !important machine

Tok == {"ws", "comment", "ident", "imp", ":", ";", "!", "at", "{}", "()", "num", "cdo", "cdc"}

VARIABLES toks, i, res, phase
vars == <<toks, i, res, phase>>

At(p)   == IF p <= Len(toks) THEN toks[p] ELSE "eof"
IsWs(t) == t \in {"ws", "comment"}
IsIdent(t) == t \in {"ident", "imp"}

\* first position >= p holding a token of set S, or Len+1
RECURSIVE Find(_, _)
Find(p, S) == IF p > Len(toks) \/ toks[p] \in S THEN p ELSE Find(p + 1, S)
RECURSIVE SkipWs(_)
SkipWs(p) == IF IsWs(At(p)) THEN SkipWs(p + 1) ELSE p

NonWs(s) == SelectSeq(s, LAMBDA t : ~IsWs(t))
\* index (in s) of the k-th non-ws token from the end, 0 if none
RECURSIVE LastNonWs(_, _)
LastNonWs(s, p) == IF p = 0 THEN 0 ELSE IF ~IsWs(s[p]) THEN p ELSE LastNonWs(s, p - 1)

\* 5.4.6 consume a declaration from the token list d
RECURSIVE SkipWsIn(_, _)
SkipWsIn(d, p) == IF p <= Len(d) /\ IsWs(d[p]) THEN SkipWsIn(d, p + 1) ELSE p

DeclItem(d) ==
  \* d = tokens of the declaration, d[1] is its first token
  IF ~IsIdent(d[1]) THEN [k |-> "error"]
  ELSE LET c == SkipWsIn(d, 2) IN
    IF c > Len(d) \/ d[c] # ":" THEN [k |-> "error"]
    ELSE LET v  == SubSeq(d, c + 1, Len(d))
             l1 == LastNonWs(v, Len(v))
             l2 == IF l1 > 1 THEN LastNonWs(v, l1 - 1) ELSE 0
             important == l1 > 0 /\ l2 > 0 /\ v[l1] = "imp" /\ v[l2] = "!"
             hasBlock == \E p \in 1..Len(v) : v[p] = "{}"
             other == \E p \in 1..Len(v) : ~IsWs(v[p]) /\ v[p] # "{}"
             twoBlocks == Cardinality({p \in 1..Len(v) : v[p] = "{}"}) > 1
         IN [k |-> "decl", nv |-> IF important THEN l2 - 1 ELSE Len(v), imp |-> important,
             \* a {}-block next to other content in a value: Level 3 keeps the declaration, the
             \* current draft (and css/parser) rejects it; both end it at the same ";": either is accepted
             lax |-> hasBlock /\ (other \/ twoBlocks)]

---------------------------------------------------------------------------
Alpha  == IF Family = "imp" THEN {"ws", "ident", "imp", "!", "num", ";"} ELSE Tok
Prefix == IF Family = "imp" THEN <<"ident", ":">> ELSE <<>>
Seqs(n) == UNION {[1..m -> Alpha] : m \in 0..n}

Init == /\ toks \in {Prefix \o t : t \in Seqs(MaxLen)} /\ i = 1 /\ res = <<>> /\ phase = "run"

Emit1(item, j) == /\ res' = Append(res, item) /\ i' = j /\ UNCHANGED <<toks, phase>>

\* white space and comments at the top level of any list are results of their own
TopWs == /\ phase = "run" /\ IsWs(At(i)) /\ Entry # "onedecl"
         /\ Emit1([k |-> At(i)], i + 1)

\* 5.4.1: at the top level of a stylesheet CDO and CDC are dropped
DropCDx == /\ phase = "run" /\ Entry = "stylesheet" /\ At(i) \in {"cdo", "cdc"}
           /\ i' = i + 1 /\ UNCHANGED <<toks, res, phase>>

\* a stray ";" in a declaration list is dropped
DropSemicolon == /\ phase = "run" /\ Entry \in {"decls", "blocks"} /\ At(i) = ";"
                 /\ i' = i + 1 /\ UNCHANGED <<toks, res, phase>>

\* 5.4.2 consume an at-rule: prelude up to ";" (consumed), a {} block (consumed) or EOF
ConsumeAtRule == /\ phase = "run" /\ Entry # "onedecl" /\ At(i) = "at"
                 /\ LET e == Find(i + 1, {";", "{}"}) IN
                    Emit1([k |-> "at", np |-> e - i - 1, blk |-> At(e) = "{}"], IF e > Len(toks) THEN e ELSE e + 1)

\* 5.4.3 consume a qualified rule: prelude up to the {} block; EOF first is a parse error
ConsumeQualifiedRule ==
  /\ phase = "run" /\ Entry \in {"stylesheet", "rules"}
  /\ ~IsWs(At(i)) /\ At(i) \notin {"at", "eof"} /\ ~(Entry = "stylesheet" /\ At(i) \in {"cdo", "cdc"})
  /\ LET e == Find(i, {"{}"}) IN
     IF e > Len(toks) THEN Emit1([k |-> "error"], e)
     ELSE Emit1([k |-> "qual", np |-> e - i], e + 1)

\* 5.4.4 consume a list of declarations: everything up to the next ";" is one declaration (or one error)
ConsumeDeclaration ==
  /\ phase = "run" /\ Entry = "decls" /\ ~IsWs(At(i)) /\ At(i) \notin {"at", ";", "eof"}
  /\ LET e == Find(i, {";"}) IN
     Emit1(DeclItem(SubSeq(toks, i, e - 1)), IF e > Len(toks) THEN e ELSE e + 1)

\* 5.3.6 parse a declaration (the whole input is one declaration)
ParseOneDeclaration ==
  /\ phase = "run" /\ Entry = "onedecl" /\ i = 1 /\ res = <<>>
  /\ LET p == SkipWs(1) IN
     IF p > Len(toks) THEN Emit1([k |-> "error"], Len(toks) + 1)
     ELSE Emit1(DeclItem(SubSeq(toks, p, Len(toks))), Len(toks) + 1)

\* "consume a block's contents" (CSS nesting): an item that is not white space, ";" or an at-rule is a
\* declaration if it looks like one (ident, optional white space, colon) and otherwise a nested qualified
\* rule with ";" as stop token. It ends at the first top-level ";" or {}-block.
\* When a declaration-looking item meets a {}-block before its ";", Level 3, the current draft and css/parser
\* split the input differently: such scenarios are flagged `lax` and not compared.
DeclLooking(p) == IsIdent(At(p)) /\ At(SkipWs(p + 1)) = ":"
ConsumeBlockItem ==
  /\ phase = "run" /\ Entry = "blocks" /\ ~IsWs(At(i)) /\ At(i) \notin {"at", ";", "eof"}
  /\ IF At(i) = "{}" THEN Emit1([k |-> "qual", np |-> 0], i + 1)
     ELSE LET e == Find(i + 1, {";", "{}"}) IN
          IF At(e) = "{}" THEN Emit1([k |-> "qual", np |-> e - i, lax |-> DeclLooking(i)], e + 1)
          ELSE IF DeclLooking(i) THEN Emit1(DeclItem(SubSeq(toks, i, e - 1)), IF e > Len(toks) THEN e ELSE e + 1)
          ELSE Emit1([k |-> "error"], IF e > Len(toks) THEN e ELSE e + 1)

Finish == /\ phase = "run" /\ i > Len(toks) /\ (Entry = "onedecl" => res # <<>>)
          /\ phase' = "done" /\ UNCHANGED <<toks, i, res>>

Next == TopWs \/ DropCDx \/ DropSemicolon \/ ConsumeAtRule \/ ConsumeQualifiedRule
        \/ ConsumeDeclaration \/ ParseOneDeclaration \/ ConsumeBlockItem \/ Finish
Spec == Init /\ [][Next]_vars

---------------------------------------------------------------------------
\* every action consumes at least one token (termination) and never moves backwards
Progress == [][phase = "run" /\ phase' = "run" => (i' > i \/ (toks = <<>> /\ Len(res') > Len(res)))]_vars
\* exactly one construct starts at every cursor position: the consumers never overlap
Deterministic == (phase = "run" /\ i <= Len(toks) /\ ~(Entry = "onedecl" /\ res # <<>>)) =>
   Cardinality({a \in {"ws", "cdx", "semi", "at", "qual", "decl", "one", "item"} :
      CASE a = "ws"   -> ENABLED TopWs
        [] a = "cdx"  -> ENABLED DropCDx
        [] a = "semi" -> ENABLED DropSemicolon
        [] a = "at"   -> ENABLED ConsumeAtRule
        [] a = "qual" -> ENABLED ConsumeQualifiedRule
        [] a = "decl" -> ENABLED ConsumeDeclaration
        [] a = "one"  -> ENABLED ParseOneDeclaration
        [] a = "item" -> ENABLED ConsumeBlockItem}) = 1
\* a valid construct is never swallowed by a preceding invalid one: the number of declarations found
\* is at least the number of ";"-separated chunks that are well-formed on their own
Chunks == LET semis == {p \in 1..Len(toks) : toks[p] = ";"} IN Cardinality(semis) + 1
NoSwallow == (phase = "done" /\ Entry = "decls" /\ ~\E p \in 1..Len(toks) : toks[p] = "at")
   => Len(SelectSeq(res, LAMBDA r : r.k \in {"decl", "error"})) <= Chunks

EmitP == phase = "done" => PrintT(ToJson([entry |-> Entry, toks |-> toks, res |-> res]))
=============================================================================
