CONSTANTS
  MaxLen = 4
  Entry = "decls"
  Family = "full"
INIT Init
NEXT Next
INVARIANTS Deterministic NoSwallow EmitP
PROPERTIES Progress
CHECK_DEADLOCK FALSE
