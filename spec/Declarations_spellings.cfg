CONSTANTS
  Mode = "spellings"
SPECIFICATION Spec
INVARIANTS NoRepeat MachineAgrees Emit
PROPERTIES Terminates
CHECK_DEADLOCK FALSE
