HOOKS = {
    "guard": "verif",
    "enable": "go build -tags verif (the harness module /verif/harness replaces github.com/benoitkugler/webrender by /repo)",
    "baseline_off_cmd": "bin/baseline_off",
    "source_commits": [],
    "add_only": True,
}
ENGINES = [
    {"name": "tlc", "path": "/opt/veriftools/tla/tla2tools.jar", "kind_free_text": "TLC model checker: design checks, exhaustive/simulated scenario generation, trace validation",
     "serves_properties": []},
    {"name": "vdrive", "path": "/verif/harness/cmd/vdrive", "kind_free_text": "Go conformance harness built against /repo (-tags verif): replays TLC scenarios into the real code, records traces",
     "serves_properties": []},
]
NOTES = ("Every check = TLA+ specification under spec/ checked by TLC + conformance binding to the real code "
         "(scenario replay and/or trace validation). Exit 0 held / 1 VIOLATION / 2 machinery failure. "
         "known_findings.json lists genuine defects (known / fixed).")
NOT_APPLICABLE = {}
CHECKS = {
    "C17": {
        "level": "model_checking",
        "technique": "TLA+ spec (Transform.tla) model-checked by TLC; every TLC state replayed into the real code (scenario replay conformance)",
        "text": "TLC exhaustively explores the list-composition state machine (all transform lists up to length 2, thorough: simulated length 3, "
                "x transform-origin forms) and the group laws on a bounded matrix universe; every explored state is replayed into webrender "
                "(HTML box -> backend Transform argument, SVG element, matrix API) and must produce the specification's matrix.",
        "note": "Exact only for angles that are multiples of 90deg/45deg and integral lengths (Int arithmetic in TLA+); trusts TLC, the recording backend and the 1e-4 tolerance.",
    },
}
