HOOKS = {
    "guard": "verif",
    "enable": "go build -tags verif (the harness module /verif/harness replaces github.com/benoitkugler/webrender by /repo)",
    "baseline_off_cmd": "bin/baseline_off",
    "source_commits": ["38cf8a4", "de761b4", "a8a0f08", "a5d27d7"],
    "add_only": True,
}
ENGINES = [
    {"name": "tlc", "path": "/opt/veriftools/tla/tla2tools.jar", "kind_free_text": "TLC model checker: design checks, exhaustive/simulated scenario generation, trace validation",
     "serves_properties": []},
    {"name": "vdrive", "path": "/verif/harness/cmd/vdrive", "kind_free_text": "Go conformance harness built against /repo (-tags verif): replays TLC scenarios into the real code, records traces",
     "serves_properties": []},
]
NOTES = ("Every check = TLA+ specification under spec/ checked by TLC + conformance binding to the real code "
         "(scenario replay and/or trace validation). Exit 0 held / 1 VIOLATION / 2 machinery failure. "
         "known_findings.json lists genuine defects (known / fixed).")
NOT_APPLICABLE = {}
CHECKS = {
    "C01": {
        "level": "model_checking",
        "technique": "TLA+ specs PageLoop.tla (the page loop layoutDocument / makeAllPages / remakePage with its progress argument: invariants IndexSafe, NoTwoBlanks, PagesBound, Progress, LoopBound, liveness Terminates; the variant without progress guarantee must fail) and Docs.tla (document generator: trees of feature bundles x page geometries x prologues x extras; Invalid/Twin) model-checked by TLC; every generated document rendered by the real code under pango/go-text and hints on/off in watchdog-supervised workers with the page-loop hooks (build tag verif) recording one event per step and enforcing a page budget; every render validated as a trace by TLC (RenderTrace.tla: events bound to the actions of PageLoop.tla, contract Call -> Parsed -> page loop -> Laid -> Drawn -> Return, no action for Panic / Fatal / Timeout / PageBudget); documents with an Invalid bundle must produce the backend calls of their Twin",
        "text": "TLC proves on the bounded model that the page loop ends (every non-blank page advances the resume point or takes a footnote, blank pages alternate, rounds are bounded) and never indexes a page that does not exist; "
                "TLC enumerates the documents; every real render must be a behaviour of the render contract whose page steps are steps of the model, i.e. it must return.",
        "note": "Exhaustive over 118 feature bundles x 1 node x 6 geometries x 4 prologues, 2-node documents, seeded simulations of 3..8 nodes; thorough tier adds 3-node documents over the core bundles and byte-level mutants. "
                "Known findings (running elements in flex/grid, footnote corner cases, wavy decoration on astronomically wide lines) are listed in known_findings.json.",
    },
    "C07": {
        "level": "exploration",
        "technique": "TLA+ spec Inputs.tla (fragment alphabets per family of entry points, exhaustive enumeration of bounded sequences by TLC; contract automaton Call -> Return with liveness AlwaysReturns) ; every input given to the real parsing entry points inside recover in watchdog-supervised worker processes; outcome records validated by TLC (ContractTrace.tla)",
        "text": "TLC enumerates every bounded fragment sequence of 12 families; each is joined and passed to the selector, validator/expander (all property names), "
                "descriptor, @page/@media, colour, an+b, SVG path/attribute, URL and HTML attribute readers; any panic, process death or time-out is a violation.",
        "note": "Exploration level: exhaustive only within the stated alphabets and lengths.",
    },
    "C15": {
        "level": "model_checking",
        "technique": "TLA+ spec Render.tla (N renders x phases with per-render contexts and read-only globals; invariants Isolation/Deterministic/GlobalsUnchanged; SharedCache variant must fail) model-checked by TLC; every behaviour replayed as a goroutine schedule in a -race build of the harness, digests of the recorded backend calls compared with fresh-process renders; repeated renders of TLC-generated documents",
        "text": "TLC enumerates the interleavings of the phases of concurrent renders and proves isolation on the model; the schedules are executed on real goroutines "
                "under the race detector and every render must reproduce the calls of a lone fresh-process render of its document.",
        "note": "Pool of 8 documents + Flow.tla documents; schedule = order of phase starts; race reports are verdicts.",
    },
    "C14": {
        "level": "model_checking",
        "technique": "TLA+ spec Backend.tla (outline builder AddBookmark as a transition system vs declarative Outline, anchors/links expectations; drawing protocol Proto as a folded transition function) and Metadata.tla (collecting title/meta as a transition system) model-checked by TLC; link and metadata documents replayed and compared call by call; backend call sequences recorded from document.Write validated as traces by TLC (BackendTrace.tla) on Decor/Flow/TableGrid/Stacking/link documents at three zooms",
        "text": "TLC proves the outline algorithm equals the declarative outline and never hits its internal panic, and emits anchors/links/outline expectations; "
                "the real CreateAnchors/AddInternalLink/SetBookmarks/metadata calls must match, and every recorded call sequence must satisfy the protocol guards.",
        "note": "Recording backend; no images/SVG in the corpus; CreateAnchors order within a page is not compared here.",
    },
    "C16": {
        "level": "model_checking",
        "technique": "TLA+ spec Stacking.tla (CSS 2.1 Appendix E painter as a stack machine, declarative Order, invariants Agree/Once/BgFirst/Layering/Atomic, liveness) model-checked by TLC; every arrangement rendered on the recording backend and the order of fills and text drawings compared with the specification's event sequence",
        "text": "TLC proves on every bounded tree that the stack machine emits the declarative Appendix E order and that contexts are atomic and layered, and emits "
                "the paint order; the real drawing must fill the boxes' backgrounds and draw their words in that order.",
        "note": "One background + one word per box; two known findings (overflow:hidden boxes are stacking contexts; a positioned float in a line is painted after a later sibling).",
    },
    "C09": {
        "level": "model_checking",
        "technique": "TLA+ spec BoxTree.tla (element-tree builder, declarative WellFormed/Failures, reference generator Raw/IIB/BII with TLC-checked invariant GenWellFormed) model-checked by TLC; every tree built by the real cascade + boxes.BuildFormattingStructure, compared with the reference generator on the block/inline subset, and every real box tree validated as a trace by TLC (BoxTreeTrace.tla)",
        "text": "TLC enumerates element trees, proves that the reference generator satisfies the clauses, and validates every real box tree against "
                "WellFormed (block containers, line/inline boxes, table wrapper and parts, flex/grid items, display:none, shared slots).",
        "note": "<div>-only documents, style attributes; replaced elements' children and pseudo-elements are not in the alphabet.",
    },
    "C13": {
        "level": "model_checking",
        "technique": "TLA+ spec TableGrid.tla (slot assignment PlaceCell/NextRow/Finish with rowspan clamp and fixed-layout cut; declarative GridConsistent) model-checked by TLC; every table laid out by layout.Layout, slot assignment compared, and the real geometry validated as a trace by TLC against GridConsistent (TableGridTrace.tla)",
        "text": "TLC explores the slot assignment on every bounded table (invariants InRow, RowOrder, StartFree, SharedOnlyByRunningInto; liveness Terminates) and "
                "emits tables with their slots; the real GridX/colspan/rowspan must agree and the real columns, rows and cell rectangles must satisfy every clause of GridConsistent.",
        "note": "LTR, single row group, no page break inside the table; known findings: border-spacing of columns without originating cell not counted in the table width; one width-distribution corner case.",
    },
    "C02": {
        "level": "model_checking",
        "technique": "TLA+ spec Flow.tla (non-deterministic fragmenter with blank pages and floats inside paragraphs; invariant Conserves = every behaviour satisfies the declarative statement Accept) model-checked by TLC; TLC-generated documents laid out and drawn by the real code, the real page token sequences validated as traces by TLC (FlowTrace.tla, PaginationTrace.tla), drawn tokens compared with laid-out tokens on the same run (hook VerifPageBox)",
        "text": "TLC proves on the model that conservation does not depend on where pages break, generates documents over 14 kinds of items, and "
                "validates every real page sequence against Accept; each laid-out token must reach DrawText exactly once on its page.",
        "note": "Unique word tokens, box-tree order per page; crashing documents are left to C01; known findings: table header/footer dropped on tiny pages, "
                "remainder of a broken float/absolute box lost after the last page, and others listed in known_findings.json.",
    },
    "C12": {
        "level": "model_checking",
        "technique": "TLA+ spec Pagination.tla (page maker RemakePage/InsertBlank/Finish with the CSS Fragmentation rule-dropping tiers) model-checked by TLC; every document laid out by layout.Layout, geometry/page types/counters compared, and the real page sequences validated as traces by TLC against PaginationTrace.tla",
        "text": "TLC explores the page maker on every bounded flow of paragraphs (invariants Refines, SideHonoured, FitsPage, NoTwoBlanks, Conservation; "
                "properties Progress, Terminates) and emits documents; the real page boxes must have the declared size, side margins, :first/:blank "
                "selection and page/pages counters, and every real page sequence must be a behaviour of the specification's relaxed page maker.",
        "note": "LTR, <br>-separated non-wrapping lines of equal height, no named pages / floats / tables; where no conforming break exists any break of the first non-empty tier is accepted.",
    },
    "C11": {
        "level": "model_checking",
        "technique": "TLA+ specs LineBreak.tla (greedy line filler as a transition system with Conservation/FitsWidth/Greedy invariants) and LineHeight.tla (aligned subtrees of vertical-align top/bottom measured through a growing worklist; AllDiscovered/ContentsFit) model-checked by TLC; every paragraph laid out by layout.Layout with a metric-exact font under both text engines",
        "text": "TLC explores the filler on every bounded paragraph, proving the three line-breaking clauses and termination on the model and emitting "
                "words and geometry per line; the real layout must produce the same lines, positions, widths and heights (pango exact, go-text 0.05px).",
        "note": "LTR, 1em-per-glyph font, no hyphenation/spacing/floats; two known findings (inline-box break rules; go-text pre-line).",
    },
    "C10": {
        "level": "model_checking",
        "technique": "TLA+ spec BlockLayout.tla (used widths of CSS 2.1 10.3.3/10.4, margin collapsing 8.3.1 as recursive operators with TLC-checked equations) model-checked by TLC; every scenario laid out by layout.Layout and compared at 1/64 px",
        "text": "TLC enumerates all horizontal value combinations and all forests of <= 2 nested blocks (simulation beyond), checks the width equation and "
                "height sanity on the specification's own results, and emits the integer geometry; the real layout must reproduce it for every box.",
        "note": "LTR, integer lengths, no floats/clearance; two known findings (over-constrained margin-right not recomputed; through-collapsed first child).",
    },
    "C08": {
        "level": "model_checking",
        "technique": "TLA+ spec Declarations.tla (var() substitution stack machine vs declarative value; block, shorthand and spelling tables) model-checked by TLC; every scenario replayed through validation.PreprocessDeclarations / computed styles",
        "text": "TLC proves termination and correctness of the substitution machine on all graphs of three custom properties (cycles included) and "
                "enumerates blocks with invalid members, shorthand forms and spelling variants with the meaning CSS assigns; the real code must "
                "compute the same value for the probe element in every scenario.",
        "note": "Literal fallbacks only; a handful of probe properties; font/background/grid/border-image/border-radius shorthands have no expansion oracle.",
    },
    "C04": {
        "level": "model_checking",
        "technique": "TLA+ spec Defaulting.tla (CSS defaulting vs lazy Get with cache, all access orders) model-checked by TLC; every kind assignment replayed on every supported property through tree.GetAllComputedStyles",
        "text": "TLC explores all interleavings of lazy Gets over all kind assignments and proves order independence and totality of the model; the "
                "harness instantiates each assignment with all 177 properties in three access orders and requires the computed values to fall into "
                "the specification's classes (inherit / initial / none / explicit), with the inherited set and ~95 initial values pinned in the "
                "specification; unit ratios, em/rem/% font-size chains and bolder/lighter chains are compared with integers computed in TLA+.",
        "note": "Context-free explicit values only; ex/ch not generated; a few private pseudo-properties only checked for totality; UA sheet emptied.",
    },
    "C18": {
        "level": "model_checking",
        "technique": "TLA+ specs SvgPath.tla (path interpreter transition system, arc/shape/viewport geometry) and SvgRefs.tla (reference walk with active set) model-checked by TLC; every terminal state replayed through svg.Parse + Draw on a recording canvas",
        "text": "TLC enumerates command sequences, arcs, shapes, viewports and reference graphs with the operations / geometry SVG requires, checking "
                "CurIsLastEnd, StartsWithMove, NoSelfNesting, DepthBound and termination; the real parser and drawer must emit the same MoveTo/LineTo/"
                "CubicTo/ClosePath/Rectangle sequence (all number syntaxes), curves lying on the named ellipses, the specified viewport transform, and "
                "must terminate on every reference graph.",
        "note": "Integer coordinates; curve accuracy checked at sample points only; no rotated ellipses; simulated (not exhaustive) beyond 2 commands.",
    },
    "C19": {
        "level": "model_checking",
        "technique": "TLA+ specs CounterScopes.tla (declarative scopes vs stack algorithm) and CounterStyles.tla (representation generator as a transition system) model-checked by TLC; every terminal state replayed into html/boxes and css/counters",
        "text": "TLC checks on every tree of N elements x counter operations that the stack-and-scope algorithm observes exactly the instances the CSS "
                "scoping rules define (Agree), and that the counter-representation machine terminates through any extends/fallback graph; the real "
                "code must show the same counters() text / markers in the box tree and print the same representation for every style and value.",
        "note": "Bounded trees, values -4..9 (+ landmark values for predefined styles), single-character symbols; one known finding (single-tuple additive style rejected, pinned by an existing test).",
    },
    "C03": {
        "level": "model_checking",
        "technique": "TLA+ spec Cascade.tla (declarative Winner vs implementation-shaped insertion machine) model-checked by TLC; every scenario materialised as a real document and replayed through tree.GetAllComputedStyles",
        "text": "TLC checks for every list of <= 2 (thorough: simulated 3) competing occurrences that the insertion loop of style.go, as modelled, "
                "leaves the CSS winner in the slot (ImplCorrect, PrefixMax), and emits the winner; the harness materialises every carrier "
                "(UA/user sheets, <style>, <link>, @import early/late, @media print/screen, nested rule, style attribute, presentational hint, "
                "non-matching decoys) and compares the computed value of the probe element.",
        "note": "One probe property/element; UA !important not generated; the model constants StyleAttrSpec/NestedBeforeOwn mirror the code and must be kept in step with it.",
    },
    "C05": {
        "level": "model_checking",
        "technique": "TLA+ spec Selectors.tla (declarative Matches vs right-to-left candidate-set state machine) model-checked by TLC; every (tree, selector) state replayed into css/selector",
        "text": "TLC enumerates every (DOM tree, selector) pair of six bounded families, checks in each that the implementation-shaped right-to-left "
                "evaluation equals the declarative Selectors relation, and emits the required match vector and specificity; the real ParseGroup/Match/"
                "Specificity/PseudoElement/String are compared on every node, before and after printing the selector back.",
        "note": "Bounded tree size and selector depth; root element excluded for structural pseudo-classes; :link/:lang/:enabled/:disabled/:checked not modelled.",
    },
    "C06": {
        "level": "model_checking",
        "technique": "TLA+ specs CssSyntax.tla (tokenizer transition system) and CssParse.tla (rule/declaration cursor machine) model-checked by TLC; every terminal state replayed into css/parser and compared token by token",
        "text": "TLC enumerates every input string of six alphabet families (up to 245k strings of length <= 4 in the main family) and every abstract "
                "token sequence per parser entry point, checking tiling/balance/progress/determinism invariants in each state; each terminal state "
                "carries the complete token stream (types, unescaped values, numeric parts, flags, nesting, error kinds, start offsets) resp. the "
                "result list (construct kinds and extents, !important), and the real tokenizer/parsers must reproduce it exactly.",
        "note": "Bounded length/alphabets; three named deviations of the tinycss2 port are part of the spec; ParseBlocksContents (nesting), ParseNth and ParseColorString are not modelled; H1 accessor hook exposes private flags.",
    },
    "C20": {
        "level": "model_checking",
        "technique": "TLA+ spec CssSyntax.tla generates inputs; real Serialize output is validated by TLC (CssRoundTrip.tla trace validation: spec tokenizer on both texts) and by replay against the spec's tokens",
        "text": "For every error-free input of the CssSyntax families the real tokens are serialized by parser.Serialize; the serialisation is "
                "(B1) re-tokenized by the real tokenizer and compared with the specification's tokens of the original, and (B2) written to an "
                "ndjson trace that TLC validates with the specification's own tokenizer (independent of the code under test).",
        "note": "Bounded inputs; rule/declaration serializers covered only through their token lists; comments and positions ignored as the property states.",
    },
    "C17": {
        "level": "model_checking",
        "technique": "TLA+ spec (Transform.tla) model-checked by TLC; every TLC state replayed into the real code (scenario replay conformance)",
        "text": "TLC exhaustively explores the list-composition state machine (all transform lists up to length 2, thorough: simulated length 3, "
                "x transform-origin forms) and the group laws on a bounded matrix universe; every explored state is replayed into webrender "
                "(HTML box -> backend Transform argument, SVG element, matrix API) and must produce the specification's matrix.",
        "note": "Exact only for angles that are multiples of 90deg/45deg and integral lengths (Int arithmetic in TLA+); trusts TLC, the recording backend and the 1e-4 tolerance.",
    },
}
