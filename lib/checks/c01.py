"""C01 — rendering any document terminates without crashing (spec/Docs.tla, spec/PageLoop.tla, spec/RenderTrace.tla).

TLC, design level: PageLoop.tla is the page loop of html/layout (layoutDocument / makeAllPages / remakePage) with its
progress argument; TLC checks IndexSafe, NoTwoBlanks, PagesBound, Progress, LoopBound and the liveness property Terminates
on three bounded configurations, and that PagesBound FAILS when the progress guarantee is switched off (non-vacuity).
TLC, generation: Docs.tla enumerates every document of <= MaxNodes elements over an alphabet of 118 feature bundles x page
geometries (incl. degenerate ones) x prologues x document-level extras; larger documents by seeded simulation.
Binding: every document is rendered by the real code (tree.NewHTML, document.Render, Document.Write on the recording
backend) under pango / go-text and presentational hints on / off, in watchdog-supervised worker processes, with the page-loop
hooks (build tag verif) recording one event per step of the page loop and enforcing a page / round budget. Every render is a
trace record that TLC validates with RenderTrace.tla: the events are bound to the actions of PageLoop.tla, the contract is
Call -> Parsed -> page loop -> Laid -> Drawn -> Return, and there is no action for Panic, Fatal, Timeout, PageBudget.
A record that the specification rejects and that did not return is a violation; documents with an Invalid bundle must
produce the backend calls of their Twin.
Thorough tier: byte-level mutants (seeded) of the generated documents and of the HTML / CSS / SVG files of resources_test.
"""
import collections
import glob
import json
import os
import random
import re
from vlib import MachineryError, REPO

DESIGN = [
    # name, constants, expected
    ("one-round", dict(N=2, F=1, MaxLoops=1, Force="TRUE", MaxPages=100, Chgs="{FALSE}"), True),
    ("repagination", dict(N=2, F=0, MaxLoops=3, Force="TRUE", MaxPages=100, Chgs="{FALSE, TRUE}"), True),
    ("repagination-footnotes", dict(N=1, F=1, MaxLoops=2, Force="TRUE", MaxPages=100, Chgs="{FALSE}"), True),
]
DESIGN_THOROUGH = [("one-round-3", dict(N=3, F=1, MaxLoops=1, Force="TRUE", MaxPages=100, Chgs="{FALSE}"), True)]
PL_CFG = """CONSTANTS
  N = %(N)s
  F = %(F)s
  MaxLoops = %(MaxLoops)s
  Force = %(Force)s
  RemakeMissing = TRUE
  MaxPages = %(MaxPages)s
  Chgs = %(Chgs)s
  NoPos = 0
  Less <- IntLess
SPECIFICATION Spec
INVARIANTS TypeOK IndexSafe NoTwoBlanks PagesBound Progress LoopBound
PROPERTIES Terminates
CHECK_DEADLOCK FALSE
"""
DOCS_CFG = """CONSTANTS
  MaxNodes = %d
  Set = "%s"
  Geoms = {%s}
  Pros = {%s}
  Extras = {%s}
%s
INVARIANTS TypeOK TwinsValid %s
CHECK_DEADLOCK FALSE
"""
ALLG = ["normal", "tiny", "zero", "bigmargin", "first", "default"]
ALLP = ["none", "doctype", "comment", "xml"]
ALLX = ["none", "margins", "rootbrk", "rootpos", "huge", "star", "allinit"]


def q(xs):
    return ", ".join('"%s"' % x for x in xs)


def bundles_of(scn):
    if scn.get("raw"):
        return "mutant:" + scn.get("name", "")
    return "+".join(sorted(set(n["b"] for n in scn.get("nodes", []))))


KNOWN_LIVELOCKS = []   # bundle sets of the known page-loop livelocks (from known_findings.json, set by run())
KNOWN_HANGS = []       # bundle sets (with page= / extra= members) of the known hangs of generated documents


def features(scn):
    fs = set(n["b"] for n in scn.get("nodes") or [])
    if scn.get("extra", "none") != "none":
        fs.add("extra=" + scn["extra"])
    if scn.get("page") in ("zero", "bigmargin"):
        fs.add("page=" + scn["page"])
    return fs


def rekey(r):
    """Keys of process-level verdicts (time-out, fatal error) name the running function; a page-loop livelock is named by
    the bundles of its document (the smallest listed culprit set it contains, else all its bundles)."""
    k = r["key"]
    d = r.get("detail")
    if k.startswith("C01:page-loop-livelock"):
        scn = d.get("scenario") if isinstance(d, dict) else None
        if isinstance(scn, dict) and scn.get("nodes"):
            bs = set(n["b"] for n in scn["nodes"])
            for ks in KNOWN_LIVELOCKS:
                if ks <= bs:
                    return "C01:page-loop-livelock:" + "+".join(sorted(ks))
            return "C01:page-loop-livelock:" + "+".join(sorted(bs))
        return k
    if k.startswith("memory:"):
        k = "timeout:" + k[len("memory:"):]     # (a computation that exhausts the memory is a computation that does not end)
    if k.startswith("timeout:") and isinstance(d, dict) and d.get("nodes") and not nested_footnotes(d):
        # a slow or endless computation has no stable running function: it is named by the features of its document
        fs = features(d)
        for ks in KNOWN_HANGS:
            if ks <= fs:
                return "C01:hang:doc:" + "+".join(sorted(ks))
        return "C01:hang:doc:" + "+".join(sorted(fs))
    if k.startswith("timeout:") or k.startswith("fatal:"):
        if isinstance(d, dict) and nested_footnotes(d):
            # (the running function of this unbounded recursion differs from run to run: the finding is named by its input)
            return "C01:hang-or-stack-overflow:footnote-inside-a-footnote"
        if k.startswith("timeout:"):
            return "C01:hang:" + k[len("timeout:"):]
        return "C01:fatal:" + k[len("fatal:"):]
    if k.startswith("C01:") and isinstance(d, dict) and isinstance(d.get("scenario"), dict) and nested_footnotes(d["scenario"]):
        return "C01:hang-or-stack-overflow:footnote-inside-a-footnote"
    return k


def nested_footnotes(scn):
    ns = scn.get("nodes") or []
    for k, n in enumerate(ns):
        if not n["b"].startswith("footnote"):
            continue
        p = n["p"]
        while p > 0:
            if ns[p - 1]["b"].startswith("footnote"):
                return True
            p = ns[p - 1]["p"]
    return False


MUT_TOKENS = ["<div>", "</div>", "<table>", "<td>", "</table>", "<span style=\"float:footnote\">", "<svg>", "</svg>", "<!--", "-->", "<style>", "</style>", "{", "}", ";", ":", "(", ")",
              "display:grid", "display:flex", "position:absolute", "float:left", "columns:2", "break-before:page", "height:1e9px", "width:-1px", "font-size:0", "\x00", "\xff",
              "&#0;", "&#x110000;", "<![CDATA[", "]]>", "@page{", "@media", "!important", "var(--a)", "--a:var(--a)", "calc(", "url(", "\"", "'", "\\", "content:counter(", "<li>", "<tr>",
              "<img src=x>", "<use href=\"#a\"/>", "id=\"a\"", "1e400", "-", "%", "counter-reset:", "page:", "@import", "<base href=", "<meta charset=utf-16>", "<col span=0>",
              "rowspan=0", "colspan=0", "dir=rtl", "‮", "‍", "퟿"]


def mutate(rng, s):
    s = list(s) if False else s
    for _ in range(rng.randint(1, 4)):
        op = rng.randint(0, 5)
        n = len(s)
        if n == 0:
            s = rng.choice(MUT_TOKENS)
            continue
        a = rng.randrange(n)
        b = min(n, a + rng.randint(1, 1 + min(40, n // 4 + 1)))
        if op == 0:
            s = s[:a] + s[b:]
        elif op == 1:
            s = s[:a] + s[a:b] * rng.randint(2, 3) + s[b:]
        elif op == 2:
            s = s[:a] + rng.choice(MUT_TOKENS) + s[a:]
        elif op == 3:
            s = s[:a] + rng.choice(MUT_TOKENS) + s[b:]
        elif op == 4:
            c = rng.randrange(n)
            s = s[:a] + s[c:min(n, c + (b - a))] + s[b:]
        else:
            s = s[:a]  # truncation
    return s


def run(ctx):
    thorough = ctx.tier == "thorough"
    cov = {}
    design = {}
    # ---- design level
    for name, consts, _ in DESIGN + (DESIGN_THOROUGH if thorough else []):
        res = ctx.tlc("PageLoop", None, workers=16, cfg_text=PL_CFG % consts, timeout=1800, heap_gb=8, coverage=False)
        design[name] = res.as_dict()
        os.remove(res.out_path)
    nf = ctx.tlc("PageLoop", "PageLoop_noforce.cfg", workers=4, timeout=600, allow_violation=True)
    if "PagesBound" not in nf.violated:
        raise MachineryError("non-vacuity: PageLoop without the progress guarantee must violate PagesBound, TLC says %s" % nf.violated)
    design["no-progress-guarantee"] = {"violates": "PagesBound", **nf.as_dict()}
    pf = ctx.tlc("PageLoop", "PageLoop_prefix.cfg", workers=8, timeout=600, allow_violation=True)
    if "IndexSafe" not in pf.violated:
        raise MachineryError("PageLoop with the unrepaired makeAllPages (RemakeMissing = FALSE) must violate IndexSafe, TLC says %s" % pf.violated)
    design["makeAllPages-before-repair"] = {"violates": "IndexSafe", **pf.as_dict()}
    os.remove(pf.out_path)
    ctx.states -= pf.distinct
    os.remove(nf.out_path)
    ctx.states -= nf.distinct

    # ---- documents
    runs = []  # (name, scn file, count, vdrive args)
    EXH = "SPECIFICATION Spec"
    SIM = "INIT Init\nNEXT NextSim"

    def gen(name, maxn, bset, geoms, pros, extras, simulate=None, args=()):
        if simulate:
            res = ctx.tlc("Docs", None, workers=8, cfg_text=DOCS_CFG % (maxn, bset, q(geoms), q(pros), q(extras), SIM, "EmitFull"), simulate="num=%d" % max(1, simulate // 8), depth=maxn + 2, timeout=3000,
                          seed=ctx.seed if thorough else 1)
        else:
            res = ctx.tlc("Docs", None, workers=16, cfg_text=DOCS_CFG % (maxn, bset, q(geoms), q(pros), q(extras), EXH, "EmitAll"), timeout=3000, heap_gb=12)
        scn, cnt, first = ctx.scenario_lines(res)
        os.remove(res.out_path)
        if cnt == 0:
            raise MachineryError("no document generated (%s)" % name)
        # TLC's workers print in a varying order: sort, so that the configuration a document is rendered under (-rotate) and
        # the sampled subset (-stride) do not vary from run to run
        lines = sorted(set(open(scn).read().splitlines()))
        with open(scn, "w") as f:
            f.write("\n".join(lines) + "\n")
        cnt = len(lines)
        ctx.samples.extend(first[-1:])
        runs.append((name, scn, cnt, list(args)))

    if not thorough:
        gen("all-1-node-all-geometries-prologues", 1, "all", ALLG, ALLP, ["none"], args=["-cfgs", "pango,gotext+hints,pango+hints+fullua,gotext"])
        gen("all-1-node-extras", 1, "all", ["normal", "tiny"], ["none"], ALLX[1:], args=["-cfgs", "pango,gotext+hints"])
        gen("frag-2-nodes", 2, "frag", ["tiny", "first"], ["none"], ["none"], args=["-cfgs", "pango,gotext+hints", "-rotate"])
        gen("all-2-nodes-sample", 2, "all", ["normal", "zero"], ["none"], ["none"], args=["-cfgs", "pango,gotext+hints", "-rotate", "-stride", "4"])
        gen("sim-3-nodes", 3, "all", ALLG, ALLP, ALLX, simulate=1500, args=["-cfgs", "pango,gotext+hints", "-rotate"])
        gen("sim-5-nodes", 5, "all", ALLG, ["none"], ALLX, simulate=1500, args=["-cfgs", "pango,gotext+hints", "-rotate"])
    else:
        gen("all-1-node-everything", 1, "all", ALLG, ALLP, ALLX, args=["-cfgs", "pango,gotext+hints,pango+hints+fullua,gotext"])
        gen("all-2-nodes", 2, "all", ["normal", "tiny", "zero", "bigmargin", "first"], ["none"], ["none"], args=["-cfgs", "pango,gotext+hints", "-rotate"])
        gen("frag-2-nodes-both-engines", 2, "frag", ["tiny", "first", "default"], ["none"], ["none", "margins"], args=["-cfgs", "pango+hints,gotext"])
        gen("core-3-nodes", 3, "core", ["tiny", "first"], ["none"], ["none"], args=["-cfgs", "pango,gotext+hints", "-rotate"])
        for n, num in ((3, 20000), (4, 20000), (6, 15000), (8, 8000)):
            gen("sim-%d-nodes" % n, n, "all", ALLG, ALLP, ALLX, simulate=num, args=["-cfgs", "pango,gotext+hints", "-rotate"])

    # ---- byte-level mutants (thorough)
    if thorough:
        rng = random.Random(ctx.seed)
        bases = []
        for f in sorted(glob.glob(os.path.join(REPO, "resources_test", "*.html")) + glob.glob(os.path.join(REPO, "resources_test", "*.svg"))):
            try:
                t = open(f, "rb").read().decode("utf-8", "replace")
            except Exception:
                continue
            if len(t) > 60000:
                continue
            if f.endswith(".svg"):
                t = "<html><body>" + t[t.find("<svg"):] + "</body></html>"
            bases.append((os.path.basename(f), t))
        css = [open(f, "rb").read().decode("utf-8", "replace") for f in sorted(glob.glob(os.path.join(REPO, "resources_test", "*.css")))]
        for k, c in enumerate(css):
            bases.append(("css%d" % k, "<html><head><style>" + c[:20000] + "</style></head><body><h1>a</h1><p>b <em>c</em></p><table><tr><td>d</td></tr></table><ul><li>e</ul></body></html>"))
        # materialised generator documents
        last = runs[-1][1]
        lines = open(last).read().splitlines()
        for k in range(0, len(lines), max(1, len(lines) // 400)):
            rc, out = ctx.vdrive(["c01show", lines[k]], check=True)
            bases.append(("gen%d" % k, out.strip()))
        mut = os.path.join(ctx.scratch, "mutants.ndjson")
        nm = 0
        with open(mut, "w") as f:
            for name, t in bases:
                for j in range(60 if name.startswith("gen") else 300):
                    f.write(json.dumps({"raw": mutate(rng, t), "name": name, "nodes": [], "page": "normal", "pro": "none", "extra": "none"}) + "\n")
                    nm += 1
        runs.append(("byte-mutants", mut, nm, ["-cfgs", "pango+fullua,gotext+hints", "-rotate"]))

    # ---- execute + validate
    ctx.rekey = rekey
    del KNOWN_LIVELOCKS[:]
    for fk, fv in ctx.findings.items():
        if fk.startswith("C01:page-loop-livelock:") and fv.get("status") == "known":
            KNOWN_LIVELOCKS.append(set(fk[len("C01:page-loop-livelock:"):].split("+")))
    KNOWN_LIVELOCKS.sort(key=len)
    del KNOWN_HANGS[:]
    for fk, fv in ctx.findings.items():
        if fk.startswith("C01:hang:doc:") and fv.get("status") == "known":
            KNOWN_HANGS.append(set(fk[len("C01:hang:doc:"):].split("+")))
    KNOWN_HANGS.sort(key=len)
    tot = collections.Counter()
    for name, scn, cnt, args in runs:
        ver = os.path.join(ctx.scratch, "ver_%s.ndjson" % name)
        rec = os.path.join(ctx.scratch, "trace_%s.ndjson" % name)
        # (the quick tier is reproducible: its sampled families do not depend on VERIF_SEED; the thorough tier varies them)
        ctx.vdrive(["c01", "-in", scn, "-out", ver, "-timeout", "30s"] + args, timeout=14000, env=None if thorough else {"VERIF_SEED": "1"})
        # a time-out under load is not a verdict: every document that timed out is rendered again, alone (one worker per
        # document, all cores free of other documents), with four times the limit; only if it times out again is it reported
        tmo_lines = []
        kept = []
        with open(ver) as f:
            for line in f:
                if '"key":"timeout' in line:
                    r = json.loads(line)
                    if r.get("kind") == "disagree" and r["key"].startswith("timeout"):
                        kf = ctx.findings.get(rekey(r))
                        if not (kf and kf.get("status") == "known"):   # (a listed hang needs no confirmation)
                            tmo_lines.append(json.dumps(r["detail"]))
                            continue
                kept.append(line)
        slow = 0
        if tmo_lines:
            scn2 = os.path.join(ctx.scratch, "retry_%s.ndjson" % name)
            ver2 = os.path.join(ctx.scratch, "retryver_%s.ndjson" % name)
            with open(scn2, "w") as f:
                f.write("\n".join(tmo_lines) + "\n")
            a2 = [a for a in args if a not in ("-rotate",)]
            if "-stride" in a2:
                k = a2.index("-stride")
                del a2[k:k + 2]
            ctx.vdrive(["c01", "-in", scn2, "-out", ver2, "-timeout", "120s", "-j", str(min(8, len(tmo_lines)))] + a2, timeout=14000)
            again = [l for l in open(ver2) if '"kind":"disagree"' in l]
            slow = len(tmo_lines) - sum(1 for l in again if '"key":"timeout' in l)
            with open(ver, "w") as f:
                f.writelines(kept)
                f.writelines(again)
                f.write(json.dumps({"kind": "summary", "counts": {"timeouts": -slow, "slow-but-returning": slow, "scenarios": slow}}) + "\n")
            tot["slow"] += slow
        # process-level verdicts become trace records too (terminal event Timeout / Fatal)
        extra_recs = []
        abnormal_harness = 0
        with open(ver) as f:
            for line in f:
                if line.startswith('{"kind":"disagree"') or line.startswith('{"detail"'):
                    r = json.loads(line)
                    if r.get("kind") != "disagree":
                        continue
                    if r["key"].startswith("timeout:") or r["key"].startswith("fatal:"):
                        extra_recs.append({"sid": -1, "cfg": "?", "units": 0, "fnotes": 0, "evs": [{"e": "Call", "k": 0, "what": ""}, {"e": "Timeout" if r["key"].startswith("timeout:") else "Fatal", "k": 0, "what": r["key"][:80]}]})
        summ = ctx.consume_verdicts(ver, rec_path=rec)
        c = summ.get("counts", {})
        stride = 1
        if "-stride" in args:
            stride = int(args[args.index("-stride") + 1])
        expected = cnt if stride == 1 else None
        done = c.get("scenarios", 0) + c.get("timeouts", 0)
        if expected is not None and done != expected:
            raise MachineryError("harness processed %d of %d documents (%s)" % (done, expected, name))
        if done == 0:
            raise MachineryError("harness processed no document (%s)" % name)
        with open(rec, "a") as f:
            for r in extra_recs:
                f.write(json.dumps(r) + "\n")
        recs = open(rec).read().splitlines()
        nrec = len(recs)
        accepted = rejected_abn = deviations = 0
        if nrec:
            tres = ctx.tlc_trace("RenderTrace", "RenderTrace.cfg", rec, workers=16, timeout=6000, heap_gb=14)
            ok, bad = set(), {}
            with open(tres.out_path, errors="replace") as f:
                for l in f:
                    m = re.match(r'<<"OK", (\d+)>>', l)
                    if m:
                        ok.add(int(m.group(1)))
                        continue
                    m = re.match(r'<<"BAD", (\d+), (\d+), "(\w+)">>', l)
                    if m:
                        k = int(m.group(1))
                        if k not in bad or bad[k][0] < int(m.group(2)):
                            bad[k] = (int(m.group(2)), m.group(3))
            if len(ok | set(bad)) != nrec:
                raise MachineryError("TLC decided %d of %d trace records (%s)" % (len(ok | set(bad)), nrec, name))
            for k in range(1, nrec + 1):
                if k in ok:
                    accepted += 1
                    last = recs[k - 1].rsplit('{"e":"', 1)[1]
                    if not last.startswith("Return"):
                        raise MachineryError("RenderTrace accepted a render that did not return: %s" % recs[k - 1][:300])
                    continue
                r = json.loads(recs[k - 1])
                last = r["evs"][-1]["e"]
                if last == "Return":
                    # the real code returned, so this is no violation of C01: the model of the page loop does not cover this step
                    deviations += 1
                    if len(ctx.extra.setdefault("page_loop_steps_outside_the_model", [])) < 5:
                        ctx.extra["page_loop_steps_outside_the_model"].append({"event": bad[k][0], "kind": bad[k][1], "record": r})
                else:
                    rejected_abn += 1   # (the harness reported it with its key: panic site, page budget, time-out)
            os.remove(tres.out_path)
        nabn = c.get("disagreements", 0) - sum(v for kk, v in summ.get("per_key", {}).items() if kk.startswith("C01:invalid-construct"))
        cov[name] = {"documents": c.get("documents", 0), "renders": c.get("renders", 0), "pages": c.get("pages", 0), "blank_pages": c.get("blank-pages", 0), "kept_pages": c.get("kept-pages", 0),
                     "repagination_rounds": c.get("repagination-rounds", 0), "refused": c.get("refused", 0), "twin_renders": c.get("twin-renders", 0), "twin_equal": c.get("twin-equal", 0),
                     "trace_records": nrec, "accepted_by_RenderTrace": accepted, "rejected_did_not_return": rejected_abn, "returned_but_outside_the_model": deviations,
                     "timeouts": c.get("timeouts", 0), "slow_but_returning": c.get("slow-but-returning", 0), "process_deaths": c.get("fatals", 0), "panics": sum(v for kk, v in summ.get("per_key", {}).items() if kk.startswith("C01:panic"))}
        for kk in ("documents", "renders", "pages", "twin-renders"):
            tot[kk] += c.get(kk, 0)
        tot["records"] += nrec
        tot["accepted"] += accepted
        tot["deviations"] += deviations
        for p in (ver, rec, scn):
            if os.path.exists(p):
                os.remove(p)
    ctx.traces = tot["records"]
    return ctx.finish("model_checking", {
        "exhaustive": True, "evaluations": tot["renders"], "documents": tot["documents"], "pages": tot["pages"], "design": design, "families": cov,
        "renders_accepted_by_RenderTrace": tot["accepted"], "returned_but_outside_the_model": tot["deviations"],
        "rule": "PageLoop.tla model-checked on three bounded configurations (+ the configuration without progress guarantee, which must fail); every document of Docs.tla within the stated bounds "
                "(all bundles x 1 node x geometries x prologues x extras; 2 nodes; 3 nodes over the core bundles in the thorough tier) and seeded simulations of larger documents, each rendered under the "
                "stated engine / hints configurations; every render validated as a trace",
    }, assumptions=[
        "size-bounded documents over the alphabet of feature bundles of Docs.tla (and, thorough tier, byte-level mutants of them and of resources_test); other documents are not covered",
        "fonts: weasyprint.otf and Ahem from resources_test; no network: only data: URLs and in-memory resources are fetched, other references fail to load (and must be skipped)",
        "a render is abnormal if it panics, kills the worker process (stack overflow, out of memory), does not return within 30 s, makes more than 2*len(document)+16 pages or more than 64 pagination rounds",
        "page steps of returning renders that PageLoop.tla does not allow are counted (returned_but_outside_the_model), not reported",
    ])
