"""X03 (extra coverage, not a listed property) — resolving flexible lengths (spec/Flex.tla).

TLC: the algorithm of CSS Flexbox 1, 9.7 as a transition system (SizeInflexible, then Rounds that distribute the free
space, clamp to min / max and freeze the violators); invariants WithinMinMax, RoundsBounded (a round freezes at least one
item), Exact (unclamped items fill the container), liveness Terminates, on every row of <= MaxItems items over base size
{10, 30} x grow {0, 1, 2} x shrink {0, 1, 2} x min {0, 20} x max {25, none} in containers of 40 and 90 px.
Binding: every row is laid out (empty items with explicit min / max widths) and the used widths must be the specification's
(0.02 px).
"""
import os
from vlib import MachineryError

CFG = """CONSTANTS
  MaxItems = %d
%s
INVARIANTS WithinMinMax RoundsBounded Exact Emit
%s
CHECK_DEADLOCK FALSE
"""


def run(ctx):
    thorough = ctx.tier == "thorough"
    counts = {}
    plan = [("exhaustive-2-items", ctx.tlc("Flex", None, workers=16, cfg_text=CFG % (2, "SPECIFICATION Spec", "PROPERTIES Terminates"), timeout=1800, heap_gb=8))]
    plan.append(("simulated-3-items", ctx.tlc("Flex", None, workers=8, cfg_text=CFG % (3, "INIT InitBuild\nNEXT Next", ""), simulate="num=%d" % (300 if not thorough else 6000), depth=12, timeout=1800)))
    for name, res in plan:
        scn, cnt, first = ctx.scenario_lines(res)
        if cnt == 0:
            raise MachineryError("no scenario generated")
        lines = sorted(set(open(scn).read().splitlines()))
        with open(scn, "w") as f:
            f.write("\n".join(lines) + "\n")
        cnt = len(lines)
        ctx.samples.extend(first[-1:])
        ver = os.path.join(ctx.scratch, "ver_%s.ndjson" % name)
        ctx.vdrive(["x03", "-in", scn, "-out", ver])
        summ = ctx.consume_verdicts(ver)
        c = summ.get("counts", {})
        if c.get("scenarios", 0) != cnt:
            raise MachineryError("harness processed %d of %d scenarios" % (c.get("scenarios", 0), cnt))
        counts[name] = cnt
        os.remove(ver), os.remove(scn), os.remove(res.out_path)
    ctx.traces = sum(counts.values())
    return ctx.finish("model_checking", {
        "exhaustive": True, "evaluations": sum(counts.values()), "distinct_nontrivial": sum(counts.values()), "scenario_counts": counts,
        "rule": "every row of <= 2 items (and seeded samples of 3) over base size {10, 30} x grow {0, 1, 2} x shrink {0, 1, 2} x min-width {0, 20} x max-width {25, none} x container {40, 90}",
    }, assumptions=["single-line row container, empty items (content size 0), no margins / paddings / gaps, integer factors"])
