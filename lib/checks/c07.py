"""C07 — parsers of document-supplied text never crash (spec/Inputs.tla, spec/ContractTrace.tla).

TLC: Inputs.tla defines, per family of entry points, an alphabet of fragments and enumerates every sequence of at most
MaxLen fragments; the contract of an entry point is the automaton Call -> Return(ok | error | ignored) (property
AlwaysReturns under fairness): a panic, a fatal error or a time-out is not a step.
Binding: every input is joined and given to every entry point of its family — selector parsers, every property validator
and shorthand expander (crossed with ALL names of the real property table), gradient functions, @font-face /
@counter-style descriptors, @page selectors, @media queries, colour and an+b parsers, SVG path data and attribute parsers,
data: URL and URL joining, HTML presentational attribute readers (through layout with hints) — inside recover, in worker
processes with a watchdog; stack overflows and out-of-memory deaths are caught by the process pool. Outcome records (every
abnormal one and a 1/97 sample of the normal ones) are validated by TLC with ContractTrace.tla.
Level: exploration of the stated input spaces (exhaustive up to the stated lengths).
Also: the reference graphs of SvgRefs.tla (use, gradient href, pattern, clip path, mask, marker, incl. cycles) are parsed
and drawn; a crash or hang there is reported here (the geometry is C18's).
"""
import json
import os
import re
from vlib import MachineryError

GEN = """CONSTANTS
  Family = "%s"
  MaxLen = %d
INIT Init
NEXT Stutter
INVARIANT Emit
CHECK_DEADLOCK FALSE
"""
DESIGN = """CONSTANTS
  Family = "nth"
  MaxLen = 2
SPECIFICATION Spec
PROPERTIES AlwaysReturns
CHECK_DEADLOCK FALSE
"""
QUICK = [("selector", 3), ("value", 2), ("gradient", 4), ("svgpath", 4), ("svgattr", 3), ("svgref", 4), ("descriptor", 2), ("color", 3), ("nth", 3), ("media", 3), ("url", 3), ("htmlattr", 2), ("page", 3)]
THOROUGH = [("selector", 4), ("value", 3), ("gradient", 5), ("svgpath", 4), ("svgattr", 4), ("svgref", 5), ("descriptor", 3), ("color", 4), ("nth", 4), ("media", 4), ("url", 4), ("htmlattr", 3), ("page", 4)]


def run(ctx):
    thorough = ctx.tier == "thorough"
    res = ctx.tlc("Inputs", None, workers=4, cfg_text=DESIGN, timeout=600)
    os.remove(res.out_path)
    cov = {}
    allrec = os.path.join(ctx.scratch, "outcomes.ndjson")
    nrec = 0
    with open(allrec, "w") as allf:
        for fam, n in (THOROUGH if thorough else QUICK):
            res = ctx.tlc("Inputs", None, workers=8, cfg_text=GEN % (fam, n), timeout=6000, heap_gb=12)
            scn, cnt, first = ctx.scenario_lines(res)
            if cnt == 0:
                raise MachineryError("no input generated for family %s" % fam)
            ctx.samples.extend(first[-1:])
            ver = os.path.join(ctx.scratch, "ver_%s.ndjson" % fam)
            rec = os.path.join(ctx.scratch, "rec_%s.ndjson" % fam)
            ctx.vdrive(["c07", "-in", scn, "-out", ver], timeout=7200)
            summ = ctx.consume_verdicts(ver, rec_path=rec)
            c = summ.get("counts", {})
            if c.get("scenarios", 0) + c.get("timeouts", 0) != cnt:
                raise MachineryError("harness processed %d of %d inputs (%s)" % (c.get("scenarios", 0), cnt, fam))
            for l in open(rec):
                allf.write(l)
                nrec += 1
            cov["%s<=%d" % (fam, n)] = {"inputs": cnt, "calls": c.get("calls", 0), "panics": c.get("panics-in-parsers", 0), "process_deaths": c.get("fatals", 0), "timeouts": c.get("timeouts", 0),
                                        "ok": c.get("outcome-ok", 0), "error": c.get("outcome-error", 0), "ignored": c.get("outcome-ignored", 0)}
            os.remove(ver), os.remove(rec), os.remove(scn)
    # reference graphs between SVG definitions (use, gradient href, pattern, clip path, mask, marker: SvgRefs.tla): parsing
    # and drawing them must return (a cycle is ignored); only crashes and hangs are reported here, the geometry is C18's
    rres = ctx.tlc("SvgRefs", None, workers=8, cfg_text="CONSTANTS\n  N = %d\n  Kind = \"x\"\nSPECIFICATION Spec\nINVARIANTS NoSelfNesting DepthBound Emit\nCHECK_DEADLOCK FALSE\n" % 3, timeout=900)
    scn, cnt, first = ctx.scenario_lines(rres)
    ver = os.path.join(ctx.scratch, "ver_refs.ndjson")
    ctx.vdrive(["c18refs", "-in", scn, "-out", ver], timeout=7200)
    ctx.key_filter = "C07:"
    ctx.rekey = lambda r: ("C07:" + r["key"]) if r["key"].split(":")[0] in ("panic", "fatal", "timeout") else r["key"]
    summ = ctx.consume_verdicts(ver)
    ctx.key_filter = None
    ctx.rekey = None
    c = summ.get("counts", {})
    cov["svg-reference-graphs"] = {"inputs": cnt, "calls": c.get("graphs", 0), "panics": c.get("panics", 0), "process_deaths": c.get("fatals", 0), "timeouts": c.get("timeouts", 0), "ok": c.get("graphs", 0), "error": 0, "ignored": 0}
    os.remove(ver), os.remove(scn), os.remove(rres.out_path)
    # the contract, on the recorded outcomes
    if nrec:
        tres = ctx.tlc_trace("ContractTrace", "ContractTrace.cfg", allrec, workers=16, timeout=3000, heap_gb=12)
        if tres.distinct != nrec:
            raise MachineryError("TLC validated %d of %d outcome records" % (tres.distinct, nrec))
        bad = ctx.tuples(tres, "BAD")
        recs = None
        for b in bad:
            m = re.match(r'<<"BAD", (\d+), "([^"]*)">>', b)
            if recs is None:
                recs = open(allrec).read().splitlines()
            r = json.loads(recs[int(m.group(1)) - 1])
            # (the harness already reported the panic with its site; this is the specification's verdict on the same call)
            ctx.extra.setdefault("calls_rejected_by_ContractTrace", 0)
            ctx.extra["calls_rejected_by_ContractTrace"] += 1
            if ctx.extra["calls_rejected_by_ContractTrace"] <= 3:
                ctx.extra.setdefault("rejected_samples", []).append({"ep": r["ep"], "input": r["input"][:200], "outcome": r["outcome"]})
        os.remove(tres.out_path)
    ctx.traces = nrec
    return ctx.finish("exploration", {
        "exhaustive": True, "evaluations": sum(v["calls"] for v in cov.values()), "distinct_nontrivial": sum(v["ok"] for v in cov.values()), "families": cov, "outcome_records_validated_by_tlc": nrec,
        "rule": "every sequence of <= MaxLen fragments of each family's alphabet (Inputs.tla), joined and crossed with the real tables of property, descriptor and attribute names; "
                "non-trivial = calls that the entry point accepts (outcome ok), the others being rejected with an error / ignored",
    }, assumptions=[
        "exploration, not proof: inputs outside the fragment alphabets and longer sequences are not covered",
        "the CSS tokenizer and rule parsers are exercised by C06 / C20 on their own exhaustive families; panics there are reported by those checks",
        "only data: URLs are fetched (offline)",
    ])
