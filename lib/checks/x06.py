"""X06 (extra coverage, not a listed property) — generated quotation marks (spec/Quotes.tla).

TLC: the quote depth as the state of a transition system over the sequence of open-quote / close-quote / no-open-quote /
no-close-quote tokens of a document (CSS 2.1 12.3.2); invariants NeverNegative and Balanced, liveness Terminates, on every
sequence of <= MaxLen tokens; the terminal states carry the marks printed.
Binding: every sequence is materialised as ::before contents of nested (or sibling) spans under quotes: "<" ">" "[" "]" and
the text laid out must be the specification's marks.
"""
import os
from vlib import MachineryError

CFG = "CONSTANTS\n  MaxLen = %d\nSPECIFICATION Spec\nINVARIANTS NeverNegative Balanced Emit\nPROPERTIES Terminates\nCHECK_DEADLOCK FALSE\n"


def run(ctx):
    n = 6 if ctx.tier != "thorough" else 8
    res = ctx.tlc("Quotes", None, workers=8, cfg_text=CFG % n, timeout=1800)
    scn, cnt, first = ctx.scenario_lines(res)
    if cnt == 0:
        raise MachineryError("no scenario generated")
    lines = sorted(set(open(scn).read().splitlines()))
    open(scn, "w").write("\n".join(lines) + "\n")
    cnt = len(lines)
    ctx.samples.extend(first[-1:])
    ver = os.path.join(ctx.scratch, "ver.ndjson")
    ctx.vdrive(["x06", "-in", scn, "-out", ver])
    summ = ctx.consume_verdicts(ver)
    c = summ.get("counts", {})
    if c.get("scenarios", 0) != cnt:
        raise MachineryError("harness processed %d of %d scenarios" % (c.get("scenarios", 0), cnt))
    ctx.traces = cnt
    return ctx.finish("model_checking", {
        "exhaustive": True, "evaluations": cnt, "distinct_nontrivial": cnt,
        "rule": "every sequence of <= %d tokens over {open-quote, close-quote, no-open-quote, no-close-quote}, as nested and as sibling elements" % n,
    }, assumptions=["two pairs of quotation marks; tokens in ::before pseudo-elements only"])
