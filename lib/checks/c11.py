"""C11 — lines are broken greedily and fit their container (spec/LineBreak.tla).

TLC: the line filler as a transition system (Place / Break / Finish) over every paragraph of <= 4 words (lengths 1..3) x
container width 1..10 em x text-align x text-indent, plus nowrap / pre-line and an inline box with padding; invariants
Conservation, FitsWidth, Greedy, liveness Terminates; every terminal state carries the words and geometry of each line.
Binding: every paragraph is laid out with the metric-exact font weasyprint.otf (1 em per glyph) under the pango engine and
the text, y, height, first-glyph x and content width of every line box must be the specification's; the plain families are
laid out a second time under the go-text engine.
Variants: a paragraph of the same font with another line-height earlier in the document (line heights must not leak through
caches); a page two lines high (the paragraph continues on following pages: text-indent only on the very first line).
Vertical part (spec/LineHeight.tla): the aligned subtrees of a line (CSS 2.1 10.8) measured through a worklist that grows
while it is walked; invariants AllDiscovered, ContentsFit, liveness Terminates; the height of the line box, the stacking of
the next line, the containment of every inline-block in its line box and the positions CSS defines are compared with the
real layout.
"""
import os
from vlib import MachineryError

CFG = """CONSTANTS
  MaxWords = %d
  MaxW = %d
SPECIFICATION Spec
INVARIANTS Conservation FitsWidth Greedy CutOnlyIfNeeded Emit
PROPERTIES Terminates
CHECK_DEADLOCK FALSE
"""


VCFG = """CONSTANTS
  MaxChains = %d
%s
INVARIANTS AllDiscovered ContentsFit Emit
%s
CHECK_DEADLOCK FALSE
"""


def run(ctx):
    thorough = ctx.tier == "thorough"
    res = ctx.tlc("LineBreak", None, workers=16, cfg_text=CFG % ((4, 8) if not thorough else (5, 10)), timeout=3000, heap_gb=12)
    scn, cnt, first = ctx.scenario_lines(res)
    if cnt == 0:
        raise MachineryError("no paragraph generated")
    ctx.samples.extend(first[-2:])
    counts = {}
    nontrivial = 0
    for engine in ("pango", "gotext"):
        src = scn
        if engine == "gotext":
            src = scn + ".plain"
            with open(src, "w") as g:
                for l in open(scn):
                    if '"span":0' in l:
                        g.write(l)
        n = sum(1 for _ in open(src))
        ver = os.path.join(ctx.scratch, "ver_%s.ndjson" % engine)
        ctx.vdrive(["c11", "-engine", engine, "-in", src, "-out", ver])
        summ = ctx.consume_verdicts(ver)
        c = summ.get("counts", {})
        if c.get("scenarios", 0) != n:
            raise MachineryError("harness processed %d of %d paragraphs (%s)" % (c.get("scenarios", 0), n, engine))
        counts[engine] = n
        nontrivial += c.get("nontrivial", 0)
    # vertical part: line box heights under vertical-align baseline / top / bottom (spec/LineHeight.tla)
    if thorough:
        vres = ctx.tlc("LineHeight", None, workers=8, cfg_text=VCFG % (3, "INIT InitSample\nNEXT Next", ""), simulate="num=4000", depth=12, timeout=3000)
        vscn3, vcnt3, _ = ctx.scenario_lines(vres)
    vres = ctx.tlc("LineHeight", None, workers=8, cfg_text=VCFG % (2, "SPECIFICATION Spec", "PROPERTIES Terminates"), timeout=3000)
    vscn, vcnt, vfirst = ctx.scenario_lines(vres)
    if vcnt == 0:
        raise MachineryError("no line generated (LineHeight)")
    ctx.samples.extend(vfirst[-1:])
    if thorough:
        with open(vscn, "a") as f:
            f.write("".join(sorted(set(open(vscn3)))))
    vlines = sorted(set(open(vscn)))
    open(vscn, "w").write("".join(vlines))
    ver = os.path.join(ctx.scratch, "ver_v.ndjson")
    ctx.vdrive(["c11v", "-in", vscn, "-out", ver])
    summ = ctx.consume_verdicts(ver)
    c = summ.get("counts", {})
    if c.get("scenarios", 0) != len(vlines):
        raise MachineryError("harness processed %d of %d lines (vertical)" % (c.get("scenarios", 0), len(vlines)))
    if c.get("nontrivial", 0) == 0:
        raise MachineryError("no line with a top / bottom aligned subtree")
    counts["vertical-align"] = len(vlines)
    nontrivial += c.get("nontrivial", 0)
    ctx.traces = sum(counts.values())
    return ctx.finish("model_checking", {
        "exhaustive": True, "evaluations": sum(counts.values()), "distinct_nontrivial": nontrivial, "paragraphs_per_engine": counts,
        "rule": "every word-length sequence of <= MaxWords words (lengths 1..3) x width 1..MaxW em x {left, right, center, justify} x text-indent {0, 2em}; "
                "nowrap and pre-line with a line feed after word 1 or 2; an inline box with 1em padding around words 2..k; an inline box starting inside a word; "
                "non-trivial = more than one line. Vertical: every line of <= 2 chains span > span > inline-block (heights 4, 20, 40px) x vertical-align "
                "{baseline, top, bottom} on every box (thorough: + sampled lines of 3 chains): height of the line box, stacking, boxes inside the line, positions",
    }, assumptions=[
        "left-to-right, metric-exact test font (every glyph 1em), no hyphenation, letter/word spacing, floats or inline-blocks",
        "go-text engine: plain paragraphs only (it is compared with 0.05px tolerance)",
    ])
