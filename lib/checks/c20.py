"""C20 — serialized CSS re-parses to the same component values.

For every input string of the CssSyntax families whose specification token list is error-free,
the real tokens are serialized by the real parser.Serialize. Two bindings decide the round trip:
 (B1) the real tokenizer re-tokenizes the serialisation and the result must equal the
      SPECIFICATION's tokens of the original input (comments/positions ignored);
 (B2) the pair (input, serialisation) is written to an ndjson trace and TLC validates it with
      CssRoundTrip.tla: the specification's own tokenizer is applied to both texts and must give
      the same token list, so the verdict does not depend on the tokenizer under test.
T9 also has U and a hex letter (unicode-range fusion); T12: whole tokens (1, -, -->, <!--, #a, a, 1%, +, ., --, 1e, @a) separated by
comments; the block token is also materialised as {} and { }.
"""
import os
import re
from vlib import MachineryError
from checks.c06 import tokenizer_families, PARSE_CFG

QUICK = [("T1", 3, False), ("T2", 4, False), ("T3", 3, False), ("T4", 3, False), ("T5", 3, False), ("T6", 4, False),
         ("T7", 7, False), ("T8", 4, False), ("T9", 3, True), ("T10", 4, False), ("T12", 3, True), ("T13", 5, False)]
THOROUGH = [("T1", 4, False), ("T2", 5, False), ("T3", 5, False), ("T4", 5, False), ("T5", 4, False), ("T6", 6, False),
            ("T7", 9, False), ("T8", 5, False), ("T9", 3, True), ("T9", 3, False), ("T10", 5, False), ("T12", 4, True), ("T13", 6, False)]
RULES_QUICK = [("stylesheet", "full", 4), ("decls", "full", 4), ("blocks", "full", 4), ("onedecl", "imp", 5)]
RULES_THOROUGH = [("stylesheet", "full", 5), ("rules", "full", 5), ("decls", "full", 5), ("blocks", "full", 5), ("onedecl", "imp", 6)]


def run(ctx):
    fams = THOROUGH if ctx.tier == "thorough" else QUICK
    rec = os.path.join(ctx.scratch, "roundtrip")
    validated = 0
    for fam, n, rp, counts in tokenizer_families(ctx, fams, cmd="c20ser", rec_path=rec):
        nrec = sum(1 for _ in open(rp))
        if nrec == 0:
            continue
        res = ctx.tlc_trace("CssRoundTrip", "CssRoundTrip.cfg", rp, workers=16, timeout=1500, heap_gb=12)
        if res.distinct != nrec:
            raise MachineryError("TLC validated %d of %d round-trip records" % (res.distinct, nrec))
        bad = ctx.tuples(res, "BAD")
        if bad:
            lines = open(rp).read().splitlines()
            for b in bad:
                m = re.match(r'<<"BAD", (\d+)>>', b)
                idx = int(m.group(1))
                import json
                r = json.loads(lines[idx - 1])
                txt = "".join(chr(c) for c in r["raw"])
                ser = "".join(chr(c) for c in r["ser"])
                ctx.disagree("roundtrip-spec:" + classify(txt), "input %r serialises to %r; the specification tokenizes them differently" % (txt, ser),
                             {"input": txt, "serialized": ser, "raw": r["raw"], "ser": r["ser"]})
        validated += nrec
        os.remove(rp)
        os.remove(res.out_path)
    # rule-level round trip: every parsed rule / declaration of the CssParse scenarios is serialized with the
    # package's rule serializers (hook H1) and parsed back on its own
    rule_rt = 0
    for entry, fam, n in (RULES_THOROUGH if ctx.tier == "thorough" else RULES_QUICK):
        res = ctx.tlc("CssParse", None, workers=16, cfg_text=PARSE_CFG % (n, entry, fam), timeout=1500, heap_gb=12)
        scn, cnt, first = ctx.scenario_lines(res)
        ver = os.path.join(ctx.scratch, "verr_%s_%s.ndjson" % (entry, fam))
        ctx.vdrive(["c20rule", "-in", scn, "-out", ver])
        summ = ctx.consume_verdicts(ver)
        c = summ.get("counts", {})
        if c.get("scenarios", 0) != cnt:
            raise MachineryError("harness processed %d of %d rule scenarios" % (c.get("scenarios", 0), cnt))
        rule_rt += c.get("roundtrips", 0)
        os.remove(res.out_path)
        os.remove(scn)
    ctx.extra["rule_roundtrips"] = rule_rt
    ctx.traces = validated
    total = sum(ctx.extra["families"].values())
    return ctx.finish("model_checking", {
        "exhaustive": True,
        "evaluations": total,
        "distinct_nontrivial": validated,
        "roundtrips_validated_by_tlc": validated,
        "rule": "every string of the CssSyntax families whose token list has no error token (counted: those with a round trip "
                "performed); each serialisation is validated twice (real tokenizer vs spec tokens; spec tokenizer on both texts)",
    }, assumptions=["bounded input length and alphabets",
                     "rule / declaration serializers are unexported: they are reached through the verif hook VerifSerializeCompound and their "
                     "result is compared with the originally parsed construct (itself validated against CssParse.tla by C06)"])


def classify(txt):
    ks = []
    for name, pat in (("backslash", "\\"), ("quote", '"'), ("apostrophe", "'"), ("url", "url("), ("minus", "-"), ("hash", "#"), ("at", "@"),
                      ("comment", "/*"), ("newline", "\n"), ("u+", "+"), ("dot", "."), ("percent", "%")):
        if pat in txt or pat in txt.lower():
            ks.append(name)
    return "+".join(ks) or "plain"
