"""C08 — declarations mean the same however they are spelled; bad ones are dropped alone (spec/Declarations.tla).

TLC: (vars) for every graph of three custom properties (undefined / literal / ill-typed / var() reference with or without
fallback, including self and mutual cycles) the substitution stack machine terminates (NoRepeat, Terminates) and computes
the declarative value (MachineAgrees); (blocks) every block of <= 4 declarations with invalid members is given the meaning
of the block without them; (shorthands) TRBL / border-family / flex tables; (spellings) the list of (declaration, variant).
Binding: every scenario is materialised and the computed style of a probe element (or the PreprocessDeclarations output)
must be what the specification states. Each var() scenario runs in a worker process: a stack overflow is a verdict.
Also: background shorthand with one or two layers (BgScn: image, position, "/ size") against the longhand lists, and function
names in upper case (gradients, counter(), attr(), leader(), transform functions).
"""
import os
from vlib import MachineryError

CFG = """CONSTANTS
  Mode = "%s"
SPECIFICATION Spec
INVARIANTS NoRepeat MachineAgrees Emit
PROPERTIES Terminates
CHECK_DEADLOCK FALSE
"""


def run(ctx):
    counts = {}
    # the CSS property-index data of Defaulting.tla (inherited sets, initial values) is needed to enumerate all properties
    from checks.c04 import CFG as DCFG
    res = ctx.tlc("Defaulting", None, workers=8, cfg_text=DCFG % "kinds", timeout=900)
    dscn, _, _ = ctx.scenario_lines(res)
    meta = os.path.join(ctx.scratch, "meta.json")
    with open(meta, "w") as g:
        for l in open(dscn):
            if '"mode":"meta"' in l:
                g.write(l)
    for mode in ("vars", "blocks", "shorthands", "spellings"):
        res = ctx.tlc("Declarations", None, workers=16, cfg_text=CFG % mode, timeout=900)
        scn, cnt, first = ctx.scenario_lines(res)
        if cnt == 0:
            raise MachineryError("no scenario for mode " + mode)
        ctx.samples.extend(first[-1:])
        ver = os.path.join(ctx.scratch, "ver_%s.ndjson" % mode)
        ctx.vdrive(["c08", "-in", scn, "-out", ver, "-timeout", "10s", "-meta", meta])
        summ = ctx.consume_verdicts(ver)
        c = summ.get("counts", {})
        if c.get("scenarios", 0) != cnt:
            raise MachineryError("harness processed %d of %d scenarios (%s)" % (c.get("scenarios", 0), cnt, mode))
        counts[mode] = cnt
    total = sum(counts.values())
    ctx.traces = total
    return ctx.finish("model_checking", {
        "exhaustive": True, "evaluations": total, "distinct_nontrivial": total - 1, "scenario_counts": counts,
        "rule": "vars: 19^3 definition graphs (literal, ill-typed, undefined, var() with/without fallback, nested fallback) x 5 probes (plain / fallback on width and text-indent, two references in margin); blocks: every sequence "
                "of 1..4 declarations over 8 kinds (valid, overriding, shorthand, bad value, unknown property, var(), empty, !important); "
                "shorthands: 5 TRBL families x 1..4 values over 4 tokens, 5 border-like shorthands x every ordered subset of width/style/color, "
                "9 flex forms, 10 columns forms, list-style and flex-flow subsets; spellings: 12 declarations x 10 spelling variants, 3 non-ASCII look-alikes, and every supported property with its explicit value (upper-case name, upper-case value, unknown identifier as value). All distinct TLC states.",
    }, assumptions=[
        "font, background, grid*, border-image and border-radius have no expansion oracle",
        "the probe properties are width / text-indent / margins / borders / flex of one element under an empty user-agent sheet",
    ])
