"""X05 (extra coverage, not a listed property) — used size of replaced elements (spec/Replaced.tla).

TLC: the used width and height of an inline replaced element with an intrinsic size (40 x 20) under width / height
{auto, 10, 100} and min / max widths and heights: CSS 2.1 10.3.2, 10.6.2 and the constraint-violation table of 10.4
(operators Table, Used); invariants WithinBounds and RatioKept. The case "one dimension specified and clamped, the other
auto" is left open (see the module).
Binding: every decided scenario is laid out with an SVG image (data: URL) and the used size of the image box must be the
specification's.
"""
import os
from vlib import MachineryError

CFG = "INIT Init\nNEXT Next\nINVARIANTS WithinBounds RatioKept Emit\nCHECK_DEADLOCK FALSE\n"


def run(ctx):
    res = ctx.tlc("Replaced", None, workers=8, cfg_text=CFG, timeout=600)
    scn, cnt, first = ctx.scenario_lines(res)
    if cnt == 0:
        raise MachineryError("no scenario generated")
    ctx.samples.extend(first[-1:])
    ver = os.path.join(ctx.scratch, "ver.ndjson")
    ctx.vdrive(["x05", "-in", scn, "-out", ver])
    summ = ctx.consume_verdicts(ver)
    c = summ.get("counts", {})
    if c.get("scenarios", 0) != cnt or c.get("images", 0) != cnt:
        raise MachineryError("harness processed %d of %d scenarios (%d images laid out)" % (c.get("scenarios", 0), cnt, c.get("images", 0)))
    ctx.traces = cnt
    return ctx.finish("model_checking", {
        "exhaustive": True, "evaluations": cnt, "distinct_nontrivial": cnt,
        "rule": "width, height {auto, 10, 100} x min-width {0, 30, 60} x max-width {none, 20, 50} x min-height {0, 16, 30} x max-height {none, 10, 24}, minus the 216 undecided scenarios",
    }, assumptions=["an inline <img> with an SVG image of intrinsic size 40 x 20 (ratio 2 : 1); no percentages"])
