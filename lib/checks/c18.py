"""C18 — SVG shapes and paths are drawn with the geometry SVG defines.

spec/SvgPath.tla : the path-data interpreter as a transition system (cur, ctl, start, last, ops; one action per command)
    + quarter-turn arc geometry + basic shapes + viewBox/preserveAspectRatio transform.
spec/SvgRefs.tla : following references with an `active` set (termination, no self nesting).
Every TLC terminal state is replayed: the path is printed in seven number syntaxes, parsed by svg.Parse, drawn on the
recording canvas and compared operation by operation; arcs and shape corners are sampled and must lie on the ellipse
the specification names; reference graphs of six kinds must terminate (watchdog) and draw each instance once.
Pairs of instances (PairInit): two <use> of one symbol / svg / g with different attributes draw the same calls in both orders.
"""
import os
from vlib import MachineryError

CFG = """CONSTANTS
  Family = "%s"
  MaxCmds = %d
INIT %s
NEXT Next
INVARIANTS CurIsLastEnd StartsWithMove Emit
CHECK_DEADLOCK FALSE
"""
REFS = """CONSTANTS
  N = %d
  Kind = "use"
SPECIFICATION Spec
INVARIANTS NoSelfNesting DepthBound Emit
PROPERTIES Terminates
CHECK_DEADLOCK FALSE
"""


def replay(ctx, res, cmd, tag, extra=()):
    scn, cnt, first = ctx.scenario_lines(res)
    if cnt == 0:
        raise MachineryError("no scenario for " + tag)
    seen = set()
    uniq = scn + ".u"
    with open(uniq, "w") as g:
        for l in open(scn):
            if l not in seen:
                seen.add(l)
                g.write(l)
    ctx.samples.extend(first[-1:])
    ver = os.path.join(ctx.scratch, "ver_%s.ndjson" % tag)
    ctx.vdrive([cmd, "-in", uniq, "-out", ver, "-timeout", "10s"] + list(extra))
    summ = ctx.consume_verdicts(ver)
    c = summ.get("counts", {})
    if c.get("scenarios", 0) != len(seen):
        raise MachineryError("harness processed %d of %d scenarios (%s)" % (c.get("scenarios", 0), len(seen), tag))
    os.remove(res.out_path)
    os.remove(scn)
    return len(seen), c


def run(ctx):
    thorough = ctx.tier == "thorough"
    counts = {}
    drawn = 0
    for fam, n in (("path", 2), ("closes", 5 if not thorough else 6), ("arc", 1), ("shape", 1), ("viewport", 1)):
        res = ctx.tlc("SvgPath", None, workers=16, cfg_text=CFG % (fam, n, "Init"), timeout=900)
        k, c = replay(ctx, res, "c18", fam)
        counts[fam] = k
        drawn += c.get("paths", 0) + c.get("arcs", 0) + c.get("shapes", 0) + c.get("viewports", 0)
    # longer command sequences by seeded simulation
    for depth, num in ((3, 400), (4, 300)) if not thorough else ((3, 4000), (4, 4000), (5, 2000)):
        res = ctx.tlc("SvgPath", None, workers=8, cfg_text=CFG % ("path", depth, "InitBuild"), simulate="num=%d" % num, depth=3 * depth + 4, timeout=900)
        k, c = replay(ctx, res, "c18", "path_sim%d" % depth)
        counts["path/simulated-%d-commands" % depth] = k
        drawn += c.get("paths", 0)
    res = ctx.tlc("SvgRefs", None, workers=16, cfg_text=REFS % (3 if not thorough else 3), timeout=900)
    k, c = replay(ctx, res, "c18refs", "refs")
    counts["reference-graphs"] = k
    drawn += c.get("graphs", 0)
    res = ctx.tlc("SvgRefs", None, workers=4, cfg_text="CONSTANTS\n  N = 1\n  Kind = \"pair\"\nINIT PairInit\nNEXT Stutter\nINVARIANT EmitPair\nCHECK_DEADLOCK FALSE\n", timeout=600)
    k, c = replay(ctx, res, "c18pair", "pairs")
    counts["pairs-of-instances"] = k
    drawn += 3 * c.get("pairs", 0)
    total = sum(counts.values())
    ctx.traces = total
    return ctx.finish("model_checking", {
        "exhaustive": True, "evaluations": total, "distinct_nontrivial": total, "documents_drawn": drawn, "families": counts,
        "rule": "path: every sequence of <= 2 commands over 133 (letter, abs/rel, 1-2 argument groups) combinations starting with a moveto, "
                "+ seeded simulation of 3-4 (thorough 5) commands, each drawn in 7 number syntaxes; closes: every sequence of <= 5 commands over {L, l, h, Z, M} (what follows a closepath); arc: 768 quarter-turn arcs + degenerate "
                "cases; shape: 186 rect/circle/ellipse/line/polyline/polygon; viewport: 1408 viewBox x viewport x preserveAspectRatio; "
                "refs: every reference graph over 3 definitions (1331) x 6 reference kinds.",
    }, assumptions=[
        "coordinates are multiples of 3 (exact elevation); arcs and ellipses are checked at sample points with 0.5 % - 3 % tolerance: the accuracy "
        "of the cubic approximation itself is not decided",
        "rotated ellipses (x-axis-rotation other than 0) are not generated",
    ])
