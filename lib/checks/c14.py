"""C14 — the backend receives a well-formed, self-consistent drawing (spec/Backend.tla, spec/BackendTrace.tla, spec/Decor.tla).

TLC: (1) the outline builder of document.go (skippedLevels / lastByDepth) as the transition system AddBookmark over every
document of ids, links and headings; invariants NeverPanics (the implementation's internal assertion), OutlineRight (the
result is the declarative Outline: parent = nearest previous heading of smaller level), ParentFirst; liveness Terminates;
every terminal state carries the expected anchors per page (first element with each id), internal links per page (dangling
ones dropped) and outline. (2) Proto: the drawing protocol (one AddPage per page in order, finite numbers, Paint/Clip only
after path construction, LineTo/CubicTo/ClosePath only with a current point, fonts registered before use, alpha in [0,1],
dashes non-negative) as a transition function folded over a recorded call sequence.
Binding:
 (B1) every link document is rendered; CreateAnchors, AddInternalLink, SetBookmarks and the metadata setters must receive
      exactly the specification's values;
 (B2) documents of Decor.tla (every combination of box size incl. zero, border style, radius, background kind, overflow,
      opacity, transform, outline), Flow.tla, TableGrid.tla, Stacking.tla and the link documents are drawn at zoom 1, 0.5
      and 3 on the recording backend and TLC validates every recorded call sequence with BackendTrace.tla (Proto).
Decor.tla also has three degenerate radial gradients and a text drawn with two fonts (fallback inside one text box).
Metadata (spec/Metadata.tla): collecting <title> / <meta> as a transition system over the head elements (first non-empty
title / description / generator, authors in order, keywords split on commas, stripped of ASCII white space only and kept
once); every head of <= 3 elements is rendered and the Set* calls must carry the specification's values.
"""
import json
import os
import re
from vlib import MachineryError
from checks import c02, c13, c16

LINKS_CFG = """CONSTANTS
  MaxItems = %d
  Names = {"a", "b"}
  MaxLevel = %d
SPECIFICATION Spec
INVARIANTS NeverPanics OutlineRight ParentFirst EmitScn
PROPERTIES Terminates
CHECK_DEADLOCK FALSE
"""
DECOR_CFG = """INIT Init
NEXT Next
INVARIANT Emit
CHECK_DEADLOCK FALSE
"""


def proto(ctx, scn, cnt, kind, name, stride=1):
    """Draws the scenarios of one generator and validates the recorded calls with TLC."""
    ver = os.path.join(ctx.scratch, "pver_%s.ndjson" % name)
    rec = os.path.join(ctx.scratch, "ptrace_%s.ndjson" % name)
    ctx.vdrive(["c14proto", "-kind", kind, "-j", "16", "-stride", str(stride), "-in", scn, "-out", ver])
    if stride > 1:
        cnt = len([k for k in range(cnt) if (k // 16) % stride == ctx.seed % stride])
    ctx.key_filter = "C14:"
    summ = ctx.consume_verdicts(ver, rec_path=rec)
    c = summ.get("counts", {})
    if c.get("scenarios", 0) + c.get("timeouts", 0) != cnt:
        raise MachineryError("harness processed %d of %d documents (%s)" % (c.get("scenarios", 0), cnt, name))
    recs = [l for l in open(rec)]
    rejected = 0
    if recs:
        tres = ctx.tlc_trace("BackendTrace", "BackendTrace.cfg", rec, workers=16, timeout=3000, heap_gb=12)
        if tres.distinct != len(recs):
            raise MachineryError("TLC validated %d of %d call sequences" % (tres.distinct, len(recs)))
        for b in ctx.tuples(tres, "BAD"):
            m = re.match(r'<<"BAD", (\d+), "([^"]*)">>', b)
            if not m:
                raise MachineryError("unparsable trace verdict %r" % b)
            r = json.loads(recs[int(m.group(1)) - 1])
            rejected += 1
            r.pop("evs", None)
            ctx.disagree("C14:proto:%s:%s" % (m.group(2), kind), "the recorded backend calls violate the drawing protocol (%s) at zoom %s: %s" % (m.group(2), r.get("zoom"), r.get("html", "")[:600]), r)
        os.remove(tres.out_path)
    os.remove(ver), os.remove(rec)
    return {"documents": c.get("documents", 0), "backend_calls": c.get("calls", 0), "call_sequences_validated_by_tlc": len(recs), "rejected": rejected}


META_CFG = """CONSTANTS
  MaxElems = %d
SPECIFICATION Spec
INVARIANTS KeywordsClean FirstWins AuthorsInOrder Emit
PROPERTIES Terminates
CHECK_DEADLOCK FALSE
"""


def run(ctx):
    thorough = ctx.tier == "thorough"
    cov = {}
    # (1) + (B1)
    res = ctx.tlc("Backend", None, workers=16, cfg_text=LINKS_CFG % ((4, 3) if not thorough else (5, 3)), timeout=6000, heap_gb=12)
    scn, cnt, first = ctx.scenario_lines(res)
    ctx.samples.extend(first[-1:])
    ver = os.path.join(ctx.scratch, "lver.ndjson")
    stride = 4 if not thorough else 1
    ctx.vdrive(["c14links", "-j", "16", "-stride", str(stride), "-in", scn, "-out", ver])
    ctx.key_filter = "C14:"
    summ = ctx.consume_verdicts(ver)
    c = summ.get("counts", {})
    want = len([k for k in range(cnt) if (k // 16) % stride == ctx.seed % stride])
    if c.get("scenarios", 0) + c.get("timeouts", 0) != want:
        raise MachineryError("harness processed %d of %d link documents" % (c.get("scenarios", 0), want))
    cov["links-anchors-outline"] = {"documents": c.get("documents", 0), "of_generated": cnt}
    cov["protocol-link-documents"] = proto(ctx, scn, cnt, "links", "links", stride=64 if not thorough else 8)
    os.remove(ver)
    # (B2) decorations
    res = ctx.tlc("Decor", None, workers=4, cfg_text=DECOR_CFG, timeout=600)
    scn, cnt, first = ctx.scenario_lines(res)
    cov["protocol-decorated-boxes"] = proto(ctx, scn, cnt, "decor", "decor", stride=12 if not thorough else 1)
    # documents of the other specifications
    kinds = ", ".join('"%s"' % k for k in c02.ALL_KINDS)
    res = ctx.tlc("Flow", None, workers=8, cfg_text=c02.GEN_CFG % (3, 4, kinds), simulate="num=%d" % (60 if not thorough else 1500), depth=5, timeout=3000)
    scn, cnt, first = ctx.scenario_lines(res)
    cov["protocol-flow-documents"] = proto(ctx, scn, cnt, "c02", "flow")
    res = ctx.tlc("TableGrid", None, workers=8, cfg_text=c13.CFG % (3, 3, 3, "TRUE", "INIT InitBuild\nNEXT Next", ""), simulate="num=%d" % (60 if not thorough else 1000), depth=40, timeout=3000)
    scn, cnt, first = ctx.scenario_lines(res)
    cov["protocol-tables"] = proto(ctx, scn, cnt, "c13", "tables")
    res = ctx.tlc("Stacking", None, workers=8, cfg_text=c16.CFG % (5, "full", "TRUE", "INIT InitBuild\nNEXT Next", ""), simulate="num=%d" % (60 if not thorough else 1000), depth=100, timeout=3000)
    scn, cnt, first = ctx.scenario_lines(res)
    cov["protocol-stacking-arrangements"] = proto(ctx, scn, cnt, "c16", "stacking")
    # metadata (spec/Metadata.tla)
    res = ctx.tlc("Metadata", None, workers=8, cfg_text=META_CFG % (3 if not thorough else 4), timeout=3000)
    scn, cnt, first = ctx.scenario_lines(res)
    lines = sorted(set(open(scn)))
    if not lines:
        raise MachineryError("no metadata scenario generated")
    open(scn, "w").write("".join(lines))
    ctx.samples.extend(first[-1:])
    ver = os.path.join(ctx.scratch, "mver.ndjson")
    ctx.vdrive(["c14meta", "-in", scn, "-out", ver])
    ctx.key_filter = "C14:"
    summ = ctx.consume_verdicts(ver)
    c = summ.get("counts", {})
    if c.get("scenarios", 0) != len(lines):
        raise MachineryError("harness processed %d of %d metadata documents" % (c.get("scenarios", 0), len(lines)))
    cov["metadata"] = {"documents": c.get("documents", 0)}
    os.remove(ver)
    ctx.traces = sum(v.get("call_sequences_validated_by_tlc", 0) for v in cov.values())
    return ctx.finish("model_checking", {
        "exhaustive": True, "evaluations": sum(v.get("documents", 0) for v in cov.values()), "families": cov,
        "rule": "every document of <= 4 items over {element with id a/b, link to #a/#b, heading of bookmark-level 1..3} x page break before the item (quick: every 4th); "
                "every decorated box of Decor.tla (quick: every 6th); seeded samples of Flow / TableGrid / Stacking documents; zoom 1, 0.5, 3; metadata: every head of <= 3 elements over 21 title / meta elements "
                "(empty values, repeated names, upper-case names, keywords separated and surrounded by TAB LF FF CR SPACE NBSP EM-SPACE)",
    }, assumptions=[
        "the recording backend is the observer: only the calls of backend.Document / Page / Canvas / GraphicState are seen",
        "images and inline SVG are not part of the drawn corpus (C18 covers SVG geometry)",
        "anchor positions and link rectangles are only checked to be finite; CreateAnchors is compared as a set per page (its order is C15's concern)",
    ])
