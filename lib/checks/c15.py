"""C15 — rendering is deterministic and renders do not interfere (spec/Render.tla).

TLC: N renders, each going through parse / layout / draw with a context of its own and read-only globals; invariants
GlobalsUnchanged, Isolation (the output of a render is the output of a lone render of its document whatever the
interleaving) and Deterministic, liveness Terminates, on every interleaving; the same model with SharedCache = TRUE must
violate Isolation (non-vacuity: TLC exhibits the interleaving). Every complete behaviour is a schedule.
Binding (schedule replay, B3): the harness, built with the Go race detector, runs the renders of a schedule on goroutines
with a font configuration each; a render executes its next phase (tree.NewHTML / document.Render / Document.Write on the
recording backend) when the schedule names it, the next step being released as soon as the previous one has started, so
that phases overlap; every render's backend-call digest must equal the digest obtained by rendering its document alone in
a fresh process; a race report kills the worker and is a verdict. The schedules with overlapping layouts of every pair of documents, and
the whole pool at once, also run in a process of their own each (pristine process-wide tables, as in the model's initial
state). Sequential schedules cover "after any history of
previous renders". Determinism at large: documents of the Flow.tla generator are rendered 4 times in one process and must
give identical calls.
Also: every 1-node document of Docs.tla (the C01 alphabet of ~140 feature bundles) and the 2-node documents over the core
bundles are rendered 3 times and must give identical calls; the pool has a document with attachments.
"""
import json
import os
import subprocess
from vlib import MachineryError
from checks import c02

CFG = """CONSTANTS
  NRenders = %d
  NDocs = %d
  SharedCache = %s
%s
INVARIANTS GlobalsUnchanged LazyValue Isolation Deterministic Emit
%s
CHECK_DEADLOCK FALSE
"""


def run(ctx):
    thorough = ctx.tier == "thorough"
    cov = {}
    exe = ctx.vdrive_path(race=False)
    # fresh-process references (one process per document)
    refs = {}
    ndocs = None
    i = 1
    while ndocs is None or i <= ndocs:
        p = subprocess.run([exe, "c15ref", "-doc", str(i)], stdout=subprocess.PIPE, stderr=subprocess.PIPE, text=True, timeout=300)
        if p.returncode != 0:
            raise MachineryError("c15ref -doc %d failed: %s" % (i, p.stderr[-500:]))
        r = json.loads(p.stdout.strip().splitlines()[-1])
        refs[str(i)] = r["digest"]
        ndocs = r["ndocs"]
        # a second fresh process must agree with the first (determinism across processes)
        p2 = subprocess.run([exe, "c15ref", "-doc", str(i)], stdout=subprocess.PIPE, stderr=subprocess.PIPE, text=True, timeout=300)
        r2 = json.loads(p2.stdout.strip().splitlines()[-1])
        if r2["digest"] != r["digest"]:
            ctx.disagree("C15:output-differs-between-fresh-processes:doc%d" % i, "document %d of the pool rendered in two fresh processes gives different backend calls (%s / %s)" % (i, r["digest"], r2["digest"]), {"doc": i})
        i += 1
    refp = os.path.join(ctx.scratch, "refs.json")
    json.dump(refs, open(refp, "w"))
    cov["fresh_process_references"] = ndocs
    # non-vacuity: the defect the property excludes is found by TLC on the model
    res = ctx.tlc("Render", None, workers=4, cfg_text=CFG % (2, 2, "TRUE", "SPECIFICATION Spec", ""), timeout=600, allow_violation=True)
    if "Isolation" not in open(res.out_path, errors="replace").read():
        raise MachineryError("the SharedCache model does not violate Isolation: the invariant is vacuous")
    cov["shared_cache_model_violates_Isolation"] = True
    os.remove(res.out_path)

    def overlapping(sc):
        # the layout steps (second step of each render) are consecutive: the layouts run at the same time
        seen, pos = {}, []
        for k, r in enumerate(sc["sched"]):
            seen[r] = seen.get(r, 0) + 1
            if seen[r] == 2:
                pos.append(k)
        return max(pos) - min(pos) == len(pos) - 1

    def run_sched(path, cnt, name, perproc):
        ver = os.path.join(ctx.scratch, "ver_%s.ndjson" % name)
        ctx.vdrive(["c15sched", "-refs", refp, "-in", path, "-out", ver, "-timeout", "120s"] + (["-perproc", "1"] if perproc else []), race=True)
        summ = ctx.consume_verdicts(ver)
        c = summ.get("counts", {})
        # a worker killed by the race detector (a verdict) loses the schedule it was running
        if c.get("scenarios", 0) + c.get("timeouts", 0) + c.get("fatals", 0) < cnt:
            raise MachineryError("harness processed %d of %d schedules (%s)" % (c.get("scenarios", 0), cnt, name))
        os.remove(ver)
        return {"schedules": cnt, "renders": c.get("renders", 0)}

    def replay(res, name):
        """schedules with fresh = FALSE ("after any history of renders") run in the worker pool; those with fresh = TRUE (the
        lazily filled process-wide tables are empty) in a process of their own each - in the quick tier only the ones whose
        layouts overlap, for the unordered pairs of documents."""
        scn, cnt, first = ctx.scenario_lines(res)
        if cnt == 0:
            raise MachineryError("no schedule generated (%s)" % name)
        ctx.samples.extend(first[-1:])
        pooled, fresh = scn + ".pooled", scn + ".fresh"
        np_, nf = 0, 0
        with open(pooled, "w") as fp, open(fresh, "w") as ff:
            for line in open(scn):
                sc = json.loads(line)
                if not sc.get("fresh"):
                    fp.write(line); np_ += 1
                elif thorough or (overlapping(sc) and (len(sc["docs"]) > 2 or sc["docs"] == sorted(sc["docs"]))):
                    ff.write(line); nf += 1
        if name == "r2" and (np_ == 0 or nf == 0):
            raise MachineryError("schedules of one kind missing (%s): pooled %d, fresh %d" % (name, np_, nf))
        out = run_sched(pooled, np_, name + "p", False) if np_ else {"renders": 0}
        o2 = run_sched(fresh, nf, name + "f", True) if nf else {"renders": 0}
        return {"schedules": np_ + nf, "renders": out["renders"] + o2["renders"], "in_a_fresh_process_each": nf}

    # every interleaving of 2 renders x every pair of documents x {fresh process, after other renders}
    res = ctx.tlc("Render", None, workers=8, cfg_text=CFG % (2, ndocs, "FALSE", "SPECIFICATION Spec", "PROPERTIES Terminates LazyStable"), timeout=3000)
    cov["2-renders-all-interleavings"] = replay(res, "r2")
    # the whole pool at once, in a fresh process
    fresh = os.path.join(ctx.scratch, "all.ndjson")
    nfresh = 0
    with open(fresh, "w") as f:
        for rot in range(ndocs if thorough else 2):
            docs = [(k + rot) % ndocs + 1 for k in range(ndocs)]
            f.write(json.dumps({"docs": docs, "sched": [r + 1 for ph in range(3) for r in range(ndocs)]}) + "\n")
            nfresh += 1
    cov["whole-pool-at-once"] = run_sched(fresh, nfresh, "all", True)
    # 3 renders: sampled
    res = ctx.tlc("Render", None, workers=8, cfg_text=CFG % (3, ndocs, "FALSE", "INIT Init\nNEXT Next", ""), simulate="num=%d" % (40 if not thorough else 1500), depth=12, timeout=3000)
    cov["3-renders-sampled"] = replay(res, "r3")
    if thorough:
        res = ctx.tlc("Render", None, workers=8, cfg_text=CFG % (4, ndocs, "FALSE", "INIT Init\nNEXT Next", ""), simulate="num=500", depth=16, timeout=3000)
        cov["4-renders-sampled"] = replay(res, "r4")
    # determinism on generated documents
    kinds = ", ".join('"%s"' % k for k in c02.ALL_KINDS)
    res = ctx.tlc("Flow", None, workers=8, cfg_text=c02.GEN_CFG % (3, 4, kinds), simulate="num=%d" % (100 if not thorough else 3000), depth=5, timeout=3000)
    scn, cnt, first = ctx.scenario_lines(res)
    ver = os.path.join(ctx.scratch, "ver_det.ndjson")
    ctx.vdrive(["c15det", "-in", scn, "-out", ver])
    ctx.key_filter = "C15:"
    summ = ctx.consume_verdicts(ver)
    ctx.key_filter = None
    c = summ.get("counts", {})
    cov["repeated-renders-of-flow-documents"] = {"documents": c.get("documents", 0), "renders": c.get("renders", 0)}
    # determinism on the documents of Docs.tla (the document space of C01: every feature bundle)
    from checks import c01
    dres = ctx.tlc("Docs", None, workers=8, cfg_text=c01.DOCS_CFG % (1, "all", c01.q(["normal", "tiny"]), c01.q(["none"]), c01.q(["none", "margins"]), "SPECIFICATION Spec", "EmitAll"), timeout=3000)
    scn1, cnt1, first1 = ctx.scenario_lines(dres)
    if thorough:
        dres2 = ctx.tlc("Docs", None, workers=8, cfg_text=c01.DOCS_CFG % (2, "all", c01.q(["tiny"]), c01.q(["none"]), c01.q(["none"]), "SPECIFICATION Spec", "EmitAll"), timeout=3000)
    else:
        dres2 = ctx.tlc("Docs", None, workers=8, cfg_text=c01.DOCS_CFG % (2, "core", c01.q(["tiny"]), c01.q(["none"]), c01.q(["none"]), "SPECIFICATION Spec", "EmitAll"), timeout=3000)
    scn2, cnt2, first2 = ctx.scenario_lines(dres2)
    with open(scn1, "a") as f:
        f.write(open(scn2).read())
    ver = os.path.join(ctx.scratch, "ver_docs.ndjson")
    ctx.vdrive(["c15docs", "-in", scn1, "-out", ver, "-timeout", "60s"])
    ctx.key_filter = "C15:"
    ctx.rekey = lambda r: ("C01:" + r["key"]) if (r["key"].startswith("timeout") or r["key"].startswith("fatal") or r["key"].startswith("panic")) else r["key"]
    summ = ctx.consume_verdicts(ver)
    ctx.key_filter = None
    ctx.rekey = None
    c = summ.get("counts", {})
    cov["repeated-renders-of-Docs.tla-documents"] = {"documents": c.get("documents", 0), "renders": c.get("renders", 0), "skipped_crashing": c.get("skipped-crashing-documents", 0)}
    ctx.traces = sum(v.get("schedules", 0) for v in cov.values() if isinstance(v, dict))
    return ctx.finish("model_checking", {
        "exhaustive": True, "evaluations": sum(v.get("renders", 0) for v in cov.values() if isinstance(v, dict)), "families": cov,
        "rule": "every interleaving of the 3 phases of 2 renders x every ordered pair of pool documents x {after other renders (worker pool), fresh process (one process per schedule; quick tier: overlapping layouts of unordered pairs)}; the whole pool at once in a fresh process; seeded samples of 3 (and 4) "
                "renders; pool of 16 documents (anchors and links, broken floats, counters, tables with header/footer, columns and flex, named strings and bookmarks, "
                "hyphenation and ex/ch units, positioned and running elements, two documents binding one font family name to different fonts with @font-face, two documents whose elements of different font sizes are matched by one rule of the shared user style sheet, Hungarian text with non-standard hyphenation points, raster images, inline SVG with three-link chains of gradient / pattern references); Flow.tla documents rendered 4 times each; "
                "every 1-node document of Docs.tla (all feature bundles x 2 geometries x 2 extras) and the 2-node documents over the core bundles rendered 3 times each",
    }, assumptions=[
        "the harness is built with -race; GORACE=halt_on_error=1; a schedule orders the STARTS of the phases (they overlap in time)",
        "each render has its own pango font configuration; the default (html5) user-agent style sheet and one user style sheet (parsed once per process) are shared, as in normal use",
        "identity of outputs = identical JSON of every recorded backend call with its arguments",
    ])
