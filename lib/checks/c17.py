"""C17 — transform functions and matrices (spec/Transform.tla).

TLC: (1) exhaustively folds every transform list of length <= MaxLen over the
function alphabet (CSS and SVG variants) through the list-composition state
machine, checking FoldCorrect / OriginFixed / ListSemantics, and prints every
list with the matrix CSS Transforms / SVG require; (2) checks the group laws on
a bounded matrix universe and prints each instance with the expected results.
Binding: every printed scenario is replayed into the real code (HTML box ->
recorded backend Transform call; SVG element -> recorded Transform; matrix
package API) and compared with the specification's integers.
Variants: the transform declared in a rule shared by two elements of different font size with em lengths; every separator
SVG allows between the functions of a list; the border box made of content + padding + border (percentages refer to the
border box); the inverse law on every matrix with its linear part scaled by 2^-12 and 2^10.
"""
import os
from vlib import MachineryError


def run(ctx):
    thorough = ctx.tier == "thorough"
    total = 0
    counts = {}
    for mode in ("css", "svg", "algebra"):
        if mode != "algebra" and thorough:
            # exhaustive for length <= 2, then seeded simulation of length-3 lists
            res = ctx.tlc("Transform", "Transform_%s.cfg" % mode, workers=8)
            scn, n, first = ctx.scenario_lines(res)
            res2 = ctx.tlc("Transform", "Transform_%s.cfg" % mode, workers=4, simulate="num=6000", depth=6,
                           constants={"MaxLen": "3"}, timeout=600)
            scn2, n2, _ = ctx.scenario_lines(res2)
            with open(scn, "a") as f:
                seen = set()
                for l in open(scn2):
                    if l not in seen:
                        seen.add(l)
                        f.write(l)
                        n += 1
        else:
            res = ctx.tlc("Transform", "Transform_%s.cfg" % mode, workers=8)
            scn, n, first = ctx.scenario_lines(res)
        if n == 0:
            raise MachineryError("TLC produced no %s scenario" % mode)
        ctx.samples.extend(first[:1])
        ver = os.path.join(ctx.scratch, "ver_%s.ndjson" % mode)
        ctx.vdrive(["c17", "-in", scn, "-out", ver])
        summ = ctx.consume_verdicts(ver)
        done = summ.get("counts", {}).get("scenarios", 0)
        if done != n:
            raise MachineryError("harness processed %d of %d %s scenarios" % (done, n, mode))
        counts[mode] = n
        total += n
    ctx.traces = total
    return ctx.finish("model_checking", {
        "exhaustive": True,
        "scenarios_replayed": counts,
        "rule": "every transform list of length <= 2 (thorough: + simulated length 3) over the 46 (css) / 27 (svg) "
                "function alphabet x 5 transform-origin forms, and every (T,U,pt) of the bounded matrix universe; "
                "each is distinct by construction (TLC state = scenario)",
        "evaluations": total,
        "distinct_nontrivial": total,
    }, assumptions=[
        "angles are multiples of 90deg (rotate) / 45deg (skew) and all lengths integral, so the specification is exact in Int; "
        "other angles share the same code path (slot, order, conjugation) but their numeric accuracy is not decided",
        "comparison tolerance 1e-4 relative (float32 trigonometry)",
    ])
