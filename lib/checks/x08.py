"""X08 (extra coverage, not a listed property) — grid item placement (spec/GridPlace.tla).

TLC: the placement algorithm of CSS Grid Layout 1 section 8.5 (grid-auto-flow: row and row dense) as a transition system,
one item per step (Step1 definite items, Step2 items locked to a row, Step3 columns of the implicit grid, Step4 the
auto-placement cursor); invariants NoOverlap, DefiniteKept, InColumns, SparseOrder, DenseEarliest; liveness Terminates; on
every sequence of <= MaxItems items over [column-start 0..3, span 1..2, row-start 0..2, span 1..2] in a 3-column grid.
Binding: every terminal state is laid out as a grid with 10px tracks; the position and size of every item must be the
specification's cell.
"""
import os
from vlib import MachineryError

CFG = ("CONSTANTS\n  MaxItems = %d\n  Cols = 3\n%s\nINVARIANTS NoOverlap DefiniteKept InColumns SparseOrder DenseEarliest Emit\n%s\nCHECK_DEADLOCK FALSE\n")


def run(ctx):
    thorough = ctx.tier == "thorough"
    res = ctx.tlc("GridPlace", None, workers=12, cfg_text=CFG % (2 if not thorough else 3, "SPECIFICATION Spec", "PROPERTIES Terminates"), timeout=3000, heap_gb=12)
    scn, cnt, first = ctx.scenario_lines(res)
    if cnt == 0:
        raise MachineryError("no scenario generated")
    lines = set(open(scn).read().splitlines())
    if not thorough:
        # a seeded sample of the 3-item grids
        import random
        res3 = ctx.tlc("GridPlace", None, workers=8, cfg_text=CFG % (3, "INIT Init\nNEXT Next", ""), simulate="num=400", depth=10, timeout=3000)
        scn3, cnt3, _ = ctx.scenario_lines(res3)
        lines |= set(open(scn3).read().splitlines())
    lines = sorted(lines)
    open(scn, "w").write("\n".join(lines) + "\n")
    cnt = len(lines)
    ctx.samples.extend(first[-1:])
    ver = os.path.join(ctx.scratch, "ver.ndjson")
    ctx.vdrive(["x08", "-in", scn, "-out", ver])
    summ = ctx.consume_verdicts(ver)
    c = summ.get("counts", {})
    if c.get("scenarios", 0) != cnt:
        raise MachineryError("harness processed %d of %d scenarios" % (c.get("scenarios", 0), cnt))
    ctx.traces = cnt
    return ctx.finish("model_checking", {
        "exhaustive": True, "evaluations": cnt, "distinct_nontrivial": cnt,
        "rule": "every sequence of <= %d items (48 kinds) x {sparse, dense}%s" % (2 if not thorough else 3, "" if thorough else " + a seeded sample of 3-item sequences"),
    }, assumptions=["grid-auto-flow: row / row dense; 3 explicit columns; fixed 10px tracks; no named lines or areas, no order property, no negative line numbers"])
