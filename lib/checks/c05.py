"""C05 — selectors match and weigh elements as the Selectors spec defines (spec/Selectors.tla).

TLC enumerates (DOM tree, selector) pairs of six families, checks that the right-to-left
candidate-set evaluation (actions StartEval/StepCombinator) decides exactly the declarative
relation Matches for every node, and prints each pair with the match vector and specificities the
specification requires. The harness builds the DOM directly from html.Node values, prints the AST
in up to three textual variants, and compares Match on every node, Specificity and PseudoElement —
then prints the parsed selector back (String), re-parses and compares again with the specification.
"""
import os
from vlib import MachineryError

CFG = """CONSTANTS
  Family = "%s"
  Size = %d
  Depth = %d
INIT Init
NEXT Next
INVARIANTS EvalAgrees SpecSane Emit
CHECK_DEADLOCK FALSE
"""
QUICK = [("nth", 3, 1), ("attr", 0, 1), ("comb", 3, 2), ("logic", 3, 1), ("deep", 5, 2), ("sib", 4, 2), ("list", 3, 2), ("pe", 3, 2)]
THOROUGH = [("nth", 4, 1), ("attr", 0, 1), ("comb", 3, 3), ("comb", 4, 2), ("logic", 4, 1), ("deep", 5, 2), ("sib", 5, 2), ("list", 3, 2), ("pe", 3, 2)]


def run(ctx):
    fams = THOROUGH if ctx.tier == "thorough" else QUICK
    counts = {}
    nsel = 0
    for fam, size, depth in fams:
        res = ctx.tlc("Selectors", None, workers=16, cfg_text=CFG % (fam, size, depth), timeout=2400, heap_gb=12)
        scn, cnt, first = ctx.scenario_lines(res)
        if cnt == 0:
            raise MachineryError("no scenario for family " + fam)
        ctx.samples.extend(first[-1:])
        ver = os.path.join(ctx.scratch, "ver_%s_%d_%d.ndjson" % (fam, size, depth))
        ctx.vdrive(["c05", "-in", scn, "-out", ver])
        summ = ctx.consume_verdicts(ver)
        c = summ.get("counts", {})
        if c.get("scenarios", 0) != cnt:
            raise MachineryError("harness processed %d of %d scenarios (%s)" % (c.get("scenarios", 0), cnt, fam))
        counts["%s/size%d/depth%d" % (fam, size, depth)] = cnt
        nsel += c.get("selectors", 0)
        os.remove(res.out_path)
        os.remove(scn)
    total = sum(counts.values())
    ctx.traces = total
    return ctx.finish("model_checking", {
        "exhaustive": True, "evaluations": total, "distinct_nontrivial": total,
        "selector_texts_parsed_and_matched": nsel, "families": counts,
        "rule": "nth: every sibling list of <= Size nodes over {p,q,text,blank text,comment} x every :nth-*(an+b) with a in -2..2, b in -2..3 "
                "and the keyword pseudo-classes; attr: 7 operators x 11 values x 7 needles x i flag; comb/list/pe: every labelled tree of <= Size "
                "nodes x every complex selector of <= Depth compounds over 6 compounds and 4 combinators; logic: :not/:is/:has with argument lists; "
                "sib: sibling lists of <= 4 nodes over {p, q, r, text, blank text, comment} x the + and ~ combinators; type selectors also written in upper case; deep: every labelled path of 4 and 5 elements x the logic selectors and the descendant / child selectors; attr also: class selectors, values "
                "whose words are separated by TAB, LF, FF, CR, VT, NBSP, EM SPACE. "
                "Each (tree, selector) pair is one TLC initial state, all distinct.",
    }, assumptions=[
        "bounded trees and selector depth; structural pseudo-classes are not compared on the root element (Selectors 3 and 4 differ)",
        ":link/:lang/:enabled/:disabled/:checked and namespaces are not modelled",
    ])
