"""C16 — boxes are painted in CSS stacking order (spec/Stacking.tla).

TLC: the painter of CSS 2.1 Appendix E as a stack machine (ExpandCtx / ExpandInline / Emit1, the recursive
drawStackingContext unrolled) over every tree of boxes (kind block / inline / inline-block / float x position x z-index,
plus opacity, reflecting transforms, overflow and absolute positioning in the Rich families); invariants Agree (the machine emits the declarative
order Order(FALSE, 0)), Once, BgFirst, Layering, Atomic; liveness Terminates. Every terminal state carries the tree, the
paint order, and the order under the implementation's named deviation (overflow != visible creates a stacking context).
Binding: every tree is rendered with one background colour and one word per box on the recording backend; the order of the
first fill of each colour and of each word must be the specification's sequence of bg(i) / text(i) events; and while a box is
painted, the padding box of every ancestor with overflow: hidden (operator ClipAnc) must be among the clips in force, and the
orientation of the transformation in force must be that of the page reversed once per reflecting box among the box and its ancestors.
Family Wide: 16 sibling stacking contexts with z-index in {1, 2} (ties in tree order whatever the sort).
"""
import os
from vlib import MachineryError

CFG = """CONSTANTS
  MaxNodes = %d
  ZMode = "%s"
  Rich = %s
  Wide = FALSE
%s
INVARIANTS Agree Once BgFirst Layering Atomic EmitScn
%s
CHECK_DEADLOCK FALSE
"""


def replay(ctx, res, name):
    scn, cnt, first = ctx.scenario_lines(res)
    if cnt == 0:
        raise MachineryError("no arrangement generated (%s)" % name)
    ctx.samples.extend(first[-1:])
    ver = os.path.join(ctx.scratch, "ver_%s.ndjson" % name)
    ctx.vdrive(["c16", "-in", scn, "-out", ver])
    summ = ctx.consume_verdicts(ver)
    c = summ.get("counts", {})
    if c.get("scenarios", 0) + c.get("timeouts", 0) != cnt:
        raise MachineryError("harness processed %d of %d arrangements (%s)" % (c.get("scenarios", 0), cnt, name))
    os.remove(ver)
    ctx.extra["clip_brackets_checked"] = ctx.extra.get("clip_brackets_checked", 0) + c.get("clip-brackets-checked", 0)
    ctx.extra["transform_scopes_checked"] = ctx.extra.get("transform_scopes_checked", 0) + c.get("transform-scopes-checked", 0)
    return cnt


def run(ctx):
    thorough = ctx.tier == "thorough"
    cov = {}
    res = ctx.tlc("Stacking", None, workers=16, cfg_text=CFG % (3, "small", "FALSE", "SPECIFICATION Spec", "PROPERTIES Terminates"), timeout=3000, heap_gb=12)
    cov["exhaustive-3-boxes"] = replay(ctx, res, "exh3")
    if thorough:
        res = ctx.tlc("Stacking", None, workers=16, cfg_text=CFG % (2, "full", "TRUE", "SPECIFICATION Spec", "PROPERTIES Terminates"), timeout=6000, heap_gb=12)
        cov["exhaustive-2-boxes-rich"] = replay(ctx, res, "exh2r")
    for n, rich, num in ((4, "FALSE", 300), (5, "TRUE", 500)) if not thorough else ((4, "FALSE", 5000), (5, "FALSE", 5000), (4, "TRUE", 6000), (5, "TRUE", 6000), (6, "TRUE", 4000), (7, "TRUE", 2000)):
        res = ctx.tlc("Stacking", None, workers=8, cfg_text=CFG % (n, "full", rich, "INIT InitBuild\nNEXT Next", ""), simulate="num=%d" % num, depth=20 * n, timeout=3000)
        cov["simulated-%d-boxes%s" % (n, "-rich" if rich == "TRUE" else "")] = replay(ctx, res, "sim%d%s" % (n, rich))
    # many sibling contexts with equal z-index (ties must be resolved in tree order, whatever the sorting algorithm)
    res = ctx.tlc("Stacking", None, workers=8, cfg_text=(CFG % (16, "full", "FALSE", "INIT InitBuild\nNEXT Next", "")).replace("Wide = FALSE", "Wide = TRUE"),
                  simulate="num=%d" % (40 if not thorough else 600), depth=400, timeout=3000)
    cov["simulated-wide-16-sibling-contexts"] = replay(ctx, res, "wide")
    ctx.traces = sum(cov.values())
    return ctx.finish("model_checking", {
        "exhaustive": True, "evaluations": sum(cov.values()), "families": cov,
        "rule": "every tree of <= 3 boxes x kind {block, inline, inline-block, float} x position {static, relative} x z-index {auto, -1, 1}; seeded simulation of "
                "4..7 boxes with z-index {auto, -1, 0, 1, 2}, absolute positioning, opacity < 1 and overflow: hidden",
    }, assumptions=[
        "inline boxes are not positioned and hold only inline boxes; each box paints one background and one word placed before its children",
        "only the relative order of the first fill of each background colour and of each word is observed (borders, outlines and transforms are not)",
        "overflow: hidden is expected NOT to create a stacking context (CSS 2.1); the implementation's deviation is a listed finding",
    ])
