"""X09 (extra coverage, not a listed property) — columns of a multi-column container (spec/Columns.tla).

TLC: the pseudo-algorithm of CSS Multi-column Layout 1 section 3.4 (used column-count and column-width) on every combination
of available width, column-width, column-count, column-gap and direction of the model; invariants AtLeastOne, CountBound,
Fills, WidthFloor, Narrow, CountAlone, Greedy.
Binding: every scenario is laid out with 14 lines of text; the number of column boxes, their widths and their positions (from
the right edge for direction: rtl) must be the specification's.
"""
import os
from vlib import MachineryError

CFG = "INIT Init\nNEXT Next\nINVARIANTS AtLeastOne CountBound Fills WidthFloor Narrow CountAlone Greedy Emit\nCHECK_DEADLOCK FALSE\n"


def run(ctx):
    res = ctx.tlc("Columns", None, workers=4, cfg_text=CFG, timeout=600)
    scn, cnt, first = ctx.scenario_lines(res)
    if cnt == 0:
        raise MachineryError("no scenario generated")
    lines = sorted(set(open(scn).read().splitlines()))
    open(scn, "w").write("\n".join(lines) + "\n")
    cnt = len(lines)
    ctx.samples.extend(first[-1:])
    ver = os.path.join(ctx.scratch, "ver.ndjson")
    ctx.vdrive(["x09", "-in", scn, "-out", ver])
    summ = ctx.consume_verdicts(ver)
    c = summ.get("counts", {})
    if c.get("scenarios", 0) != cnt:
        raise MachineryError("harness processed %d of %d scenarios" % (c.get("scenarios", 0), cnt))
    ctx.traces = cnt
    return ctx.finish("model_checking", {
        "exhaustive": True, "evaluations": cnt, "distinct_nontrivial": cnt,
        "rule": "available width {100, 90, 37} x column-width {auto, 20, 45, 120} x column-count {auto, 1, 2, 3, 7} x gap {0, 8, 50} x {ltr, rtl}",
    }, assumptions=["one page, column-fill: balance, content of 14 lines (every column gets content)"])
