"""X07 (extra coverage, not a listed property) — counter representations (spec/CounterStyle.tla).

TLC: "generate a counter representation" of CSS Counter Styles 3 as a transition system (range check, the algorithm of the
system symbol by symbol / tuple by tuple, pad, negative sign, fallback to decimal) over every style of the model (6 systems
x symbol lists and `extends`, x 3 ranges x 2 negative signs x 2 pads x 3 fallbacks: decimal, a second rule that falls back to the first, itself) and every value in -MaxVal..MaxVal; invariants NumericValue,
AlphabeticValue, AdditiveSum, SymbolicShape, NeverEmpty, FallbackBound, PadReached; liveness Terminates.
Binding: every terminal state is materialised as an @counter-style rule and a counter shown by content: counter(k, st) or
by the marker of a list item; the text laid out must be the specification's text.
"""
import os
from vlib import MachineryError

CFG = ("CONSTANTS\n  MaxVal = %d\nSPECIFICATION Spec\nINVARIANTS NumericValue AlphabeticValue AdditiveSum SymbolicShape NeverEmpty FallbackBound PadReached Emit\n"
       "PROPERTIES Terminates\nCHECK_DEADLOCK FALSE\n")


def run(ctx):
    n = 7 if ctx.tier != "thorough" else 40
    res = ctx.tlc("CounterStyle", None, workers=8, cfg_text=CFG % n, timeout=3000)
    scn, cnt, first = ctx.scenario_lines(res)
    if cnt == 0:
        raise MachineryError("no scenario generated")
    lines = sorted(set(open(scn).read().splitlines()))
    open(scn, "w").write("\n".join(lines) + "\n")
    cnt = len(lines)
    ctx.samples.extend(first[-1:])
    ver = os.path.join(ctx.scratch, "ver.ndjson")
    ctx.vdrive(["x07", "-in", scn, "-out", ver])
    summ = ctx.consume_verdicts(ver)
    c = summ.get("counts", {})
    if c.get("scenarios", 0) != cnt:
        raise MachineryError("harness processed %d of %d scenarios" % (c.get("scenarios", 0), cnt))
    ctx.traces = cnt
    return ctx.finish("model_checking", {
        "exhaustive": True, "evaluations": cnt, "distinct_nontrivial": cnt,
        "rule": "every style of the model (cyclic, fixed, symbolic, alphabetic, numeric, additive, extends; 3 ranges, 2 negative signs, 2 pads, 3 fallbacks incl. loops) x every value in -%d..%d, through counter() and through list markers" % (n, n),
    }, assumptions=["symbols, prefixes and pad symbols of one character; fallback: decimal"])
