"""C04 — every property has a computed value obtained by CSS defaulting (spec/Defaulting.tla).

TLC: for every assignment of declaration kinds {none, inherit, initial, explicit} to the chain root > element >
element > ::before and both defaulting classes, it explores EVERY order of lazy Get calls and checks that a cached
value is always the CSS computed value (OrderIndependent, Total); it also checks the absolute unit ratios and emits
unit / font-size chains and bolder/lighter chains with the values CSS requires.
Binding: each of the 512 kind assignments is instantiated with every supported property (177; explicit value texts are
discovered at run time through the validators), three access orders each, and the computed values must fall into the
classes the specification names; inherited-ness comes from the specification's copy of the CSS property index, the
initial values of ~95 well-known properties are pinned to their CSS text.
Mode "dependent": computed values that depend on other properties of the element (CSS 2.1 9.7 / CSS Display 3 2.7
blockification and float, widths of borders / outline / column rule under style none or hidden, bleed under marks); TLC
checks BlockifyLaws. Mode "custom": custom properties declared on any subset of a four-node tree with siblings, the styles asked
for in every order: a declaration is visible in the sub-tree of its element only (Scoped). After-boxes: `inherit` through a table / inline-table / list-item / flex parent is compared on the boxes
produced by layout (box building copies and edits styles).
"""
import json
import os
from vlib import MachineryError

CFG = """CONSTANTS
  Mode = "%s"
INIT Init
NEXT Next
INVARIANTS OrderIndependent Total UnitRatios BlockifyLaws Scoped EmitScn EmitMeta
CHECK_DEADLOCK FALSE
"""


def run(ctx):
    counts = {}
    comp = 0
    meta = os.path.join(ctx.scratch, "meta.json")
    for mode in ("kinds", "units", "weights", "dependent", "custom"):
        res = ctx.tlc("Defaulting", None, workers=16, cfg_text=CFG % mode, timeout=900)
        scn, cnt, first = ctx.scenario_lines(res)
        if cnt == 0:
            raise MachineryError("no scenario for mode " + mode)
        if mode == "kinds":
            with open(meta, "w") as g:
                for l in open(scn):
                    if '"mode":"meta"' in l:
                        g.write(l)
            if os.path.getsize(meta) == 0:
                raise MachineryError("the specification did not print its property-index data")
        ctx.samples.extend(first[-1:])
        ver = os.path.join(ctx.scratch, "ver_%s.ndjson" % mode)
        ctx.vdrive(["c04", "-meta", meta, "-in", scn, "-out", ver])
        summ = ctx.consume_verdicts(ver)
        c = summ.get("counts", {})
        if c.get("scenarios", 0) != cnt:
            raise MachineryError("harness processed %d of %d scenarios (%s)" % (c.get("scenarios", 0), cnt, mode))
        counts[mode] = cnt
        comp += c.get("computations", 0) + c.get("units", 0) + c.get("weights", 0) + c.get("pinned-initial", 0) + c.get("dependent", 0)
        if mode == "kinds":
            ctx.extra["properties"] = c.get("properties")
            ctx.extra["properties_with_explicit_value"] = c.get("properties-with-explicit-value")
            ctx.extra["pinned_initial_values_checked"] = c.get("pinned-initial")
            ctx.extra["inherit_after_box_building_checked"] = c.get("after-boxes")
            if not c.get("after-boxes"):
                raise MachineryError("no `inherit` value could be compared after box building (the family is vacuous)")
            for smp in summ.get("samples", []):
                if isinstance(smp, dict) and "properties_without_explicit_value" in smp:
                    ctx.extra["properties_without_explicit_value"] = smp["properties_without_explicit_value"]
    total = sum(counts.values())
    ctx.traces = total
    return ctx.finish("model_checking", {
        "exhaustive": True, "evaluations": comp, "distinct_nontrivial": total, "scenario_counts": counts,
        "rule": "kinds: 4^4 kind assignments x 2 defaulting classes (+1 meta record), each instantiated with every supported property and "
                "3 access orders (evaluations = style computations); units: 5 root x 4 x 4 font-size declarations x 2 numbers x 9 units; "
                "weights: 7^3 bolder/lighter chains; dependent: 14 displays x 6 contexts (blockification, float), line widths x styles, bleed x marks. distinct_nontrivial counts the TLC scenarios.",
    }, assumptions=[
        "the explicit value of a property is context-free (absolute lengths, keywords); ex/ch units need font metrics and are not generated",
        "pseudo-properties private to webrender (anchor, link, lang, page, string-set, bookmark-*, text-decoration propagation) are only required to be total and order-independent",
        "properties outside the pinned inherited / not-inherited lists (image-orientation, block-ellipsis, footnote-*, ...) are classified by the code and only checked for consistency",
        "the user-agent sheet is replaced by an empty one so that 'no declaration' holds",
    ])
