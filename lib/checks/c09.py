"""C09 — the box tree obeys the CSS box-generation rules (spec/BoxTree.tla, spec/BoxTreeTrace.tla).

TLC: (1) element trees built by the action AddElement (pre-order sequences of [parent, display, float, abs, text, span]);
(2) Failures / WellFormed: the clauses of C09 as a declarative predicate over a box tree; (3) a reference box generator
(operators Raw, IIB, BII: box per element, inline-in-block, block-in-inline) for the block / inline / inline-block / none
subset, whose output TLC checks against the clauses on every tree (invariant GenWellFormed).
Binding:
 (B1) every element tree is materialised with <div> elements and the real cascade + boxes.BuildFormattingStructure build
      the box tree; for the subset of (3) the real tree must be exactly the reference tree (types, anonymity, element);
 (B2) every real box tree is written flat to an ndjson trace that TLC validates with BoxTreeTrace.tla; each violated clause
      is a disagreement named after it.
Variants of the element-tree materialisation: white space inside and between elements; display: none combined with float:
footnote. Clause anonymous-flex-or-grid-item-without-text.
"""
import json
import os
import re
from vlib import MachineryError

ALL = ["block", "inline", "inline-block", "list-item", "table", "inline-table", "table-row-group", "table-header-group", "table-row", "table-cell",
       "table-column", "table-column-group", "table-caption", "flex", "inline-flex", "grid", "none"]
CFG = """CONSTANTS
  MaxEls = %d
  Displays = {%s}
  Rich = %s
%s
INVARIANTS PreOrder %s EmitGen
CHECK_DEADLOCK FALSE
"""


def dset(ds):
    return ", ".join('"%s"' % d for d in ds)


def tables_as_trees(scn, dest):
    """Rewrites TableGrid.tla scenarios (rows of cells with colspan / rowspan) as BoxTree.tla element trees: a table element
    holding table-row elements holding table-cell elements."""
    n = 0
    with open(dest, "w") as g:
        for l in open(scn):
            t = json.loads(l)
            doc = [{"parent": 0, "display": "table", "float": "none", "abs": False, "text": False, "cs": 1, "rs": 1}]
            for row in t["tab"]:
                doc.append({"parent": 1, "display": "table-row", "float": "none", "abs": False, "text": False, "cs": 1, "rs": 1})
                r = len(doc)
                for c in row:
                    doc.append({"parent": r, "display": "table-cell", "float": "none", "abs": False, "text": True, "cs": c["cs"], "rs": c["rs"]})
            g.write(json.dumps({"doc": doc, "gen": [], "shared": t["shared"]}) + "\n")
            n += 1
    return n


def replay(ctx, res, name, stride=1, tables=False):
    scn, cnt, first = ctx.scenario_lines(res)
    if tables:
        cnt = tables_as_trees(scn, scn + ".trees")
        scn = scn + ".trees"
    if cnt == 0:
        raise MachineryError("no tree generated (%s)" % name)
    ctx.samples.extend(first[-1:])
    ver = os.path.join(ctx.scratch, "ver_%s.ndjson" % name)
    rec = os.path.join(ctx.scratch, "trace_%s.ndjson" % name)
    ctx.vdrive(["c09", "-j", "16", "-stride", str(stride), "-in", scn, "-out", ver])
    if stride > 1:
        cnt = len([k for k in range(cnt) if (k // 16) % stride == ctx.seed % stride])
    summ = ctx.consume_verdicts(ver, rec_path=rec)
    c = summ.get("counts", {})
    if c.get("scenarios", 0) + c.get("timeouts", 0) != cnt:
        raise MachineryError("harness processed %d of %d trees (%s)" % (c.get("scenarios", 0), cnt, name))
    recs = [l for l in open(rec)]
    rejected = 0
    if recs:
        tres = ctx.tlc_trace("BoxTreeTrace", "BoxTreeTrace.cfg", rec, workers=16, timeout=6000, heap_gb=12)
        if tres.distinct != len(recs):
            raise MachineryError("TLC validated %d of %d box trees" % (tres.distinct, len(recs)))
        txt = open(tres.out_path, errors="replace").read()
        for m in re.finditer(r'<<\s*"BAD",\s*(\d+),\s*\{([^}]*)\}\s*>>', txt):
            r = json.loads(recs[int(m.group(1)) - 1])
            rejected += 1
            tree = " ".join("%d:%s%s#%d^%d" % (k + 1, "anon-" if b["anon"] else "", b["type"], b["el"], b["parent"]) for k, b in enumerate(r["boxes"]))
            for clause in re.findall(r'"([^"]+)"', m.group(2)):
                if clause == "two-cells-on-the-same-grid-slot" and "cell-starts-on-an-occupied-slot" not in m.group(2):
                    clause += ":column-spanning-cell-runs-into-a-row-spanning-cell"
                ctx.disagree("C09:trace:" + clause, "the real box tree violates clause %s of BoxTree!WellFormed: %s builds %s" % (clause, r["html"], tree), r)
        os.remove(tres.out_path)
    os.remove(ver), os.remove(rec)
    return {"trees": cnt, "boxes": c.get("boxes", 0), "compared_with_reference_generator": c.get("compared-with-reference-generator", 0),
            "box_trees_validated_by_tlc": len(recs), "rejected": rejected}


def run(ctx):
    thorough = ctx.tier == "thorough"
    cov = {}
    simple = ["block", "inline", "inline-block", "none"]
    res = ctx.tlc("BoxTree", None, workers=16, cfg_text=CFG % (4 if not thorough else 5, dset(simple), "FALSE", "SPECIFICATION Spec", "GenWellFormed"), timeout=6000, heap_gb=12)
    cov["block-inline-subset"] = replay(ctx, res, "simple", stride=4 if not thorough else 16)
    res = ctx.tlc("BoxTree", None, workers=16, cfg_text=CFG % (2, dset(ALL), "FALSE", "SPECIFICATION Spec", ""), timeout=3000, heap_gb=12)
    cov["all-displays-2-elements"] = replay(ctx, res, "all2")
    res = ctx.tlc("BoxTree", None, workers=16, cfg_text=CFG % (3, dset(ALL), "FALSE", "SPECIFICATION Spec", ""), timeout=3000, heap_gb=12)
    cov["all-displays-3-elements"] = replay(ctx, res, "all3", stride=16 if not thorough else 1)
    for n, num in ((5, 400), (7, 300)) if not thorough else ((4, 6000), (5, 8000), (6, 8000), (8, 4000)):
        res = ctx.tlc("BoxTree", None, workers=8, cfg_text=CFG % (n, dset(ALL), "TRUE", "INIT InitBuild\nNEXT Next", ""), simulate="num=%d" % num, depth=n + 2, timeout=3000)
        cov["simulated-%d-elements-floats-abs-spans" % n] = replay(ctx, res, "sim%d" % n)
    # tables: the structures of TableGrid.tla as element trees (slot sharing)
    from checks.c13 import CFG as TCFG
    dims = (2, 2, 2) if not thorough else (3, 2, 2)
    res = ctx.tlc("TableGrid", None, workers=16, cfg_text=TCFG % (dims + ("FALSE", "INIT InitBuild\nNEXT Next", "")), timeout=3000, heap_gb=12)
    cov["tables-%dx%d-span%d" % dims] = replay(ctx, res, "tables", tables=True)
    total = sum(v["trees"] for v in cov.values())
    ctx.traces = sum(v["box_trees_validated_by_tlc"] for v in cov.values())
    return ctx.finish("model_checking", {
        "exhaustive": True, "evaluations": total, "families": cov,
        "rule": "every element tree of <= 4 elements over {block, inline, inline-block, none} x text (compared with the reference generator), every tree of <= 3 "
                "elements over 17 display values x text (quick: every 16th of the 3-element trees), seeded simulation of 5..8 elements with floats, absolute "
                "positioning and colspan/rowspan attributes",
    }, assumptions=[
        "elements are <div>s styled through the style attribute (the HTML parser adds no table fix-up of its own); the test UA stylesheet",
        "boxes of floats, absolutely positioned and running elements are exempt from the inline-level / block-level child clauses of their parent (as in CSS)",
        "descendants of table-column / table-column-group elements are expected to generate no box; children of replaced elements are not generated (no replaced element in the alphabet)",
    ])
