"""X01 (extra coverage, not a listed property) — used values of absolutely positioned boxes (spec/AbsPos.tla).

TLC: the rule list of CSS 2.1 10.3.7 (left / width / right and the horizontal margins) and 10.6.4 (top / height / bottom
and the vertical margins) as the operator Solve over every combination of auto / fixed offsets, sizes and margins
(incl. negative and over-constrained ones), paddings and borders; the invariant EquationOK shows that the rules always
satisfy the constraint equation and keep the specified values.
Binding: every scenario is laid out (a box that is the first child of a 100 x 60 containing block) and the position and
size of its border box must be the specification's.
"""
import os
from vlib import MachineryError

CFG = """CONSTANTS
  Axis = "%s"
INIT Init
NEXT Next
INVARIANTS EquationOK Emit
CHECK_DEADLOCK FALSE
"""


def run(ctx):
    counts = {}
    for ax in ("x", "y"):
        res = ctx.tlc("AbsPos", None, workers=8, cfg_text=CFG % ax, timeout=600)
        scn, cnt, first = ctx.scenario_lines(res)
        if cnt == 0:
            raise MachineryError("no scenario generated")
        ctx.samples.extend(first[-1:])
        ver = os.path.join(ctx.scratch, "ver_%s.ndjson" % ax)
        ctx.vdrive(["x01", "-in", scn, "-out", ver])
        summ = ctx.consume_verdicts(ver)
        c = summ.get("counts", {})
        if c.get("scenarios", 0) != cnt:
            raise MachineryError("harness processed %d of %d scenarios" % (c.get("scenarios", 0), cnt))
        counts[ax] = cnt
    ctx.traces = sum(counts.values())
    return ctx.finish("model_checking", {
        "exhaustive": True, "evaluations": sum(counts.values()), "distinct_nontrivial": sum(counts.values()), "scenario_counts": counts,
        "rule": "every combination of offsets {auto, 0, 10}, size {auto, 20, 120}, margins {auto, 0, 5, -4}, padding {0, 2}, border {0, 1} on each axis",
    }, assumptions=["left-to-right, non-replaced box, first child of its containing block (static position = content edge), one word of content"])
