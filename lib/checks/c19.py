"""C19 — counters count and print as CSS Lists and Counter Styles define.

spec/CounterScopes.tla : declarative scoping rules vs the stack-and-scope algorithm of build.go (TLC checks
    Agree, StackShape, Balanced on every tree of N elements x every assignment of counter operations).
spec/CounterStyles.tla : "generate a counter representation" as a transition system (lookup, range, algorithm,
    pad, negative, fallback with a visited set; TLC checks termination and totality of decimal).
Binding: every TLC terminal state is replayed: trees become nested <div>s whose ::before shows counters(c) / counters(d)
(and list markers), style definitions become @counter-style rules and CounterStyle.RenderValue/RenderValueStyle
must print the specification's representation.
"""
import os
from vlib import MachineryError

STYLE_CFG = """CONSTANTS
  Family = "%s"
  NegLo = 4
  VHi = 9
SPECIFICATION Spec
INVARIANTS DecimalTotal NonEmpty Emit
PROPERTIES Terminates
CHECK_DEADLOCK FALSE
"""
SCOPE_CFG = """CONSTANTS
  N = %d
  OpSet = "%s"
  SetBeforeIncr = FALSE
INIT Init
NEXT Next
INVARIANTS Agree StackShape Balanced Emit
CHECK_DEADLOCK FALSE
"""


def replay(ctx, res, cmd, tag):
    scn, cnt, first = ctx.scenario_lines(res)
    if cnt == 0:
        raise MachineryError("no scenario generated for " + tag)
    ctx.samples.extend(first[-1:])
    ver = os.path.join(ctx.scratch, "ver_%s.ndjson" % tag)
    ctx.vdrive([cmd, "-in", scn, "-out", ver])
    summ = ctx.consume_verdicts(ver)
    c = summ.get("counts", {})
    if c.get("scenarios", 0) != cnt:
        raise MachineryError("harness processed %d of %d scenarios (%s)" % (c.get("scenarios", 0), cnt, tag))
    os.remove(res.out_path)
    os.remove(scn)
    return cnt, c.get("nontrivial", 0)


def run(ctx):
    thorough = ctx.tier == "thorough"
    counts = {}
    nt = 0
    for fam in ("single", "fallback", "extends", "predef"):
        res = ctx.tlc("CounterStyles", None, workers=16, cfg_text=STYLE_CFG % fam, timeout=1200)
        n, k = replay(ctx, res, "c19style", "style_" + fam)
        counts["styles/" + fam] = n
        nt += k
    scopes = [(3, "core"), (4, "core"), (4, "list")] if not thorough else [(4, "core"), (5, "core"), (5, "list")]
    for n_el, opset in scopes:
        res = ctx.tlc("CounterScopes", None, workers=16, cfg_text=SCOPE_CFG % (n_el, opset), timeout=2400, heap_gb=12)
        n, k = replay(ctx, res, "c19scope", "scope_%d_%s" % (n_el, opset))
        counts["scopes/%d-elements/%s" % (n_el, opset)] = n
        nt += k
    total = sum(counts.values())
    ctx.traces = total
    return ctx.finish("model_checking", {
        "exhaustive": True, "evaluations": total, "distinct_nontrivial": nt, "families": counts,
        "rule": "styles: every (definition graph, value in -4..9) of the families single (20 systems x 3 ranges x pad x negative x 3 fallbacks, "
                "plus multi-byte symbols), fallback (x -> y -> x/decimal), extends (4 targets x descriptors x 6 extended styles), predef "
                "(7 predefined styles x 16 values incl. -1000, 0, 3999, 4000); non-trivial = not answered by plain decimal. scopes: every "
                "depth sequence of N elements x every assignment of 10 (core) / 7 (list) counter operations. All distinct TLC states.",
    }, assumptions=[
        "symbols are single characters; counter values in a bounded interval",
        "content: counters() of a name with no instance in scope prints 0 without creating an instance (browsers' behaviour)",
    ])
