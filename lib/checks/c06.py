"""C06 — CSS text is tokenized and parsed as CSS Syntax Level 3 prescribes.

spec/CssSyntax.tla : the tokenizer as a transition system over code points (one action per
                     "consume a ..." algorithm, open blocks on a stack).
spec/CssParse.tla  : the rule / declaration consumers as a cursor machine over abstract tokens.
TLC explores, exhaustively, every input string of a family (alphabet x length bound) resp. every
abstract token sequence, checks Tiling / Balanced / Progress / SameAsOperator resp. Deterministic /
NoSwallow / Progress in every state, and prints each terminal state. Every terminal state is
replayed into css/parser (Tokenize, ParseStylesheet, ParseRuleList, ParseDeclarationList,
ParseOneDeclaration) and the complete token stream / result list must be the specification's.
"""
import os
from vlib import MachineryError

TOK_QUICK = [("T1", 4, False), ("T1", 3, True), ("T2", 4, False), ("T3", 4, False), ("T4", 4, False), ("T5", 3, False), ("T6", 4, False),
             ("T7", 7, False), ("T8", 4, False), ("T9", 3, True), ("T10", 4, False), ("T11", 6, False), ("T13", 5, False)]
TOK_THOROUGH = [("T1", 4, False), ("T1", 4, True), ("T2", 5, False), ("T3", 5, False), ("T4", 5, False), ("T5", 4, False), ("T6", 6, False),
                ("T7", 9, False), ("T8", 5, False), ("T9", 3, True), ("T9", 3, False), ("T10", 5, False), ("T11", 7, False), ("T13", 6, False)]
PARSE_QUICK = [("stylesheet", "full", 4), ("rules", "full", 4), ("decls", "full", 4), ("onedecl", "full", 4), ("blocks", "full", 4),
               ("decls", "imp", 5), ("onedecl", "imp", 5), ("blocks", "imp", 5)]
PARSE_THOROUGH = [("stylesheet", "full", 5), ("rules", "full", 5), ("decls", "full", 5), ("onedecl", "full", 5), ("blocks", "full", 5),
                  ("decls", "imp", 6), ("onedecl", "imp", 6), ("blocks", "imp", 6)]

TOK_CFG = """CONSTANTS
  Family = "%s"
  MaxLen = %d
  SkipComments = %s
INIT Init
NEXT Next
INVARIANTS Tiling Balanced SameAsOperator Emit
PROPERTIES Progress
CHECK_DEADLOCK FALSE
"""
PARSE_CFG = """CONSTANTS
  MaxLen = %d
  Entry = "%s"
  Family = "%s"
INIT Init
NEXT Next
INVARIANTS Deterministic NoSwallow EmitP
PROPERTIES Progress
CHECK_DEADLOCK FALSE
"""


def tokenizer_families(ctx, fams, cmd="c06tok", rec_path=None):
    counts = {}
    nontrivial = 0
    for fam, n, skip in fams:
        res = ctx.tlc("CssSyntax", None, workers=16, cfg_text=TOK_CFG % (fam, n, "TRUE" if skip else "FALSE"), timeout=1500, heap_gb=12)
        scn, cnt, first = ctx.scenario_lines(res)
        if cnt == 0:
            raise MachineryError("no scenario generated for family %s" % fam)
        ctx.samples.extend(first[-1:])
        ver = os.path.join(ctx.scratch, "ver_%s_%d_%s.ndjson" % (fam, n, skip))
        ctx.vdrive([cmd, "-in", scn, "-out", ver])
        rp = None
        if rec_path:
            rp = rec_path + ".%s_%d" % (fam, n)
        summ = ctx.consume_verdicts(ver, rec_path=rp)
        c = summ.get("counts", {})
        if c.get("scenarios", 0) != cnt:
            raise MachineryError("harness processed %d of %d scenarios of %s" % (c.get("scenarios", 0), cnt, fam))
        counts["%s<=%d%s" % (fam, n, "/skip" if skip else "")] = cnt
        nontrivial += c.get("nontrivial", 0) + c.get("roundtrips", 0)
        os.remove(res.out_path)
        os.remove(scn)
        os.remove(ver)
        if rp:
            yield fam, n, rp, c
    ctx.extra.setdefault("families", {}).update(counts)
    ctx.extra["nontrivial"] = ctx.extra.get("nontrivial", 0) + nontrivial


def run(ctx):
    thorough = ctx.tier == "thorough"
    for _ in tokenizer_families(ctx, TOK_THOROUGH if thorough else TOK_QUICK):
        pass
    pcounts = {}
    for entry, fam, n in (PARSE_THOROUGH if thorough else PARSE_QUICK):
        res = ctx.tlc("CssParse", None, workers=16, cfg_text=PARSE_CFG % (n, entry, fam), timeout=1500, heap_gb=12)
        scn, cnt, first = ctx.scenario_lines(res)
        ctx.samples.extend(first[-1:])
        ver = os.path.join(ctx.scratch, "verp_%s_%s.ndjson" % (entry, fam))
        ctx.vdrive(["c06parse", "-in", scn, "-out", ver])
        summ = ctx.consume_verdicts(ver)
        c = summ.get("counts", {})
        if c.get("scenarios", 0) != cnt:
            raise MachineryError("harness processed %d of %d parse scenarios (%s)" % (c.get("scenarios", 0), cnt, entry))
        pcounts["%s/%s<=%d" % (entry, fam, n)] = cnt
        ctx.extra["nontrivial"] = ctx.extra.get("nontrivial", 0) + c.get("nontrivial", 0)
        os.remove(res.out_path)
        os.remove(scn)
    ctx.extra["parse_families"] = pcounts
    total = sum(ctx.extra["families"].values()) + sum(pcounts.values())
    ctx.traces = total
    return ctx.finish("model_checking", {
        "exhaustive": True,
        "evaluations": total,
        "distinct_nontrivial": ctx.extra["nontrivial"],
        "rule": "tokenizer: every string of length <= n over the family alphabet (T1 general 22 symbols, T2 nesting, T3 url(), "
                "T4 CDO/CDC/match/unicode-range, T5 preprocessing + non-ASCII, T6 numbers, T7 long hex escapes, T8 control characters via "
                "escapes, T9 comment-separated characters, T10 exponent-like units, T11 hex escapes at the limits of the code space and of the surrogates); parser: every sequence of <= n abstract "
                "tokens (13 classes) per entry point plus the !important family. Non-trivial = more than one token event / "
                "at least two tokens, counted by the harness. All cases are distinct (one TLC initial state each).",
    }, assumptions=[
        "bounded input length and alphabets; the three named deviations of the tinycss2 port (unicode-range, match tokens, "
        "error tokens) are part of the specification",
        "a declaration whose value mixes a {}-block with other content may be a declaration (Level 3) or an error (current draft)",
        "ParseBlocksContents: scenarios where a declaration-looking item meets a {}-block before its ';' are not compared (Level 3, the "
        "current draft and the code split them differently); line/column compared on ASCII inputs only",
    ])
