"""X04 (extra coverage, not a listed property) — white-space processing (spec/WhiteSpace.tla).

TLC: the processing of CSS Text 3 4.1 as a transition system (Step per character: append, collapse into the previous space,
or close the line at a preserved segment break; Finish trims collapsible lines and drops an empty last line); invariants
Letters (no letter lost or reordered), Collapsed, Preserved, BreaksKept, liveness Terminates, on every text of <= MaxLen
characters over {letter, space, tab, line feed} x the five values of white-space.
Binding: every text is laid out in a wide paragraph and the texts of its line boxes must be the specification's lines.
"""
import os
from vlib import MachineryError

CFG = """CONSTANTS
  MaxLen = %d
SPECIFICATION Spec
INVARIANTS Letters Collapsed Preserved BreaksKept Emit
PROPERTIES Terminates
CHECK_DEADLOCK FALSE
"""


def run(ctx):
    n = 5 if ctx.tier != "thorough" else 7
    res = ctx.tlc("WhiteSpace", None, workers=16, cfg_text=CFG % n, timeout=1800, heap_gb=8)
    scn, cnt, first = ctx.scenario_lines(res)
    if cnt == 0:
        raise MachineryError("no scenario generated")
    ctx.samples.extend(first[-1:])
    ver = os.path.join(ctx.scratch, "ver.ndjson")
    ctx.vdrive(["x04", "-in", scn, "-out", ver])
    summ = ctx.consume_verdicts(ver)
    c = summ.get("counts", {})
    if c.get("scenarios", 0) != cnt:
        raise MachineryError("harness processed %d of %d scenarios" % (c.get("scenarios", 0), cnt))
    ctx.traces = cnt
    return ctx.finish("model_checking", {
        "exhaustive": True, "evaluations": cnt, "distinct_nontrivial": cnt,
        "rule": "every text of <= %d characters over {a, space, tab, line feed} x white-space {normal, nowrap, pre, pre-wrap, pre-line}" % n,
    }, assumptions=["one text node in one paragraph, a container wider than every line (no soft wrapping), no inline boxes"])
