"""X02 (extra coverage, not a listed property) — placement of floats (spec/Floats.tla).

TLC: floats are placed one after the other by the action Place (as high as possible but not above an earlier float nor,
with clear, above the floats it clears; then as far to their side as possible); the invariants are the declarative rules of
CSS 2.1 9.5.1 (NoOverlap, TopsOrdered, Inside, Cleared), liveness Terminates, on every sequence of <= MaxFloats floats
(side x width {10, 25, 50} in a 40px container x height {10, 20} x clear).
Binding: every sequence is laid out and the position of every float in its container must be the specification's.
"""
import os
from vlib import MachineryError

CFG = """CONSTANTS
  MaxFloats = %d
%s
INVARIANTS NoOverlap TopsOrdered Inside Cleared Emit
%s
CHECK_DEADLOCK FALSE
"""


def run(ctx):
    thorough = ctx.tier == "thorough"
    counts = {}
    plan = [("exhaustive-3-floats", ctx.tlc("Floats", None, workers=16, cfg_text=CFG % (3, "SPECIFICATION Spec", "PROPERTIES Terminates"), timeout=1800, heap_gb=8))]
    if thorough:
        plan.append(("simulated-5-floats", ctx.tlc("Floats", None, workers=8, cfg_text=CFG % (5, "INIT InitBuild\nNEXT Next", ""), simulate="num=4000", depth=14, timeout=1800)))
    for name, res in plan:
        scn, cnt, first = ctx.scenario_lines(res)
        if cnt == 0:
            raise MachineryError("no scenario generated")
        ctx.samples.extend(first[-1:])
        ver = os.path.join(ctx.scratch, "ver_%s.ndjson" % name)
        ctx.vdrive(["x02", "-in", scn, "-out", ver])
        summ = ctx.consume_verdicts(ver)
        c = summ.get("counts", {})
        if c.get("scenarios", 0) != cnt:
            raise MachineryError("harness processed %d of %d scenarios" % (c.get("scenarios", 0), cnt))
        counts[name] = cnt
        os.remove(ver), os.remove(scn), os.remove(res.out_path)
    ctx.traces = sum(counts.values())
    return ctx.finish("model_checking", {
        "exhaustive": True, "evaluations": sum(counts.values()), "distinct_nontrivial": sum(counts.values()), "scenario_counts": counts,
        "rule": "every sequence of <= 3 floats over side {left, right} x width {10, 25, 50} x height {10, 20} x clear {none, left, right, both} in a 40px wide container",
    }, assumptions=["empty floats of fixed size, no margins, left-to-right, the container holds nothing else (no line boxes beside the floats)"])
