"""C03 — the cascade picks the declaration CSS says wins (spec/Cascade.tla).

TLC: for every ordered list of <= 2 competing declaration occurrences (11 carriers x importance x 8
selector shapes x presentational hints on/off) it runs the implementation-shaped insertion machine
(style attributes and hints first, then sheets UA, author in document order, user; replace when old
weight <= new) and checks ImplCorrect (slot = CSS winner) and PrefixMax in every state; the two
constants StyleAttrSpec / NestedBeforeOwn describe the code (with the pre-fix values 1 / TRUE TLC
produces the two counterexamples that were then confirmed on the real code and repaired).
Binding: every scenario is materialised (replaced UA sheet, user sheets, <style>, <link>, @import,
@media, nested rule, style attribute, <font color> hint, non-matching decoys, in-memory fetcher) and
tree.GetAllComputedStyles must give the probe element the winner's value.
Thorough: + seeded simulation of lists of 3 occurrences.
Also: the page context (PageInit / PageWinner: every ordered pair of 8 page selectors matching the first page; the page's own
declaration and its @top-left box must come from the more specific, or later, rule) and a variant in which the presentational
hint comes from the hints style sheet (p[align] -> text-align) instead of an attribute read by the code.
"""
import os
from vlib import MachineryError

CFG = """CONSTANTS
  MaxOcc = %d
  StyleAttrSpec = 1000
  NestedBeforeOwn = FALSE
INIT Init
NEXT Next
INVARIANTS ImplCorrect PrefixMax Emit
CHECK_DEADLOCK FALSE
"""


def replay(ctx, res, tag):
    scn, cnt, first = ctx.scenario_lines(res)
    if cnt == 0:
        raise MachineryError("no cascade scenario generated")
    # drop duplicates (simulation revisits states)
    seen = set()
    uniq = scn + ".u"
    with open(uniq, "w") as g:
        for l in open(scn):
            if l not in seen:
                seen.add(l)
                g.write(l)
    ctx.samples.extend(first[-1:])
    ver = os.path.join(ctx.scratch, "ver_%s.ndjson" % tag)
    ctx.vdrive(["c03", "-in", uniq, "-out", ver])
    summ = ctx.consume_verdicts(ver)
    c = summ.get("counts", {})
    if c.get("scenarios", 0) != len(seen):
        raise MachineryError("harness processed %d of %d scenarios" % (c.get("scenarios", 0), len(seen)))
    if summ.get("samples"):
        ctx.extra.setdefault("materialised_sample", summ["samples"][0])
    return len(seen), c.get("nontrivial", 0)


def run(ctx):
    res = ctx.tlc("Cascade", None, workers=16, cfg_text=CFG % 2, timeout=900)
    n, nt = replay(ctx, res, "pairs")
    counts = {"lists<=2": n}
    # the page context: pairs of @page rules (and their margin-box rules) matching the first page
    pres = ctx.tlc("Cascade", None, workers=4, timeout=600,
                   cfg_text="CONSTANTS\n  MaxOcc = 0\n  StyleAttrSpec = 1000\n  NestedBeforeOwn = FALSE\nINIT PageInit\nNEXT PageStutter\nINVARIANTS PageOrderLaw EmitPage\nCHECK_DEADLOCK FALSE\n")
    np_, _ = replay(ctx, pres, "pagectx")
    counts["page-context pairs"] = np_
    n += np_
    if ctx.tier == "thorough":
        res = ctx.tlc("Cascade", None, workers=8, cfg_text=(CFG % 3).replace("INIT Init", "INIT InitBuild"), simulate="num=1500", depth=12, timeout=900)
        n3, nt3 = replay(ctx, res, "triples")
        counts["simulated lists of 3"] = n3
        n += n3
        nt += nt3
    ctx.traces = n
    return ctx.finish("model_checking", {
        "exhaustive": True, "evaluations": n, "distinct_nontrivial": nt, "scenario_counts": counts,
        "rule": "every ordered list of <= 2 occurrences over 98 (carrier, importance, selector shape) combinations x hints on/off; "
                "non-trivial = at least two occurrences compete; all distinct (one TLC initial state each); every ordered pair of 8 page selectors matching the first page",
    }, assumptions=[
        "probe property is `color` on one element; a user-agent !important origin is not part of the property and not generated",
        "order of appearance is exercised across author sheets (document order), inside one rule (nested) and via @import position",
    ])
