"""C10 — block-level boxes are sized and stacked per CSS 2.1 (spec/BlockLayout.tla).

TLC: (width) every combination of auto / fixed / negative margins, auto / fixed / percentage width, paddings, borders,
min- / max-width and box-sizing in a 40px containing block: the used values of 10.3.3 + 10.4 satisfy the width equation
(WidthOK); (vertical) every forest of <= 2 nested in-flow blocks (thorough: + seeded simulation of 3-4 boxes) over margins
{-3, 0, 5}, top/bottom borders, heights {auto, 0, 4} and min-height {0, 3} on childless boxes: positions by margin collapsing (8.3.1), HeightsOK.
Binding: every scenario is laid out by layout.Layout on one tall page and the used margins / width / x resp. the border
box y / height of every box must equal the specification's integers (1/64 px).
Variant: vertical margins spelled as percentages of the containing block's width (100px).
"""
import os
from vlib import MachineryError

CFG = """CONSTANTS
  Mode = "%s"
  MaxBoxes = %d
INIT %s
NEXT Next
INVARIANTS WidthOK HeightsOK Emit
CHECK_DEADLOCK FALSE
"""


def replay(ctx, res, tag):
    scn, cnt, first = ctx.scenario_lines(res)
    if cnt == 0:
        raise MachineryError("no scenario for " + tag)
    seen = set()
    uniq = scn + ".u"
    with open(uniq, "w") as g:
        for l in open(scn):
            if l not in seen:
                seen.add(l)
                g.write(l)
    ctx.samples.extend(first[-1:])
    ver = os.path.join(ctx.scratch, "ver_%s.ndjson" % tag)
    ctx.vdrive(["c10", "-in", uniq, "-out", ver])
    summ = ctx.consume_verdicts(ver)
    c = summ.get("counts", {})
    if c.get("scenarios", 0) != len(seen):
        raise MachineryError("harness processed %d of %d scenarios (%s)" % (c.get("scenarios", 0), len(seen), tag))
    os.remove(res.out_path)
    os.remove(scn)
    return len(seen)


def run(ctx):
    thorough = ctx.tier == "thorough"
    counts = {}
    counts["width"] = replay(ctx, ctx.tlc("BlockLayout", None, workers=16, cfg_text=CFG % ("width", 2, "Init"), timeout=900), "width")
    counts["vertical<=2"] = replay(ctx, ctx.tlc("BlockLayout", None, workers=16, cfg_text=CFG % ("vertical", 2, "Init"), timeout=900), "vertical")
    for nb, num in ((3, 1500), (4, 1000)) if not thorough else ((3, 20000), (4, 20000), (5, 10000)):
        res = ctx.tlc("BlockLayout", None, workers=8, cfg_text=CFG % ("vertical", nb, "InitBuild"), simulate="num=%d" % num, depth=nb + 4, timeout=900)
        counts["vertical/simulated-%d-boxes" % nb] = replay(ctx, res, "sim%d" % nb)
    total = sum(counts.values())
    ctx.traces = total
    return ctx.finish("model_checking", {
        "exhaustive": True, "evaluations": total, "distinct_nontrivial": total, "scenario_counts": counts,
        "rule": "width: 2316 combinations of the seven horizontal quantities, min/max and box-sizing; vertical: all 70 200 forests of <= 2 boxes "
                "(margins, top/bottom borders, heights, min-height on leaves), plus seeded random forests of 3-4 boxes (thorough: up to 5) built by AddSibling / WrapLast / WrapTwo",
    }, assumptions=[
        "left-to-right, integer lengths, no floats / clearance; min-height on childless boxes only; a box whose margins collapse through it is not compared (its position is an 'as if' clause)",
        "paddings behave like borders for collapsing and are represented by borders in the vertical scenarios",
    ])
