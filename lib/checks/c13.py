"""C13 — table cells form a consistent grid (spec/TableGrid.tla, spec/TableGridTrace.tla).

TLC: (1) the slot assignment of the HTML table model as a transition system (PlaceCell / NextRow / Finish with the rowspan
clamp, rowspan=0 and the fixed-layout cut to the columns of the first row); invariants InRow, RowOrder, StartFree,
SharedOnlyByRunningInto, liveness Terminates; every terminal state carries the table and the slots of its cells.
(2) GridConsistent / Failures: the clauses of C13 as a declarative predicate over a laid-out table.
Binding:
 (B1) every table is laid out by the real code; GridX, the clamped colspan/rowspan of every cell and the number of columns
      must be the specification's;
 (B2) the geometry of every laid-out table (column positions/widths, row positions/heights, border box of every cell, table
      box, border spacing; 1/64 px) is written to an ndjson trace that TLC validates with TableGridTrace.tla; every clause
      that fails is a disagreement named after the clause.
Variants: two-value border-spacing (horizontal, vertical) and a header row group.
"""
import collections
import json
import os
import re
from vlib import MachineryError

CFG = """CONSTANTS
  MaxRows = %d
  MaxCells = %d
  MaxSpan = %d
  Sized = %s
%s
INVARIANTS InRow RowOrder StartFree SharedOnlyByRunningInto Emit
%s
CHECK_DEADLOCK FALSE
"""


def classify(r, clause):
    if clause == "columns-plus-spacing-do-not-fill-the-table":
        orig = {c["x"] for c in r["cells"]}
        empty = [j for j in range(1, len(r["cols"]) + 1) if j not in orig]
        if empty and r["bsh"] > 0:
            return clause + ":column-without-originating-cell"
        total = sum(c["w"] for c in r["cols"]) + (0 if r["collapse"] else (len(r["cols"]) + 1) * r["bsh"])
        if total > r["tw"] + 3 + len(r["cols"]) and re.search(r'<td[^>]*width:\d+%', r["html"]):
            # (the table box is narrower than the columns laid out in it, beyond the rounding the clause tolerates: named by the shape of the input)
            return "columns-wider-than-the-table:table-with-a-percentage-cell-width"
    if clause == "cell-narrower-than-its-longest-word" and re.search(r'<td[^>]*width:\d+%', r["html"]):
        return clause + ":table-with-a-percentage-cell-width"
    return clause + ":" + r["kind"]


def replay(ctx, res, name, engine="pango", stride=1):
    scn, cnt, first = ctx.scenario_lines(res)
    if cnt == 0:
        raise MachineryError("no table generated (%s)" % name)
    ctx.samples.extend(first[-1:])
    ver = os.path.join(ctx.scratch, "ver_%s.ndjson" % name)
    rec = os.path.join(ctx.scratch, "trace_%s.ndjson" % name)
    ctx.vdrive(["c13", "-engine", engine, "-j", "16", "-stride", str(stride), "-in", scn, "-out", ver])
    if stride > 1:  # the quick tier replays every stride-th table of each of the 16 shards (offset by the seed)
        cnt = len([k for k in range(cnt) if (k // 16) % stride == ctx.seed % stride])
    summ = ctx.consume_verdicts(ver, rec_path=rec)
    c = summ.get("counts", {})
    if c.get("scenarios", 0) + c.get("timeouts", 0) != cnt:
        raise MachineryError("harness processed %d of %d tables (%s)" % (c.get("scenarios", 0), cnt, name))
    recs = [l for l in open(rec)]
    rejected = 0
    if recs:
        tres = ctx.tlc_trace("TableGridTrace", "TableGridTrace.cfg", rec, workers=16, timeout=3000, heap_gb=12)
        if tres.distinct != len(recs):
            raise MachineryError("TLC validated %d of %d tables" % (tres.distinct, len(recs)))
        txt = open(tres.out_path, errors="replace").read()
        for m in re.finditer(r'<<\s*"BAD",\s*(\d+),\s*\{([^}]*)\}\s*>>', txt):
            r = json.loads(recs[int(m.group(1)) - 1])
            rejected += 1
            for clause in re.findall(r'"([^"]+)"', m.group(2)):
                ctx.disagree("C13:trace:" + classify(r, clause), "the laid-out table violates clause %s of TableGrid!GridConsistent: %s" % (clause, r["html"]), r)
        os.remove(tres.out_path)
    os.remove(ver), os.remove(rec)
    return {"tables": cnt, "with_shared_slots": c.get("shared-slot", 0), "geometries_validated_by_tlc": len(recs), "rejected": rejected}


def run(ctx):
    thorough = ctx.tier == "thorough"
    cov = {}
    # design + structure: exhaustive
    res = ctx.tlc("TableGrid", None, workers=16, cfg_text=CFG % (2, 2, 2, "FALSE", "SPECIFICATION Spec", "PROPERTIES Terminates"), timeout=3000, heap_gb=12)
    cov["structure-2x2-span2"] = replay(ctx, res, "s22")
    # (3 rows of <= 2 cells: 75 894 tables, every 4th in the quick tier; 3 rows of <= 3 cells would be 17 million)
    dims = (3, 2, 2)
    res = ctx.tlc("TableGrid", None, workers=16, cfg_text=CFG % (dims + ("FALSE", "INIT InitBuild\nNEXT Next", "")), timeout=6000, heap_gb=12)
    cov["structure-%dx%d-span%d" % dims] = replay(ctx, res, "sbig", stride=1 if thorough else 4)
    if thorough:
        res = ctx.tlc("TableGrid", None, workers=16, cfg_text=CFG % (2, 2, 3, "FALSE", "SPECIFICATION Spec", "PROPERTIES Terminates"), timeout=6000, heap_gb=12)
        cov["structure-2x2-span3"] = replay(ctx, res, "s223")
        res = ctx.tlc("TableGrid", None, workers=16, cfg_text=CFG % (2, 3, 2, "FALSE", "SPECIFICATION Spec", "PROPERTIES Terminates"), timeout=6000, heap_gb=12)
        cov["structure-2x3-span2"] = replay(ctx, res, "s232", stride=4)
    # sized tables: seeded simulation of the building actions
    for (mr, mc, ms, num) in ((3, 3, 3, 500),) if not thorough else ((3, 3, 3, 6000), (4, 3, 3, 3000), (2, 4, 4, 3000)):
        res = ctx.tlc("TableGrid", None, workers=8, cfg_text=CFG % (mr, mc, ms, "TRUE", "INIT InitBuild\nNEXT Next", ""), simulate="num=%d" % num, depth=40, timeout=3000)
        cov["sized-%dx%d-span%d" % (mr, mc, ms)] = replay(ctx, res, "sz%d%d%d" % (mr, mc, ms))
    if thorough:
        res = ctx.tlc("TableGrid", None, workers=8, cfg_text=CFG % (3, 3, 3, "TRUE", "INIT InitBuild\nNEXT Next", ""), simulate="num=2000", depth=40, timeout=3000)
        cov["sized-3x3-span3-gotext"] = replay(ctx, res, "gotext", engine="gotext")
    total = sum(v["tables"] for v in cov.values())
    ctx.traces = sum(v["geometries_validated_by_tlc"] for v in cov.values())
    return ctx.finish("model_checking", {
        "exhaustive": True, "evaluations": total, "families": cov,
        "rule": "every table of <= MaxRows rows x <= MaxCells cells with colspan 1..MaxSpan and rowspan 0..MaxSpan (one word per cell, border-spacing 2px); "
                "seeded simulation of sized tables: 0..2 words per cell, cell width auto/20px/48px/30%, table width auto/60px/200px, table-layout fixed/auto, "
                "border-spacing 0/2px, separate/collapse, caption none/top/bottom",
    }, assumptions=[
        "left-to-right, one row group, the table fits on one tall page; lengths compared at 3/64 px",
        "a specified cell width is not taken as a lower bound of the used column width (CSS Tables 3: it contributes to the max-content width only)",
        "tables in which a column-spanning cell runs into a row-spanning cell (shared slots, an HTML table model error) are validated like the others; "
        "the clause on overlapping rectangles only concerns cells with disjoint slots",
    ])
