"""C12 — pages have the declared geometry and break where CSS allows (spec/Pagination.tla, spec/PaginationTrace.tla).

TLC: the page maker as a transition system (RemakePage / InsertBlank / Finish) over every flow of <= MaxBlocks paragraphs
(1..3 lines, break-before/after/inside, orphans, widows) x page capacities; invariants Refines (the deterministic page maker
picks an end that AllowedEnds allows), NoTwoBlanks, Conservation, Complete, SideHonoured, FitsPage; properties Progress and
Terminates. Every terminal state carries the document and its pages.
Binding, two ways:
 (B1) every document is laid out by the real code with @page rules selecting size (:first), side margins (:left/:right),
      a :blank margin box and a counter(page)/counter(pages) margin box; the geometry, page types and margin-box texts of
      every real page must be the declared ones;
 (B2) the real page sequence (lines per page, side, blank) of every document is written to an ndjson trace that TLC
      validates with PaginationTrace.tla against the transition relation of the specification (AllowedEnds): an end that
      CSS allows but the deterministic model does not choose is accepted, everything else is rejected with a reason.
Variants: every spelling of the break values (always, page-break-*, recto / verso, avoid-page), vertical page margins in
percent (of the page height) with the page's vertical geometry checked, and two rules for one margin box (the more specific
page selector wins).
"""
import json
import os
import re
from vlib import MachineryError

CFG = """CONSTANTS
  MaxBlocks = %d
  Hs = {%s}
  Rich = %s
  NthAll = %s
%s
INVARIANTS Refines NoTwoBlanks Conservation Complete SideHonoured SidesAlternate FitsPage Emit
%s
CHECK_DEADLOCK FALSE
"""
EXH = ("SPECIFICATION Spec", "PROPERTIES Progress Terminates")
SIM = ("INIT InitBuild\nNEXT Next", "")


def show(r):
    ps = " ".join("blank" if p["blank"] else str(p["lines"]) for p in r["pages"])
    blocks = "; ".join("%d lines bb=%s ba=%s bi=%s o=%d w=%d" % (b["lines"], b["bb"], b["ba"], b["bi"], b["orphans"], b["widows"]) for b in r["doc"])
    return "paragraphs {%s} H=%d Hfirst=%d -> pages %s" % (blocks, r["H"], r["Hfirst"], ps)


def replay(ctx, res, name, engine="pango", prefix="C12:", validate_all=True):
    """Replays the scenarios of a TLC run in the real code; returns (number of scenarios, pages, trace records validated)."""
    scn, cnt, first = ctx.scenario_lines(res)
    if cnt == 0:
        raise MachineryError("no scenario generated (%s)" % name)
    ctx.samples.extend(first[-1:])
    ver = os.path.join(ctx.scratch, "ver_%s.ndjson" % name)
    rec = os.path.join(ctx.scratch, "trace_%s.ndjson" % name)
    ctx.vdrive(["c12", "-engine", engine, "-in", scn, "-out", ver])
    ctx.key_filter = prefix
    summ = ctx.consume_verdicts(ver, rec_path=rec)
    c = summ.get("counts", {})
    # a document that makes the real layout hang or crash the process has no trace (the watchdog reports it; C01 decides it)
    processed = c.get("scenarios", 0) + c.get("timeouts", 0)
    if processed != cnt or c.get("documents", 0) + c.get("panics", 0) + c.get("timeouts", 0) + c.get("fatals", 0) < cnt:
        raise MachineryError("harness processed %d of %d documents (%s)" % (processed, cnt, name))
    # (B2) TLC validates the observed page sequences
    recs = [l for l in open(rec)]
    if len(recs) != c.get("documents", 0):
        raise MachineryError("%d trace records for %d documents" % (len(recs), c.get("documents", 0)))
    if not validate_all:
        recs = [l for k, l in enumerate(recs) if '"same":false' in l or k % 4 == 0]
    tf = os.path.join(ctx.scratch, "tracein_%s.ndjson" % name)
    with open(tf, "w") as f:
        f.writelines(recs)
    tres = ctx.tlc_trace("PaginationTrace", "PaginationTrace.cfg", tf, workers=16, timeout=3000, heap_gb=12)
    if tres.distinct != len(recs):
        raise MachineryError("TLC validated %d of %d page sequences" % (tres.distinct, len(recs)))
    for b in ctx.tuples(tres, "BAD"):
        m = re.match(r'<<"BAD", (\d+), "([^"]*)">>', b)
        if not m:
            raise MachineryError("unparsable trace verdict %r" % b)
        r = json.loads(recs[int(m.group(1)) - 1])
        why = m.group(2)
        pid = "C02" if why in ("content-not-conserved", "content-lost-at-end") else "C12"
        if prefix.startswith(pid):
            ctx.disagree("%s:trace:%s" % (pid, why), "the real page sequence is not a behaviour of Pagination.tla (%s): %s" % (why, show(r)), r)
    os.remove(ver), os.remove(rec), os.remove(tf), os.remove(tres.out_path)
    return cnt, c.get("pages", 0), len(recs), c.get("differs-from-model", 0)


def run(ctx, prefix="C12:"):
    thorough = ctx.tier == "thorough"
    cov = {}
    tot = [0, 0, 0, 0]

    def add(name, t):
        cov[name] = {"documents": t[0], "pages": t[1], "page_sequences_validated_by_tlc": t[2], "legal_but_different_from_deterministic_model": t[3]}
        for k in range(4):
            tot[k] += t[k]

    hs = "1, 2, 3, 4" if thorough else "2, 3"
    res = ctx.tlc("Pagination", None, workers=16, cfg_text=CFG % (2, hs, "FALSE", "FALSE", EXH[0], EXH[1]), timeout=3000, heap_gb=12)
    add("exhaustive-2-paragraphs", replay(ctx, res, "exh", prefix=prefix, validate_all=thorough))
    if thorough:
        # (every single paragraph with every forced break / named page / direction; two rich paragraphs are 6 million documents:
        # they are sampled by the simulations below)
        res = ctx.tlc("Pagination", None, workers=16, cfg_text=CFG % (1, "1, 2, 3", "TRUE", "FALSE", EXH[0], EXH[1]), timeout=6000, heap_gb=12)
        add("exhaustive-1-paragraph-rich", replay(ctx, res, "exhrich", prefix=prefix))
    for nb, num in ((3, 400), (4, 400)) if not thorough else ((3, 6000), (4, 6000), (5, 4000), (6, 2000)):
        res = ctx.tlc("Pagination", None, workers=8, cfg_text=CFG % (nb, "1, 2, 3, 4", "TRUE", "TRUE", SIM[0], SIM[1]), simulate="num=%d" % num, depth=60, timeout=3000)
        add("simulated-%d-paragraphs" % nb, replay(ctx, res, "sim%d" % nb, prefix=prefix))
    # (no family under the go-text engine: it does not honour the forced line breaks the documents are made of - the C11
    # finding lines:gotext:pre-line - so the lines of a paragraph end up on one line box and the page capacity in LINES that
    # the specification reasons about has no counterpart in the layout)
    ctx.traces = tot[2]
    return ctx.finish("model_checking", {
        "exhaustive": True, "evaluations": tot[0], "pages": tot[1], "families": cov,
        "rule": "every flow of <= 2 paragraphs (1..3 lines; break-before auto/avoid; break-after auto/avoid/page; break-inside auto/avoid; orphans, widows 1..2) x page capacity in lines; "
                "simulation (seeded) of 3..6 paragraphs with break-after left / right / recto / verso, a left-to-right or right-to-left root (first page right or left), named pages and a distinct :first page height",
    }, assumptions=[
        "paragraph lines are separated by <br> and never wrap; all line heights are 10px, the page content height is 10*H+4px",
        "no floats, tables or nested fragmentation contexts",
        "when no break conforming to every rule exists the property leaves the choice open: any break of the first non-empty rule-dropping tier is accepted",
    ])
