"""Shared machinery of the /verif checks.

A check is a python function run(ctx) that
  1. runs TLC on a specification under /verif/spec (design check and/or scenario
     generation and/or trace validation),
  2. drives the real code through the Go harness (built from /repo's working tree
     with -tags verif),
  3. reports disagreements through ctx.disagree(...), which applies the
     known-findings filter, writes replay files and prints VIOLATION lines,
  4. writes /verif/evidence/<id>.json.

Exit codes: 0 held (possibly with KNOWN-FINDING lines), 1 violation, 2 machinery failure.
"""
import json
import os
import re
import shutil
import subprocess
import sys
import tempfile
import time
import traceback

VERIF = os.path.dirname(os.path.dirname(os.path.abspath(__file__)))
REPO = os.environ.get("VERIF_REPO", "/repo")
OUT = os.environ.get("VERIF_OUT", VERIF)   # where evidence/ and replays/ go (evaluation of changed copies writes elsewhere)
JARS = "/opt/veriftools/tla/tla2tools.jar:/opt/veriftools/tla/CommunityModules-deps.jar"
GOENV = {
    "GOFLAGS": "-mod=mod",
    "GOPROXY": "off",
    "GOSUMDB": "off",
    "GOTOOLCHAIN": "local",
}


class MachineryError(Exception):
    """The checking machinery itself failed (exit 2, never a verdict)."""


def log(*a):
    print(*a, file=sys.stderr, flush=True)


class TlcResult:
    def __init__(self):
        self.generated = 0
        self.distinct = 0
        self.depth = 0
        self.ok = False          # "No error has been found" / simulation finished
        self.errors = []         # error lines
        self.violated = []       # names of violated invariants / properties
        self.out_path = None
        self.wall = 0.0
        self.coverage = {}       # action -> count (only with coverage=True)
        self.timed_out = False

    def as_dict(self):
        return {"generated": self.generated, "distinct": self.distinct, "depth": self.depth,
                "ok": self.ok, "wall_s": round(self.wall, 2)}


class Ctx:
    def __init__(self, pid, tier, seed):
        self.pid = pid
        self.tier = tier
        self.seed = seed
        self.t0 = time.time()
        self.scratch = tempfile.mkdtemp(prefix="verif-%s-" % pid, dir=os.environ.get("VERIF_TMP", "/tmp"))
        self.specdir = os.path.join(self.scratch, "spec")
        shutil.copytree(os.path.join(VERIF, "spec"), self.specdir)
        self._vdrive = None
        self._ntlc = 0
        self.findings = load_findings(pid)
        self.violations = []      # (key, what)
        self.viol_keys = {}
        self.known_hits = {}      # key -> count
        self.states = 0
        self.transitions = 0
        self.traces = 0
        self.tlc_runs = []
        self.cov = {}
        self.samples = []
        self.assumptions = []
        self.extra = {}
        self.replay_dir = os.path.join(OUT, "replays", pid)

    # ------------------------------------------------------------------ build
    def vdrive_path(self, race=False):
        key = "_vdrive_race" if race else "_vdrive"
        if getattr(self, key, None):
            return getattr(self, key)
        out = os.path.join(self.scratch, "vdrive-race" if race else "vdrive")
        env = dict(os.environ)
        env.update(GOENV)
        hdir = os.path.join(VERIF, "harness")
        if REPO != "/repo":
            # (evaluation of a changed copy of the repository: build a copy of the harness whose replace points at it)
            h2 = os.path.join(self.scratch, "harness-src")
            if not os.path.exists(h2):
                shutil.copytree(hdir, h2, ignore=shutil.ignore_patterns("go.sum"))
                gm = open(os.path.join(h2, "go.mod")).read().replace("=> /repo", "=> " + REPO)
                open(os.path.join(h2, "go.mod"), "w").write(gm)
            hdir = h2
        gosum = os.path.join(hdir, "go.sum")
        if not os.path.exists(gosum):
            shutil.copy(os.path.join(REPO, "go.sum"), gosum)
        cmd = ["go", "build", "-tags", "verif"]
        if race:
            cmd.append("-race")
        cmd += ["-o", out, "./cmd/vdrive"]
        t = time.time()
        p = subprocess.run(cmd, cwd=hdir, env=env, stdout=subprocess.PIPE, stderr=subprocess.STDOUT, text=True)
        if p.returncode != 0:
            raise MachineryError("go build of the harness failed:\n" + p.stdout[-4000:])
        log("[%s] built harness in %.1fs" % (self.pid, time.time() - t))
        setattr(self, key, out)
        return out

    def vdrive(self, args, stdin_path=None, stdout_path=None, timeout=3600, race=False, env=None, check=True):
        """Run the Go harness; returns (returncode, stdout text or None)."""
        exe = self.vdrive_path(race=race)
        e = dict(os.environ)
        e["VERIF_SEED"] = str(self.seed)
        e["VERIF_TIER"] = self.tier
        e["VERIF_REPO"] = REPO
        if env:
            e.update(env)
        fin = open(stdin_path, "rb") if stdin_path else subprocess.DEVNULL
        fout = open(stdout_path, "wb") if stdout_path else subprocess.PIPE
        try:
            p = subprocess.run([exe] + list(args), stdin=fin, stdout=fout, stderr=subprocess.PIPE,
                               timeout=timeout, env=e)
        except subprocess.TimeoutExpired:
            raise MachineryError("harness timed out: vdrive %s" % " ".join(args))
        finally:
            if stdin_path:
                fin.close()
            if stdout_path:
                fout.close()
        err = p.stderr.decode("utf-8", "replace")
        if err.strip():
            log(err[-3000:])
        if check and p.returncode != 0:
            raise MachineryError("harness failed (rc=%d): vdrive %s\n%s" % (p.returncode, " ".join(args), err[-3000:]))
        return p.returncode, (None if stdout_path else p.stdout.decode("utf-8", "replace"))

    # -------------------------------------------------------------------- TLC
    def tlc(self, module, cfg, workers=8, simulate=None, depth=None, timeout=900, env=None,
            coverage=False, heap_gb=8, deque=False, constants=None, allow_violation=False, seed=None,
            cfg_text=None):
        """Run TLC on spec/<module>.tla with spec/<cfg>. Returns TlcResult.

        A TLC crash / parse error / timeout raises MachineryError. An invariant
        violation is returned in result.violated (design-level candidates) and
        raises unless allow_violation.
        """
        self._ntlc += 1
        n = self._ntlc
        meta = os.path.join(self.scratch, "meta%d" % n)
        outp = os.path.join(self.scratch, "tlc%d.out" % n)
        if cfg_text is not None:
            cfg = "_gen%d.cfg" % n
            with open(os.path.join(self.specdir, cfg), "w") as f:
                f.write(cfg_text)
        if constants:
            # append constant overrides to a copy of the cfg
            src = open(os.path.join(self.specdir, cfg)).read()
            cfg2 = "_c%d_%s" % (n, cfg)
            lines = []
            for l in src.splitlines():
                m = re.match(r"\s*(\w+)\s*=", l)
                if m and m.group(1) in constants:
                    continue
                lines.append(l)
            lines.append("CONSTANTS")
            for k, v in constants.items():
                lines.append("  %s = %s" % (k, v))
            with open(os.path.join(self.specdir, cfg2), "w") as f:
                f.write("\n".join(lines) + "\n")
            cfg = cfg2
        jopts = ["-XX:+UseParallelGC", "-Xmx%dg" % heap_gb, "-Xss256m"]
        if deque:
            jopts.append("-Dtlc2.tool.queue.IStateQueue=StateDeque")
        cmd = ["java"] + jopts + ["-cp", JARS, "tlc2.TLC", "-config", cfg, "-workers", str(workers),
                                   "-metadir", meta, "-noGenerateSpecTE", "-maxSetSize", "4000000"]
        if simulate:
            cmd += ["-simulate", simulate]
            cmd += ["-seed", str(seed if seed is not None else self.seed)]
        if depth:
            cmd += ["-depth", str(depth)]
        if coverage:
            cmd += ["-coverage", "1"]
        cmd.append(module + ".tla")
        e = dict(os.environ)
        e.pop("JAVA_TOOL_OPTIONS", None)
        if env:
            e.update({k: str(v) for k, v in env.items()})
        res = TlcResult()
        res.out_path = outp
        t = time.time()
        with open(outp, "wb") as fout:
            try:
                p = subprocess.run(cmd, cwd=self.specdir, env=e, stdout=fout, stderr=subprocess.STDOUT, timeout=timeout)
                rc = p.returncode
            except subprocess.TimeoutExpired:
                res.timed_out = True
                rc = -1
        res.wall = time.time() - t
        shutil.rmtree(meta, ignore_errors=True)
        self._parse_tlc(res, coverage)
        self.tlc_runs.append({"module": module, "cfg": cfg, "simulate": simulate, **res.as_dict()})
        if not simulate:
            self.states += res.distinct  # simulation revisits states: only exhaustive runs count as distinct states
        self.transitions += res.generated
        log("[%s] tlc %s/%s: %d generated, %d distinct, depth %d, %.1fs%s" % (
            self.pid, module, cfg, res.generated, res.distinct, res.depth, res.wall,
            " TIMEOUT" if res.timed_out else ""))
        if res.timed_out and not simulate:
            raise MachineryError("TLC timed out on %s/%s" % (module, cfg))
        if res.violated and not allow_violation:
            raise MachineryError("TLC reports violation of %s on %s/%s (design-level candidate, see %s):\n%s" % (
                res.violated, module, cfg, outp, tail(outp)))
        if not res.ok and not res.violated and not (simulate and res.timed_out):
            raise MachineryError("TLC failed on %s/%s (rc=%s):\n%s" % (module, cfg, rc, tail(outp)))
        return res

    def tlc_trace(self, module, cfg, rec, chunk_mb=24, **kw):
        """Trace validation of the ndjson file `rec` (one initial state per record, verdict tuples <<"OK"|"BAD", k, ..>>).

        TLC keeps the whole deserialized file in memory (about 30 times its size): a file above chunk_mb is validated
        in pieces on line boundaries, the record numbers of the verdict tuples are shifted back and the results merged.
        """
        env = dict(kw.pop("env", None) or {})
        chunk_mb = float(os.environ.get("VERIF_TRACE_CHUNK_MB", chunk_mb))
        if os.path.getsize(rec) <= chunk_mb * (1 << 20):
            env["TRACE_FILE"] = rec
            return self.tlc(module, cfg, env=env, **kw)
        merged = TlcResult()
        merged.ok = True
        self._ntlc += 1
        merged.out_path = os.path.join(self.scratch, "tlc%d.merged.out" % self._ntlc)
        pat = re.compile(r'^(<<\s*"(?:OK|BAD)",\s*)(\d+)')
        offset, piece, size, nchunk = 0, [], 0, 0

        def flush():
            nonlocal offset, piece, size, nchunk
            if not piece:
                return
            nchunk += 1
            cp = "%s.chunk%d" % (rec, nchunk)
            with open(cp, "w") as f:
                f.writelines(piece)
            env["TRACE_FILE"] = cp
            try:
                r = self.tlc(module, cfg, env=dict(env), **kw)
            finally:
                os.remove(cp)
            with open(r.out_path, errors="replace") as fin, open(merged.out_path, "a") as fout:
                for l in fin:
                    m = pat.match(l)
                    if m:
                        l = m.group(1) + str(int(m.group(2)) + offset) + l[m.end():]
                    fout.write(l)
            os.remove(r.out_path)
            merged.generated += r.generated
            merged.distinct += r.distinct
            merged.depth = max(merged.depth, r.depth)
            merged.wall += r.wall
            merged.ok = merged.ok and r.ok
            merged.violated += r.violated
            merged.errors += r.errors
            offset += len(piece)
            piece, size = [], 0

        with open(rec) as f:
            for l in f:
                if not l.endswith("\n"):
                    l += "\n"
                if piece and size + len(l) > chunk_mb * (1 << 20):
                    flush()
                piece.append(l)
                size += len(l)
        flush()
        return merged

    def _parse_tlc(self, res, coverage):
        gen = re.compile(r"^(\d+) states generated, (\d+) distinct states found")
        dep = re.compile(r"^The depth of the complete state graph search is (\d+)")
        simdone = re.compile(r"^The number of states generated: (\d+)")
        prog = re.compile(r"^Progress\(\s*(\d+)\).*?: ([\d,]+) states generated.*?, ([\d,]+) distinct states found")
        cov = re.compile(r"^<(\w+) line \d+, col \d+ to line \d+, col \d+ of module (\w+)>: (\d+):(\d+)")
        with open(res.out_path, "r", errors="replace") as f:
            for line in f:
                if line.startswith('"{') or line.startswith("<<"):
                    continue
                m = gen.match(line)
                if m:
                    res.generated = int(m.group(1))
                    res.distinct = int(m.group(2))
                    continue
                m = dep.match(line)
                if m:
                    res.depth = int(m.group(1))
                    continue
                m = simdone.match(line)
                if m:
                    res.generated = int(m.group(1))
                    res.distinct = max(res.distinct, res.generated)
                    res.ok = True
                    continue
                m = prog.match(line)
                if m and res.generated == 0:
                    pass
                if "Model checking completed. No error has been found." in line:
                    res.ok = True
                if line.startswith("Error:"):
                    res.errors.append(line.strip())
                    m2 = re.search(r"Invariant (\w+) is violated", line)
                    if m2:
                        res.violated.append(m2.group(1))
                    elif "Temporal properties were violated" in line or "Action property" in line:
                        res.violated.append("temporal")
                    elif "Deadlock reached" in line:
                        res.violated.append("deadlock")
                    elif "POSTCONDITION" in line or "Postcondition" in line:
                        res.violated.append("postcondition")
                if coverage:
                    m = cov.match(line)
                    if m:
                        res.coverage[m.group(1)] = res.coverage.get(m.group(1), 0) + int(m.group(4))
        if res.errors and not res.violated:
            res.ok = False

    def scenario_lines(self, res, dest=None, tag=None):
        """Extract the JSON objects PrintT'ed by a generation run into an ndjson file."""
        dest = dest or (res.out_path + ".ndjson")
        n = 0
        first = []
        with open(res.out_path, "r", errors="replace") as f, open(dest, "w") as g:
            for line in f:
                if line.startswith('"{'):
                    try:
                        s = json.loads(line)
                    except Exception:
                        raise MachineryError("unparsable scenario line from TLC: %r" % line[:200])
                    g.write(s)
                    g.write("\n")
                    n += 1
                    if len(first) < 3:
                        first.append(json.loads(s))
        return dest, n, first

    def tuples(self, res, tag):
        """Extract PrintT'ed tuples <<"TAG", ...>> as raw text lines."""
        out = []
        with open(res.out_path, "r", errors="replace") as f:
            for line in f:
                if line.startswith('<<"%s"' % tag):
                    out.append(line.strip())
        return out

    # --------------------------------------------------------------- verdicts
    def disagree(self, key, what, detail):
        """Record one disagreement between real code and specification.

        key    : finding class (stable, specific)
        what   : one-line human description
        detail : JSON-serialisable replay payload (scenario, observation, expectation)
        """
        kf = getattr(self, "key_filter", None)
        if kf and not key.startswith(kf):
            # this run also observes another property (its own check reports those)
            self.extra.setdefault("other_property_disagreements", {}).setdefault(key, 0)
            self.extra["other_property_disagreements"][key] += 1
            return
        f = self.findings.get(key)
        if f is None:
            # a finding key ending in '*' covers every disagreement key with that prefix
            for fk, fv in self.findings.items():
                if fk.endswith("*") and key.startswith(fk[:-1]):
                    f, key = fv, fk
                    break
        if f is not None and f.get("status") == "known":
            self.known_hits[key] = self.known_hits.get(key, 0) + 1
            if self.known_hits[key] == 1:
                self.extra.setdefault("known_finding_samples", {})[key] = detail
            return
        os.makedirs(self.replay_dir, exist_ok=True)
        idx = len(self.violations)
        self.viol_keys[key] = self.viol_keys.get(key, 0) + 1
        if self.viol_keys[key] <= 2 and len(self.viol_keys) <= 12:
            path = os.path.join(self.replay_dir, "%s-%03d.json" % (re.sub(r"[^A-Za-z0-9_.-]+", "_", key)[:80], idx))
            with open(path, "w") as g:
                json.dump({"property": self.pid, "key": key, "what": what, "seed": self.seed, "tier": self.tier,
                           "detail": detail}, g, indent=1, sort_keys=True)
            print("VIOLATION property=%s replay=%s  # %s: %s" % (self.pid, path, key, what), flush=True)
        self.violations.append((key, what))

    def consume_verdicts(self, path, rec_path=None):
        """Read the harness' verdict ndjson: lines {"kind":"disagree","key":..,"what":..,"detail":..}
        or {"kind":"summary", ...}. Returns the summary dict (merged)."""
        summary = {}
        recf = open(rec_path, "w") if rec_path else None
        with open(path) as f:
            for line in f:
                if recf is not None and line.startswith('{"kind":"rec"'):
                    # {"kind":"rec","rec":{...}}
                    recf.write(line[20:-2])
                    recf.write("\n")
                    continue
                line = line.strip()
                if not line:
                    continue
                try:
                    r = json.loads(line)
                except Exception:
                    raise MachineryError("unparsable harness output line: %r" % line[:300])
                k = r.get("kind")
                if k == "disagree":
                    rk = getattr(self, "rekey", None)
                    self.disagree(rk(r) if rk else r["key"], r.get("what", ""), r.get("detail"))
                elif k == "summary":
                    for a, b in r.items():
                        if a == "kind":
                            continue
                        if isinstance(b, (int, float)) and not isinstance(b, bool):
                            summary[a] = summary.get(a, 0) + b
                        elif isinstance(b, list):
                            summary.setdefault(a, [])
                            summary[a].extend(b)
                        elif isinstance(b, dict):
                            d = summary.setdefault(a, {})
                            for kk, vv in b.items():
                                if isinstance(vv, (int, float)):
                                    d[kk] = d.get(kk, 0) + vv
                                else:
                                    d[kk] = vv
                        else:
                            summary[a] = b
                elif k == "fatal":
                    raise MachineryError("harness reported a machinery failure: %s" % r.get("what"))
        if recf is not None:
            recf.close()
        return summary

    # --------------------------------------------------------------- evidence
    def finish(self, level, coverage, assumptions=None):
        if self.violations:
            print("violations: %d in %d classes: %s" % (len(self.violations), len(self.viol_keys),
                  ", ".join("%s x%d" % kv for kv in sorted(self.viol_keys.items())[:30])), flush=True)
        for key, n in sorted(self.known_hits.items()):
            print("KNOWN-FINDING: property=%s %s [%s] (%d occurrences in this run)" % (
                self.pid, self.findings[key]["what"], key, n), flush=True)
        cov = dict(coverage)
        cov.setdefault("states", self.states)
        cov.setdefault("transitions", self.transitions)
        cov.setdefault("traces_validated_against_impl", self.traces)
        if self.samples and "samples" not in cov:
            cov["samples"] = self.samples[:5]
        cov["tlc_runs"] = self.tlc_runs
        cov["known_findings_hit"] = self.known_hits
        cov.update(self.extra)
        ev = {
            "property_id": self.pid,
            "tier": self.tier,
            "seed": self.seed,
            "level": level,
            "coverage": cov,
            "assumptions": (assumptions or []) + self.assumptions,
            "wall_s": round(time.time() - self.t0, 2),
            "violations": len(self.violations),
        }
        # (extra-coverage checks X.. are not properties of the manifest: their evidence is kept apart)
        sub = "evidence-extra" if self.pid.startswith("X") else "evidence"
        os.makedirs(os.path.join(OUT, sub), exist_ok=True)
        with open(os.path.join(OUT, sub, "%s.json" % self.pid), "w") as g:
            json.dump(ev, g, indent=1, sort_keys=True)
            g.write("\n")
        return 1 if self.violations else 0

    def cleanup(self):
        if os.environ.get("VERIF_KEEP"):
            log("scratch kept at", self.scratch)
            return
        shutil.rmtree(self.scratch, ignore_errors=True)


def tail(path, n=40):
    try:
        with open(path, "r", errors="replace") as f:
            lines = [l for l in f if not l.startswith('"{')]
        return "".join(lines[-n:])
    except Exception:
        return ""


def load_findings(pid):
    p = os.path.join(VERIF, "known_findings.json")
    out = {}
    if os.path.exists(p):
        for f in json.load(open(p)).get("findings", []):
            if f.get("property") == pid:
                out[f["key"]] = f
    return out


def repo_clean_snapshot():
    p = subprocess.run(["git", "-C", REPO, "status", "--porcelain"], stdout=subprocess.PIPE, text=True)
    return p.stdout


def run_check(pid, fn, argv=None):
    import argparse
    ap = argparse.ArgumentParser()
    ap.add_argument("--tier", default=os.environ.get("VERIF_TIER") or "quick")
    ap.add_argument("--seed", type=int, default=None)
    ap.add_argument("--replay", default=None)
    ap.add_argument("--selftest", action="store_true")
    a = ap.parse_args(argv)
    seed = a.seed
    if seed is None:
        try:
            seed = int(os.environ.get("VERIF_SEED", "1"))
        except ValueError:
            seed = 1
    if a.tier not in ("quick", "thorough"):
        a.tier = "quick"
    before = repo_clean_snapshot()
    ctx = Ctx(pid, a.tier, seed)
    ctx.replay = a.replay
    ctx.selftest = a.selftest
    rc = 2
    try:
        rc = fn(ctx)
        after = repo_clean_snapshot()
        if after != before:
            log("WARNING: /repo status changed during the check:\n" + after)
    except MachineryError as e:
        log("MACHINERY FAILURE [%s]: %s" % (pid, e))
        rc = 2
        if getattr(ctx, "violations", None):
            # violations already established on the real code (and printed) stand: a later step of the machinery that
            # chokes on what the broken code produced must not turn them into "no verdict"
            try:
                rc = ctx.finish("model_checking", {"exhaustive": False, "incomplete": True, "machinery_failure_after_violations": str(e)[:500]})
            except Exception:
                rc = 1
    except Exception:
        log("MACHINERY FAILURE [%s]:\n%s" % (pid, traceback.format_exc()))
        rc = 2
    finally:
        ctx.cleanup()
    if rc == 0:
        print("OK property=%s tier=%s seed=%d wall=%.1fs" % (pid, a.tier, seed, time.time() - ctx.t0), flush=True)
    return rc
